/-
  C10S — closures of the review of the statements registered for C10 (encoder output independent of earlier encode calls).

  The registered C10 theorems are about the structured model `Enc`, which has no `min` / `max` / `bytesLeft` members, and the link
  to the translated C++ was registered only from objects whose scratch members have their default values.  Here C10 is stated
  ON THE TRANSLATED SOURCE ITSELF, from an ARBITRARY record of the nine data members:

  §1  `encodeLL_post`: every member of the low-level object after `encode`, from any state (min / max / bytesLeft included).
  §2  `C10_src_range`, `C10_src_single`, `C10_src_batch`: used object vs. default-constructed object with the same ids — both
      defined, frames equal up to the counter offset at bytes 6..7, all members afterwards given; `scratch_not_read`: the five
      scratch members do not influence any entry point (no hypothesis on the packets); `encode1_eq_batch`.
  §3  K6: `K6_encode_defined`, `K6_history_defined` (definedness from any object, any packets), `C10_src_history` (C10 after any
      history of translated calls from any object), `moved_from_irrelevant`.
  §4  K5: `K5_segmented_on_every_call` (model, every `e`, absolute), `K5_src_range` (translated source, every object).
  §5  `small_max_undefined_on_fresh`: the lower bound on `max` is needed already on a fresh encoder.
  §6  non-vacuity: a two-call history with different message types and configurations, then a segmented batch, evaluated by
      the kernel on the translated functions.
-/
import AsamCmp.Props.SrcHistory
import AsamCmp.Props.C09b
import AsamCmp.Props.C08S
namespace AsamCmp.C10S
open AsamCmp AsamCmp.Src AsamCmp.SrcGen AsamCmp.SrcEnc AsamCmp.SrcHist

/-! ## §1  the configuration members through one `encode` of the low-level model -/

/-- the four members `putPacket` never writes -/
def cfg4 (l : EncLL) : Nat × Nat × Nat × Nat := (l.min, l.max, l.dev, l.stream)

theorem closeLast_cfg4 (l : EncLL) : cfg4 l.closeLastFrame = cfg4 l := by
  obtain ⟨a, b, _, d, e⟩ := closeLastFrame_keeps l
  simp only [cfg4, a, b, d, e]

theorem addNew_cfg4 (l : EncLL) (p : Packet) : cfg4 (l.addNewCMPFrame p) = cfg4 l := by
  have e := closeLast_cfg4 l
  unfold EncLL.addNewCMPFrame
  simp only
  split <;> exact e

theorem setMessageType_cfg4 (l : EncLL) (p : Packet) : cfg4 (l.setMessageType p) = cfg4 l := by
  unfold EncLL.setMessageType
  rw [addNew_cfg4]
  rfl

theorem addNewDataHeader_cfg4 (l : EncLL) (p : Packet) (n seg : Nat) : cfg4 (l.addNewDataHeader p n seg) = cfg4 l := by
  unfold EncLL.addNewDataHeader
  split <;> rfl

theorem checkIfSegmented_cfg4 (l : EncLL) (p : Packet) : cfg4 (l.checkIfSegmented p).1 = cfg4 l := by
  unfold EncLL.checkIfSegmented
  simp only
  split
  · exact addNew_cfg4 l p
  · rfl

theorem pre_cfg4 (p : Packet) (l : EncLL) : cfg4 (pre p l) = cfg4 l := by
  unfold pre
  split
  · exact addNew_cfg4 l p
  · rfl

theorem putData_cfg4 (l : EncLL) (d : Bytes) (n : Nat) : cfg4 (putData l d n) = cfg4 l := by
  unfold putData
  simp only
  split <;> rfl

theorem step1_cfg4 (p : Packet) (isSeg : Bool) (l : EncLL) (pos segInd : Nat) :
    cfg4 (step1 p isSeg l pos segInd) = cfg4 l := by
  unfold step1
  simp only
  split
  · rw [addNew_cfg4, putData_cfg4, addNewDataHeader_cfg4]
  · rw [putData_cfg4, addNewDataHeader_cfg4]

theorem putLoop_cfg4 (p : Packet) (isSeg : Bool) : ∀ (fuel : Nat) (l : EncLL) (pos segInd : Nat),
    cfg4 (EncLL.putLoop p isSeg fuel l pos segInd) = cfg4 l := by
  intro fuel
  induction fuel with
  | zero => intro l pos segInd; rfl
  | succ n ih =>
    intro l pos segInd
    rw [SrcEnc.putLoop_succ]
    split
    · rfl
    · rw [ih, step1_cfg4, pre_cfg4]

theorem putPacket_cfg4 (l : EncLL) (p : Packet) : cfg4 (l.putPacket p) = cfg4 l := by
  unfold EncLL.putPacket
  simp only
  rw [putLoop_cfg4, checkIfSegmented_cfg4]
  split
  · exact setMessageType_cfg4 l p
  · rfl

theorem foldl_cfg4 (batch : List Packet) : ∀ l : EncLL, cfg4 (batch.foldl EncLL.putPacket l) = cfg4 l := by
  induction batch with
  | nil => intro l; rfl
  | cons p ps ih => intro l; rw [List.foldl_cons, ih, putPacket_cfg4]

/-- **post-state, scratch part**: whatever the state before, after `encode` the low-level object has the call's `min` / `max`,
    its own ids, and `bytesLeft = 0`, no frames, no template -/
theorem encodeLL_post (l : EncLL) (batch : List Packet) (c : Ctx) :
    (l.encode batch c).1.min = c.min ∧ (l.encode batch c).1.max = c.max ∧
    (l.encode batch c).1.dev = l.dev ∧ (l.encode batch c).1.stream = l.stream ∧
    (l.encode batch c).1.bytesLeft = 0 ∧ (l.encode batch c).1.frames = [] ∧ (l.encode batch c).1.tmpl = [] := by
  have h : cfg4 (batch.foldl EncLL.putPacket (l.init c)).closeLastFrame = (c.min, c.max, l.dev, l.stream) := by
    rw [closeLast_cfg4, foldl_cfg4]
    rfl
  simp only [cfg4, Prod.mk.injEq] at h
  obtain ⟨h1, h2, h3, h4⟩ := h
  exact ⟨h1, h2, h3, h4, rfl, rfl, rfl⟩


/-! ## §2  C10 on the TRANSLATED SOURCE, from ANY object state -/

/-- add `k` (mod 2^16) to the sequence counter at bytes 6..7 of a serialised frame; every other byte is kept -/
def patchSeq (k : Nat) (b : Bytes) : Bytes := writeAt b 6 (beEnc 2 ((beAt b 6 2 + k) % 65536))

/-- the "fresh encoder with the same device id and stream id" of the property's text: the default-constructed C++ object
    (`Encoder_default`: the default member initialisers) with the two ids set -/
def freshObj (d x : Nat) : Encoder_St := { Encoder_default with f_deviceId := d, f_streamId := x }

/-- … and it is what the translated `setDeviceId(d); setStreamId(x);` make of the default-constructed object -/
theorem freshObj_by_api (d x : Nat) :
    (Encoder_setDeviceId_obj Encoder_default d).bind (fun r => Encoder_setStreamId_obj r.1 x) = some (freshObj d x, ()) := by
  rw [(config_src Encoder_default d 0).1, Option.bind_some, (config_src _ 0 x).2.1]
  rfl

theorem encOf_freshObj (d x : Nat) : C08S.encOf (freshObj d x) = Enc.fresh d x := rfl

/-- the model's C10 (`C10_encode_any_state`) on bytes, for the model object a member record stands for -/
theorem model_bytes_shift (s : Encoder_St) (batch : List Packet) (c : Ctx) :
    ((C08S.encOf s).encode batch c).2.map (EFrame.bytes c.min) =
      (((C08S.encOf (freshObj s.f_deviceId s.f_streamId)).encode batch c).2.map (EFrame.bytes c.min)).map
        (patchSeq s.f_sequenceCounter) := by
  rw [C10_encode_any_state (C08S.encOf s) batch c, encOf_freshObj]
  exact C09b.shift_bytes c.min s.f_sequenceCounter _

/-- the counter after the call: the fresh run's, plus the offset (mod 2^16) -/
theorem model_post_seqc (e : Enc) (batch : List Packet) (c : Ctx) :
    (e.encode batch c).1.seqc % 65536 = (((Enc.fresh e.dev e.stream).encode batch c).1.seqc + e.seqc) % 65536 := by
  rw [encode_eq, encode_eq]
  show (e.encState batch c).seqc % 65536 = (((Enc.fresh e.dev e.stream).encState batch c).seqc + e.seqc) % 65536
  unfold Enc.encState
  apply Sim.hseqc
  apply closeLast_sim
  apply foldl_sim
  · refine ⟨rfl, rfl, ?_, rfl, rfl, rfl⟩
    simp [Enc.fresh]
  · intro hs
    simp at hs

/-- the low-level model from ANY of its states (every value of min, max, bytesLeft, template, frames; no bound on the counter):
    frames = serialised frames of the structured model object with the same four members that survive `init` -/
theorem encodeLL_any_state (l : EncLL) (batch : List Packet) (c : Ctx) (hc : c.ok = true) (hb : ∀ p ∈ batch, p.Enc) :
    (l.encode batch c).2 =
      (({ dev := l.dev, stream := l.stream, seqc := l.seqc, curMt := l.mt } : Enc).encode batch c).2.map (EFrame.bytes c.min) :=
  (C07b.encode_R { dev := l.dev, stream := l.stream, seqc := l.seqc, curMt := l.mt } batch c hc hb).1

/-- an entry point (a translated `encode` overload applied to its packet arguments and configuration) that computes the
    low-level model's `encode batch c` from EVERY member record -/
def Computes (f : Encoder_St → Option (Encoder_St × List Bytes)) (batch : List Packet) (c : Ctx) : Prop :=
  ∀ s, f s = some (ofLL ((toLL s).encode batch c).1, ((toLL s).encode batch c).2)

/-- every member of the object after an `encode` call from the record `s` -/
def postObj (s : Encoder_St) (batch : List Packet) (c : Ctx) : Encoder_St :=
  { f_minBytesPerMessage := c.min, f_maxBytesPerMessage := c.max, f_deviceId := s.f_deviceId, f_streamId := s.f_streamId,
    f_cmpFrameTemplate := [], f_bytesLeft := 0,
    f_sequenceCounter := ((C08S.encOf s).encode batch c).1.seqc, f_messageType := ((C08S.encOf s).encode batch c).1.curMt,
    f_cmpFrames := [] }

theorem computes_struct {f : Encoder_St → Option (Encoder_St × List Bytes)} {batch : List Packet} {c : Ctx}
    (hf : Computes f batch c) (hc : c.ok = true) (hb : ∀ p ∈ batch, p.Enc) (s : Encoder_St) :
    f s = some (postObj s batch c, ((C08S.encOf s).encode batch c).2.map (EFrame.bytes c.min)) := by
  rw [hf s, C08S.toLL_encode_eq]
  obtain ⟨r1, r2, r3, -⟩ := C07b.encode_R (C08S.encOf s) batch c hc hb
  obtain ⟨p1, p2, p3, p4, p5, p6, p7⟩ := encodeLL_post (C08S.encOf s).toLL batch c
  rw [r1]
  congr 2
  generalize (C08S.encOf s).toLL.encode batch c = r at *
  obtain ⟨⟨a1, a2, a3, a4, a5, a6, a7, a8, a9⟩, r2'⟩ := r
  simp only at p1 p2 p3 p4 p5 p6 p7 r2 r3
  subst p1 p2 p3 p4 p5 p6 p7 r2 r3
  rfl

/-- C10 for any such entry point -/
theorem C10_of_computes {f : Encoder_St → Option (Encoder_St × List Bytes)} {batch : List Packet} {c : Ctx}
    (hf : Computes f batch c) (hc : c.ok = true) (hb : ∀ p ∈ batch, p.Enc) (s : Encoder_St) :
    ∃ bs0, f (freshObj s.f_deviceId s.f_streamId) = some (postObj (freshObj s.f_deviceId s.f_streamId) batch c, bs0) ∧
      f s = some (postObj s batch c, bs0.map (patchSeq s.f_sequenceCounter)) ∧
      (postObj s batch c).f_sequenceCounter % 65536 =
        ((postObj (freshObj s.f_deviceId s.f_streamId) batch c).f_sequenceCounter + s.f_sequenceCounter) % 65536 := by
  refine ⟨_, computes_struct hf hc hb _, ?_, ?_⟩
  · rw [computes_struct hf hc hb s, model_bytes_shift]
  · exact model_post_seqc (C08S.encOf s) batch c


/-! ### the four entry points -/

theorem computes_batch (batch : List Packet) (c : Ctx) (fuel : Nat) (hc : c.ok = true) (hmax : c.max < 2 ^ 32)
    (hf : 65536 ≤ fuel) : Computes (fun s => srcEncodeBatch fuel s batch c.min c.max) batch c :=
  fun s => encodeBatch_src_gen s batch c fuel hc hmax hf

theorem computes_range (batch : List Packet) (c : Ctx) (fuel : Nat) (hc : c.ok = true) (hmax : c.max < 2 ^ 32)
    (hf : 65536 ≤ fuel) : Computes (fun s => Encoder_encode_range_obj fuel s (batch.map pktIn) c.min c.max) batch c :=
  fun s => (encodeRange_src s batch c fuel hc hmax hf).1

theorem computes_ptrRange (batch : List Packet) (c : Ctx) (fuel : Nat) (hc : c.ok = true) (hmax : c.max < 2 ^ 32)
    (hf : 65536 ≤ fuel) : Computes (fun s => Encoder_encode_ptrRange_obj fuel s (batch.map pktIn) c.min c.max) batch c :=
  fun s => (encodeRange_src s batch c fuel hc hmax hf).2

theorem computes_single (p : Packet) (c : Ctx) (fuel : Nat) (hc : c.ok = true) (hmax : c.max < 2 ^ 32)
    (hf : 65536 ≤ fuel) : Computes (fun s => Encoder_encode_obj fuel s (pktIn p) c.min c.max) [p] c :=
  fun s => encode1_src_gen s p c fuel hc hmax hf

/-- the single-packet overload is the batch composition on the one-element batch — as FUNCTIONS (every state, every
    configuration, every fuel; defined or not) -/
theorem encode1_eq_batch (fuel : Nat) (s : Encoder_St) (p : Packet) (mn mx : Nat) :
    Encoder_encode_obj fuel s (pktIn p) mn mx = srcEncodeBatch fuel s [p] mn mx := by
  unfold Encoder_encode_obj srcEncodeBatch
  cases Encoder_init_obj s mn mx with
  | none => rfl
  | some r =>
    obtain ⟨s1, u⟩ := r
    simp only [Option.bind_eq_bind, Option.bind_some, List.foldlM_cons, List.foldlM_nil]
    cases Encoder_putPacket_obj fuel s1 (pktIn p) with
    | none => rfl
    | some r2 =>
      obtain ⟨s2, u2⟩ := r2
      simp only [Option.bind_some, Option.map_some, Option.pure_def]
      cases Encoder_getEncodedData_obj s2 with
      | none => rfl
      | some r3 => rfl


/-! ### C10, source level: the main statements -/

/-- **C10 on the translated iterator-range overloads, from ANY object.**  `s` is an arbitrary record of the nine data members
    ("an encoder that has already encoded arbitrary other batches with arbitrary configurations": whatever those calls — or
    anything else — left in minBytesPerMessage, maxBytesPerMessage, bytesLeft, cmpFrameTemplate, cmpFrames, messageType,
    sequenceCounter).  For every batch of packets that own a payload shorter than 2^16 bytes and every configuration with
    25 ≤ max < 2^32, min ≤ max: the call on `s` and the call on the default-constructed object with the same two ids are both
    DEFINED, and the frames of the former are those of the latter with `s.f_sequenceCounter` added (mod 2^16) to bytes 6..7 of
    every frame and NO other byte changed; both overloads; every member of both objects afterwards is given (`postObj`), and
    the counters afterwards differ by the same offset. -/
theorem C10_src_range (s : Encoder_St) (batch : List Packet) (c : Ctx) (fuel : Nat)
    (hc : c.ok = true) (hmax : c.max < 2 ^ 32) (hb : ∀ p ∈ batch, p.Enc) (hf : 65536 ≤ fuel) :
    let s0 := freshObj s.f_deviceId s.f_streamId
    ∃ bs0,
      Encoder_encode_range_obj fuel s0 (batch.map pktIn) c.min c.max = some (postObj s0 batch c, bs0) ∧
      Encoder_encode_range_obj fuel s (batch.map pktIn) c.min c.max =
        some (postObj s batch c, bs0.map (patchSeq s.f_sequenceCounter)) ∧
      Encoder_encode_ptrRange_obj fuel s0 (batch.map pktIn) c.min c.max = some (postObj s0 batch c, bs0) ∧
      Encoder_encode_ptrRange_obj fuel s (batch.map pktIn) c.min c.max =
        some (postObj s batch c, bs0.map (patchSeq s.f_sequenceCounter)) ∧
      (postObj s batch c).f_sequenceCounter % 65536 =
        ((postObj s0 batch c).f_sequenceCounter + s.f_sequenceCounter) % 65536 := by
  intro s0
  obtain ⟨bs0, h1, h2, h3⟩ := C10_of_computes (computes_range batch c fuel hc hmax hf) hc hb s
  obtain ⟨bs1, k1, k2, _⟩ := C10_of_computes (computes_ptrRange batch c fuel hc hmax hf) hc hb s
  have e : bs1 = bs0 := by
    have := (computes_struct (computes_range batch c fuel hc hmax hf) hc hb s0).symm.trans h1
    have := (computes_struct (computes_ptrRange batch c fuel hc hmax hf) hc hb s0).symm.trans k1
    simp_all
  subst e
  exact ⟨bs1, h1, h2, k1, k2, h3⟩

/-- the same for the single-packet overload `encode(const Packet&, const DataContext&)`, translated as a whole -/
theorem C10_src_single (s : Encoder_St) (p : Packet) (c : Ctx) (fuel : Nat)
    (hc : c.ok = true) (hmax : c.max < 2 ^ 32) (hp : p.Enc) (hf : 65536 ≤ fuel) :
    let s0 := freshObj s.f_deviceId s.f_streamId
    ∃ bs0,
      Encoder_encode_obj fuel s0 (pktIn p) c.min c.max = some (postObj s0 [p] c, bs0) ∧
      Encoder_encode_obj fuel s (pktIn p) c.min c.max = some (postObj s [p] c, bs0.map (patchSeq s.f_sequenceCounter)) ∧
      (postObj s [p] c).f_sequenceCounter % 65536 =
        ((postObj s0 [p] c).f_sequenceCounter + s.f_sequenceCounter) % 65536 := by
  intro s0
  have hb : ∀ q ∈ [p], q.Enc := by
    intro q hq
    rw [List.mem_singleton] at hq
    rw [hq]; exact hp
  exact C10_of_computes (computes_single p c fuel hc hmax hf) hc hb s

/-- … and for the composition `init; putPacket…; getEncodedData` the registered theorems are about -/
theorem C10_src_batch (s : Encoder_St) (batch : List Packet) (c : Ctx) (fuel : Nat)
    (hc : c.ok = true) (hmax : c.max < 2 ^ 32) (hb : ∀ p ∈ batch, p.Enc) (hf : 65536 ≤ fuel) :
    let s0 := freshObj s.f_deviceId s.f_streamId
    ∃ bs0,
      srcEncodeBatch fuel s0 batch c.min c.max = some (postObj s0 batch c, bs0) ∧
      srcEncodeBatch fuel s batch c.min c.max = some (postObj s batch c, bs0.map (patchSeq s.f_sequenceCounter)) ∧
      (postObj s batch c).f_sequenceCounter % 65536 =
        ((postObj s0 batch c).f_sequenceCounter + s.f_sequenceCounter) % 65536 :=
  C10_of_computes (computes_batch batch c fuel hc hmax hf) hc hb s

/-- **the scratch members are not read** (item 1 of the review, as a statement): two objects that agree in device id, stream id,
    counter and message type — and differ arbitrarily in minBytesPerMessage, maxBytesPerMessage, bytesLeft, cmpFrameTemplate,
    cmpFrames — return the SAME frames and end in the SAME state, for EVERY batch (no condition on the packets), at every
    entry point.  So a stale `max`, `min` or `bytesLeft` cannot influence a call. -/
theorem scratch_not_read (s t : Encoder_St) (batch : List Packet) (c : Ctx) (fuel : Nat)
    (hd : s.f_deviceId = t.f_deviceId) (hx : s.f_streamId = t.f_streamId)
    (hq : s.f_sequenceCounter = t.f_sequenceCounter) (hm : s.f_messageType = t.f_messageType)
    (hc : c.ok = true) (hmax : c.max < 2 ^ 32) (hf : 65536 ≤ fuel) :
    srcEncodeBatch fuel s batch c.min c.max = srcEncodeBatch fuel t batch c.min c.max ∧
    Encoder_encode_range_obj fuel s (batch.map pktIn) c.min c.max =
      Encoder_encode_range_obj fuel t (batch.map pktIn) c.min c.max ∧
    Encoder_encode_ptrRange_obj fuel s (batch.map pktIn) c.min c.max =
      Encoder_encode_ptrRange_obj fuel t (batch.map pktIn) c.min c.max ∧
    ∀ p, Encoder_encode_obj fuel s (pktIn p) c.min c.max = Encoder_encode_obj fuel t (pktIn p) c.min c.max := by
  have e : ∀ b, (toLL s).encode b c = (toLL t).encode b c := by
    intro b
    rw [C08S.toLL_encode_eq, C08S.toLL_encode_eq]
    simp only [C08S.encOf, hd, hx, hq, hm]
  obtain ⟨r1, r2⟩ := encode_range_eq fuel s batch c.min c.max
  obtain ⟨r3, r4⟩ := encode_range_eq fuel t batch c.min c.max
  have h0 : srcEncodeBatch fuel s batch c.min c.max = srcEncodeBatch fuel t batch c.min c.max := by
    rw [encodeBatch_src_gen s batch c fuel hc hmax hf, encodeBatch_src_gen t batch c fuel hc hmax hf, e]
  refine ⟨h0, by rw [r1, r3, h0], by rw [r2, r4, h0], ?_⟩
  intro p
  rw [encode1_src_gen s p c fuel hc hmax hf, encode1_src_gen t p c fuel hc hmax hf, e]

/-! ## §3  K6: no call is undefined because of what an earlier call left behind -/

/-- every `encode` entry point is DEFINED from every member record — arbitrary leftovers in all nine members, frames still
    in `cmpFrames`, any `bytesLeft` — for EVERY batch (nothing is asked of the packets) and every configuration with
    25 ≤ max < 2^32, min ≤ max.  "Defined" = the translation returns `some`: no `back()` / `pop_back()` on an empty vector, no
    `memcpy` / header write outside its vector, no signed overflow, the `while` loop ends. -/
theorem K6_encode_defined (s : Encoder_St) (batch : List Packet) (c : Ctx) (fuel : Nat)
    (hc : c.ok = true) (hmax : c.max < 2 ^ 32) (hf : 65536 ≤ fuel) :
    (srcEncodeBatch fuel s batch c.min c.max).isSome = true ∧
    (Encoder_encode_range_obj fuel s (batch.map pktIn) c.min c.max).isSome = true ∧
    (Encoder_encode_ptrRange_obj fuel s (batch.map pktIn) c.min c.max).isSome = true ∧
    ∀ p, (Encoder_encode_obj fuel s (pktIn p) c.min c.max).isSome = true := by
  obtain ⟨r1, r2⟩ := encodeRange_src s batch c fuel hc hmax hf
  refine ⟨by rw [encodeBatch_src_gen s batch c fuel hc hmax hf]; rfl, by rw [r1]; rfl, by rw [r2]; rfl, ?_⟩
  intro p
  rw [encode1_src_gen s p c fuel hc hmax hf]; rfl

/-- the configuration of an `encode` operation of a history is in the domain (25 ≤ max < 2^32, min ≤ max); nothing is asked of
    the setters' arguments or of the packets -/
def CfgOk : Op → Prop
  | .encodeBatch _ c => c.ok = true ∧ c.max < 2 ^ 32
  | .encode1 _ c => c.ok = true ∧ c.max < 2 ^ 32
  | _ => True

theorem srcCall_defined (fuel : Nat) (hf : 65536 ≤ fuel) (s : Encoder_St) (op : Op) (h : CfgOk op) :
    ∃ r, srcCall fuel s op = some r := by
  cases op with
  | setDeviceId d => simp only [srcCall, (config_src s d 0).1, Option.map_some]; exact ⟨_, rfl⟩
  | setStreamId x => simp only [srcCall, (config_src s 0 x).2.1, Option.map_some]; exact ⟨_, rfl⟩
  | restart => simp only [srcCall, (config_src s 0 0).2.2.1, Option.map_some]; exact ⟨_, rfl⟩
  | encodeBatch b c => exact ⟨_, (encodeRange_src s b c fuel h.1 h.2 hf).1⟩
  | encode1 p c => exact ⟨_, encode1_src_gen s p c fuel h.1 h.2 hf⟩

/-- **K6 for histories**: the run of the translated public methods over ANY list of operations (setDeviceId / setStreamId /
    restart / encode(range) / encode(packet), in any order, any packets) from ANY object is defined at every call, as long as
    every configuration is in the domain -/
theorem K6_history_defined (fuel : Nat) (hf : 65536 ≤ fuel) : ∀ (ops : List Op) (s : Encoder_St), (∀ op ∈ ops, CfgOk op) →
    ∃ r, srcEncRun fuel s ops = some r := by
  intro ops
  induction ops with
  | nil => intro s _; exact ⟨_, rfl⟩
  | cons op ops ih =>
    intro s h
    obtain ⟨⟨s1, fr⟩, h1⟩ := srcCall_defined fuel hf s op (h op List.mem_cons_self)
    obtain ⟨⟨s3, rest⟩, h2⟩ := ih s1 (fun o ho => h o (List.mem_cons_of_mem _ ho))
    simp only [srcEncRun, h1, srcGetters_eq, h2]; exact ⟨_, rfl⟩

/-- the next call is an `encode` of packets that own a payload shorter than 2^16 bytes, with a configuration of the domain -/
def NextOk : Op → Prop
  | .encodeBatch b c => c.ok = true ∧ c.max < 2 ^ 32 ∧ ∀ p ∈ b, p.Enc
  | .encode1 p c => c.ok = true ∧ c.max < 2 ^ 32 ∧ p.Enc
  | _ => False

/-- **C10 over histories, source level.**  Run the translated public methods over ANY list of operations `ops` from ANY
    object `s0` (in particular `Encoder_default`); the run is defined and ends in some object `s1`.  Then the next `encode`
    call `next` (either overload) on `s1` and the same call on the default-constructed object configured with the ids `s1`
    reports are both defined, and the frames of the former are those of the latter with the counter `s1` had reached added
    (mod 2^16) to bytes 6..7 — nothing else differs. -/
theorem C10_src_history (ops : List Op) (s0 : Encoder_St) (next : Op) (fuel : Nat) (hf : 65536 ≤ fuel)
    (hops : ∀ op ∈ ops, CfgOk op) (hnext : NextOk next) :
    ∃ s1 obs s2 s2' bs0,
      srcEncRun fuel s0 ops = some (s1, obs) ∧
      srcCall fuel (freshObj s1.f_deviceId s1.f_streamId) next = some (s2', bs0) ∧
      srcCall fuel s1 next = some (s2, bs0.map (patchSeq s1.f_sequenceCounter)) := by
  obtain ⟨⟨s1, obs⟩, h1⟩ := K6_history_defined fuel hf ops s0 hops
  cases next with
  | setDeviceId d => exact absurd hnext id
  | setStreamId x => exact absurd hnext id
  | restart => exact absurd hnext id
  | encodeBatch b c =>
    obtain ⟨hc, hmax, hb⟩ := hnext
    obtain ⟨bs0, k1, k2, _⟩ := C10_src_range s1 b c fuel hc hmax hb hf
    exact ⟨s1, obs, _, _, bs0, h1, k1, k2⟩
  | encode1 p c =>
    obtain ⟨hc, hmax, hp⟩ := hnext
    obtain ⟨bs0, k1, k2, _⟩ := C10_src_single s1 p c fuel hc hmax hp hf
    exact ⟨s1, obs, _, _, bs0, h1, k1, k2⟩


/-- the body of the translated `getEncodedData` (GeneratedSrcObj.lean) with the moved-from vector `cmpFrames` — which the
    translator models as `[]`, whereas the C++ standard only promises "valid but unspecified" — holding an ARBITRARY value `j` -/
def getEncodedData_movedFrom (j : List Bytes) (s : Encoder_St) : Option (Encoder_St × List Bytes) := do
  let (s, _) ← Encoder_closeLastFrame_obj s
  let v_frames := s.f_cmpFrames
  let s := { s with f_cmpFrames := j }
  let (s, _) ← Encoder_clearEncodingMetadata_obj s false
  pure (s, v_frames)

/-- review item 3 (i): the modelling of `std::move(cmpFrames)` is immaterial — `clearEncodingMetadata(false)` clears the vector
    right after the move, so the result and the state afterwards are the same whatever the moved-from vector holds -/
theorem moved_from_irrelevant (j : List Bytes) (s : Encoder_St) :
    getEncodedData_movedFrom j s = Encoder_getEncodedData_obj s := by
  unfold getEncodedData_movedFrom Encoder_getEncodedData_obj Encoder_clearEncodingMetadata_obj
  cases Encoder_closeLastFrame_obj s <;> rfl

/-! ## §4  K5: a payload that needs segmentation is segmented on EVERY call (absolute, not relative to the fresh run) -/

theorem mem_zip_range (batch : List Packet) (i : Nat) (hi : i < batch.length) :
    (i, batch[i]) ∈ (List.range batch.length).zip batch := by
  rw [List.mem_iff_getElem]
  exact ⟨i, by simp [hi], by simp⟩

/-- **K5 on the model, for EVERY encoder object `e`** (every value of every field: any message type remembered, any counter,
    frames / open frame / template left over), every batch, every configuration with 25 ≤ max (nothing else: `min` is
    arbitrary), and every packet of the batch whose message does not fit an empty frame (16 + payloadLength > max - 8): the
    messages of the returned frames contain, as one contiguous run, the messages `ms` of that packet, which
    * all carry its index and header fields and are each ALONE in a returned frame,
    * are flagged first (4), intermediary (8) …, last (12), every non-last one with max - 24 payload bytes,
    * are at least two, and
    * carry the packet's payload bytes exactly once, in order. -/
theorem K5_segmented_on_every_call (e : Enc) (batch : List Packet) (c : Ctx) (hmax : 25 ≤ c.max)
    (i : Nat) (hi : i < batch.length) (hbig : c.cap < 16 + batch[i].payloadLength) :
    let p := batch[i]
    let n := c.cap - 16
    let len := p.payloadLength
    ∃ (pre ms post : List EMsg),
      (e.encode batch c).2.flatMap (·.msgs) = pre ++ ms ++ post ∧
      (∀ m ∈ ms, m.idx = i ∧ m.pkt = p ∧ ∃ f ∈ (e.encode batch c).2, f.msgs = [m]) ∧
      ms.map (fun m => (m.seg, m.body.length)) =
        (List.range ((len - 1) / n)).map (fun j => (if j = 0 then 4 else 8, n)) ++ [(12, len - (len - 1) / n * n)] ∧
      1 ≤ (len - 1) / n ∧
      (ms.map (·.body)).flatten = p.data.take len := by
  intro p n len
  have hbig : c.cap < 16 + p.payloadLength := hbig
  have hcap : 17 ≤ c.cap := by unfold Ctx.cap; omega
  have hn : 0 < n := by show 0 < c.cap - 16; omega
  have hlen : (p.data.take len).length = len := by
    rw [List.length_take]
    exact Nat.min_eq_left (plen_le p)
  have hnl : n < len := by show c.cap - 16 < p.payloadLength; omega
  obtain ⟨hok, hall, _⟩ := encode_spec e batch c hcap
  obtain ⟨l1, l2, hz⟩ := List.append_of_mem (mem_zip_range batch i hi)
  have hp : pieces c i p = segMsgs i p true (chunks n (p.data.take len)) := by
    unfold pieces
    rw [if_neg (by show ¬ p.payloadLength = 0; omega), if_neg (by show ¬ 16 + p.payloadLength ≤ c.cap; omega)]
  refine ⟨l1.flatMap (fun ip => pieces c ip.1 ip.2), pieces c i p, l2.flatMap (fun ip => pieces c ip.1 ip.2), ?_, ?_, ?_, ?_, ?_⟩
  · rw [hall, hz, List.flatMap_append, List.flatMap_cons, List.append_assoc]
  · intro m hm
    have hm' := hm
    rw [hp] at hm'
    obtain ⟨h1, h2, h3, _⟩ := segMsgs_mem _ _ _ _ m hm'
    refine ⟨h1, h2, ?_⟩
    have hmem : m ∈ (e.encode batch c).2.flatMap (·.msgs) := by
      rw [hall, hz, List.flatMap_append, List.flatMap_cons]
      exact List.mem_append_right _ (List.mem_append_left _ hm)
    obtain ⟨f, hf, hmf⟩ := List.mem_flatMap.mp hmem
    refine ⟨f, hf, ?_⟩
    rcases (hok f hf).1.alone with h0 | h1'
    · have := h0 m hmf
      omega
    · cases hfm : f.msgs with
      | nil => rw [hfm] at hmf; exact absurd hmf (by simp)
      | cons a r =>
        rw [hfm] at h1' hmf
        have hr : r = [] := by
          cases r with
          | nil => rfl
          | cons _ _ => simp at h1'
        subst hr
        rw [List.mem_singleton] at hmf
        rw [hmf]
  · rw [hp, segShapeT i p n hn _ (by rw [hlen]; exact hnl), hlen]
  · exact (Nat.le_div_iff_mul_le hn).mpr (by omega)
  · rw [hp, segMsgs_body, chunks_flatten n hn]

/-- **K5 at source level, from ANY object, both range overloads**: the call is defined and returns the serialisation of a
    frame list `fs` that has the property of `K5_segmented_on_every_call` for every packet of the batch that does not fit an
    empty frame — whatever `maxBytesPerMessage`, `bytesLeft`, `cmpFrames`, `messageType` earlier calls left in `s` -/
theorem K5_src_range (s : Encoder_St) (batch : List Packet) (c : Ctx) (fuel : Nat)
    (hc : c.ok = true) (hmax : c.max < 2 ^ 32) (hb : ∀ p ∈ batch, p.Enc) (hf : 65536 ≤ fuel) :
    ∃ (s' : Encoder_St) (fs : List EFrame),
      Encoder_encode_range_obj fuel s (batch.map pktIn) c.min c.max = some (s', fs.map (EFrame.bytes c.min)) ∧
      Encoder_encode_ptrRange_obj fuel s (batch.map pktIn) c.min c.max = some (s', fs.map (EFrame.bytes c.min)) ∧
      ∀ (i : Nat) (hi : i < batch.length), c.cap < 16 + batch[i].data.length →
        ∃ (pre ms post : List EMsg),
          fs.flatMap (·.msgs) = pre ++ ms ++ post ∧
          (∀ m ∈ ms, m.idx = i ∧ m.pkt = batch[i] ∧ ∃ f ∈ fs, f.msgs = [m]) ∧
          2 ≤ ms.length ∧
          (ms.map (·.seg)).head? = some 4 ∧ (ms.map (·.seg)).getLast? = some 12 ∧
          (∀ x ∈ (ms.map (·.seg)).tail.dropLast, x = 8) ∧
          (ms.map (·.body)).flatten = batch[i].data := by
  refine ⟨_, ((C08S.encOf s).encode batch c).2,
    computes_struct (computes_range batch c fuel hc hmax hf) hc hb s,
    computes_struct (computes_ptrRange batch c fuel hc hmax hf) hc hb s, ?_⟩
  intro i hi hbig
  have hpl : batch[i].payloadLength = batch[i].data.length := (hb _ (List.getElem_mem hi)).plen
  have h25 : 25 ≤ c.max := by
    simp only [Ctx.ok, Bool.and_eq_true, decide_eq_true_eq] at hc
    exact hc.1
  obtain ⟨pre, ms, post, k1, k2, k3, k4, k5⟩ :=
    K5_segmented_on_every_call (C08S.encOf s) batch c h25 i hi (by rw [hpl]; exact hbig)
  rw [hpl, List.take_length] at k5
  have hseg : ms.map (·.seg) =
      (List.range ((batch[i].payloadLength - 1) / (c.cap - 16))).map (fun j => if j = 0 then 4 else 8) ++ [12] := by
    have := congrArg (List.map Prod.fst) k3
    simpa [List.map_map, Function.comp_def] using this
  generalize (batch[i].payloadLength - 1) / (c.cap - 16) = q at hseg k4
  refine ⟨pre, ms, post, k1, k2, ?_, ?_, ?_, ?_, k5⟩
  · have := congrArg List.length hseg
    simp at this
    omega
  · rw [hseg]
    cases q with
    | zero => omega
    | succ q => simp [List.range_succ_eq_map]
  · rw [hseg, List.getLast?_concat]
  · rw [hseg]
    intro x hx
    cases q with
    | zero => omega
    | succ q =>
      simp only [List.range_succ_eq_map, List.map_cons, List.map_map, List.cons_append, List.tail_cons,
        List.dropLast_concat] at hx
      obtain ⟨j, _, rfl⟩ := List.mem_map.mp hx
      simp


/-! ## §5  the domain of the configurations (remarks on the hypotheses `25 ≤ max`, `min ≤ max`) -/

/-- `25 ≤ max` is not an artefact: with `maxBytesPerMessage = 20` the translated `encode` is UNDEFINED already on the
    default-constructed object (for every fuel: the 16-byte message header is written at offset 8 of a 20-byte frame).  So
    an out-of-domain configuration fails on a fresh encoder too — it is not "something an earlier call left behind", and the
    comparison of C10 has no right-hand side there. -/
theorem small_max_undefined_on_fresh (fuel : Nat) : srcEncodeBatch fuel Encoder_default [exCan] 0 20 = none := by
  cases fuel <;> rfl

/-! ## §6  non-vacuity: a concrete two-call history with different message types and configurations, then a segmented batch -/

/-- an Ethernet data message (message type 1) of 100 payload bytes -/
def exEth : Packet :=
  { payload := some ⟨tyEth, [0, 0, 0, 0, 0, 94] ++ (List.range 94).map UInt8.ofNat⟩, ts := 5, ifId := 2 }

/-- a capture-module status message (message type 3) of 36 payload bytes -/
def exCm : Packet :=
  { payload := some ⟨tyCm, List.replicate 36 0⟩, ts := 1, vendorId := 0x1234 }

/-- the history: ids set, a range call (data messages, max 1500), a single-packet call (status message, min 128, max 200) -/
def exHist : List Op :=
  [.setDeviceId 0x0102, .setStreamId 7, .encodeBatch [exCan, exCan] ⟨0, 1500⟩, .encode1 exCm ⟨128, 200⟩]

/-- the next call: max 64, i.e. 40 payload bytes per segment: the Ethernet message needs three segments -/
def exNext : Op := .encodeBatch [exEth, exCan] ⟨0, 64⟩

/-- the members of an object (the two vectors by their lengths) -/
def members (s : Encoder_St) : List Nat :=
  [s.f_minBytesPerMessage, s.f_maxBytesPerMessage, s.f_deviceId, s.f_streamId, s.f_sequenceCounter, s.f_messageType,
   s.f_bytesLeft, s.f_cmpFrames.length, s.f_cmpFrameTemplate.length]

theorem exEnc : exEth.Enc ∧ exCan.Enc ∧ exCm.Enc := ⟨⟨by decide, by decide⟩, ⟨by decide, by decide⟩, ⟨by decide, by decide⟩⟩

theorem exHist_ok : ∀ op ∈ exHist, CfgOk op := by
  intro op hop
  simp only [exHist, List.mem_cons, List.not_mem_nil, or_false] at hop
  rcases hop with rfl | rfl | rfl | rfl
  · trivial
  · trivial
  · exact ⟨by decide, by decide⟩
  · exact ⟨by decide, by decide⟩

theorem exNext_ok : NextOk exNext := by
  refine ⟨by decide, by decide, ?_⟩
  intro p hp
  simp only [List.mem_cons, List.not_mem_nil, or_false] at hp
  rcases hp with rfl | rfl
  · exact exEnc.1
  · exact exEnc.2.1

/-- the hypotheses of `C10_src_history` are satisfied by this history and this next call -/
example : ∃ s1 obs s2 s2' bs0,
    srcEncRun 65536 Encoder_default exHist = some (s1, obs) ∧
    srcCall 65536 (freshObj s1.f_deviceId s1.f_streamId) exNext = some (s2', bs0) ∧
    srcCall 65536 s1 exNext = some (s2, bs0.map (patchSeq s1.f_sequenceCounter)) :=
  C10_src_history exHist Encoder_default exNext 65536 (by decide) exHist_ok exNext_ok

/-- the TRANSLATED methods evaluated by the kernel on the history: afterwards the object remembers message type 3 (≠ 0),
    counter 2 (≠ 0), and the STALE configuration min = 128, max = 200 of the last call -/
example : (srcEncRun 65536 Encoder_default exHist).map (fun r => members r.1) = some [128, 200, 0x102, 7, 2, 3, 0, 0, 0] := by
  decide +kernel

/-- … and the next call on that object returns FOUR frames of 64, 64, 44, 42 bytes (not one frame of up to 200 bytes: the
    stale `max` is not used), the Ethernet message in three segments flagged 4, 8, 12 with 40, 40, 20 payload bytes, counters
    3, 4, 5, 6; shown: the frame header and the message header of every frame -/
example : (srcEncRun 65536 Encoder_default (exHist ++ [exNext])).map
      (fun r => r.2.getLast?.map (fun o => (o.frames.map (·.length), o.frames.map (·.take 24), o.seq))) =
    some (some ([64, 64, 44, 42],
     [[1, 0, 1, 2, 1, 7, 0, 3, 0, 0, 0, 0, 0, 0, 0, 5, 0, 0, 0, 2, 4, 8, 0, 40],
      [1, 0, 1, 2, 1, 7, 0, 4, 0, 0, 0, 0, 0, 0, 0, 5, 0, 0, 0, 2, 8, 8, 0, 40],
      [1, 0, 1, 2, 1, 7, 0, 5, 0, 0, 0, 0, 0, 0, 0, 5, 0, 0, 0, 2, 12, 8, 0, 20],
      [1, 0, 1, 2, 1, 7, 0, 6, 0, 0, 0, 0, 0, 0, 0, 9, 0, 0, 0, 3, 0, 1, 0, 18]], 6)) := by
  decide +kernel

/-- the fresh encoder with the same ids (built through the translated setters) returns the same four frames with counters
    1, 2, 3, 4 … -/
example : (srcEncRun 65536 Encoder_default [.setDeviceId 0x0102, .setStreamId 7, exNext]).map
      (fun r => r.2.getLast?.map (fun o => (o.frames.map (·.length), o.frames.map (fun b => b.take 8), o.seq))) =
    some (some ([64, 64, 44, 42],
     [[1, 0, 1, 2, 1, 7, 0, 1], [1, 0, 1, 2, 1, 7, 0, 2], [1, 0, 1, 2, 1, 7, 0, 3], [1, 0, 1, 2, 1, 7, 0, 4]], 4)) := by
  decide +kernel

/-- … and the used encoder's frames are EXACTLY the fresh encoder's with 2 added to bytes 6..7 (all bytes compared) -/
example : (srcEncRun 65536 Encoder_default (exHist ++ [exNext])).map (fun r => r.2.getLast?.map (·.frames)) =
    (srcEncRun 65536 Encoder_default [.setDeviceId 0x0102, .setStreamId 7, exNext]).map
      (fun r => r.2.getLast?.map (fun o => o.frames.map (patchSeq 2))) := by
  decide +kernel

/-- an object with GARBAGE in every scratch member (frames left in `cmpFrames`, a 3-byte template, bytesLeft = 5, min > max) and
    the four surviving members of the history's end state -/
def dirtyObj : Encoder_St :=
  { f_minBytesPerMessage := 999, f_maxBytesPerMessage := 3, f_deviceId := 0x0102, f_streamId := 7,
    f_cmpFrameTemplate := [9, 9, 9], f_bytesLeft := 5, f_sequenceCounter := 2, f_messageType := 3,
    f_cmpFrames := [[1, 2, 3], [4]] }

/-- the end state of the history (see the kernel evaluation above) -/
def usedObj : Encoder_St :=
  { f_minBytesPerMessage := 128, f_maxBytesPerMessage := 200, f_deviceId := 0x0102, f_streamId := 7,
    f_cmpFrameTemplate := [], f_bytesLeft := 0, f_sequenceCounter := 2, f_messageType := 3, f_cmpFrames := [] }

/-- `scratch_not_read` applies to the two … -/
example : Encoder_encode_range_obj 65536 dirtyObj ([exEth, exCan].map pktIn) 0 64 =
    Encoder_encode_range_obj 65536 usedObj ([exEth, exCan].map pktIn) 0 64 :=
  (scratch_not_read dirtyObj usedObj [exEth, exCan] ⟨0, 64⟩ 65536 rfl rfl rfl rfl (by decide) (by decide) (by decide)).2.1

/-- … and the kernel evaluates the translated call on it to the same four frames as after the real history -/
example : (srcCall 65536 dirtyObj exNext).map (fun r => (r.2.map (·.length), r.2.map (fun b => (b.take 8, byteAt b 20)), members r.1)) =
    some ([64, 64, 44, 42],
      [([1, 0, 1, 2, 1, 7, 0, 3], 4), ([1, 0, 1, 2, 1, 7, 0, 4], 8), ([1, 0, 1, 2, 1, 7, 0, 5], 12), ([1, 0, 1, 2, 1, 7, 0, 6], 0)],
      [0, 64, 0x102, 7, 6, 1, 0, 0, 0]) := by
  decide +kernel

/-- `K5_segmented_on_every_call`: hypotheses satisfied for EVERY encoder object `e`, batch [exEth, exCan], max = 64, packet 0 -/
example (e : Enc) : ∃ (pre ms post : List EMsg),
    (e.encode [exEth, exCan] ⟨0, 64⟩).2.flatMap (·.msgs) = pre ++ ms ++ post ∧
    (∀ m ∈ ms, m.idx = 0 ∧ m.pkt = exEth ∧ ∃ f ∈ (e.encode [exEth, exCan] ⟨0, 64⟩).2, f.msgs = [m]) ∧
    ms.map (fun m => (m.seg, m.body.length)) = [(4, 40), (8, 40), (12, 20)] := by
  obtain ⟨pre, ms, post, h1, h2, h3, _⟩ :=
    K5_segmented_on_every_call e [exEth, exCan] ⟨0, 64⟩ (by decide) 0 (by decide) (by decide)
  refine ⟨pre, ms, post, h1, h2, ?_⟩
  rw [h3]
  decide

/-- K6 for a history with a packet WITHOUT payload, an empty batch and the smallest configuration (max = 25), started from
    the garbage object: defined -/
example : ∃ r, srcEncRun 65536 dirtyObj
    [.encode1 { payload := none } ⟨0, 25⟩, .encodeBatch [] ⟨25, 25⟩, .restart, .encodeBatch [exEth, { payload := none }] ⟨0, 25⟩] = some r := by
  apply K6_history_defined 65536 (by decide)
  intro op hop
  simp only [List.mem_cons, List.not_mem_nil, or_false] at hop
  rcases hop with rfl | rfl | rfl | rfl
  · exact ⟨by decide, by decide⟩
  · exact ⟨by decide, by decide⟩
  · trivial
  · exact ⟨by decide, by decide⟩

/-- `min > max` (outside `Ctx.ok`, hence outside every source-level theorem — see the report): on this instance the translated
    call is defined from the used object, pads every frame to `min` = 100 bytes, and C10 holds (kernel evaluation, all bytes) -/
example : (srcEncRun 65536 Encoder_default (exHist ++ [.encodeBatch [exEth, exCan] ⟨100, 64⟩])).map
      (fun r => r.2.getLast?.map (fun o => (o.frames.map (·.length), o.frames))) =
    (srcEncRun 65536 Encoder_default [.setDeviceId 0x0102, .setStreamId 7, .encodeBatch [exEth, exCan] ⟨100, 64⟩]).map
      (fun r => r.2.getLast?.map (fun o => ([100, 100, 100, 100], o.frames.map (patchSeq 2)))) := by
  decide +kernel

end AsamCmp.C10S

