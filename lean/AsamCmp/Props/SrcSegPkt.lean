/-
  Source-level reassembly buffer: the constructor and `addSegment` / `isAssembled` / `isValidSegmentType` of
  `Decoder::SegmentedPacket` (src/decoder.cpp), translated on every run as state transformers over the record of its members
  (GeneratedSrcObj.lean; the input buffer is the memory `m`, `data` an address in it), compute exactly `SegPkt.first` /
  `SegPkt.addSegment` of the low-level decoder model (DecoderLL.lean, proved to refine the decoder model in Props/C17b.lean) and
  are DEFINED — the `memcpy` reads only the declared bytes inside the supplied buffer and writes inside the resized vector, the
  length rewrite hits the stored header — for every buffer, every position and every stored entry satisfying the table invariant.
-/
import AsamCmp.GeneratedSrcObj
import AsamCmp.DecoderLL
import AsamCmp.Lemmas.SrcSegPkt
namespace AsamCmp.SrcDec
open AsamCmp AsamCmp.Src AsamCmp.SrcGen
open AsamCmp.SrcTie

def spSt (sp : SegPkt) : Decoder_SegmentedPacket_St :=
  { f_payload := sp.payload, f_segmentType := sp.segType, f_curVersion := sp.ver, f_curMessageType := sp.mt, f_curSegment := sp.seq }

/-- `SegmentedPacket(data, size, version, messageType, sequenceCounter)` on a message of at least 16 bytes at `pre.length` -/
theorem ctor_src (s0 : Decoder_SegmentedPacket_St) (pre b post : Bytes) (ver mt seq : Nat) (h16 : 16 ≤ b.length)
    (h : (pre ++ b ++ post).length < 2 ^ 64) :
    Decoder_SegmentedPacket_SegmentedPacket_ctor_obj s0 (pre ++ b ++ post) pre.length b.length ver mt seq =
      some (spSt (SegPkt.first b ver mt seq), ()) := by
  have hlen := payloadLength_mid pre b post h16
  have hb := mem_lt pre b post h
  have hn : beAt b 14 2 < 65536 := by
    rw [beAt_two b 14 (by omega)]
    have := byteAt_lt b 14
    have := byteAt_lt b (14 + 1)
    omega
  unfold Decoder_SegmentedPacket_SegmentedPacket_ctor_obj SegPkt.first
  simp only [bind, pure, hlen, some_bind]
  rw [uadd_eq 16 _ (by omega)]
  have hk : Nat.min b.length (16 + beAt b 14 2) ≤ b.length := Nat.min_le_left _ _
  generalize Nat.min b.length (16 + beAt b 14 2) = k at hk
  have htake : ((b ++ post).take k).length = k := by
    rw [List.length_take, List.length_append]; omega
  rw [resize_nil, drop_mid, wrBytes_eq _ _ _ _ (by rw [List.length_append]; omega) (by rw [zeros_length]; omega),
    some_bind, writeAt_zeros _ _ htake, List.take_append_of_le_length hk]
  rfl

/-- `addSegment` on a stored entry (table invariant of C17b: last accepted segment first or intermediary, at least the 16 header
    bytes, counter in range) -/
theorem addSegment_src (sp : SegPkt) (pre b post : Bytes) (ver mt seq : Nat) (h16 : 16 ≤ b.length)
    (h : (pre ++ b ++ post).length < 2 ^ 64) (hst : sp.segType = 4 ∨ sp.segType = 8) (hpl : 16 ≤ sp.payload.length)
    (hlen : sp.payload.length + 65536 < 2 ^ 64) (hseq : sp.seq < 65536) :
    Decoder_SegmentedPacket_addSegment_obj (spSt sp) (pre ++ b ++ post) pre.length b.length ver mt seq =
      some (spSt (sp.addSegment b ver mt seq).1, (sp.addSegment b ver mt seq).2) := by
  have _ := hst
  have hlen' := payloadLength_mid pre b post h16
  have hseg := segType_mid pre b post h16
  have hb := mem_lt pre b post h
  have hn : beAt b 14 2 < 65536 := by
    rw [beAt_two b 14 (by omega)]
    have := byteAt_lt b 14
    have := byteAt_lt b (14 + 1)
    omega
  have hsadd : sadd 32 sp.seq 1 = some (sp.seq + 1) := sadd_small _ _ (by omega)
  have husub : usub 64 b.length 16 = b.length - 16 := usub_eq _ _ h16 hb
  unfold Decoder_SegmentedPacket_addSegment_obj
  simp only [spSt, bind, pure, hsadd, some_bind, hlen', hseg, isValid_obj_eq, husub, Bool.or_eq_true, bne_iff_ne,
    ne_eq, decide_eq_true_eq, Bool.not_eq_true']
  by_cases hc : sp.ver ≠ ver ∨ sp.mt ≠ mt ∨ seq ≠ (sp.seq + 1) % 65536
  · have hadd : sp.addSegment b ver mt seq = (sp, false) := by
      unfold SegPkt.addSegment; rw [if_pos hc]
    rw [hadd]
    by_cases h12 : ¬sp.ver = ver ∨ ¬sp.mt = mt
    · simp only [h12, if_true, some_bind]
    · have h3 : ¬ seq = (sp.seq + 1) % 65536 := by
        rcases hc with hc | hc | hc
        · exact absurd (Or.inl hc) h12
        · exact absurd (Or.inr hc) h12
        · exact hc
      simp only [h12, if_false, some_bind, bne_iff_ne, ne_eq, h3, not_false_eq_true, if_true]
  · have h1 : sp.ver = ver := by
      apply Classical.byContradiction; intro hx; exact hc (Or.inl hx)
    have h2 : sp.mt = mt := by
      apply Classical.byContradiction; intro hx; exact hc (Or.inr (Or.inl hx))
    have h3 : seq = (sp.seq + 1) % 65536 := by
      apply Classical.byContradiction; intro hx; exact hc (Or.inr (Or.inr hx))
    subst h1 h2 h3
    simp only [not_true_eq_false, or_self, if_false, some_bind, bne_self_eq_false, Bool.false_eq_true]
    by_cases hgt : beAt b 14 2 > b.length - 16
    · have hadd : sp.addSegment b sp.ver sp.mt ((sp.seq + 1) % 65536) = (sp, false) := by
        unfold SegPkt.addSegment
        rw [if_neg hc]
        dsimp only
        rw [if_pos hgt]
      rw [hadd, if_pos hgt]
    · rw [if_neg hgt]
      by_cases hval : isValidSegmentTypeLL sp.segType (byteAt b 12 &&& 12) = false
      · have hadd : sp.addSegment b sp.ver sp.mt ((sp.seq + 1) % 65536) = (sp, false) := by
          unfold SegPkt.addSegment
          rw [if_neg hc]
          dsimp only
          rw [if_neg hgt, if_pos (by simp [hval])]
        rw [hadd, if_pos hval]
      · have hadd : sp.addSegment b sp.ver sp.mt ((sp.seq + 1) % 65536) =
            ({ sp with
                payload := writeAt (sp.payload ++ slice b 16 (beAt b 14 2)) 14
                  (beEnc 2 (((sp.payload ++ slice b 16 (beAt b 14 2)).length % 65536 + 65536 - 16) % 65536)),
                seq := (sp.seq + 1) % 65536, segType := byteAt b 12 &&& 12 }, true) := by
          unfold SegPkt.addSegment
          rw [if_neg hc]
          dsimp only
          rw [if_neg hgt, if_neg (by simpa using hval)]
        have hn16 : beAt b 14 2 ≤ (b.drop 16).length := by rw [List.length_drop]; omega
        have hsrc : ((b.drop 16 ++ post).take (beAt b 14 2)) = slice b 16 (beAt b 14 2) := by
          rw [List.take_append_of_le_length hn16]; rfl
        have hsl : (slice b 16 (beAt b 14 2)).length = beAt b 14 2 := by
          rw [← hsrc, List.length_take, List.length_append]; omega
        rw [hadd, if_neg hval, uadd_eq _ _ (by omega), resize_grow, Nat.zero_add, drop_mid16 pre b post h16,
          wrBytes_eq _ _ _ _ (by rw [List.length_append]; omega)
            (by rw [List.length_append, zeros_length]; omega),
          some_bind, hsrc, writeAt_tail _ _ _ hsl,
          setPayloadLength_eq _ _ (by rw [List.length_append]; omega), some_bind, usub_len]

/-- `addSegment` on the default-constructed entry that `operator[]` inserts for an orphan segment: rejected at once (the frame's
    version byte is never 0), nothing is read or written -/
theorem addSegment_default_src (m : Bytes) (data size ver mt seq : Nat) (hv : ver ≠ 0) :
    Decoder_SegmentedPacket_addSegment_obj (spSt {}) m data size ver mt seq = some (spSt {}, false) := by
  have h0 : ((spSt {}).f_curVersion != ver) = true := by
    have : (0 != ver) = true := by simpa using Ne.symm hv
    exact this
  unfold Decoder_SegmentedPacket_addSegment_obj
  simp only [h0, Bool.true_or, if_true, bind, pure, some_bind]

theorem isAssembled_src (sp : SegPkt) :
    Decoder_SegmentedPacket_isAssembled_obj (spSt sp) = some (spSt sp, sp.segType == 12) := by
  rfl

end AsamCmp.SrcDec
