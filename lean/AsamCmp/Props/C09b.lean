/-
  C09 / C10 on bytes: the statements of Props/C09.lean and Props/C10.lean are about structured
  frames (`EFrame`); here they are restated for the serialised bytes `Encoder::encode` returns.
-/
import AsamCmp.Props.C09
import AsamCmp.Props.C10
import AsamCmp.Lemmas.EncBytes
namespace AsamCmp.C09b
open AsamCmp

/-- the header fields of a serialised frame, read big-endian at the protocol's offsets -/
theorem header_fields (min : Nat) (f : EFrame)
    (hv : f.ver < 256) (hd : f.dev < 65536) (hm : f.mt < 256) (hs : f.stream < 256) (hq : f.seq < 65536) :
    let b := EFrame.bytes min f
    8 ≤ b.length ∧ byteAt b 0 = f.ver ∧ byteAt b 1 = 0 ∧ beAt b 2 2 = f.dev ∧ byteAt b 4 = f.mt ∧
    byteAt b 5 = f.stream ∧ beAt b 6 2 = f.seq := by
  refine ⟨bytes_length_ge min f, ?_, byte1 min f, ?_, ?_, ?_, ?_⟩
  · rw [byte0, Nat.mod_eq_of_lt hv]
  · rw [word2, Nat.mod_eq_of_lt hd]
  · rw [byte4, Nat.mod_eq_of_lt hm]
  · rw [byte5, Nat.mod_eq_of_lt hs]
  · rw [word6, Nat.mod_eq_of_lt hq]

/-- C09 on bytes, one call from an idle encoder whose ids are in range: frame `i` of the returned
    byte vectors carries the encoder's device id at bytes 2..3, its stream id at byte 5, reserved
    byte 0, the counter `(seqc + i + 1) mod 2^16` at bytes 6..7, and — when the batch has one version
    `v` — `v mod 256` at byte 0; afterwards the encoder reports the counter of the last frame -/
theorem C09_bytes (e : Enc) (batch : List Packet) (c : Ctx) (hidle : e.Idle) (hdev : e.dev < 65536) (hstream : e.stream < 256) :
    let r := e.encode batch c
    let bs := r.2.map (EFrame.bytes c.min)
    r.1.seqc = (e.seqc + bs.length) % 65536 ∧
    ∀ i (h : i < bs.length),
      8 ≤ bs[i].length ∧ beAt bs[i] 2 2 = e.dev ∧ byteAt bs[i] 5 = e.stream ∧ byteAt bs[i] 1 = 0 ∧
      beAt bs[i] 6 2 = (e.seqc + i + 1) % 65536 ∧
      (∀ v, (∀ p ∈ batch, p.version = v) → byteAt bs[i] 0 = v % 256) := by
  intro r bs
  obtain ⟨-, -, -, hseqc, hfr, -, hver⟩ := C09_encode e batch c hidle
  have hlen : bs.length = r.2.length := List.length_map ..
  refine ⟨by rw [hlen]; exact hseqc, ?_⟩
  intro i h
  have hi : i < r.2.length := hlen ▸ h
  have hb : bs[i] = EFrame.bytes c.min r.2[i] := List.getElem_map ..
  obtain ⟨hq, hd, hs⟩ := hfr i hi
  rw [hb]
  refine ⟨bytes_length_ge .., ?_, ?_, byte1 .., ?_, ?_⟩
  · rw [word2, hd, Nat.mod_eq_of_lt hdev]
  · rw [byte5, hs, Nat.mod_eq_of_lt hstream]
  · rw [word6, hq, Nat.mod_mod]
  · intro v hv
    rw [byte0, hver v hv _ (List.getElem_mem hi), Nat.mod_mod]

/-- C10 on bytes: after ANY history, the byte vectors of the next call are those of a fresh encoder
    with the same ids, except that bytes 6..7 (the sequence counter) are shifted by the counter the
    used encoder had reached -/
theorem C10_bytes (ops : List EncOp) (batch : List Packet) (c : Ctx) :
    let e := ((Enc.fresh 0 0).runOps ops).1
    let used := (e.encode batch c).2.map (EFrame.bytes c.min)
    let fresh := ((Enc.fresh e.dev e.stream).encode batch c).2.map (EFrame.bytes c.min)
    used.length = fresh.length ∧
    ∀ i (h : i < used.length) (h' : i < fresh.length),
      used[i] = writeAt fresh[i] 6 (beEnc 2 ((beAt fresh[i] 6 2 + e.seqc) % 65536)) := by
  intro e used fresh
  have hu : used = fresh.map (fun b => writeAt b 6 (beEnc 2 ((beAt b 6 2 + e.seqc) % 65536))) := by
    show (e.encode batch c).2.map (EFrame.bytes c.min) = _
    rw [C10_encode_any_state e batch c]
    exact shift_bytes ..
  refine ⟨by rw [hu, List.length_map], ?_⟩
  intro i h h'
  rw [List.getElem_of_eq hu h, List.getElem_map]

end AsamCmp.C09b
