/-
  C16S  Strengthening of property C16 (status tracker = per-device, per-interface latest-message map).

  Additional theorems about the EXISTING definitions (`Status.lean`, `Lemmas/StatusSpec.lean`, the translated tracker
  `GeneratedSrcObj.lean` through `Props/SrcStatus.lean`), answering the reviewer's findings on the registered C16 theorems:

  §1  lookups / observations (finding 1, 6): exact (iff) characterisation of `getIndexByDeviceId` / `getIndexByInterfaceId`, the
      found entry IS the map's value, element counts = number of keys, every stored element is the map's value, and ONE
      end-to-end observation theorem on runs (`observe_run`).
  §2  history (finding 3): the map `specRun ∅ ops` has a closed form that mentions only the HISTORY `ops` (latest capture-module
      message after the last removal / clear; latest interface message after the device became known and after the last
      `removeInterfaceById`), stated declaratively as list decompositions `ops = before ++ update p :: after`.
  §3  totalised cases made explicit (findings 4, 5).
  §4  source level (findings 1, 2, 5): `InterfaceStatus::getInterfaceId`, the translated tracker for ANY packet image that keeps the
      three observed values — in particular an INJECTIVE one (`fullImg`, every field and every payload byte) —, the copy
      assignment of the stored packet, and the translated methods composed over whole operation sequences.
  §5  concrete evaluations (finding 7).
-/
import AsamCmp.Props.C16
import AsamCmp.Props.SrcStatus
import AsamCmp.Props.SrcStatusPkt
import AsamCmp.Lemmas.C16SHist
import AsamCmp.Lemmas.C16SImg
set_option linter.unusedSimpArgs false
set_option linter.unusedVariables false
namespace AsamCmp.C16S
open AsamCmp AsamCmp.C16 AsamCmp.Src AsamCmp.SrcGen AsamCmp.SrcSt

/-! ## §1 lookups and observations -/

/-- EXACT lookup (device level), for every state: `getIndexByDeviceId(id)` is either
    * a valid index `i`, the element there has device id `id`, it is the FIRST such element, and it is precisely what the map
      holds at `id` (packet and interface map) — "the index of the matching entry" —, or
    * the element count, and then the map is undefined at `id` and no element has that id — "or the element count when there
      is none".  Never anything else. -/
theorem lookup_dev_spec (s : StatusSt) (id : Nat) :
    (indexOfDev s id < s.length ∧ ∃ d, s[indexOfDev s id]? = some d ∧ d.pkt.deviceId = id ∧
        absSt s id = some (d.pkt, absIfs d.ifs) ∧
        ∀ j, j < indexOfDev s id → ∀ e, s[j]? = some e → e.pkt.deviceId ≠ id) ∨
    (indexOfDev s id = s.length ∧ absSt s id = none ∧ ∀ e ∈ s, e.pkt.deviceId ≠ id) := by
  by_cases hlt : indexOfDev s id < s.length
  · obtain ⟨a, ha, hka, _, _, habs⟩ := dev_found s id hlt
    refine Or.inl ⟨hlt, a, ha, hka, habs, ?_⟩
    intro j hj e he hke
    exact findIdx_before _ s j hj e he (by simp [hke])
  · obtain ⟨h1, _, h3, h4⟩ := dev_notfound s id hlt
    exact Or.inr ⟨h1, h3, h4⟩

/-- the lookup finds an entry exactly for the keys of the map -/
theorem lookup_dev_iff (s : StatusSt) (id : Nat) :
    (indexOfDev s id < s.length ↔ (absSt s id).isSome) ∧ (indexOfDev s id = s.length ↔ absSt s id = none) := by
  rcases lookup_dev_spec s id with ⟨hlt, d, _, _, habs, _⟩ | ⟨heq, habs, _⟩
  · refine ⟨⟨fun _ => by rw [habs]; rfl, fun _ => hlt⟩, ⟨fun h => by omega, fun h => by rw [habs] at h; cases h⟩⟩
  · refine ⟨⟨fun h => by omega, fun h => by rw [habs] at h; cases h⟩, ⟨fun _ => habs, fun _ => heq⟩⟩

/-- EXACT lookup (interface level), for every device entry -/
theorem lookup_if_spec (d : DevSt) (id : Nat) :
    (d.indexOfIf id < d.ifs.length ∧ ∃ x, d.ifs[d.indexOfIf id]? = some x ∧ x.id = id ∧ absIfs d.ifs id = some x.pkt ∧
        ∀ j, j < d.indexOfIf id → ∀ e, d.ifs[j]? = some e → e.id ≠ id) ∨
    (d.indexOfIf id = d.ifs.length ∧ absIfs d.ifs id = none ∧ ∀ e ∈ d.ifs, e.id ≠ id) := by
  by_cases hlt : d.indexOfIf id < d.ifs.length
  · obtain ⟨a, ha, hka, _, _, habs⟩ := absL_found (fun i : IfSt => i.id) (fun i => i.pkt) d.ifs id hlt
    refine Or.inl ⟨hlt, a, ha, hka, habs, ?_⟩
    intro j hj e he hke
    exact findIdx_before _ d.ifs j hj e he (by simp [hke])
  · obtain ⟨h1, _, h3, h4⟩ := absL_notfound (fun i : IfSt => i.id) (fun i => i.pkt) d.ifs id hlt
    exact Or.inr ⟨h1, h3, h4⟩

theorem lookup_if_iff (d : DevSt) (id : Nat) :
    (d.indexOfIf id < d.ifs.length ↔ (absIfs d.ifs id).isSome) ∧ (d.indexOfIf id = d.ifs.length ↔ absIfs d.ifs id = none) := by
  rcases lookup_if_spec d id with ⟨hlt, x, _, _, habs, _⟩ | ⟨heq, habs, _⟩
  · refine ⟨⟨fun _ => by rw [habs]; rfl, fun _ => hlt⟩, ⟨fun h => by omega, fun h => by rw [habs] at h; cases h⟩⟩
  · refine ⟨⟨fun h => by omega, fun h => by rw [habs] at h; cases h⟩, ⟨fun _ => habs, fun _ => heq⟩⟩

/-- interface-level analogue of `C16.entries_are_keys` -/
theorem if_entries_are_keys (l : List IfSt) (id : Nat) : (absIfs l id).isSome ↔ id ∈ l.map (·.id) := by
  rw [← (lookup_if_iff ⟨default, l⟩ id).1]
  show findIdx (fun i : IfSt => i.id == id) l < l.length ↔ _
  rw [findIdx_lt_iff, List.mem_map]
  constructor
  · intro ⟨x, hx, hk⟩; exact ⟨x, hx, by simpa using hk⟩
  · intro ⟨x, hx, hk⟩; exact ⟨x, hx, by simp [hk]⟩

/-- with one entry per key (the invariant), EVERY stored element — wherever removal has moved it — is the value the map
    holds at its key: device entries with their packet and interface map, interface entries with their packet.  Together with
    `entries_are_keys` this is "exactly one entry per …, holding …" read element by element. -/
theorem elements_are_values (s : StatusSt) (h : Inv s) :
    ∀ d ∈ s, absSt s d.pkt.deviceId = some (d.pkt, absIfs d.ifs) ∧ ∀ x ∈ d.ifs, absIfs d.ifs x.id = some x.pkt := by
  intro d hd
  constructor
  · have := (find?_some_iff kD s h.1 d.pkt.deviceId d).2 ⟨hd, rfl⟩
    simp only [absSt, this, Option.map_some]
  · intro x hx
    have := (find?_some_iff (fun i : IfSt => i.id) d.ifs (h.2 d hd) x.id x).2 ⟨hx, rfl⟩
    simp only [absIfs, this, Option.map_some]

/-- "exactly one entry per device id" as a COUNT: for every duplicate-free enumeration `ks` of the map's keys, the element count
    is the number of keys. -/
theorem count_is_keys (s : StatusSt) (h : Inv s) (ks : List Nat) (hnd : ks.Nodup)
    (hks : ∀ dev, dev ∈ ks ↔ (absSt s dev).isSome) : s.length = ks.length := by
  have hp : (s.map (·.pkt.deviceId)).Perm ks :=
    (List.perm_ext_iff_of_nodup h.1 hnd).2 fun dev => by rw [hks, entries_are_keys s h dev]
  rw [← hp.length_eq, List.length_map]

/-- "exactly one entry per interface id" as a count -/
theorem if_count_is_keys (s : StatusSt) (h : Inv s) (d : DevSt) (hd : d ∈ s) (ks : List Nat) (hnd : ks.Nodup)
    (hks : ∀ id, id ∈ ks ↔ (absIfs d.ifs id).isSome) : d.ifs.length = ks.length := by
  have hp : (d.ifs.map (·.id)).Perm ks :=
    (List.perm_ext_iff_of_nodup (h.2 d hd) hnd).2 fun id => by rw [hks, if_entries_are_keys]
  rw [← hp.length_eq, List.length_map]

/-- END-TO-END OBSERVATION.  After ANY sequence of operations from the empty tracker, for every device id `dev`: what the two
    lookups and the two element reads deliver is dictated by the latest-message map `specRun ∅ ops`:
    * the map is undefined at `dev`: `getIndexByDeviceId(dev)` is the element count;
    * the map holds `(cm, ifs)`: the index is valid, the element there holds the packet `cm` (whole packet: all fields, all
      payload bytes) with device id `dev`, and for every interface id `id`
        - `ifs id = none`: `getIndexByInterfaceId(id)` of that element is ITS element count,
        - `ifs id = some q`: the index is valid and the interface element there has key `id`, holds `q`, and `id` is the
          interface id inside `q`'s own payload. -/
theorem observe_run (ops : List StOp) (dev : Nat) :
    match specRun (fun _ => none) ops dev with
    | none => indexOfDev (statusRun [] ops) dev = (statusRun [] ops).length
    | some (cm, ifs) =>
      indexOfDev (statusRun [] ops) dev < (statusRun [] ops).length ∧
      ∃ d, (statusRun [] ops)[indexOfDev (statusRun [] ops) dev]? = some d ∧ d.pkt = cm ∧ d.pkt.deviceId = dev ∧
        ∀ id, match ifs id with
          | none => d.indexOfIf id = d.ifs.length
          | some q => d.indexOfIf id < d.ifs.length ∧
              ∃ x, d.ifs[d.indexOfIf id]? = some x ∧ x.id = id ∧ x.pkt = q ∧ q.payloadIfId = id := by
  obtain ⟨habs, _⟩ := status_refines ops
  have hkey := if_key_is_payload_id ops
  rw [← habs]
  rcases lookup_dev_spec (statusRun [] ops) dev with ⟨hlt, d, hd, hk, hval, _⟩ | ⟨heq, hval, _⟩
  · rw [hval]
    refine ⟨hlt, d, hd, rfl, hk, ?_⟩
    intro id
    rcases lookup_if_spec d id with ⟨hlt', x, hx, hkx, hv, _⟩ | ⟨heq', hv, _⟩
    · rw [hv]
      refine ⟨hlt', x, hx, hkx, rfl, ?_⟩
      rw [← hkx]
      exact (hkey d (List.mem_of_getElem? hd) x (List.mem_of_getElem? hx)).symm
    · rw [hv]; exact heq'
  · rw [hval]; exact heq

/-- element counts on runs: the device count is the number of keys of the map, and each device element's interface count is the
    number of keys of its interface map (`ks` any duplicate-free enumeration of the keys) -/
theorem count_run (ops : List StOp) :
    (∀ ks : List Nat, ks.Nodup → (∀ dev, dev ∈ ks ↔ (specRun (fun _ => none) ops dev).isSome) →
      (statusRun [] ops).length = ks.length) ∧
    (∀ d ∈ statusRun [] ops, ∀ ks : List Nat, ks.Nodup →
      (∀ id, id ∈ ks ↔ ∃ cm ifs, specRun (fun _ => none) ops d.pkt.deviceId = some (cm, ifs) ∧ (ifs id).isSome) →
      d.ifs.length = ks.length) := by
  obtain ⟨habs, hinv⟩ := status_refines ops
  constructor
  · intro ks hnd hks
    exact count_is_keys _ hinv ks hnd (by rw [habs]; exact hks)
  · intro d hd ks hnd hks
    refine if_count_is_keys _ hinv d hd ks hnd fun id => ?_
    rw [hks, ← habs, (elements_are_values _ hinv d hd).1]
    constructor
    · rintro ⟨cm, ifs, h, h2⟩
      cases h; exact h2
    · intro h2; exact ⟨_, _, rfl, h2⟩

/-! ## §2 history: the map specification `specRun` has a closed form in terms of the operation sequence alone

  (reviewer's finding 3).  `specStep` is a program with the case structure of `Status::update`; the theorems of this section
  say what it COMPUTES, in the property's own words: `spec_known_iff`, `spec_cm_iff`, `spec_if_iff` for the map and
  `tracker_history`, `lookup_history` for the tracker's vectors. -/

/-! The one-operation classifiers, the closed form `cmHist` / `ifHist` / `closed` (history most recent first), the proof
  `specRun_closed : specRun ∅ ops dev = closed dev ops.reverse` and the three predicates on a stretch `l` of the sequence are in
  `AsamCmp/Lemmas/C16SHist.lean`:
    `NoReset dev l  := StOp.clear ∉ l ∧ StOp.rmDev dev ∉ l`
    `NoCm dev l     := ∀ q, StOp.update q ∈ l → ¬ (q.pty = tyCm ∧ q.deviceId = dev)`
    `NoIf dev id l  := ∀ q, StOp.update q ∈ l → ¬ (q.pty = tyIf ∧ q.deviceId = dev ∧ q.payloadIfId = id)` -/

/-- THE PROPERTY'S TEXT, device level: `dev` "has sent a capture-module status message since it was last removed or cleared":
    some `update p` in the sequence with `p` a capture-module status message of `dev`, and no `clear` / `removeDeviceById(dev)`
    after it -/
def Known (ops : List StOp) (dev : Nat) : Prop :=
  ∃ before p after, ops = before ++ .update p :: after ∧ (p.pty = tyCm ∧ p.deviceId = dev) ∧ NoReset dev after

/-- `p` is "that device's latest such packet": as `Known`, and no further capture-module status message of `dev` after it -/
def CmHistory (ops : List StOp) (dev : Nat) (p : Packet) : Prop :=
  ∃ before after, ops = before ++ .update p :: after ∧ (p.pty = tyCm ∧ p.deviceId = dev) ∧
    NoReset dev after ∧ NoCm dev after

/-- `p` is "the latest one" for interface `id` "seen in that device's interface status messages since then": an `update p` with `p`
    an interface status message of `dev` whose payload names interface `id`, sent when the device was known (`Known before dev`:
    its capture-module message came earlier and it was not removed in between), and after it no `clear`, no
    `removeDeviceById(dev)`, no `removeInterfaceById(dev, id)` and no further interface message of `dev` for `id` -/
def IfHistory (ops : List StOp) (dev id : Nat) (p : Packet) : Prop :=
  ∃ before after, ops = before ++ .update p :: after ∧ (p.pty = tyIf ∧ p.deviceId = dev ∧ p.payloadIfId = id) ∧
    Known before dev ∧ NoReset dev after ∧ StOp.rmIf dev id ∉ after ∧ NoIf dev id after

theorem cmHist_isSome_known (dev : Nat) (l : List StOp) : (cmHist dev l.reverse).isSome ↔ Known l dev := by
  rw [cmHist_isSome_iff]
  constructor
  · rintro ⟨newer, p, older, he, hcm, hnr⟩
    exact ⟨older.reverse, p, newer.reverse, (rev_split ..).1 he, hcm, (noReset_reverse ..).2 hnr⟩
  · rintro ⟨before, p, after, he, hcm, hnr⟩
    exact ⟨after.reverse, p, before.reverse, (rev_split ..).2 (by simpa using he), hcm, (noReset_reverse ..).2 hnr⟩

/-- the map is defined at `dev` exactly when the history says `dev` is known -/
theorem spec_known_iff (ops : List StOp) (dev : Nat) : (specRun (fun _ => none) ops dev).isSome ↔ Known ops dev := by
  rw [specRun_closed, ← cmHist_isSome_known]
  unfold closed
  cases cmHist dev ops.reverse <;> simp

/-- the capture-module packet the map holds for `dev` is `p` exactly when the history says `p` is the latest one -/
theorem spec_cm_iff (ops : List StOp) (dev : Nat) (p : Packet) :
    (specRun (fun _ => none) ops dev).map (·.1) = some p ↔ CmHistory ops dev p := by
  rw [specRun_closed]
  have : (closed dev ops.reverse).map (·.1) = cmHist dev ops.reverse := by
    unfold closed; cases cmHist dev ops.reverse <;> rfl
  rw [this, cmHist_some_iff]
  constructor
  · rintro ⟨newer, older, he, hcm, hnr, hnc⟩
    exact ⟨older.reverse, newer.reverse, (rev_split ..).1 he, hcm, (noReset_reverse ..).2 hnr, (noCm_reverse ..).2 hnc⟩
  · rintro ⟨before, after, he, hcm, hnr, hnc⟩
    exact ⟨after.reverse, before.reverse, (rev_split ..).2 (by simpa using he), hcm, (noReset_reverse ..).2 hnr,
      (noCm_reverse ..).2 hnc⟩

/-- the packet the map holds for interface `id` of `dev` is `p` exactly when the history says so -/
theorem spec_if_iff (ops : List StOp) (dev id : Nat) (p : Packet) :
    (specRun (fun _ => none) ops dev).bind (fun e => e.2 id) = some p ↔ IfHistory ops dev id p := by
  rw [specRun_closed]
  have : (closed dev ops.reverse).bind (fun e => e.2 id) = ifHist dev id ops.reverse := by
    unfold closed
    cases hc : cmHist dev ops.reverse with
    | none => exact (ifHist_none_of_cmHist_none _ _ _ hc).symm
    | some cm => rfl
  rw [this, ifHist_some_iff]
  constructor
  · rintro ⟨newer, older, he, hif, hs, hnr, hnm, hni⟩
    refine ⟨older.reverse, newer.reverse, (rev_split ..).1 he, hif, (cmHist_isSome_known ..).1 (by simpa using hs),
      (noReset_reverse ..).2 hnr, by simpa using hnm, (noIf_reverse ..).2 hni⟩
  · rintro ⟨before, after, he, hif, hk, hnr, hnm, hni⟩
    refine ⟨after.reverse, before.reverse, (rev_split ..).2 (by simpa using he), hif, (cmHist_isSome_known ..).2 hk,
      (noReset_reverse ..).2 hnr, by simpa using hnm, (noIf_reverse ..).2 hni⟩


/-! ### the tracker's vectors against the history -/

/-- C16, HISTORY FORM.  After ANY sequence of operations from the empty tracker, for every device id `dev`:
    * the device vector has an element with that id iff `dev` has sent a capture-module status message since it was last
      removed or cleared (`Known`);
    * an element with that id holds packet `p` iff `p` is the device's latest capture-module status message (`CmHistory`);
    * under an element with that id there is an interface element with key `id` holding `p` iff `p` is the latest interface
      status message for `id` seen since the device became known / since the interface was last removed (`IfHistory`).
    (At most one element per id: `C16.status_refines`, `Inv`.) -/
theorem tracker_history (ops : List StOp) (dev : Nat) :
    ((∃ d ∈ statusRun [] ops, d.pkt.deviceId = dev) ↔ Known ops dev) ∧
    (∀ p, (∃ d ∈ statusRun [] ops, d.pkt.deviceId = dev ∧ d.pkt = p) ↔ CmHistory ops dev p) ∧
    (∀ id p, (∃ d ∈ statusRun [] ops, d.pkt.deviceId = dev ∧ ∃ x ∈ d.ifs, x.id = id ∧ x.pkt = p) ↔
      IfHistory ops dev id p) := by
  obtain ⟨habs, hinv⟩ := status_refines ops
  refine ⟨?_, ?_, ?_⟩
  · rw [← spec_known_iff, ← habs, entries_are_keys _ hinv, List.mem_map]
  · intro p
    rw [← spec_cm_iff, ← habs]
    constructor
    · rintro ⟨d, hd, hk, hp⟩
      rw [← hk, (elements_are_values _ hinv d hd).1, ← hp]; rfl
    · intro h
      rcases lookup_dev_spec (statusRun [] ops) dev with ⟨_, d, hd, hk, hval, _⟩ | ⟨_, hval, _⟩
      · rw [hval] at h
        exact ⟨d, List.mem_of_getElem? hd, hk, by simpa using h⟩
      · rw [hval] at h; cases h
  · intro id p
    rw [← spec_if_iff, ← habs]
    constructor
    · rintro ⟨d, hd, hk, x, hx, hkx, hp⟩
      obtain ⟨h1, h2⟩ := elements_are_values _ hinv d hd
      rw [← hk, h1, ← hkx, ← hp]
      exact h2 x hx
    · intro h
      rcases lookup_dev_spec (statusRun [] ops) dev with ⟨_, d, hd, hk, hval, _⟩ | ⟨_, hval, _⟩
      · rw [hval] at h
        refine ⟨d, List.mem_of_getElem? hd, hk, ?_⟩
        rcases lookup_if_spec d id with ⟨_, x, hx, hkx, hv, _⟩ | ⟨_, hv, _⟩
        · have h' : absIfs d.ifs id = some p := h
          rw [hv] at h'
          exact ⟨x, List.mem_of_getElem? hx, hkx, by simpa using h'⟩
        · have h' : absIfs d.ifs id = some p := h
          rw [hv] at h'; cases h'
      · rw [hval] at h; cases h

/-- … and read through the LOOKUPS (the property's observation points): `getIndexByDeviceId(dev)` is a valid index iff `dev` is
    known by the history, the element read there holds the latest capture-module message, and the interface element read at
    `getIndexByInterfaceId(id)` of that element holds the latest interface message for `id` -/
theorem lookup_history (ops : List StOp) (dev : Nat) :
    (indexOfDev (statusRun [] ops) dev < (statusRun [] ops).length ↔ Known ops dev) ∧
    (¬ Known ops dev → indexOfDev (statusRun [] ops) dev = (statusRun [] ops).length) ∧
    ∀ d, (statusRun [] ops)[indexOfDev (statusRun [] ops) dev]? = some d →
      d.pkt.deviceId = dev ∧ CmHistory ops dev d.pkt ∧
      ∀ id, (d.indexOfIf id < d.ifs.length ↔ ∃ p, IfHistory ops dev id p) ∧
        ∀ x, d.ifs[d.indexOfIf id]? = some x → x.id = id ∧ IfHistory ops dev id x.pkt := by
  obtain ⟨hk, hcm, hif⟩ := tracker_history ops dev
  have hlt : indexOfDev (statusRun [] ops) dev < (statusRun [] ops).length ↔ Known ops dev := by
    rw [← hk]
    show findIdx _ _ < _ ↔ _
    rw [findIdx_lt_iff]
    constructor
    · rintro ⟨x, hx, h⟩; exact ⟨x, hx, by simpa using h⟩
    · rintro ⟨x, hx, h⟩; exact ⟨x, hx, by simp [h]⟩
  refine ⟨hlt, fun h => ?_, ?_⟩
  · have := indexOfDev_le (statusRun [] ops) dev
    have : ¬ indexOfDev (statusRun [] ops) dev < (statusRun [] ops).length := fun h' => h (hlt.1 h')
    omega
  · intro d hd
    have hmem := List.mem_of_getElem? hd
    rcases lookup_dev_spec (statusRun [] ops) dev with ⟨_, d', hd', hkd, _, _⟩ | ⟨heq, _, _⟩
    · rw [hd] at hd'
      cases hd'
      refine ⟨hkd, (hcm d.pkt).1 ⟨d, hmem, hkd, rfl⟩, fun id => ⟨?_, ?_⟩⟩
      · constructor
        · intro hl
          rcases lookup_if_spec d id with ⟨_, x, hx, hkx, _, _⟩ | ⟨heq', _, _⟩
          · exact ⟨x.pkt, (hif id x.pkt).1 ⟨d, hmem, hkd, x, List.mem_of_getElem? hx, hkx, rfl⟩⟩
          · omega
        · rintro ⟨p, hp⟩
          obtain ⟨e, he, hke, x, hx, hkx, _⟩ := (hif id p).2 hp
          have hinv := (status_refines ops).2
          have hed : e = d := by
            have h1 := (find?_some_iff kD _ hinv.1 dev e).2 ⟨he, hke⟩
            have h2 := (find?_some_iff kD _ hinv.1 dev d).2 ⟨hmem, hkd⟩
            rw [h1] at h2; exact Option.some.inj h2
          subst hed
          exact (findIdx_lt_iff _ _).2 ⟨x, hx, by simp [hkx]⟩
      · intro x hx
        rcases lookup_if_spec d id with ⟨_, x', hx', hkx, _, _⟩ | ⟨heq', _, _⟩
        · rw [hx] at hx'
          cases hx'
          exact ⟨hkx, (hif id x.pkt).1 ⟨d, hmem, hkd, x, List.mem_of_getElem? hx, hkx, rfl⟩⟩
        · rw [heq'] at hx
          simp at hx
    · rw [heq] at hd
      simp at hd

/-! ## §3 the totalised cases, made explicit (findings 4 and 5)

  `C16.update_other_kind` and `C16.abs_step` also cover inputs on which the C++ has no defined behaviour; the model answers
  "nothing changes" there.  The theorems of this section separate the two: the statement for the inputs the property talks
  about, with the precondition explicit, and — separately — what the model does outside it, together with the translated
  source being UNDEFINED (`none`) there, so that nobody reads the model's answer as a claim about the code. -/

/-- "messages of other kinds change nothing": a packet WITH a payload (`hp`: the property's "data packet of device d") whose type is
    neither capture-module status nor interface status leaves the tracker exactly as it was -/
theorem update_other_kind_payload (s : StatusSt) (p : Packet) (pl : Payload) (hp : p.payload = some pl)
    (h1 : pl.ty ≠ tyCm) (h2 : pl.ty ≠ tyIf) : statusUpdate s p = s :=
  update_other_kind s p (by simpa [Packet.pty, hp] using h1) (by simpa [Packet.pty, hp] using h2)

/-- OUTSIDE the property (a payload-less packet, e.g. default-constructed): the model says "nothing changes", but this is a
    totalisation — the translated `Packet::getPayload`, which `Status::update` calls first, is undefined on it -/
theorem update_no_payload_totalised (s : StatusSt) (p : Packet) (hp : p.payload = none) :
    statusUpdate s p = s ∧ Packet_getPayload_pv (SrcPv.repr p) = none :=
  ⟨update_other_kind s p (by simp [Packet.pty, hp, tyCm]) (by simp [Packet.pty, hp, tyIf]), (SrcPv.no_payload_src p hp).2.2.1⟩

/-- `removeInterfaceById` of the model on a device WITHOUT entry: a no-op by the model's guard (totalisation; at source level the
    composed step is undefined there: `srcStep_img_partial`, second part) -/
theorem rmIf_unknown_model_noop (s : StatusSt) (dev id : Nat) (h : absSt s dev = none) : statusRemoveIf s dev id = s := by
  have hn : ¬ indexOfDev s dev < s.length := fun hlt => by
    have := (lookup_dev_iff s dev).1.1 hlt
    rw [h] at this; cases this
  rw [statusRemoveIf_eq, if_neg hn]

/-- `abs_step` for `removeInterfaceById` under its real precondition (the device has an entry): the interface `id` of `dev` is
    removed from the map, the device's packet and its other interfaces, and all other devices, stay -/
theorem rmIf_known_step (s : StatusSt) (dev id : Nat) (h : Inv s) (cm : Packet) (ifs : IfMap) (hk : absSt s dev = some (cm, ifs)) :
    absSt (statusRemoveIf s dev id) = setMap (absSt s) dev (some (cm, setMap ifs id none)) := by
  have := abs_step s (.rmIf dev id) h
  simp only [statusStep, specStep, hk] at this
  exact this

/-! ## §4 source level

  `Obs img` (the image keeps `getDeviceId`, `getPayload.getType`, `…getInterfaceId`), the per-method theorems `*_img` for every such
  image, the injective image `fullImg` and `Small` are in `AsamCmp/Lemmas/C16SImg.lean`. -/

variable {img : Packet → OPkt}

/-! ### the translated methods over whole operation sequences -/

/-- one operation through the TRANSLATED methods.  `update`, `removeDeviceById`, `clear` are the translated methods themselves.
    `removeInterfaceById` is `DeviceStatus`'s translated method applied to `getDeviceStatus(getIndexByDeviceId(dev))`; the accessor
    `getDeviceStatus` returns a reference and is NOT translated (`Status_untranslated`), so it is composed here the way the
    translator renders `devices[index].update(packet)` inside `Status::update`: `getIdx` (undefined outside the vector), the
    method on the element, write-back. -/
def srcStep (img : Packet → OPkt) (st : Status_St) : StOp → Option Status_St
  | .update p => (Status_update_obj st (img p)).map (·.1)
  | .rmDev id => (Status_removeDeviceById_obj st id).map (·.1)
  | .rmIf dev id =>
    (Status_getIndexByDeviceId_obj st dev).bind fun r =>
      (getIdx r.1.f_devices r.2).bind fun el =>
        (DeviceStatus_removeInterfaceById_obj el id).map fun r2 => { r.1 with f_devices := r.1.f_devices.set r.2 r2.1 }
  | .clear => (Status_clear_obj st).map (·.1)

def srcRun (img : Packet → OPkt) (st : Status_St) : List StOp → Option Status_St
  | [] => some st
  | op :: ops => (srcStep img st op).bind fun st' => srcRun img st' ops

/-- every `removeInterfaceById(dev, ·)` of the sequence meets a state in which `dev` has an entry -/
def RmIfKnown (s : StatusSt) : List StOp → Prop
  | [] => True
  | op :: ops => (∀ dev id, op = .rmIf dev id → indexOfDev s dev < s.length) ∧ RmIfKnown (statusStep s op) ops

/-- one step: the translated methods on the image of a model state compute the image of the model's step; the composed
    `removeInterfaceById` is defined exactly when the device has an entry -/
theorem srcStep_img_partial (H : Obs img) (s : StatusSt) (op : StOp) (h64 : s.length < 2 ^ 64)
    (h64' : ∀ d ∈ s, d.ifs.length < 2 ^ 64) :
    ((∀ dev id, op = .rmIf dev id → indexOfDev s dev < s.length) →
      srcStep img (stSt img s) op = some (stSt img (statusStep s op))) ∧
    ((∃ dev id, op = .rmIf dev id ∧ ¬ indexOfDev s dev < s.length) → srcStep img (stSt img s) op = none) := by
  cases op with
  | update p =>
    refine ⟨fun _ => ?_, fun ⟨_, _, h, _⟩ => by cases h⟩
    simp only [srcStep, update_img H, Option.map_some, statusStep]
  | rmDev id =>
    refine ⟨fun _ => ?_, fun ⟨_, _, h, _⟩ => by cases h⟩
    simp only [srcStep, removeDev_img H s id h64, Option.map_some, statusStep]
  | clear =>
    refine ⟨fun _ => rfl, fun ⟨_, _, h, _⟩ => by cases h⟩
  | rmIf dev id =>
    constructor
    · intro hk
      have hlt := hk dev id rfl
      have hmem : s[indexOfDev s dev] ∈ s := List.getElem_mem hlt
      simp only [srcStep, indexOfDev_img H, Option.bind_some, stSt_devs', getIdx_map _ _ _ hlt,
        removeIf_img H _ id (h64' _ hmem), Option.map_some, set_map_eq, statusStep, statusRemoveIf_eq, if_pos hlt,
        modify_eq_set_getElem _ _ _ hlt]
      rfl
    · rintro ⟨dev', id', h, hn⟩
      cases h
      have : (s.map (devSt img))[indexOfDev s dev]? = none := by
        rw [List.getElem?_eq_none_iff, List.length_map]; omega
      simp only [srcStep, indexOfDev_img H, Option.bind_some, stSt_devs', getIdx, this, Option.bind_none]

/-- SOURCE-LEVEL RUN (partial: see `srcStep` for the untranslated accessor, and `h64`).  Starting from the image of ANY model state
    whose vectors have at most `n` elements, a sequence of operations through the translated methods
    * is defined and ends in the image of the model's run when every `removeInterfaceById` meets a known device;
    * is undefined (`none`: `devices[size]` in the C++) otherwise.
    `h64`: `n + ops.length < 2^64` — no vector can outgrow `size_t` during the run (each operation adds at most one element);
    inherited from `removeDev_src` / `removeIf_src`. -/
theorem srcRun_img_partial (H : Obs img) (ops : List StOp) : ∀ (n : Nat) (s : StatusSt), Small n s → n + ops.length < 2 ^ 64 →
    (RmIfKnown s ops → srcRun img (stSt img s) ops = some (stSt img (statusRun s ops))) ∧
    (¬ RmIfKnown s ops → srcRun img (stSt img s) ops = none) := by
  induction ops with
  | nil => intro n s _ _; exact ⟨fun _ => rfl, fun h => absurd trivial h⟩
  | cons op ops ih =>
    intro n s hs h64
    simp only [List.length_cons] at h64
    have hl : s.length < 2 ^ 64 := by have := hs.1; omega
    have hl' : ∀ d ∈ s, d.ifs.length < 2 ^ 64 := fun d hd => by have := hs.2 d hd; omega
    obtain ⟨hok, hbad⟩ := srcStep_img_partial H s op hl hl'
    obtain ⟨ih1, ih2⟩ := ih (n + 1) (statusStep s op) (small_step n s op hs) (by omega)
    constructor
    · intro ⟨hk, hrest⟩
      simp only [srcRun, hok hk, Option.bind_some]
      exact ih1 hrest
    · intro hn
      by_cases hk : ∀ dev id, op = .rmIf dev id → indexOfDev s dev < s.length
      · simp only [srcRun, hok hk, Option.bind_some]
        exact ih2 (fun hrest => hn ⟨hk, hrest⟩)
      · have : ∃ dev id, op = .rmIf dev id ∧ ¬ indexOfDev s dev < s.length := by
          apply Classical.byContradiction
          intro hne
          apply hk
          intro dev id ho
          apply Classical.byContradiction
          intro hlt
          exact hne ⟨dev, id, ho, hlt⟩
        simp only [srcRun, hbad this, Option.bind_none]


/-! ### element reads and the stored packet (findings 1, 2) -/

/-- `InterfaceStatus::getInterfaceId()` (translated, no theorem so far): returns the key of the entry and changes nothing -/
theorem getInterfaceId_src (img : Packet → OPkt) (x : IfSt) :
    InterfaceStatus_getInterfaceId_obj (ifSt img x) = some (ifSt img x, x.id) := rfl

/-- … and on every interface entry the tracker can reach, that is the interface id the translated tracker reads from the entry's
    OWN stored packet ("getInterfaceStatus(j).getInterfaceId()" = id in its packet) -/
theorem getInterfaceId_run_src (ops : List StOp) : ∀ d ∈ statusRun [] ops, ∀ x ∈ d.ifs,
    InterfaceStatus_getInterfaceId_obj (ifSt oPkt x) =
      some (ifSt oPkt x, opq (ifSt oPkt x).f_interfacePacket "getPayload.as_InterfacePayload.getInterfaceId") := by
  intro d hd x hx
  rw [getInterfaceId_src]
  show _ = some (_, opq (oPkt x.pkt) _)
  rw [opq_if, ← if_key_is_payload_id ops d hd x hx]

/-- what the (untranslated, reference-returning) accessors `getDeviceStatus(i)`, `getInterfaceStatus(j)`, `getPacket()` have to
    read — PARTIAL: the accessors themselves are not translated (`Status_untranslated`, `DeviceStatus_untranslated`,
    `InterfaceStatus_untranslated`: "reference type"), so this is a statement about the member records, rendered as the
    translator renders `devices[index]` (`getIdx`): element `i` of the translated vector is the image of element `i` of the
    model's vector, its packet member is the image of the model's packet, likewise one level down; outside the vector the read is
    undefined -/
theorem elem_read_src_partial (img : Packet → OPkt) (s : StatusSt) (i : Nat) :
    getIdx (stSt img s).f_devices i = (s[i]?).map (devSt img) ∧
    (∀ d : DevSt, (devSt img d).f_devicePacket = img d.pkt ∧
      ∀ j, getIdx (devSt img d).f_interfaces j = (d.ifs[j]?).map (ifSt img)) ∧
    (∀ x : IfSt, (ifSt img x).f_interfacePacket = img x.pkt) := by
  refine ⟨by simp only [getIdx, stSt, List.getElem?_map], fun d => ⟨rfl, fun j => ?_⟩, fun _ => rfl⟩
  simp only [getIdx, devSt, List.getElem?_map]

/-- the assignment `devicePacket = packet` / `interfacePacket = packet` (the user-written `Packet::operator=(const Packet&)`:
    copy constructor + `swap`), translated in packet value mode: WHATEVER the slot held before (`dst`), afterwards it is the
    representation of exactly the assigned packet — every member and every payload byte (`repr` is injective) -/
theorem stored_copy_exact (dst src : Packet) :
    Packet_opAssign_copy_pv (SrcPv.repr dst) (SrcPv.repr src) = some (SrcPv.repr src, ()) ∧
    ∀ q, SrcPv.repr q = SrcPv.repr src → q = src := by
  refine ⟨(SrcPv.copyAssign_src dst src).1, fun q h => ?_⟩
  have := congrArg SrcPv.abs h
  rwa [SrcPv.abs_repr, SrcPv.abs_repr] at this

/-- "messages of other kinds change nothing" at source level: the translated `Status::update` on such a packet (with payload,
    other type) returns the member record unchanged -/
theorem update_other_kind_src (H : Obs img) (s : StatusSt) (p : Packet) (pl : Payload) (hp : p.payload = some pl)
    (h1 : pl.ty ≠ tyCm) (h2 : pl.ty ≠ tyIf) : Status_update_obj (stSt img s) (img p) = some (stSt img s, ()) := by
  rw [update_img H, update_other_kind_payload s p pl hp h1 h2]

/-- "messages for unknown devices change nothing" at source level -/
theorem update_unknown_device_src (H : Obs img) (s : StatusSt) (p : Packet) (hdev : absSt s p.deviceId = none)
    (h1 : p.pty ≠ tyCm) : Status_update_obj (stSt img s) (img p) = some (stSt img s, ()) := by
  rw [update_img H, update_unknown_device s p hdev h1]

/-! ### whole runs from the default-constructed `Status` -/

theorem rmIfKnown_iff (ops : List StOp) : ∀ s, RmIfKnown s ops ↔
    ∀ pre dev id post, ops = pre ++ .rmIf dev id :: post →
      indexOfDev (statusRun s pre) dev < (statusRun s pre).length := by
  induction ops with
  | nil =>
    intro s
    refine ⟨fun _ pre dev id post h => ?_, fun _ => trivial⟩
    cases pre <;> cases h
  | cons op ops ih =>
    intro s
    constructor
    · rintro ⟨hk, hrest⟩ pre dev id post h
      cases pre with
      | nil =>
        simp only [List.nil_append, List.cons.injEq] at h
        exact hk dev id h.1
      | cons a pre' =>
        simp only [List.cons_append, List.cons.injEq] at h
        rw [← h.1]
        exact (ih (statusStep s op)).1 hrest pre' dev id post h.2
    · intro h
      refine ⟨fun dev id ho => h [] dev id ops (by rw [ho]; rfl), (ih (statusStep s op)).2 ?_⟩
      intro pre dev id post hp
      exact h (op :: pre) dev id post (by rw [hp]; rfl)

/-- SOURCE-LEVEL C16 OVER WHOLE RUNS (partial, see below).  From the default-constructed `Status`, ANY sequence of fewer than
    2^64 operations in which `removeInterfaceById(dev, ·)` is applied only while `dev` is known (by the history: `Known pre dev`),
    run through the translated methods, is defined and ends in the image of the model's run — for every packet image `img` that
    keeps the three observed values, in particular the injective `fullImg`; hence (`status_refines`, `tracker_history`) in the
    latest-message map.  And if some `removeInterfaceById` meets an unknown device, the run is undefined.
    PARTIAL because (i) `getDeviceStatus` is not translated and is composed in `srcStep` as the translator renders `devices[index]`;
    (ii) `h64` (a `std::vector` cannot hold 2^64 elements) is not in the property's text. -/
theorem src_run_refines_partial (H : Obs img) (ops : List StOp) (h64 : ops.length < 2 ^ 64) :
    ((∀ pre dev id post, ops = pre ++ .rmIf dev id :: post → Known pre dev) →
      srcRun img Status_default ops = some (stSt img (statusRun [] ops))) ∧
    ((∃ pre dev id post, ops = pre ++ .rmIf dev id :: post ∧ ¬ Known pre dev) → srcRun img Status_default ops = none) := by
  obtain ⟨h1, h2⟩ := srcRun_img_partial H ops 0 [] ⟨Nat.le_refl _, fun d hd => by cases hd⟩ (by omega)
  constructor
  · intro hk
    exact h1 ((rmIfKnown_iff ops []).2 fun pre dev id post hp => (lookup_history pre dev).1.2 (hk pre dev id post hp))
  · rintro ⟨pre, dev, id, post, hp, hn⟩
    exact h2 fun hr => hn ((lookup_history pre dev).1.1 ((rmIfKnown_iff ops []).1 hr pre dev id post hp))

/-- … and, with the injective image, the source-level end state DETERMINES the model state: whatever member record `stSt fullImg t`
    the translated run ends in, `t` is the model's run, so its vectors read as the latest-message map and satisfy the invariant -/
theorem src_run_determines_partial (ops : List StOp) (h64 : ops.length < 2 ^ 64) (t : StatusSt)
    (h : srcRun fullImg Status_default ops = some (stSt fullImg t)) :
    t = statusRun [] ops ∧ absSt t = specRun (fun _ => none) ops ∧ Inv t := by
  obtain ⟨h1, h2⟩ := src_run_refines_partial obs_fullImg ops h64
  have ht : t = statusRun [] ops := by
    apply Classical.byContradiction
    intro hne
    by_cases hk : ∀ pre dev id post, ops = pre ++ .rmIf dev id :: post → Known pre dev
    · rw [h1 hk] at h
      exact hne (stSt_fullImg_injective _ _ (Option.some.inj h)).symm
    · have : ∃ pre dev id post, ops = pre ++ .rmIf dev id :: post ∧ ¬ Known pre dev := by
        apply Classical.byContradiction
        intro hne'
        apply hk
        intro pre dev id post hp
        apply Classical.byContradiction
        intro hn
        exact hne' ⟨pre, dev, id, post, hp, hn⟩
      rw [h2 this] at h
      cases h
  rw [ht]
  exact ⟨rfl, status_refines ops⟩

/-! ## §5 concrete evaluations (finding 7) -/

deriving instance DecidableEq for StOp

/-- capture-module status packet of device `dev`, distinguishable by its timestamp -/
def cmT (dev ts : Nat) : Packet := { payload := some ⟨tyCm, []⟩, deviceId := dev, ts := ts }
/-- interface status packet of device `dev` for interface `ifId` (< 256), distinguishable by its timestamp -/
def ifT (dev ifId ts : Nat) : Packet := { payload := some ⟨tyIf, [0, 0, 0, UInt8.ofNat ifId]⟩, deviceId := dev, ts := ts }
/-- a CAN data packet of device `dev` -/
def canT (dev ts : Nat) : Packet := { payload := some ⟨tyCan, []⟩, deviceId := dev, ts := ts }

/-- interface message before the device is known (dropped); devices 1 and 2; interface 7 of device 1 reported three times
    (timestamps 3, 6 — the latest wins), interface 8 reported and removed; a data packet; device 1's capture-module message
    renewed (7); device 2 removed and an interface message for it afterwards (dropped) -/
def exOps : List StOp :=
  [.update (ifT 1 7 1), .update (cmT 1 2), .update (ifT 1 7 3), .update (cmT 2 4), .update (ifT 1 8 5), .update (ifT 1 7 6),
   .update (canT 1 100), .update (cmT 1 7), .rmIf 1 8, .update (ifT 2 7 8), .rmDev 2, .update (ifT 2 7 9)]

/-- the vectors: one device entry (device 1, packet of time 7), one interface entry (interface 7, packet of time 6) -/
example : (statusRun [] exOps).map (fun d => (d.pkt.deviceId, d.pkt.ts, d.ifs.map fun x => (x.id, x.pkt.ts))) =
    [(1, 7, [(7, 6)])] := by decide +kernel
/-- the whole stored packets are the sent ones -/
example : statusRun [] exOps = [⟨cmT 1 7, [⟨7, ifT 1 7 6⟩]⟩] := by decide +kernel
/-- the abstraction and the specification evaluated at points -/
example : (absSt (statusRun [] exOps) 1).map (fun e => (e.1, e.2 7, e.2 8)) = some (cmT 1 7, some (ifT 1 7 6), none) ∧
    (absSt (statusRun [] exOps) 2).isNone := by decide +kernel
example : (specRun (fun _ => none) exOps 1).map (fun e => (e.1, e.2 7, e.2 8)) = some (cmT 1 7, some (ifT 1 7 6), none) ∧
    (specRun (fun _ => none) exOps 2).isNone := by decide +kernel
/-- the closed form on the history (most recent first) -/
example : cmHist 1 exOps.reverse = some (cmT 1 7) ∧ ifHist 1 7 exOps.reverse = some (ifT 1 7 6) ∧
    ifHist 1 8 exOps.reverse = none ∧ cmHist 2 exOps.reverse = none ∧ ifHist 2 7 exOps.reverse = none := by decide +kernel
/-- lookups: device 1 at index 0, device 2 → element count 1; interface 7 at 0, interface 8 → its element count 1 -/
example : indexOfDev (statusRun [] exOps) 1 = 0 ∧ indexOfDev (statusRun [] exOps) 2 = 1 ∧
    ((statusRun [] exOps)[0]?).map (fun d => (d.indexOfIf 7, d.indexOfIf 8)) = some (0, 1) := by decide +kernel

/-- the history predicates are satisfiable on it (and refutable: device 2 is not known at the end) -/
example : Known exOps 1 ∧ CmHistory exOps 1 (cmT 1 7) ∧ IfHistory exOps 1 7 (ifT 1 7 6) ∧ ¬ Known exOps 2 ∧
    ¬ CmHistory exOps 1 (cmT 1 2) ∧ ¬ IfHistory exOps 1 7 (ifT 1 7 3) ∧ ∀ p, ¬ IfHistory exOps 1 8 p :=
  ⟨(spec_known_iff ..).1 (by decide +kernel), (spec_cm_iff ..).1 (by decide +kernel), (spec_if_iff ..).1 (by decide +kernel),
   fun h => absurd ((spec_known_iff ..).2 h) (by decide +kernel), fun h => absurd ((spec_cm_iff ..).2 h) (by decide +kernel),
   fun h => absurd ((spec_if_iff ..).2 h) (by decide +kernel),
   fun p h => by have := (spec_if_iff ..).2 h; rw [show (specRun (fun _ => none) exOps 1).bind (fun e => e.2 8) = none by decide +kernel] at this; cases this⟩

/-- an explicit witness for `CmHistory`: the decomposition the property's text describes -/
example : CmHistory exOps 1 (cmT 1 7) :=
  ⟨exOps.take 7, exOps.drop 8, by decide +kernel, ⟨by decide, by decide⟩,
   ⟨by decide +kernel, by decide +kernel⟩,
   fun q hq => by
     simp only [exOps, List.drop_succ_cons, List.drop_zero, List.mem_cons, StOp.update.injEq, reduceCtorEq, false_or,
       List.mem_nil_iff, or_false] at hq
     rcases hq with rfl | rfl <;> decide⟩

example := observe_run exOps 1
example := lookup_history exOps 1
/-- the count theorem's hypotheses are satisfiable: `[1]` enumerates the keys -/
example : (statusRun [] exOps).length = [1].length :=
  count_is_keys _ (status_refines exOps).2 [1] (by decide) fun dev => by
    rw [entries_are_keys _ (status_refines exOps).2,
      show (statusRun [] exOps).map (·.pkt.deviceId) = [1] by decide +kernel]

theorem exOps_rmIfKnown : RmIfKnown [] exOps := by
  simp only [exOps, RmIfKnown]
  repeat' apply And.intro
  all_goals first | trivial | (intro dev id h; cases h <;> decide +kernel)

example : srcRun oPkt Status_default exOps = some (stSt oPkt [⟨cmT 1 7, [⟨7, ifT 1 7 6⟩]⟩]) := by
  have := (srcRun_img_partial obs_oPkt exOps 0 [] ⟨Nat.le_refl _, fun d hd => by cases hd⟩ (by decide)).1 exOps_rmIfKnown
  rw [show statusRun [] exOps = [⟨cmT 1 7, [⟨7, ifT 1 7 6⟩]⟩] by decide +kernel] at this
  exact this


/-- THE TEXT'S AMBIGUITY, MADE EXPLICIT (not a violation).  An interface status message that arrives BEFORE the device's first
    capture-module status message is "seen since the device was last removed or cleared" (it never was), yet it is NOT stored:
    the clause "messages for unknown devices change nothing" wins, and `IfHistory` says so by demanding `Known before dev`.
    Here interface 7 of device 1 is reported at time 1, the device becomes known at time 2: the device has an entry, the
    interface has none — in the tracker, in the map, and at source level. -/
theorem if_before_cm_not_stored :
    statusRun [] [.update (ifT 1 7 1), .update (cmT 1 2)] = [⟨cmT 1 2, []⟩] ∧
    (specRun (fun _ => none) [.update (ifT 1 7 1), .update (cmT 1 2)] 1).map (fun e => (e.1, e.2 7)) = some (cmT 1 2, none) ∧
    ∀ p, ¬ IfHistory [.update (ifT 1 7 1), .update (cmT 1 2)] 1 7 p := by
  refine ⟨by decide +kernel, by decide +kernel, fun p h => ?_⟩
  have := (spec_if_iff ..).2 h
  rw [show (specRun (fun _ => none) [.update (ifT 1 7 1), .update (cmT 1 2)] 1).bind (fun e => e.2 7) = none
    by decide +kernel] at this
  cases this

/-! ### the remaining theorems on literals -/

example := lookup_dev_spec (statusRun [] exOps) 1
example := lookup_if_spec ⟨cmT 1 7, [⟨7, ifT 1 7 6⟩]⟩ 8
example := elements_are_values _ (status_refines exOps).2
example : statusUpdate (statusRun [] exOps) (canT 1 5) = statusRun [] exOps :=
  update_other_kind_payload _ _ ⟨tyCan, []⟩ rfl (by decide) (by decide)
example := update_no_payload_totalised (statusRun [] exOps) Packet.dflt rfl
example : statusRemoveIf (statusRun [] exOps) 2 7 = statusRun [] exOps :=
  rmIf_unknown_model_noop _ 2 7 (by decide +kernel)
example := rmIf_known_step (statusRun [] exOps) 1 7 (status_refines exOps).2 _ _
  ((elements_are_values _ (status_refines exOps).2 ⟨cmT 1 7, [⟨7, ifT 1 7 6⟩]⟩ (by decide +kernel)).1)
example : Status_update_obj (stSt fullImg (statusRun [] exOps)) (fullImg (canT 1 5)) =
    some (stSt fullImg (statusRun [] exOps), ()) :=
  update_other_kind_src obs_fullImg _ _ ⟨tyCan, []⟩ rfl (by decide) (by decide)
example : Status_update_obj (stSt oPkt (statusRun [] exOps)) (oPkt (ifT 2 7 9)) = some (stSt oPkt (statusRun [] exOps), ()) :=
  update_unknown_device_src obs_oPkt _ _ (by decide +kernel) (by decide)

/-- the 3-entry table is NOT injective (two packets differing in their timestamp have the same table), `fullImg` is -/
example : oPkt (cmT 1 2) = oPkt (cmT 1 3) ∧ fullImg (cmT 1 2) ≠ fullImg (cmT 1 3) :=
  ⟨rfl, fun h => absurd (fullImg_injective _ _ h) (by decide)⟩
example := stored_copy_exact Packet.dflt (cmT 1 7)
example : InterfaceStatus_getInterfaceId_obj (ifSt oPkt ⟨7, ifT 1 7 6⟩) = some (ifSt oPkt ⟨7, ifT 1 7 6⟩, 7) :=
  getInterfaceId_src oPkt _
example := getInterfaceId_run_src exOps ⟨cmT 1 7, [⟨7, ifT 1 7 6⟩]⟩ (by decide +kernel) ⟨7, ifT 1 7 6⟩ (by decide +kernel)
example := elem_read_src_partial fullImg (statusRun [] exOps) 0

/-- the whole-run theorem's hypotheses are satisfiable on `exOps` (its one `removeInterfaceById` meets the known device 1) … -/
theorem exOps_rmIf_known : ∀ pre dev id post, exOps = pre ++ .rmIf dev id :: post → Known pre dev :=
  fun pre dev id post hp => (lookup_history pre dev).1.1 ((rmIfKnown_iff exOps []).1 exOps_rmIfKnown pre dev id post hp)
example : srcRun fullImg Status_default exOps = some (stSt fullImg [⟨cmT 1 7, [⟨7, ifT 1 7 6⟩]⟩]) := by
  have := (src_run_refines_partial obs_fullImg exOps (by decide)).1 exOps_rmIf_known
  rw [show statusRun [] exOps = [⟨cmT 1 7, [⟨7, ifT 1 7 6⟩]⟩] by decide +kernel] at this
  exact this
example := src_run_determines_partial exOps (by decide) (statusRun [] exOps)
  ((src_run_refines_partial obs_fullImg exOps (by decide)).1 exOps_rmIf_known)
/-- … and `removeInterfaceById` on a device without entry makes the source-level run undefined (`devices[size]`) -/
example : srcRun oPkt Status_default [.update (cmT 1 2), .rmIf 2 7] = none :=
  (src_run_refines_partial obs_oPkt _ (by decide)).2
    ⟨[.update (cmT 1 2)], 2, 7, [], rfl, fun h => absurd ((spec_known_iff ..).2 h) (by decide +kernel)⟩

end AsamCmp.C16S
