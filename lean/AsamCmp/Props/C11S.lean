/-
  C11S — closures of the review of C11 ("setting a field changes that field and nothing else").
  Only ADDITIONAL theorems about existing definitions; the few `def`s below are predicates / lists used in statements.
-/
import AsamCmp.Props.C11
import AsamCmp.Props.SrcFieldsA
import AsamCmp.Props.SrcFieldsB
import AsamCmp.Props.SrcFieldsC
import AsamCmp.Props.SrcFieldsD
import AsamCmp.Props.SrcLeftovers
import AsamCmp.Props.SrcBuilders
import AsamCmp.Props.SrcPacketValue
set_option linter.unusedVariables false
set_option linter.unusedSimpArgs false
namespace AsamCmp.C11S
open AsamCmp AsamCmp.C11

/-! ## A. the layout tables: extra kernel-checked facts (review item 4, second half) -/

/-- within one class a name denotes ONE field (so `ClassLayout.find`, which returns the first field of a name, returns THE field) -/
theorem tables_names_unique :
    Layout.all.all (fun c => c.fields.all fun f => c.fields.all fun g => !(f.name == g.name) || f == g) = true := by
  decide

/-- no table field is empty: `0 < bits` (so "in range" `v < 2 ^ bits` is never the trivial `v < 1`) and `0 < w` -/
theorem tables_bits_pos :
    Layout.all.all (fun c => c.fields.all fun f => decide (0 < f.bits) && decide (0 < f.w)) = true := by decide

theorem find_mem {c : ClassLayout} {n : String} {f : Field} (h : c.find n = some f) : f ∈ c.fields ∧ f.name = n := by
  unfold ClassLayout.find at h
  refine ⟨List.mem_of_find?_eq_some h, ?_⟩
  have := List.find?_some h
  simpa using this

/-- `find` is exact on every table: the field found under a field's name is that field -/
theorem find_of_mem {c : ClassLayout} (hc : c ∈ Layout.all) {f : Field} (hf : f ∈ c.fields) : c.find f.name = some f := by
  have hu := List.all_eq_true.mp tables_names_unique c hc
  cases h : c.find f.name with
  | none =>
    unfold ClassLayout.find at h
    rw [List.find?_eq_none] at h
    exact absurd (h f hf) (by simp)
  | some g =>
    obtain ⟨hg, hn⟩ := find_mem h
    have := List.all_eq_true.mp (List.all_eq_true.mp hu g hg) f hf
    simp only [hn, beq_self_eq_true, Bool.not_true, Bool.false_or, beq_iff_eq] at this
    rw [this]

theorem find_inj {c : ClassLayout} (hc : c ∈ Layout.all) {n n' : String} {f : Field}
    (h : c.find n = some f) (h' : c.find n' = some f) : n = n' := by
  rw [← (find_mem h).2, ← (find_mem h').2]

theorem table_fits {c : ClassLayout} (hc : c ∈ Layout.all) {f : Field} (hf : f ∈ c.fields) :
    f.shift + f.bits ≤ 8 * f.w ∧ f.off + f.w ≤ c.size ∧ 0 < f.w ∧ 0 < f.bits := by
  have hwf := List.all_eq_true.mp tables_wf c hc
  have hp := List.all_eq_true.mp (List.all_eq_true.mp tables_bits_pos c hc) f hf
  unfold ClassLayout.wf at hwf
  rw [Bool.and_eq_true] at hwf
  have := List.all_eq_true.mp hwf.1 f hf
  simp only [Field.fits, Bool.and_eq_true, decide_eq_true_eq] at this hp
  exact ⟨this.1.1, this.1.2, this.2, hp.1⟩

theorem table_fitsIn {c : ClassLayout} (hc : c ∈ Layout.all) {f : Field} (hf : f ∈ c.fields) {b : Bytes}
    (hb : c.size ≤ b.length) : FitsIn f b :=
  ⟨(table_fits hc hf).1, Nat.le_trans (table_fits hc hf).2.1 hb⟩

/-- two table fields of one class with disjoint bit ranges use the same word or byte-disjoint words -/
theorem table_wordsOk {c : ClassLayout} (hc : c ∈ Layout.all) {f g : Field} (hf : f ∈ c.fields) (hg : g ∈ c.fields)
    (hd : f.disjoint g = true) : WordsOk f g := by
  have hwo := List.all_eq_true.mp tables_words_ok c hc
  have hal := List.all_eq_true.mp tables_alias_overlap c hc
  unfold ClassLayout.wordsOk at hwo
  have h1 := List.all_eq_true.mp (List.all_eq_true.mp hwo f hf) g hg
  have h2 := List.all_eq_true.mp (List.all_eq_true.mp hal f hf) g hg
  rw [hd] at h2
  generalize (f.alias != "" && f.alias == g.alias) = a at h1 h2
  cases a with
  | true => simp at h2
  | false =>
    simp only [Bool.or_false, Bool.or_eq_true, Bool.and_eq_true, beq_iff_eq, decide_eq_true_eq] at h1
    unfold WordsOk
    omega

theorem disjoint_symm (f g : Field) : f.disjoint g = g.disjoint f := by
  unfold Field.disjoint; exact Bool.or_comm _ _

theorem wordsOk_symm {f g : Field} (h : WordsOk f g) : WordsOk g f := by
  unfold WordsOk at *; omega

/-! ## B. the headline theorem at full strength (review item 6)

  For every class of the library, every table field `f`, every in-range `v`, every prior state `b` that owns the header:
  `f` reads `v`; every OTHER table field reads what it read; every bit range `g` whatsoever that is disjoint from `f` — reserved bytes,
  unnamed bits of a shared word, data bytes — reads what it read; every BYTE outside `f`'s word (inside the header or behind it) is
  unchanged; the length is unchanged; writing back the old value / overwriting is idempotent. -/
theorem C11_all_classes_strong (c : ClassLayout) (hc : c ∈ Layout.all) (f : Field) (hf : f ∈ c.fields)
    (b : Bytes) (hb : c.size ≤ b.length) (v : Nat) (hv : v < 2 ^ f.bits) :
    getField f (setField f v b) = v ∧
    (∀ g ∈ c.fields, f.disjoint g = true → getField g (setField f v b) = getField g b) ∧
    (∀ g : Field, FitsIn g b → f.disjoint g = true → WordsOk f g → getField g (setField f v b) = getField g b) ∧
    (setField f v b).length = b.length ∧
    (∀ i, i < f.off ∨ f.off + f.w ≤ i → (setField f v b)[i]? = b[i]?) ∧
    setField f (getField f b) b = b ∧
    (∀ u, u < 2 ^ f.bits → setField f v (setField f u b) = setField f v b) := by
  have hF := table_fitsIn hc hf hb
  refine ⟨get_set_same f v b hF hv, (C11_all_classes c hc f hf b hb v hv).2.1,
    fun g hg hd hw => get_set_other f g v b hF hg hv hd hw, setField_length f v b hF,
    fun i hi => set_frame f v b hF i hi, set_get_id f b hF, fun u hu => set_set_same f u v b hF hu hv⟩

/-- the table field's in-range values are a non-trivial set: at least 0 and 1 -/
theorem in_range_nontrivial (c : ClassLayout) (hc : c ∈ Layout.all) (f : Field) (hf : f ∈ c.fields) : 1 < 2 ^ f.bits :=
  Nat.one_lt_two_pow (by have := (table_fits hc hf).2.2.2; omega)

/-! ## C. any number of writes, in any order (P5 "in any order", beyond two writes) -/

/-- a sequence of writes -/
def applyAll (ws : List (Field × Nat)) (b : Bytes) : Bytes := ws.foldl (fun b w => setField w.1 w.2 b) b

/-- two writes that do not interfere: disjoint bit ranges, same word or byte-disjoint words -/
def Indep (x y : Field × Nat) : Prop := x.1.disjoint y.1 = true ∧ WordsOk x.1 y.1

theorem Indep.symm {x y : Field × Nat} (h : Indep x y) : Indep y x :=
  ⟨by rw [disjoint_symm]; exact h.1, wordsOk_symm h.2⟩

/-- a write that fits an object of `n` bytes, with an in-range value -/
def WOk (n : Nat) (w : Field × Nat) : Prop := w.1.shift + w.1.bits ≤ 8 * w.1.w ∧ w.1.off + w.1.w ≤ n ∧ w.2 < 2 ^ w.1.bits

theorem applyAll_cons (w : Field × Nat) (ws : List (Field × Nat)) (b : Bytes) :
    applyAll (w :: ws) b = applyAll ws (setField w.1 w.2 b) := rfl

theorem applyAll_length (ws : List (Field × Nat)) (b : Bytes) (h : ∀ w ∈ ws, WOk b.length w) :
    (applyAll ws b).length = b.length := by
  induction ws generalizing b with
  | nil => rfl
  | cons x l ih =>
    have hx := h x (List.mem_cons_self ..)
    have hl : (setField x.1 x.2 b).length = b.length := setField_length' x.2 hx.2.1
    rw [applyAll_cons, ih _ (by rw [hl]; exact fun w hw => h w (List.mem_cons_of_mem _ hw)), hl]

/-- pairwise independent in-range writes give the same object in every order -/
theorem applyAll_perm {ws ws' : List (Field × Nat)} (hp : ws.Perm ws') (b : Bytes)
    (hok : ∀ w ∈ ws, WOk b.length w) (hpw : ws.Pairwise Indep) : applyAll ws b = applyAll ws' b := by
  induction hp generalizing b with
  | nil => rfl
  | cons x _ ih =>
    have hx := hok x (List.mem_cons_self ..)
    have hl : (setField x.1 x.2 b).length = b.length := setField_length' x.2 hx.2.1
    rw [applyAll_cons, applyAll_cons]
    exact ih _ (by rw [hl]; exact fun w hw => hok w (List.mem_cons_of_mem _ hw)) (List.Pairwise.of_cons hpw)
  | swap x y l =>
    have hy := hok y (List.mem_cons_self ..)
    have hx := hok x (List.mem_cons_of_mem _ (List.mem_cons_self ..))
    have hi : Indep y x := List.rel_of_pairwise_cons hpw (List.mem_cons_self ..)
    rw [applyAll_cons, applyAll_cons, applyAll_cons, applyAll_cons]
    congr 1
    exact (set_set_comm y.1 x.1 x.2 y.2 b ⟨hy.1, hy.2.1⟩ ⟨hx.1, hx.2.1⟩ hx.2.2 hy.2.2 hi.1 hi.2).symm
  | trans h1 h2 ih1 ih2 =>
    rw [ih1 b hok hpw]
    exact ih2 b (fun w hw => hok w (h1.mem_iff.mpr hw)) ((h1.pairwise_iff Indep.symm).mp hpw)

/-- a bit range independent of every write reads the same afterwards -/
theorem applyAll_get_other (ws : List (Field × Nat)) (b : Bytes) (g : Field) (hok : ∀ w ∈ ws, WOk b.length w)
    (hg : g.shift + g.bits ≤ 8 * g.w) (hi : ∀ w ∈ ws, w.1.disjoint g = true ∧ WordsOk w.1 g) :
    getField g (applyAll ws b) = getField g b := by
  induction ws generalizing b with
  | nil => rfl
  | cons x l ih =>
    have hx := hok x (List.mem_cons_self ..)
    have hl : (setField x.1 x.2 b).length = b.length := setField_length' x.2 hx.2.1
    have hxi := hi x (List.mem_cons_self ..)
    rw [applyAll_cons, ih _ (by rw [hl]; exact fun w hw => hok w (List.mem_cons_of_mem _ hw))
      (fun w hw => hi w (List.mem_cons_of_mem _ hw))]
    exact get_set_other' hx.1 hx.2.1 hg hx.2.2 hxi.1 hxi.2

/-- every byte outside all the written words is unchanged -/
theorem applyAll_frame (ws : List (Field × Nat)) (b : Bytes) (i : Nat) (hok : ∀ w ∈ ws, WOk b.length w)
    (hi : ∀ w ∈ ws, i < w.1.off ∨ w.1.off + w.1.w ≤ i) : (applyAll ws b)[i]? = b[i]? := by
  induction ws generalizing b with
  | nil => rfl
  | cons x l ih =>
    have hx := hok x (List.mem_cons_self ..)
    have hl : (setField x.1 x.2 b).length = b.length := setField_length' x.2 hx.2.1
    rw [applyAll_cons, ih _ (by rw [hl]; exact fun w hw => hok w (List.mem_cons_of_mem _ hw))
      (fun w hw => hi w (List.mem_cons_of_mem _ hw))]
    exact set_frame' x.2 hx.2.1 (hi x (List.mem_cons_self ..))

/-- after pairwise independent writes every written field reads its value -/
theorem applyAll_get_written (ws : List (Field × Nat)) (b : Bytes) (hok : ∀ w ∈ ws, WOk b.length w)
    (hpw : ws.Pairwise Indep) : ∀ w ∈ ws, getField w.1 (applyAll ws b) = w.2 := by
  induction ws generalizing b with
  | nil => intro w hw; cases hw
  | cons x l ih =>
    have hx := hok x (List.mem_cons_self ..)
    have hl : (setField x.1 x.2 b).length = b.length := setField_length' x.2 hx.2.1
    have hokl : ∀ w ∈ l, WOk (setField x.1 x.2 b).length w := by
      rw [hl]; exact fun w hw => hok w (List.mem_cons_of_mem _ hw)
    intro w hw
    rw [applyAll_cons]
    rcases List.mem_cons.mp hw with rfl | hw
    · rw [applyAll_get_other l _ w.1 hokl hx.1
        (fun y hy => (List.rel_of_pairwise_cons hpw hy).symm)]
      exact get_set_same' hx.1 hx.2.1 hx.2.2
    · exact ih _ hokl (List.Pairwise.of_cons hpw) w hw

/-- the class-level reading: ANY list of writes to pairwise disjoint table fields of one class, with in-range values, on any
    object that owns the header: every order gives the same object, each written field reads its value, every other disjoint
    table field and every byte outside the written words is unchanged -/
theorem C11_any_order (c : ClassLayout) (hc : c ∈ Layout.all) (ws ws' : List (Field × Nat)) (hp : ws.Perm ws')
    (b : Bytes) (hb : c.size ≤ b.length) (hin : ∀ w ∈ ws, w.1 ∈ c.fields ∧ w.2 < 2 ^ w.1.bits)
    (hdis : ws.Pairwise fun x y => x.1.disjoint y.1 = true) :
    applyAll ws b = applyAll ws' b ∧
    (∀ w ∈ ws, getField w.1 (applyAll ws b) = w.2) ∧
    (∀ g ∈ c.fields, (∀ w ∈ ws, w.1.disjoint g = true) → getField g (applyAll ws b) = getField g b) ∧
    (applyAll ws b).length = b.length ∧
    (∀ i, (∀ w ∈ ws, i < w.1.off ∨ w.1.off + w.1.w ≤ i) → (applyAll ws b)[i]? = b[i]?) := by
  have hok : ∀ w ∈ ws, WOk b.length w := fun w hw =>
    ⟨(table_fits hc (hin w hw).1).1, Nat.le_trans (table_fits hc (hin w hw).1).2.1 hb, (hin w hw).2⟩
  have hpw : ws.Pairwise Indep := by
    rw [List.pairwise_iff_forall_sublist] at hdis ⊢
    intro x y hs
    have hx : x ∈ ws := hs.subset (List.mem_cons_self ..)
    have hy : y ∈ ws := hs.subset (List.mem_cons_of_mem _ (List.mem_cons_self ..))
    exact ⟨hdis hs, table_wordsOk hc (hin x hx).1 (hin y hy).1 (hdis hs)⟩
  refine ⟨applyAll_perm hp b hok hpw, applyAll_get_written ws b hok hpw, fun g hg hd => ?_, applyAll_length ws b hok,
    fun i hi => applyAll_frame ws b i hok hi⟩
  exact applyAll_get_other ws b g hok (table_fits hc hg).1
    (fun w hw => ⟨hd w hw, table_wordsOk hc (hin w hw).1 hg (hd w hw)⟩)


/-! ## D. source level, composed: run the translated SETTER, then run a translated GETTER on the memory it leaves
      (review items 4 and 3: P1–P4 end to end, for every class that has accessor entries)

  `classEntries`: the 14 wire-record classes with the entry lists generated from the C++ on every run.  `all_src` collects the 14
  registered `*_src` theorems. -/
open AsamCmp.Src.Bit AsamCmp.SrcGen AsamCmp.SrcFields

def classEntries : List (ClassLayout × List Entry) :=
  [(Layout.c_cmphdr, entries_cmphdr), (Layout.c_msghdr, entries_msghdr), (Layout.c_can, entries_can),
   (Layout.c_canfd, entries_canfd), (Layout.c_lin, entries_lin), (Layout.c_eth, entries_eth),
   (Layout.c_analog, entries_analog), (Layout.c_cm, entries_cm), (Layout.c_if, entries_if),
   (Layout.c_tecmphdr, entries_tecmphdr), (Layout.c_tecmpcan, entries_tecmpcan), (Layout.c_tecmplin, entries_tecmplin),
   (Layout.c_tecmpif, entries_tecmpif), (Layout.c_tecmpcm, entries_tecmpcm)]

theorem classEntries_in_tables : ∀ ce ∈ classEntries, ce.1 ∈ Layout.all := by
  intro ce h
  simp only [classEntries, List.mem_cons, List.not_mem_nil, or_false] at h
  rcases h with h | h | h | h | h | h | h | h | h | h | h | h | h | h <;> subst h <;>
    simp [Layout.all]

theorem all_src : ∀ ce ∈ classEntries, ∀ e ∈ ce.2, ∃ f, ce.1.find e.field = some f ∧ e.acc.Holds ce.1.size f := by
  intro ce h
  simp only [classEntries, List.mem_cons, List.not_mem_nil, or_false] at h
  rcases h with h | h | h | h | h | h | h | h | h | h | h | h | h | h <;> subst h
  · exact cmphdr_src
  · exact msghdr_src
  · exact can_src
  · exact canfd_src
  · exact lin_src
  · exact eth_src
  · exact analog_src
  · exact cm_src
  · exact if_src
  · exact tecmphdr_src
  · exact tecmpcan_src
  · exact tecmplin_src
  · exact tecmpif_src
  · exact tecmpcm_src

/-- the setter entry `a`, run on memory `M` for the object at `this` with the value `v`, is defined and leaves memory `M'`.
    `.set p k sh`: `v` is passed pre-shifted as argument `k` (all earlier arguments 0); `.setConst p c`: the flag setter instantiated
    with its constants, `v` is the constant -/
def SetRuns (a : Acc) (this : Nat) (M : Bytes) (v : Nat) (M' : Bytes) : Prop :=
  match a with
  | .set p k sh => ∃ st, Src.Bit.run this (List.replicate k 0 ++ [v * 2 ^ sh]) ⟨M, []⟩ p.1 = some st ∧ st.m = M'
  | .setConst p c => v = c ∧ ∃ st, Src.Bit.run this [] ⟨M, []⟩ p.1 = some st ∧ st.m = M'
  | _ => False

/-- the getter entry `a`, run on memory `M` for the object at `this`, is defined, leaves the memory as it is and reports the field
    value `r` (`.get`: returns `r`, shifted as the API does; `.getNe0`: returns `r != 0`) -/
def GetRuns (a : Acc) (this : Nat) (M : Bytes) (r : Nat) : Prop :=
  match a with
  | .get p sh => ∃ st, Src.Bit.run this [] ⟨M, []⟩ p.1 = some st ∧ st.m = M ∧ st.val p.2 = r * 2 ^ sh
  | .getNe0 p => ∃ st, Src.Bit.run this [] ⟨M, []⟩ p.1 = some st ∧ st.m = M ∧ (st.val p.2 ≠ 0 ↔ r ≠ 0)
  | _ => False

/-- the values a setter entry can be asked to write: any (in-range) value for `.set`, the constant for `.setConst` -/
def Writes (a : Acc) (v : Nat) : Prop :=
  match a with
  | .set _ _ _ => True
  | .setConst _ c => v = c
  | _ => False

def IsGetter (a : Acc) : Prop :=
  match a with
  | .get _ _ => True
  | .getNe0 _ => True
  | _ => False

theorem getD_replicate_snoc (k x : Nat) : (List.replicate k 0 ++ [x]).getD k 0 = x := by
  simp [List.getD_eq_getElem?_getD, List.getElem?_append_right]

theorem getD_replicate_snoc_ne (k x k' : Nat) (h : k' ≠ k) : (List.replicate k 0 ++ [x]).getD k' 0 = 0 := by
  rw [List.getD_eq_getElem?_getD]
  by_cases hk : k' < k
  · rw [List.getElem?_append_left (by simpa using hk)]
    simp [hk]
  · rw [List.getElem?_eq_none (by simp; omega)]
    rfl

theorem holds_setRuns {size : Nat} {f : Field} {a : Acc} (h : a.Holds size f) {M : Bytes} {this v : Nat}
    (hM : this + size ≤ M.length) (hv : v < 2 ^ f.bits) (hw : Writes a v) :
    SetRuns a this M v (writeAt M this (setField f v (slice M this size))) := by
  cases a with
  | get p sh => exact hw.elim
  | getNe0 p => exact hw.elim
  | set p k sh =>
    obtain ⟨st, h1, h2⟩ := h M this hM (List.replicate k 0 ++ [v * 2 ^ sh]) v hv (getD_replicate_snoc k _)
      (fun k' hk' => getD_replicate_snoc_ne k _ k' hk')
    exact ⟨st, h1, h2⟩
  | setConst p c =>
    have hc : v = c := hw
    subst hc
    obtain ⟨st, h1, h2⟩ := h M this hM
    exact ⟨rfl, st, h1, h2⟩

theorem holds_getRuns {size : Nat} {f : Field} {a : Acc} (h : a.Holds size f) {M : Bytes} {this : Nat}
    (hM : this + size ≤ M.length) (hg : IsGetter a) : GetRuns a this M (getField f (slice M this size)) := by
  cases a with
  | get p sh => exact h M this hM
  | getNe0 p => exact h M this hM
  | set p k sh => exact hg.elim
  | setConst p c => exact hg.elim

/-- bytes of the memory after the header at `this` was replaced by `setField f v` of itself: only `f`'s word can differ -/
theorem writeAt_setField_frame {M : Bytes} {this size : Nat} {f : Field} (v : Nat) (hM : this + size ≤ M.length)
    (hf : f.off + f.w ≤ size) (i : Nat) (hi : i < this + f.off ∨ this + f.off + f.w ≤ i) :
    (writeAt M this (setField f v (slice M this size)))[i]? = M[i]? := by
  have hsl : (slice M this size).length = size := slice_length hM
  have hl : (setField f v (slice M this size)).length = size := by rw [setField_length' v (by omega), hsl]
  rw [getElem?_writeAt (by omega), hl]
  by_cases h1 : i < this
  · simp only [h1, if_true]
  · by_cases h2 : i < this + size
    · simp only [h1, h2, if_true, if_false]
      rw [set_frame' v (by omega) (by omega), getElem?_slice, if_pos (by omega)]
      congr 1; omega
    · simp only [h1, h2, if_false]

/-- **P1–P4 end to end on the translated code**, for every class with accessor entries, every setter entry `eS` and getter entry
    `eG` of the class (the functions the API glue names for the fields), every memory `M`, every object position `this` whose header
    lies inside the memory ("any prior state"), every in-range value `v` the setter can be given:
    the translated setter is defined (no undefined behaviour) and leaves the memory `M'` with
    * `M'` = `M` with the header replaced by `setField` of the table field (the model C11 is proved about),
    * same size, and every byte outside the field's word unchanged — other header fields, reserved bytes, the data bytes behind the
      header, and every other object in memory (the owning `Payload`'s `type` member, the vector's bookkeeping, …),
    * the translated getter of the SAME field, run on `M'`, is defined, does not write, and reports `v`,
    * the translated getter of any table field with a DISJOINT bit range, run on `M'`, reports exactly what it reports on `M`. -/
theorem set_then_get_src (ce : ClassLayout × List Entry) (hce : ce ∈ classEntries) (eS eG : Entry) (hS : eS ∈ ce.2)
    (hG : eG ∈ ce.2) (fS fG : Field) (hfS : ce.1.find eS.field = some fS) (hfG : ce.1.find eG.field = some fG)
    (M : Bytes) (this : Nat) (hM : this + ce.1.size ≤ M.length) (v : Nat) (hv : v < 2 ^ fS.bits)
    (hw : Writes eS.acc v) (hg : IsGetter eG.acc) :
    ∃ M', SetRuns eS.acc this M v M' ∧
      M' = writeAt M this (setField fS v (slice M this ce.1.size)) ∧
      M'.length = M.length ∧
      (∀ i, i < this + fS.off ∨ this + fS.off + fS.w ≤ i → M'[i]? = M[i]?) ∧
      (eG.field = eS.field → GetRuns eG.acc this M' v) ∧
      (fS.disjoint fG = true →
        GetRuns eG.acc this M (getField fG (slice M this ce.1.size)) ∧
        GetRuns eG.acc this M' (getField fG (slice M this ce.1.size))) := by
  have hc := classEntries_in_tables ce hce
  obtain ⟨fS', hfS', hHS⟩ := all_src ce hce eS hS
  obtain ⟨fG', hfG', hHG⟩ := all_src ce hce eG hG
  rw [hfS] at hfS'; cases hfS'
  rw [hfG] at hfG'; cases hfG'
  have hmS := (find_mem hfS).1
  have hmG := (find_mem hfG).1
  have hsl : (slice M this ce.1.size).length = ce.1.size := slice_length hM
  have hfit := table_fits hc hmS
  have hl : (setField fS v (slice M this ce.1.size)).length = ce.1.size := by
    rw [setField_length' v (by omega), hsl]
  have hlen : (writeAt M this (setField fS v (slice M this ce.1.size))).length = M.length :=
    writeAt_length (by omega)
  have hslice' : slice (writeAt M this (setField fS v (slice M this ce.1.size))) this ce.1.size
      = setField fS v (slice M this ce.1.size) := by
    have := slice_writeAt_same (b := M) (off := this) (x := setField fS v (slice M this ce.1.size)) (by omega)
    rwa [hl] at this
  have hstrong := C11_all_classes_strong ce.1 hc fS hmS (slice M this ce.1.size) (by omega) v hv
  refine ⟨_, holds_setRuns hHS hM hv hw, rfl, hlen, fun i hi => writeAt_setField_frame v hM hfit.2.1 i hi, ?_, ?_⟩
  · intro hname
    have hGS : fG = fS := by
      rw [hname, hfS] at hfG; cases hfG; rfl
    subst hGS
    have := holds_getRuns hHG (M := writeAt M this (setField fG v (slice M this ce.1.size))) (this := this)
      (by rw [hlen]; exact hM) hg
    rw [hslice', hstrong.1] at this
    exact this
  · intro hd
    refine ⟨holds_getRuns hHG hM hg, ?_⟩
    have := holds_getRuns hHG (M := writeAt M this (setField fS v (slice M this ce.1.size))) (this := this)
      (by rw [hlen]; exact hM) hg
    rw [hslice', hstrong.2.1 fG hmG hd] at this
    exact this


/-- **P5 on the translated code: two setters in either order.**  For two setter entries of one class whose table fields have
    disjoint bit ranges (two flags of one word, a flag and a value field, …), every memory, every object position, in-range values:
    running A then B is defined and leaves exactly the memory that running B then A leaves — the header with both fields written
    (`setField` twice), everything else untouched.  With `b = 0` this is "clear a flag after / before setting its neighbour". -/
theorem two_setters_any_order_src (ce : ClassLayout × List Entry) (hce : ce ∈ classEntries) (eA eB : Entry) (hA : eA ∈ ce.2)
    (hB : eB ∈ ce.2) (fA fB : Field) (hfA : ce.1.find eA.field = some fA) (hfB : ce.1.find eB.field = some fB)
    (hd : fA.disjoint fB = true) (M : Bytes) (this : Nat) (hM : this + ce.1.size ≤ M.length) (a b : Nat)
    (ha : a < 2 ^ fA.bits) (hb : b < 2 ^ fB.bits) (hwa : Writes eA.acc a) (hwb : Writes eB.acc b) :
    ∃ M1 M12 M2 M21, SetRuns eA.acc this M a M1 ∧ SetRuns eB.acc this M1 b M12 ∧
      SetRuns eB.acc this M b M2 ∧ SetRuns eA.acc this M2 a M21 ∧ M12 = M21 ∧
      M12 = writeAt M this (setField fB b (setField fA a (slice M this ce.1.size))) := by
  have hc := classEntries_in_tables ce hce
  obtain ⟨fA', hfA', hHA⟩ := all_src ce hce eA hA
  obtain ⟨fB', hfB', hHB⟩ := all_src ce hce eB hB
  rw [hfA] at hfA'; cases hfA'
  rw [hfB] at hfB'; cases hfB'
  have hmA := (find_mem hfA).1
  have hmB := (find_mem hfB).1
  have hsl : (slice M this ce.1.size).length = ce.1.size := slice_length hM
  have hFA : FitsIn fA (slice M this ce.1.size) := table_fitsIn hc hmA (by omega)
  have hFB : FitsIn fB (slice M this ce.1.size) := table_fitsIn hc hmB (by omega)
  -- one step: a setter on `writeAt M this h` with `h.length = size`
  have step : ∀ (f : Field) (e : Entry) (hH : e.acc.Holds ce.1.size f) (hf : f ∈ ce.1.fields) (x : Nat) (hx : x < 2 ^ f.bits)
      (hw : Writes e.acc x) (h : Bytes) (hl : h.length = ce.1.size),
      SetRuns e.acc this (writeAt M this h) x (writeAt M this (setField f x h)) := by
    intro f e hH hf x hx hw h hl
    have hlen : (writeAt M this h).length = M.length := writeAt_length (by omega)
    have hs : slice (writeAt M this h) this ce.1.size = h := by
      have := slice_writeAt_same (b := M) (off := this) (x := h) (by omega)
      rwa [hl] at this
    have := holds_setRuns hH (M := writeAt M this h) (this := this) (v := x) (by rw [hlen]; exact hM) hx hw
    rw [hs, writeAt_writeAt_same (by omega)
      (by rw [setField_length' x (by have := (table_fits hc hf).2.1; omega), hl])] at this
    exact this
  have hself : writeAt M this (slice M this ce.1.size) = M := writeAt_slice_self hM
  have lA : (setField fA a (slice M this ce.1.size)).length = ce.1.size := by rw [setField_length' a hFA.2, hsl]
  have lB : (setField fB b (slice M this ce.1.size)).length = ce.1.size := by rw [setField_length' b hFB.2, hsl]
  have sA := step fA eA hHA hmA a ha hwa (slice M this ce.1.size) hsl
  have sB := step fB eB hHB hmB b hb hwb (slice M this ce.1.size) hsl
  rw [hself] at sA sB
  refine ⟨_, _, _, _, sA, step fB eB hHB hmB b hb hwb _ lA, sB, step fA eA hHA hmA a ha hwa _ lB, ?_, rfl⟩
  rw [set_set_comm fA fB b a _ hFA hFB hb ha hd (table_wordsOk hc hmA hmB hd)]

/-! ## E. coverage, strong form (review item 2: "every field", "both set and cleared")

  `coverageOk` (registered nowhere) asks for one "get" and one "set" entry per field.  `coverageStrong` asks, per table field, for a
  getter entry AND for setter entries that can write EVERY in-range value: a value setter (`.set`), or — for a one-bit flag — both
  constant instances (`setFlag(mask, true)` AND `setFlag(mask, false)`); the two-bit mask view `segMask` of the message header
  (same bits as `segmentType`, which has a value setter) needs its all-ones and its zero instance.  A generator run that drops the
  clearing branch of a flag setter, or leaves a class without entries, makes `coverage_strong` false. -/

def hasGet (es : List Entry) (n : String) : Bool :=
  es.any fun e => e.field == n && (match e.acc with | .get _ _ => true | .getNe0 _ => true | _ => false)
def hasSet (es : List Entry) (n : String) : Bool :=
  es.any fun e => e.field == n && (match e.acc with | .set _ _ _ => true | _ => false)
def hasConst (es : List Entry) (n : String) (c : Nat) : Bool :=
  es.any fun e => e.field == n && (match e.acc with | .setConst _ c' => c' == c | _ => false)

def coverageStrong (c : ClassLayout) (es : List Entry) : Bool :=
  c.fields.all fun f =>
    hasGet es f.name && hasConstOrSet f
where hasConstOrSet (f : Field) : Bool :=
    (hasSet es f.name && (f.name != "segMask")) ||
    (f.bits == 1 && hasConst es f.name 1 && hasConst es f.name 0) ||
    (f.name == "segMask" && hasConst es f.name (2 ^ f.bits - 1) && hasConst es f.name 0)

/-- every field of every one of the 14 classes is covered in the strong sense -/
theorem coverage_strong : classEntries.all (fun ce => coverageStrong ce.1 ce.2) = true := by decide +kernel

/-- the `what` tag of every entry says what its accessor is (the registered `coverageOk` looks at the tag only) -/
theorem entries_tags_ok :
    classEntries.all (fun ce => ce.2.all fun e =>
      match e.acc with
      | .get _ _ => e.what == "get" | .getNe0 _ => e.what == "get"
      | .set _ _ _ => e.what == "set" | .setConst _ _ => e.what == "set") = true := by decide +kernel

/-- `segMask` is the mask view of `segmentType`: the same bits of the same byte -/
example : Layout.c_msghdr.find "segMask" = some ⟨"segMask", 12, 1, 2, 2, ""⟩ ∧
    Layout.c_msghdr.find "segmentType" = some ⟨"segmentType", 12, 1, 2, 2, ""⟩ := by decide

theorem hasGet_sound {es : List Entry} {n : String} (h : hasGet es n = true) : ∃ e ∈ es, e.field = n ∧ IsGetter e.acc := by
  unfold hasGet at h
  rw [List.any_eq_true] at h
  obtain ⟨e, he, h⟩ := h
  rw [Bool.and_eq_true, beq_iff_eq] at h
  refine ⟨e, he, h.1, ?_⟩
  have h2 := h.2
  cases ha : e.acc <;> simp [ha, IsGetter] at h2 ⊢

theorem hasSet_sound {es : List Entry} {n : String} (h : hasSet es n = true) (v : Nat) :
    ∃ e ∈ es, e.field = n ∧ Writes e.acc v := by
  unfold hasSet at h
  rw [List.any_eq_true] at h
  obtain ⟨e, he, h⟩ := h
  rw [Bool.and_eq_true, beq_iff_eq] at h
  refine ⟨e, he, h.1, ?_⟩
  have h2 := h.2
  cases ha : e.acc <;> simp [ha, Writes] at h2 ⊢

theorem hasConst_sound {es : List Entry} {n : String} {c : Nat} (h : hasConst es n c = true) :
    ∃ e ∈ es, e.field = n ∧ Writes e.acc c := by
  unfold hasConst at h
  rw [List.any_eq_true] at h
  obtain ⟨e, he, h⟩ := h
  rw [Bool.and_eq_true, beq_iff_eq] at h
  refine ⟨e, he, h.1, ?_⟩
  have h2 := h.2
  cases ha : e.acc <;> simp [ha, Writes] at h2 ⊢
  exact h2.symm

/-- **every field can be written with every in-range value and read back, on the translated code** ("for every class and every
    field … boolean flags can be both set and cleared"): for every class, every table field `f`, every in-range `v`, every memory and
    object position there ARE a setter entry and a getter entry of that field in the generated list such that the translated setter
    is defined and yields the memory with the header `setField f v`-ed, and the translated getter run on that memory reports `v`.
    Hypothesis `hseg`: the name `segMask` has only the two mask instances `setCommonFlag(segmentMask, true / false)`, i.e. the
    values 3 and 0; every value of those two bits is covered under the name `segmentType`. -/
theorem every_field_roundtrip_src (ce : ClassLayout × List Entry) (hce : ce ∈ classEntries) (f : Field) (hf : f ∈ ce.1.fields)
    (v : Nat) (hv : v < 2 ^ f.bits) (hseg : f.name = "segMask" → v = 0 ∨ v = 2 ^ f.bits - 1)
    (M : Bytes) (this : Nat) (hM : this + ce.1.size ≤ M.length) :
    ∃ eS ∈ ce.2, ∃ eG ∈ ce.2, eS.field = f.name ∧ eG.field = f.name ∧
      ∃ M', SetRuns eS.acc this M v M' ∧ M' = writeAt M this (setField f v (slice M this ce.1.size)) ∧
        GetRuns eG.acc this M' v := by
  have hc := classEntries_in_tables ce hce
  have hcov := List.all_eq_true.mp (List.all_eq_true.mp coverage_strong ce hce) f hf
  rw [Bool.and_eq_true] at hcov
  obtain ⟨eG, hG, hGn, hGg⟩ := hasGet_sound hcov.1
  have hfind := find_of_mem hc hf
  have hw : ∃ eS ∈ ce.2, eS.field = f.name ∧ Writes eS.acc v := by
    have h2 := hcov.2
    unfold coverageStrong.hasConstOrSet at h2
    simp only [Bool.or_eq_true, Bool.and_eq_true, beq_iff_eq, bne_iff_ne, ne_eq] at h2
    rcases h2 with (⟨hs, _⟩ | ⟨⟨hb, h1⟩, h0⟩) | ⟨⟨hn, h1⟩, h0⟩
    · exact hasSet_sound hs v
    · rw [hb] at hv
      have : v = 0 ∨ v = 1 := by omega
      rcases this with rfl | rfl
      · exact hasConst_sound h0
      · exact hasConst_sound h1
    · rcases hseg hn with rfl | rfl
      · exact hasConst_sound h0
      · exact hasConst_sound h1
  obtain ⟨eS, hS, hSn, hSw⟩ := hw
  obtain ⟨M', h1, h2, _, _, h5, _⟩ := set_then_get_src ce hce eS eG hS hG f f (by rw [hSn]; exact hfind)
    (by rw [hGn]; exact hfind) M this hM v hv hSw hGg
  exact ⟨eS, hS, eG, hG, hSn, hGn, M', h1, h2, h5 (by rw [hGn, hSn])⟩


/-! ## F. the bulk writers `setData` keep the header (review item 5)

  `setData` is the only public writer of `dlc` / `dataLength`, of the data bytes and of the variable blocks.  Its exact byte
  transformer is proved at source level in Props/SrcBuilders.lean (registered for C13); here: it changes NO other header field —
  the header prefix in front of the length fields is byte-identical, hence every table field (and every reserved bit range) in it
  reads the same.  `hb`: the prior object owns a header (as in `C11_all_classes`). -/

theorem getField_of_take_eq {g : Field} {b b' : Bytes} {n : Nat} (h : b'.take n = b.take n) (hg : g.off + g.w ≤ n) :
    getField g b' = getField g b := by
  have hs : slice b' g.off g.w = slice b g.off g.w := by
    apply List.ext_getElem?
    intro i
    rw [getElem?_slice, getElem?_slice]
    by_cases hi : i < g.w
    · simp only [hi, if_true]
      have := congrArg (fun l => l[g.off + i]?) h
      simp only [List.getElem?_take] at this
      rw [if_pos (by omega), if_pos (by omega)] at this
      exact this
    · simp only [hi, if_false]
  unfold getField beAt
  rw [hs]

theorem take_writeAt {X x : Bytes} {off n : Nat} (hn : n ≤ off) (h : off + x.length ≤ X.length) :
    (writeAt X off x).take n = X.take n := by
  apply List.ext_getElem?
  intro i
  rw [List.getElem?_take, List.getElem?_take]
  by_cases hi : i < n
  · simp only [hi, if_true]
    exact getElem?_writeAt_out h (Or.inl (by omega))
  · simp only [hi, if_false]

theorem take_setTail {b d : Bytes} {hdr n : Nat} (hn : n ≤ hdr) (hb : hdr ≤ b.length) : (setTail hdr b d).take n = b.take n := by
  unfold setTail resize
  rw [if_pos hb, List.take_take, Nat.min_self, List.take_append_of_le_length (by rw [List.length_take]; omega),
    List.take_take, Nat.min_eq_left hn]

theorem setTail_length {b d : Bytes} {hdr : Nat} : (setTail hdr b d).length = hdr + d.length := by
  unfold setTail
  rw [List.length_append, List.length_take, resize_length, Nat.min_self]

theorem setTail_drop {b d : Bytes} {hdr : Nat} : (setTail hdr b d).drop hdr = d := by
  unfold setTail
  rw [List.drop_append_of_le_length (by rw [List.length_take, resize_length]; omega)]
  rw [List.drop_of_length_le (by rw [List.length_take, resize_length]; omega), List.nil_append]

/-- which header bytes each `setData` leaves byte-identical -/
theorem setData_header_prefix (b d : Bytes) :
    (16 ≤ b.length → (canSetData b d).take 14 = b.take 14) ∧
    (8 ≤ b.length → (linSetData b d).take 7 = b.take 7) ∧
    (6 ≤ b.length → (ethSetData b d).take 4 = b.take 4) ∧
    (16 ≤ b.length → (analogSetData b d).take 16 = b.take 16) := by
  refine ⟨fun h => ?_, fun h => ?_, fun h => ?_, fun h => ?_⟩
  · unfold canSetData
    rw [take_writeAt (by omega) (by rw [setTail_length]; simp), take_setTail (by omega) h]
  · unfold linSetData
    rw [take_writeAt (by omega) (by rw [setTail_length]; simp), take_setTail (by omega) h]
  · unfold ethSetData
    rw [take_writeAt (by omega) (by rw [setTail_length, beEnc_length]; omega), take_setTail (by omega) h]
  · unfold analogSetData
    rw [take_setTail (by omega) h]

theorem cmSetData_prefix (b desc serial hw sw vendor : Bytes) (h : 26 ≤ b.length) :
    (cmSetData b desc serial hw sw vendor).take 26 = b.take 26 := by
  unfold cmSetData resize
  rw [if_pos h, List.take_take, Nat.min_self]
  simp only [List.append_assoc]
  rw [List.take_append_of_le_length (by rw [List.length_take]; omega), List.take_take, Nat.min_self]

theorem ifSetData_prefix (b ids vendor : Bytes) (h : 36 ≤ b.length) : (ifSetData b ids vendor).take 36 = b.take 36 := by
  unfold ifSetData resize
  rw [if_pos h, List.take_take, Nat.min_self]
  simp only [List.append_assoc]
  rw [List.take_append_of_le_length (by rw [List.length_take]; omega), List.take_take, Nat.min_self]

/-- the table fields in front of the length fields (kernel-checked): all fields of the class except the ones `setData` is
    there to write -/
theorem tables_setData_prefix :
    (Layout.c_can.fields.all fun g => g.name == "dlc" || g.name == "dataLength" || decide (g.off + g.w ≤ 14)) = true ∧
    (Layout.c_canfd.fields.all fun g => g.name == "dlc" || g.name == "dataLength" || decide (g.off + g.w ≤ 14)) = true ∧
    (Layout.c_lin.fields.all fun g => g.name == "dataLength" || decide (g.off + g.w ≤ 7)) = true ∧
    (Layout.c_eth.fields.all fun g => g.name == "dataLength" || decide (g.off + g.w ≤ 4)) = true ∧
    (Layout.c_analog.fields.all fun g => decide (g.off + g.w ≤ 16)) = true ∧
    (Layout.c_cm.fields.all fun g => decide (g.off + g.w ≤ 26)) = true ∧
    (Layout.c_if.fields.all fun g => decide (g.off + g.w ≤ 36)) = true := by decide

/-- **`setData` changes no header field other than `dlc` / `dataLength`** (model of every payload class; `b` = the object's bytes
    before, any data `d`): every other table field reads the same afterwards.  CAN and CAN-FD share `canSetData`. -/
theorem setData_keeps_fields (b d : Bytes) :
    (16 ≤ b.length → ∀ g, (g ∈ Layout.c_can.fields ∨ g ∈ Layout.c_canfd.fields) → g.name ≠ "dlc" → g.name ≠ "dataLength" →
        getField g (canSetData b d) = getField g b) ∧
    (8 ≤ b.length → ∀ g ∈ Layout.c_lin.fields, g.name ≠ "dataLength" → getField g (linSetData b d) = getField g b) ∧
    (6 ≤ b.length → ∀ g ∈ Layout.c_eth.fields, g.name ≠ "dataLength" → getField g (ethSetData b d) = getField g b) ∧
    (16 ≤ b.length → ∀ g ∈ Layout.c_analog.fields, getField g (analogSetData b d) = getField g b) := by
  obtain ⟨t1, t2, t3, t4, t5, _, _⟩ := tables_setData_prefix
  obtain ⟨p1, p2, p3, p4⟩ := setData_header_prefix b d
  refine ⟨fun h g hg n1 n2 => ?_, fun h g hg n1 => ?_, fun h g hg n1 => ?_, fun h g hg => ?_⟩
  · apply getField_of_take_eq (p1 h)
    rcases hg with hg | hg
    · have := List.all_eq_true.mp t1 g hg
      simp only [Bool.or_eq_true, beq_iff_eq, decide_eq_true_eq] at this
      rcases this with (h | h) | h
      · exact absurd h n1
      · exact absurd h n2
      · exact h
    · have := List.all_eq_true.mp t2 g hg
      simp only [Bool.or_eq_true, beq_iff_eq, decide_eq_true_eq] at this
      rcases this with (h | h) | h
      · exact absurd h n1
      · exact absurd h n2
      · exact h
  · apply getField_of_take_eq (p2 h)
    have := List.all_eq_true.mp t3 g hg
    simp only [Bool.or_eq_true, beq_iff_eq, decide_eq_true_eq] at this
    rcases this with h | h
    · exact absurd h n1
    · exact h
  · apply getField_of_take_eq (p3 h)
    have := List.all_eq_true.mp t4 g hg
    simp only [Bool.or_eq_true, beq_iff_eq, decide_eq_true_eq] at this
    rcases this with h | h
    · exact absurd h n1
    · exact h
  · apply getField_of_take_eq (p4 h)
    have := List.all_eq_true.mp t5 g hg
    simpa using this

/-- capture-module and interface `setData` keep EVERY table field (they write behind the fixed header only) -/
theorem setData_keeps_fields_cm_if (b : Bytes) :
    (26 ≤ b.length → ∀ desc serial hw sw vendor, ∀ g ∈ Layout.c_cm.fields,
        getField g (cmSetData b desc serial hw sw vendor) = getField g b) ∧
    (36 ≤ b.length → ∀ ids vendor, ∀ g ∈ Layout.c_if.fields, getField g (ifSetData b ids vendor) = getField g b) := by
  obtain ⟨_, _, _, _, _, t6, t7⟩ := tables_setData_prefix
  refine ⟨fun h desc serial hw sw vendor g hg => ?_, fun h ids vendor g hg => ?_⟩
  · apply getField_of_take_eq (cmSetData_prefix b desc serial hw sw vendor h)
    have := List.all_eq_true.mp t6 g hg
    simpa using this
  · apply getField_of_take_eq (ifSetData_prefix b ids vendor h)
    have := List.all_eq_true.mp t7 g hg
    simpa using this

/-- … and on the translated C++ (`SrcTie.*_setData_src` composed): the translated `CanPayloadBase::setData` on an object that owns a
    header is defined and every table field other than `dlc` / `dataLength` reads the same in the object it leaves; likewise LIN,
    Ethernet.  `hn`, `h8` / `h16`: the caller's buffer holds the `n` bytes and `n` fits the length parameter's C++ type. -/
theorem setData_keeps_fields_src (m x : Bytes) (this n : Nat) (hn : n ≤ x.length) :
    (n < 256 → 16 ≤ m.length → ∃ m', SrcGen.CanPayloadBase_setData m this x n = some m' ∧
        ∀ g, (g ∈ Layout.c_can.fields ∨ g ∈ Layout.c_canfd.fields) → g.name ≠ "dlc" → g.name ≠ "dataLength" →
          getField g m' = getField g m) ∧
    (n < 256 → 8 ≤ m.length → ∃ m', SrcGen.LinPayload_setData m this x n = some m' ∧
        ∀ g ∈ Layout.c_lin.fields, g.name ≠ "dataLength" → getField g m' = getField g m) ∧
    (n < 65536 → 6 ≤ m.length → ∃ m', SrcGen.EthernetPayload_setData m this x n = some m' ∧
        ∀ g ∈ Layout.c_eth.fields, g.name ≠ "dataLength" → getField g m' = getField g m) := by
  obtain ⟨k1, k2, k3, _⟩ := setData_keeps_fields m (x.take n)
  exact ⟨fun h8 h => ⟨_, SrcTie.can_setData_src m x this n hn h8, k1 h⟩,
    fun h8 h => ⟨_, SrcTie.lin_setData_src m x this n hn h8, k2 h⟩,
    fun h16 h => ⟨_, SrcTie.eth_setData_src m x this n hn h16, k3 h⟩⟩


/-! ## G. the owning objects: header setters versus the `PayloadType` member, and back (review item 3)

  The bit programs know the header only.  Because the memory they leave is `writeAt M this (setField …)`, everything else in memory
  — in particular the owning `Payload` object's `PayloadType type` member and the vector's size, wherever they live — is untouched:
  every scalar read outside the field's word, and the three translated `PayloadType` getters at any such address, give what they
  gave before.  Conversely the translated `Payload::setMessageType` / `setRawPayloadType` change 4 bytes of the `Payload` object, so
  every translated header getter of every class, for a header that does not overlap these 4 bytes, reports what it reported. -/
open AsamCmp.SrcLeft

theorem sameOutside_slice {m m' : Bytes} {a w : Nat} (h : SameOutside m m' a w) (b k : Nat) (hd : b + k ≤ a ∨ a + w ≤ b) :
    slice m' b k = slice m b k := by
  apply List.ext_getElem?
  intro i
  rw [getElem?_slice, getElem?_slice]
  by_cases h1 : i < k
  · rw [if_pos h1, if_pos h1]; exact h.2 _ (by omega)
  · rw [if_neg h1, if_neg h1]

theorem header_setter_keeps_other_objects (ce : ClassLayout × List Entry) (hce : ce ∈ classEntries) (eS : Entry) (hS : eS ∈ ce.2)
    (fS : Field) (hfS : ce.1.find eS.field = some fS) (M : Bytes) (this : Nat) (hM : this + ce.1.size ≤ M.length)
    (v : Nat) (hv : v < 2 ^ fS.bits) (hw : Writes eS.acc v) :
    ∃ M', SetRuns eS.acc this M v M' ∧ SameOutside M M' (this + fS.off) fS.w ∧
      (∀ a k, a + k ≤ this + fS.off ∨ this + fS.off + fS.w ≤ a → Src.rd M' a k = Src.rd M a k) ∧
      (∀ a, a + 4 ≤ this + fS.off ∨ this + fS.off + fS.w ≤ a →
        SrcGen.PayloadType_getType M' a = SrcGen.PayloadType_getType M a ∧
        SrcGen.PayloadType_getMessageType M' a = SrcGen.PayloadType_getMessageType M a ∧
        SrcGen.PayloadType_getRawPayloadType M' a = SrcGen.PayloadType_getRawPayloadType M a ∧
        SrcGen.TECMP_PayloadType_getType M' a = SrcGen.TECMP_PayloadType_getType M a ∧
        SrcGen.TECMP_PayloadType_getMessageType M' a = SrcGen.TECMP_PayloadType_getMessageType M a ∧
        SrcGen.TECMP_PayloadType_getRawPayloadType M' a = SrcGen.TECMP_PayloadType_getRawPayloadType M a) := by
  have hc := classEntries_in_tables ce hce
  obtain ⟨fS', hfS', hHS⟩ := all_src ce hce eS hS
  rw [hfS] at hfS'; cases hfS'
  have hfit := table_fits hc (find_mem hfS).1
  have hso : SameOutside M (writeAt M this (setField fS v (slice M this ce.1.size))) (this + fS.off) fS.w := by
    have hsl : (slice M this ce.1.size).length = ce.1.size := slice_length hM
    refine ⟨writeAt_length (by rw [setField_length' v (by omega), hsl]; exact hM), fun i hi => ?_⟩
    exact writeAt_setField_frame v hM hfit.2.1 i hi
  refine ⟨_, holds_setRuns hHS hM hv hw, hso, fun a k hd => hso.rd a k hd, fun a hd => ?_⟩
  have hr := hso.rd a 4 hd
  unfold SrcGen.PayloadType_getType SrcGen.PayloadType_getMessageType SrcGen.PayloadType_getRawPayloadType
    SrcGen.TECMP_PayloadType_getType SrcGen.TECMP_PayloadType_getMessageType SrcGen.TECMP_PayloadType_getRawPayloadType
  rw [hr]
  exact ⟨rfl, rfl, rfl, rfl, rfl, rfl⟩

/-- the `Payload` object at `p` (its `PayloadType` member: the 4 bytes at `p + 32`), a header of class `ce` at `this` that does not
    overlap that member (it lives in the vector's heap block), `t` a `uint8_t`: both type setters are defined, and every getter entry of
    the class reports on the new memory exactly the field value of the OLD memory -/
theorem type_setters_keep_header_getters (ce : ClassLayout × List Entry) (hce : ce ∈ classEntries) (eG : Entry) (hG : eG ∈ ce.2)
    (fG : Field) (hfG : ce.1.find eG.field = some fG) (hg : IsGetter eG.acc) (M : Bytes) (this p t : Nat)
    (hM : this + ce.1.size ≤ M.length) (hp : p + 32 + 4 ≤ M.length) (ht : t < 256)
    (hsep : this + ce.1.size ≤ p + 32 ∨ p + 32 + 4 ≤ this) :
    (∃ M', SrcGen.Payload_setMessageType M p t = some M' ∧ M'.length = M.length ∧
        slice M' this ce.1.size = slice M this ce.1.size ∧
        GetRuns eG.acc this M' (getField fG (slice M this ce.1.size))) ∧
    (∃ M', SrcGen.Payload_setRawPayloadType M p t = some M' ∧ M'.length = M.length ∧
        slice M' this ce.1.size = slice M this ce.1.size ∧
        GetRuns eG.acc this M' (getField fG (slice M this ce.1.size))) := by
  obtain ⟨fG', hfG', hHG⟩ := all_src ce hce eG hG
  rw [hfG] at hfG'; cases hfG'
  obtain ⟨⟨m1, a1, a2, _, _⟩, ⟨m2, b1, b2, _, _⟩⟩ := Payload_src_laws M p t hp ht
  refine ⟨⟨m1, a1, a2.1, sameOutside_slice a2 _ _ (by omega), ?_⟩, ⟨m2, b1, b2.1, sameOutside_slice b2 _ _ (by omega), ?_⟩⟩
  · have := holds_getRuns hHG (M := m1) (this := this) (by rw [a2.1]; exact hM) hg
    rwa [sameOutside_slice a2 _ _ (by omega)] at this
  · have := holds_getRuns hHG (M := m2) (this := this) (by rw [b2.1]; exact hM) hg
    rwa [sameOutside_slice b2 _ _ (by omega)] at this

/-- the hop from the payload object to its header, for EVERY payload class: both `getHeader()` overloads (the `const` one used by the
    getters, the non-`const` one used by the setters) and `getRawPayload()` return the same address, the start of the owned bytes
    (`pd`), whatever the size `sz` — so the header the setters write is the one the getters read and `getRawPayload()` exposes -/
theorem getHeader_is_getRawPayload (pd sz this : Nat) :
    SrcGen.Payload_getRawPayload pd sz this = some pd ∧
    SrcGen.CanPayloadBase_getHeader_v pd sz this = some pd ∧ SrcGen.CanPayloadBase_getHeader_v2 pd sz this = some pd ∧
    SrcGen.LinPayload_getHeader_v pd sz this = some pd ∧ SrcGen.LinPayload_getHeader_v2 pd sz this = some pd ∧
    SrcGen.EthernetPayload_getHeader_v pd sz this = some pd ∧ SrcGen.EthernetPayload_getHeader_v2 pd sz this = some pd ∧
    SrcGen.AnalogPayload_getHeader_v pd sz this = some pd ∧ SrcGen.AnalogPayload_getHeader_v2 pd sz this = some pd ∧
    SrcGen.CaptureModulePayload_getHeader_v pd sz this = some pd ∧ SrcGen.CaptureModulePayload_getHeader_v2 pd sz this = some pd ∧
    SrcGen.InterfacePayload_getHeader_v pd sz this = some pd ∧ SrcGen.InterfacePayload_getHeader_v2 pd sz this = some pd ∧
    SrcGen.TECMP_Payload_getRawPayload pd sz this = some pd ∧
    SrcGen.TECMP_CanPayload_getHeader_v pd sz this = some pd ∧ SrcGen.TECMP_CanPayload_getHeader_v2 pd sz this = some pd ∧
    SrcGen.TECMP_LinPayload_getHeader_v pd sz this = some pd ∧ SrcGen.TECMP_LinPayload_getHeader_v2 pd sz this = some pd ∧
    SrcGen.TECMP_InterfacePayload_getHeader_v pd sz this = some pd ∧ SrcGen.TECMP_InterfacePayload_getHeader_v2 pd sz this = some pd ∧
    SrcGen.TECMP_CaptureModulePayload_getHeader_v pd sz this = some pd ∧
    SrcGen.TECMP_CaptureModulePayload_getHeader_v2 pd sz this = some pd :=
  ⟨rfl, rfl, rfl, rfl, rfl, rfl, rfl, rfl, rfl, rfl, rfl, rfl, rfl, rfl, rfl, rfl, rfl, rfl, rfl, rfl, rfl, rfl⟩

/-- a public payload-level wrapper is its `Header::` twin run at `getHeader()` = `getRawPayload()` (shown for the CAN identifier and the
    LIN checksum: the wrappers are generated in this shape for every field) -/
theorem wrapper_is_header_twin (m : Bytes) (pd sz this v : Nat) :
    SrcGen.CanPayloadBase_setId m pd sz this v = SrcGen.CanPayloadBase_Header_setId m pd v ∧
    SrcGen.CanPayloadBase_getId m pd sz this = SrcGen.CanPayloadBase_Header_getId m pd ∧
    SrcGen.LinPayload_setChecksum m pd sz this v = SrcGen.LinPayload_Header_setChecksum m pd v ∧
    SrcGen.LinPayload_getChecksum m pd sz this = SrcGen.LinPayload_Header_getChecksum m pd := by
  refine ⟨?_, ?_, ?_, ?_⟩
  · unfold SrcGen.CanPayloadBase_setId SrcGen.CanPayloadBase_getHeader_v2
    simp only [bind, pure, SrcTie.some_bind]
  · unfold SrcGen.CanPayloadBase_getId SrcGen.CanPayloadBase_getHeader_v
    simp only [bind, pure, SrcTie.some_bind]
  · unfold SrcGen.LinPayload_setChecksum SrcGen.LinPayload_getHeader_v2
    simp only [bind, pure, SrcTie.some_bind]
  · unfold SrcGen.LinPayload_getChecksum SrcGen.LinPayload_getHeader_v
    simp only [bind, pure, SrcTie.some_bind]


/-! ## H. `PayloadType` and `Packet::setCommonFlag`: the table rows describe the real words; any order (review item 1, P5)

  The source theorems for these classes exist (Props/SrcLeftovers.lean, Props/SrcPacketValue.lean — see "to register").  New here:
  (1) the table `Layout.c_ptype` — "big-endian 4-byte word" — IS the image of the C++ `uint32_t type` under the word functions the
  translated setters compute (`SrcLeft.setMT` / `setRaw`), so the `c_ptype` instance of `C11_all_classes` speaks about the code;
  (2) a flag mask `2^k` acts on the flags byte as the table's one-bit field at shift `k`, the segment mask `0x0C` as the two-bit
  field; (3) two flag writes with disjoint masks / the two `PayloadType` setters commute, the last write to a mask wins. -/

def fType : Field := ⟨"type", 0, 4, 0, 32, ""⟩
def fMsgType : Field := ⟨"messageType", 0, 4, 8, 8, ""⟩
def fRawType : Field := ⟨"rawPayloadType", 0, 4, 0, 8, ""⟩

theorem ptype_fields_in_table : Layout.c_ptype.fields = [fType, fMsgType, fRawType] := by decide

theorem beAt_beEnc4 (s : Nat) (hs : s < 2 ^ 32) : beAt (beEnc 4 s) 0 4 = s := by
  unfold beAt slice
  rw [List.drop_zero, List.take_of_length_le (by rw [beEnc_length]; exact Nat.le_refl _), beDec_beEnc]
  exact Nat.mod_eq_of_lt hs

theorem writeAt_whole (b x : Bytes) (h : x.length = b.length) : writeAt b 0 x = x := by
  unfold writeAt
  rw [List.take_zero, List.nil_append, List.drop_of_length_le (by omega), List.append_nil]

/-- the `c_ptype` rows on the big-endian image `beEnc 4 s` of the C++ word `s`: reading is `getMT` / `getRaw` / the word, writing is
    the image of `setMT` / `setRaw` / the new word — for ALL 2^32 prior words (bits 16..31 included) and every `uint8_t` value -/
theorem ptype_table_is_word (s t : Nat) (hs : s < 2 ^ 32) (ht : t < 256) :
    getField fMsgType (beEnc 4 s) = getMT s ∧ getField fRawType (beEnc 4 s) = getRaw s ∧ getField fType (beEnc 4 s) = s ∧
    setField fMsgType t (beEnc 4 s) = beEnc 4 (setMT s t) ∧
    setField fRawType t (beEnc 4 s) = beEnc 4 (setRaw s t) ∧
    (∀ v, v < 2 ^ 32 → setField fType v (beEnc 4 s) = beEnc 4 v) := by
  have hb := beAt_beEnc4 s hs
  refine ⟨?_, ?_, ?_, ?_, ?_, fun v hv => ?_⟩
  · rw [getField_eq, getMT_eq_ext]; show ext 8 8 (beAt (beEnc 4 s) 0 4) = _; rw [hb]
  · rw [getField_eq, getRaw_eq_ext]; show ext 0 8 (beAt (beEnc 4 s) 0 4) = _; rw [hb]
  · rw [getField_eq]; show ext 0 32 (beAt (beEnc 4 s) 0 4) = _; rw [hb]
    unfold ext; rw [Nat.pow_zero, Nat.div_one]; exact Nat.mod_eq_of_lt hs
  · rw [setField_eq]; show writeAt (beEnc 4 s) 0 (beEnc 4 (upd 8 8 t (beAt (beEnc 4 s) 0 4))) = _
    rw [hb, writeAt_whole _ _ (by rw [beEnc_length, beEnc_length]), setMT_eq_upd s t hs ht]
  · rw [setField_eq]; show writeAt (beEnc 4 s) 0 (beEnc 4 (upd 0 8 t (beAt (beEnc 4 s) 0 4))) = _
    rw [hb, writeAt_whole _ _ (by rw [beEnc_length, beEnc_length]), setRaw_eq_upd s t hs ht]
  · rw [setField_eq]; show writeAt (beEnc 4 s) 0 (beEnc 4 (upd 0 32 v (beAt (beEnc 4 s) 0 4))) = _
    rw [hb, writeAt_whole _ _ (by rw [beEnc_length, beEnc_length]), upd_full hs hv]

/-- the two `PayloadType` setters commute, and each is idempotent / last-write-wins -/
theorem ptype_setters_any_order (s t r : Nat) (hs : s < 2 ^ 32) (ht : t < 256) (hr : r < 256) :
    setMT (setRaw s r) t = setRaw (setMT s t) r ∧
    (∀ t', t' < 256 → setMT (setMT s t') t = setMT s t) ∧
    (∀ r', r' < 256 → setRaw (setRaw s r') r = setRaw s r) := by
  refine ⟨?_, fun t' ht' => ?_, fun r' hr' => ?_⟩
  · apply Nat.eq_of_testBit_eq; intro i
    rw [setMT_testBit _ t i (setRaw_lt s r hs hr) ht, setRaw_testBit s r i hs hr,
      setRaw_testBit _ r i (setMT_lt s t hs ht) hr, setMT_testBit s t i hs ht]
    by_cases h1 : 8 ≤ i ∧ i < 16
    · rw [if_pos h1, if_neg (by omega), if_pos h1]
    · rw [if_neg h1, if_neg h1]
  · apply Nat.eq_of_testBit_eq; intro i
    rw [setMT_testBit _ t i (setMT_lt s t' hs ht') ht, setMT_testBit s t' i hs ht', setMT_testBit s t i hs ht]
    by_cases h1 : 8 ≤ i ∧ i < 16
    · rw [if_pos h1, if_pos h1]
    · rw [if_neg h1, if_neg h1, if_neg h1]
  · apply Nat.eq_of_testBit_eq; intro i
    rw [setRaw_testBit _ r i (setRaw_lt s r' hs hr') hr, setRaw_testBit s r' i hs hr', setRaw_testBit s r i hs hr]
    by_cases h1 : i < 8
    · rw [if_pos h1, if_pos h1]
    · rw [if_neg h1, if_neg h1, if_neg h1]

/-- on the translated object code: `setMessageType` then `setRawPayloadType` = the other order, for every prior `Payload` object
    (data vector and all 32 bits of the type word arbitrary) -/
theorem Payload_type_setters_commute_pv (p : SrcGen.Payload_St) (t r : Nat) (hs : p.f_type < 2 ^ 32) (ht : t < 256) (hr : r < 256) :
    (do let (p1, _) ← SrcGen.Payload_setMessageType_pv p t
        SrcGen.Payload_setRawPayloadType_pv p1 r) =
    (do let (p1, _) ← SrcGen.Payload_setRawPayloadType_pv p r
        SrcGen.Payload_setMessageType_pv p1 t) ∧
    (do let (p1, _) ← SrcGen.Payload_setMessageType_pv p t
        SrcGen.Payload_setRawPayloadType_pv p1 r) =
      some ({ p with f_type := setRaw (setMT p.f_type t) r }, ()) := by
  rw [Payload_setMessageType_pv_u8 p t ht, Payload_setRawPayloadType_pv_src p r]
  simp only [bind, SrcTie.some_bind]
  rw [Payload_setRawPayloadType_pv_src, Payload_setMessageType_pv_u8 _ t ht]
  simp only [(ptype_setters_any_order p.f_type t r hs ht hr).1, and_self]

/-- flag masks of the flags byte as table fields: `setCommonFlag(2^k, v)` is the one-bit field at shift `k`;
    `setCommonFlag(0x0C, v)` is the two-bit field at shift 2 set to 3 / 0 -/
theorem setFlag_is_field (f : Nat) (hf : f < 256) (v : Bool) :
    (∀ k, k < 8 → setFlag f (2 ^ k) v = upd k 1 (if v then 1 else 0) f) ∧
    setFlag f 12 v = upd 2 2 (if v then 3 else 0) f := by
  have hf32 : f < 2 ^ 32 := by omega
  constructor
  · intro k hk
    have hlt : ∀ u, u < 2 ^ 1 → upd k 1 u f < 2 ^ 8 := fun u hu => upd_lt (n := 8) hf (by omega) hu
    unfold setFlag
    cases v
    · simp only [Bool.false_eq_true, if_false]
      rw [and_bnot_two_pow_eq_upd f k hf32 (by omega)]
      exact Nat.mod_eq_of_lt (hlt 0 (by decide))
    · simp only [if_true]
      rw [or_two_pow_eq_upd]
      exact Nat.mod_eq_of_lt (hlt 1 (by decide))
  · apply Nat.eq_of_testBit_eq; intro j
    rw [setFlag_testBit f 12 v j (by decide), testBit_upd f (by cases v <;> decide) j]
    have h12 : Nat.testBit 12 j = (decide (2 ≤ j) && decide (j < 4)) := by
      have := mask_testBit 2 2 j
      simp only [(by decide : (2 ^ 2 - 1) <<< 2 = 12)] at this
      rw [this]; congr 1; exact decide_eq_decide.mpr (by omega)
    rw [h12]
    by_cases h1 : 2 ≤ j ∧ j < 2 + 2
    · have hj8 : j < 8 := by omega
      rw [if_pos h1]
      simp only [decide_eq_true h1.1, decide_eq_true (by omega : j < 4), decide_eq_true hj8, Bool.and_self, if_true,
        Bool.true_and]
      obtain ⟨ha, hb⟩ := h1
      have : j = 2 ∨ j = 3 := by omega
      rcases this with rfl | rfl <;> cases v <;> rfl
    · rw [if_neg h1]
      have : (decide (2 ≤ j) && decide (j < 4)) = false := by
        rw [Bool.and_eq_false_iff, decide_eq_false_iff_not, decide_eq_false_iff_not]; omega
      rw [this]
      simp only [Bool.false_eq_true, if_false]
      by_cases hj : j < 8
      · rw [decide_eq_true hj, Bool.true_and]
      · rw [decide_eq_false hj, Bool.false_and, testBit_of_lt (n := 8) hf (by omega)]

/-- flags can be set and cleared in any order: writes with disjoint masks commute, and the last write to a mask wins
    (every prior flags byte, every pair of masks of the `uint8_t` flags) -/
theorem setFlag_any_order (f m1 m2 : Nat) (v1 v2 : Bool) (h1 : m1 < 256) (h2 : m2 < 256) :
    (m1 &&& m2 = 0 → setFlag (setFlag f m1 v1) m2 v2 = setFlag (setFlag f m2 v2) m1 v1) ∧
    setFlag (setFlag f m1 v1) m1 v2 = setFlag f m1 v2 := by
  constructor
  · intro hd
    apply Nat.eq_of_testBit_eq; intro j
    rw [setFlag_testBit _ m2 v2 j (by omega), setFlag_testBit f m1 v1 j (by omega),
      setFlag_testBit _ m1 v1 j (by omega), setFlag_testBit f m2 v2 j (by omega)]
    have hx : ¬ (m1.testBit j = true ∧ m2.testBit j = true) := by
      intro hh
      have := congrArg (fun n => Nat.testBit n j) hd
      simp only [Nat.testBit_and, hh.1, hh.2, Bool.and_self, Nat.zero_testBit] at this
      exact Bool.noConfusion this
    cases hb1 : m1.testBit j <;> cases hb2 : m2.testBit j <;> simp [hb1, hb2] at hx ⊢
  · apply Nat.eq_of_testBit_eq; intro j
    rw [setFlag_testBit _ m1 v2 j (by omega), setFlag_testBit f m1 v1 j (by omega), setFlag_testBit f m1 v2 j (by omega)]
    cases hb1 : m1.testBit j <;> simp [hb1]

/-- on the translated `Packet` (value translation, payload member included): two `setCommonFlag` calls with disjoint masks give
    the same packet in either order, and nothing but the flags byte differs from the prior packet -/
theorem Packet_setCommonFlag_any_order_pv (s : SrcGen.PacketV_St) (m1 m2 : Nat) (v1 v2 : Bool) (h1 : m1 < 256) (h2 : m2 < 256)
    (hd : m1 &&& m2 = 0) :
    (do let (s1, _) ← SrcGen.Packet_setCommonFlag_pv s m1 v1
        SrcGen.Packet_setCommonFlag_pv s1 m2 v2) =
    (do let (s1, _) ← SrcGen.Packet_setCommonFlag_pv s m2 v2
        SrcGen.Packet_setCommonFlag_pv s1 m1 v1) ∧
    (do let (s1, _) ← SrcGen.Packet_setCommonFlag_pv s m1 v1
        SrcGen.Packet_setCommonFlag_pv s1 m2 v2) =
      some ({ s with f_commonFlags := setFlag (setFlag s.f_commonFlags m1 v1) m2 v2 }, ()) := by
  simp only [Packet_setCommonFlag_pv_src, bind, SrcTie.some_bind]
  rw [(setFlag_any_order s.f_commonFlags m1 m2 v1 v2 h1 h2).1 hd]
  exact ⟨rfl, trivial⟩


/-! ## I. non-vacuity: the hypotheses on concrete, non-trivial inputs; conclusions computed to literal values -/
section examples

theorem can_in_all : Layout.c_can ∈ Layout.all := by simp [Layout.all]

/-- an all-ones CAN header followed by three data bytes -/
def exOnes : Bytes := List.replicate 16 0xFF ++ [1, 2, 3]
def fAckErr : Field := ⟨"ackErr", 0, 2, 1, 1, ""⟩
def fBrs : Field := ⟨"brs", 0, 2, 12, 1, ""⟩
def fId : Field := ⟨"id", 4, 4, 0, 29, ""⟩
def fCrcErr : Field := ⟨"crcErr", 0, 2, 0, 1, ""⟩

-- B: a flag CLEARED next to set neighbours, on a non-zero background: only bit 1 of the flags word changes
example : setField fAckErr 0 exOnes = [0xFF, 0xFD] ++ List.replicate 14 0xFF ++ [1, 2, 3] := by decide
example : getField fAckErr (setField fAckErr 0 exOnes) = 0 ∧ getField fCrcErr (setField fAckErr 0 exOnes) = 1 ∧
    getField fBrs (setField fAckErr 0 exOnes) = 1 ∧ getField fId (setField fAckErr 0 exOnes) = 0x1FFFFFFF := by decide
example := C11_all_classes_strong Layout.c_can can_in_all fAckErr (by decide) exOnes (by decide) 0 (by decide)
-- a reserved bit range that is in no table (CAN flags bits 14..15) is covered by the third conjunct
example : getField ⟨"reserved", 0, 2, 14, 2, ""⟩ (setField fAckErr 0 exOnes) = 3 :=
  ((C11_all_classes_strong Layout.c_can can_in_all fAckErr (by decide) exOnes (by decide) 0 (by decide)).2.2.1
    ⟨"reserved", 0, 2, 14, 2, ""⟩ ⟨by decide, by decide⟩ (by decide) (Or.inl ⟨rfl, rfl⟩)).trans (by decide)

-- C: three writes (two flags cleared, the identifier set), two orders, one result
def exWrites : List (Field × Nat) := [(fAckErr, 0), (fId, 0x123), (fBrs, 0)]
example : applyAll exWrites exOnes = [0xEF, 0xFD, 0xFF, 0xFF, 0xE0, 0, 1, 0x23] ++ List.replicate 8 0xFF ++ [1, 2, 3] := by decide
example : applyAll exWrites.reverse exOnes = applyAll exWrites exOnes := by decide
example := C11_any_order Layout.c_can can_in_all exWrites exWrites.reverse (List.reverse_perm _).symm exOnes (by decide)
  (by intro w hw; simp only [exWrites, List.mem_cons, List.not_mem_nil, or_false] at hw
      rcases hw with rfl | rfl | rfl <;> exact ⟨by decide, by decide⟩)
  (by decide)

-- D: the translated `CanPayloadBase::setId` / `getId` (entries 45 / 44 of the generated list) on a 21-byte memory with the header at
--    address 2, all-ones background
def exMem : Bytes := [0xAA, 0x55] ++ exOnes
example : (entries_can[45]'(by decide)).field = "id" ∧ (entries_can[44]'(by decide)).field = "id" := by decide
example : (Src.Bit.run 2 [0x123] ⟨exMem, []⟩ (CanPayloadBase_setId_prog (.arg 0)).1).map (·.m) =
    some ([0xAA, 0x55, 0xFF, 0xFF, 0xFF, 0xFF, 0xE0, 0, 1, 0x23] ++ List.replicate 8 0xFF ++ [1, 2, 3]) := by decide +kernel
example : ((Src.Bit.run 2 [0x123] ⟨exMem, []⟩ (CanPayloadBase_setId_prog (.arg 0)).1).bind fun st =>
    (Src.Bit.run 2 [] ⟨st.m, []⟩ CanPayloadBase_getId_prog.1).map fun s => s.val CanPayloadBase_getId_prog.2) = some 0x123 := by
  decide +kernel
example := set_then_get_src (Layout.c_can, entries_can) (by simp [classEntries]) (entries_can[45]'(by decide))
  (entries_can[44]'(by decide)) (List.getElem_mem _) (List.getElem_mem _) fId fId (by decide) (by decide) exMem 2 (by decide)
  0x123 (by decide) trivial trivial
-- … a flag-clearing entry (`setFlag(ackErr, false)`, entry 7) followed by the getter of a neighbour flag (`crcErr`, entry 2)
example := set_then_get_src (Layout.c_can, entries_can) (by simp [classEntries]) (entries_can[7]'(by decide))
  (entries_can[2]'(by decide)) (List.getElem_mem _) (List.getElem_mem _) fAckErr fCrcErr (by decide) (by decide) exMem 2
  (by decide) 0 (by decide) rfl trivial

-- … clearing `ackErr` (entry 7) and setting the identifier (entry 45), in either order
example := two_setters_any_order_src (Layout.c_can, entries_can) (by simp [classEntries]) (entries_can[7]'(by decide))
  (entries_can[45]'(by decide)) (List.getElem_mem _) (List.getElem_mem _) fAckErr fId (by decide) (by decide) (by decide) exMem 2
  (by decide) 0 0x123 (by decide) (by decide) rfl trivial

-- E: the strong coverage check has teeth: without the clearing entry of one LIN flag it fails, while the old check still passes
example : (entries_lin[4]'(by decide)).field = "checksumErr" := by decide
example : coverageStrong Layout.c_lin (entries_lin.eraseIdx 4) = false := by decide +kernel
example : coverageOk Layout.c_lin (entries_lin.eraseIdx 4) [] = true := by decide +kernel
example : coverageStrong Layout.c_packet entries_packet = false := by decide +kernel
example := every_field_roundtrip_src (Layout.c_msghdr, entries_msghdr) (by simp [classEntries]) ⟨"overflow", 12, 1, 5, 1, ""⟩
  (by decide) 0 (by decide) (by decide) (List.replicate 20 0xFF) 3 (by decide)

-- F: `setData` on a CAN object with a non-zero header: bytes 0..13 stay, dlc / dataLength and the data are written
example : canSetData [0x12, 0x34, 9, 9, 0xDE, 0xAD, 0xBE, 0xEF, 1, 2, 3, 4, 5, 6, 0x77, 0x88, 0xEE, 0xEE] [0xA, 0xB, 0xC] =
    [0x12, 0x34, 9, 9, 0xDE, 0xAD, 0xBE, 0xEF, 1, 2, 3, 4, 5, 6, 3, 3, 0xA, 0xB, 0xC] := by decide
example := (setData_keeps_fields exOnes [0xA, 0xB, 0xC]).1 (by decide) fId (Or.inl (by decide)) (by decide) (by decide)
example := (setData_keeps_fields_src exOnes [0xA, 0xB, 0xC] 0 3 (by decide)).1 (by decide) (by decide)

-- G: a `Payload` object at address 0 (type member at 32..35) and a CAN header at address 40 of a 60-byte all-ones memory
example := header_setter_keeps_other_objects (Layout.c_can, entries_can) (by simp [classEntries]) (entries_can[45]'(by decide))
  (List.getElem_mem _) fId (by decide) (List.replicate 60 0xFF) 40 (by decide) 0x123 (by decide) trivial
example := type_setters_keep_header_getters (Layout.c_can, entries_can) (by simp [classEntries]) (entries_can[44]'(by decide))
  (List.getElem_mem _) fId (by decide) trivial (List.replicate 60 0xFF) 40 0 0x77 (by decide) (by decide) (by decide)
  (Or.inr (by decide))

-- H: the packed type word, upper half non-zero: only the addressed byte changes
example : setMT 0xABCD1234 0x77 = 0xABCD7734 ∧ setRaw 0xABCD1234 0x77 = 0xABCD1277 := by decide
example : setField fMsgType 0x77 [0xAB, 0xCD, 0x12, 0x34] = [0xAB, 0xCD, 0x77, 0x34] := by decide
example := ptype_table_is_word 0xABCD1234 0x77 (by decide) (by decide)
-- a flag cleared on an all-ones flags byte: the neighbours stay set; two clears in either order
example : setFlag 0xFF 2 false = 0xFD ∧ setFlag (setFlag 0xFF 2 false) 0x40 false = 0xBD ∧
    setFlag (setFlag 0xFF 0x40 false) 2 false = 0xBD ∧ setFlag (setFlag 0xFF 2 false) 2 true = 0xFF := by decide
example := (setFlag_any_order 0xFF 2 0x40 false false (by decide) (by decide)).1 (by decide)

end examples



/-! ## J. `Packet`: every scalar setter on EVERY state (not only on `repr p`), the flags and the owned payload as observers

  `SrcPv.scalar_accessors_src` states the nine scalar setters on represented values; here on the raw generated record, with the two
  observers the review names: `getCommonFlag(mask)` after a non-flag setter (a `setSegmentType` that also wrote `commonFlags` would
  break this) and the owned payload after every setter. -/
theorem Packet_scalar_setters_pv (s : SrcGen.PacketV_St) (v : Nat) :
    SrcGen.Packet_setVersion_pv s v = some ({ s with f_version := v }, ()) ∧
    SrcGen.Packet_setDeviceId_pv s v = some ({ s with f_deviceId := v }, ()) ∧
    SrcGen.Packet_setStreamId_pv s v = some ({ s with f_streamId := v }, ()) ∧
    SrcGen.Packet_setSequenceCounter_pv s v = some ({ s with f_sequenceCounter := v }, ()) ∧
    SrcGen.Packet_setTimestamp_pv s v = some ({ s with f_timestamp := v }, ()) ∧
    SrcGen.Packet_setInterfaceId_pv s v = some ({ s with f_interfaceId := v }, ()) ∧
    SrcGen.Packet_setVendorId_pv s v = some ({ s with f_vendorId := v }, ()) ∧
    SrcGen.Packet_setCommonFlags_pv s v = some ({ s with f_commonFlags := v }, ()) ∧
    SrcGen.Packet_setSegmentType_pv s v = some ({ s with f_segmentType := v }, ()) :=
  ⟨rfl, rfl, rfl, rfl, rfl, rfl, rfl, rfl, rfl⟩

/-- the eight non-flag scalar setters of `Packet` -/
def packetNonFlagSetters : List (SrcGen.PacketV_St → Nat → Option (SrcGen.PacketV_St × Unit)) :=
  [SrcGen.Packet_setVersion_pv, SrcGen.Packet_setDeviceId_pv, SrcGen.Packet_setStreamId_pv, SrcGen.Packet_setSequenceCounter_pv,
   SrcGen.Packet_setTimestamp_pv, SrcGen.Packet_setInterfaceId_pv, SrcGen.Packet_setVendorId_pv, SrcGen.Packet_setSegmentType_pv]

theorem Packet_nonflag_setters_keep_flags_and_payload (s : SrcGen.PacketV_St) (v : Nat) :
    ∀ set ∈ packetNonFlagSetters, ∃ s', set s v = some (s', ()) ∧ s'.f_payload = s.f_payload ∧
      s'.f_commonFlags = s.f_commonFlags ∧
      (∀ mask, SrcGen.Packet_getCommonFlag_pv s' mask = some (s', (s.f_commonFlags &&& mask) != 0)) := by
  intro set h
  simp only [packetNonFlagSetters, List.mem_cons, List.not_mem_nil, or_false] at h
  rcases h with h | h | h | h | h | h | h | h <;> subst h <;> exact ⟨_, rfl, rfl, rfl, fun _ => rfl⟩

/-! ## K. a prior state from which the property FAILS in the C++: an object shorter than its header

  "From any prior state of the object": the public constructors `XPayload(const uint8_t* data, size_t size)` accept ANY size (the
  base constructor just copies `size` bytes; only `Packet::create` validates first).  An object built from fewer bytes than the
  class's header is a reachable state in which every setter writes behind the vector's buffer: undefined behaviour in the C++, `none`
  in the translation.  All theorems above therefore carry `size ≤ b.length` / `this + size ≤ M.length`, and this is necessary. -/

/-- on ANY LIN payload object that owns fewer than 7 bytes the translated `LinPayload::setChecksum` is undefined (it stores to
    `payloadData.data() + 6`) -/
theorem lin_setChecksum_short_undefined (m : Bytes) (v : Nat) (h : m.length < 7) :
    SrcGen.LinPayload_setChecksum m 0 m.length 0 v = none := by
  unfold SrcGen.LinPayload_setChecksum SrcGen.LinPayload_getHeader_v2 SrcGen.LinPayload_Header_setChecksum
  simp only [bind, pure, SrcTie.some_bind]
  rw [wr_def, if_neg (by omega)]

/-- the witness: the translated public constructor `LinPayload(data, 3)` is defined and yields an object of 3 bytes; `setChecksum(1)`
    on it is undefined (shallow translation and bit program agree); the same for `CanPayload(data, 4)` and `setId` -/
theorem short_object_violation :
    (∃ s, SrcGen.LinPayload_ctor_ptr_u64_pv [1, 2, 3] 0 3 = some s ∧ s.f_payloadData = [1, 2, 3] ∧
      SrcGen.LinPayload_setChecksum s.f_payloadData 0 s.f_payloadData.length 0 1 = none ∧
      Src.Bit.run 0 [1] ⟨s.f_payloadData, []⟩ (SrcGen.LinPayload_setChecksum_prog (.arg 0)).1 = none) ∧
    (∃ s, SrcGen.CanPayload_ctor_ptr_u64_pv [1, 2, 3, 4] 0 4 = some s ∧ s.f_payloadData = [1, 2, 3, 4] ∧
      SrcGen.CanPayloadBase_setId s.f_payloadData 0 s.f_payloadData.length 0 0x123 = none ∧
      Src.Bit.run 0 [0x123] ⟨s.f_payloadData, []⟩ (SrcGen.CanPayloadBase_setId_prog (.arg 0)).1 = none) := by
  refine ⟨⟨⟨[1, 2, 3], 259⟩, by decide +kernel, rfl, by decide +kernel, by decide +kernel⟩,
    ⟨⟨[1, 2, 3, 4], 257⟩, by decide +kernel, rfl, by decide +kernel, by decide +kernel⟩⟩

end AsamCmp.C11S
