/-
  C02S  strengthening of C02 ("decoding arbitrary bytes is memory-safe and terminates"): additional theorems about the
  EXISTING definitions that close weaknesses an independent review of the C02 statements listed.  Nothing existing is
  changed.  Sections (numbers = the review's findings):

  §A (3, 8)   the library's OWN storage: the reassembly vector.  A checked store `wrB` (`none` = a write outside the
              vector), the reassembly automaton with checked store and checked read-back (`localStepM`), the complete
              entry point with checked reads of the input AND checked accesses of the pending vector (`decodeCk`) and
              its run over a history (`runCk`).  `history_safe`: from the fresh decoder NO history makes it fail;
              `decodeCk_eq`: it cannot fail on a state satisfying the invariant `PendingOk`; `localStepM_none_iff`:
              EXACTLY when it fails (so the invariant of `C02.decode_state_ok` is what protects these accesses, and
              unlike `decodeM` the checked decoder does look at the reassembly buffer: `decodeCk_corrupt_state`).
  §B (1, 10)  validator reads ⊆ payload slice ⊆ message ⊆ buffer, composed, in BUFFER coordinates.
  §C (1)      source level, K3 as an extensional statement: the translated `Decoder::decode` is defined with the buffer
              flush against the END of memory and its result does not depend on a single byte outside the buffer.
  §D (6, 7)   source level: the TECMP seam (`getD []`, `filterMap id`) erases nothing — the raw vector of the translated
              `TECMP::Decoder::Decode` has no null element, every element owns a payload; counts agree.
  §E (7, 9)   the payload object of a delivered message, concretely (`create_cases`, `unseg_packet_object`); the exact
              characterisations of `create` exist already (C01S / C04S, see the report).
  §F (9)      K2: the fuel of the TECMP bus loop is never exhausted (any larger fuel gives the same list), exact
              iteration count, sharp packet count, K6 over histories, linear fuel at source level.
  §G          histories: the C02 statements from the fresh decoder over any history (Q2), with literal witnesses on the
              reassembly branch.

  No input was found on which the MODEL violates the property's text.  The two UBSan reports of finding 2 concern
  undefined behaviour the semantics of Src/Sem.lean does not represent (dynamic type of a sliced object, null pointer
  passed to `memcpy` with length 0); `ubsan_witness_in_model` records the reviewer's input: the model (and every
  registered theorem) is fine with it.
-/
import AsamCmp.Props.C02
import AsamCmp.Props.C02b
import AsamCmp.Props.C03S
import AsamCmp.Props.C15S
import AsamCmp.Props.C17S
import AsamCmp.Props.SrcHistory
set_option linter.unusedSimpArgs false
set_option linter.unusedVariables false
namespace AsamCmp.C02S
open AsamCmp

/-! ## §A  the reassembly vector: checked store, checked read-back, histories (findings 3 and 8) -/

/-- checked store on one of the library's own vectors (`payload[off .. off+|v|) = v`, as `memcpy` / a store through
    `getHeader()` does it): `none` = a write outside `[0, size())` -/
def wrB (buf : Bytes) (off : Nat) (v : Bytes) : Option Bytes :=
  if off + v.length ≤ buf.length then some (writeAt buf off v) else none

/-- a store inside the vector is a genuine in-place overwrite: same size, bytes in front and behind untouched, and the
    stored bytes read back -/
theorem writeAt_inplace (bs v : Bytes) (off : Nat) (h : off + v.length ≤ bs.length) :
    (writeAt bs off v).length = bs.length ∧ (writeAt bs off v).take off = bs.take off ∧
    (writeAt bs off v).drop (off + v.length) = bs.drop (off + v.length) ∧
    slice (writeAt bs off v) off v.length = v := by
  have hto : (bs.take off).length = off := by rw [List.length_take]; omega
  refine ⟨?_, ?_, ?_, ?_⟩
  · simp only [writeAt, List.length_append, List.length_take, List.length_drop]; omega
  · unfold writeAt
    rw [List.append_assoc, List.take_left' hto]
  · unfold writeAt
    rw [List.drop_left' (by simp only [List.length_append, hto])]
  · unfold writeAt slice
    rw [List.append_assoc, List.drop_left' hto, List.take_left' rfl]

/-- … and the total `writeAt` of the model is NOT in place outside the vector (it re-shapes the list): for a non-empty
    store, "the size is unchanged" holds exactly when the store is inside.  So `wrB` is not an arbitrary annotation:
    it is `some` exactly when the model's total function behaves like a store. -/
theorem wrB_isSome_iff (bs v : Bytes) (off : Nat) (hv : v ≠ []) :
    (wrB bs off v).isSome = true ↔ (writeAt bs off v).length = bs.length := by
  have hv' : 0 < v.length := List.length_pos_iff.mpr hv
  unfold wrB
  by_cases h : off + v.length ≤ bs.length
  · simp only [h, if_true, Option.isSome_some, true_iff]
    exact (writeAt_inplace bs v off h).1
  · simp only [h, if_false, Option.isSome_none, Bool.false_eq_true, false_iff]
    simp only [writeAt, List.length_append, List.length_take, List.length_drop]
    omega

/-- the single-endpoint automaton with the accesses of the pending vector CHECKED and their results USED: the header
    rewrite `getHeader()->setPayloadLength(...)` is a 2-byte store at offset 14 of the accumulated vector (`wrB`), and
    `getPacket()` constructs the packet through the checked-read constructor `ofMsgM` (16 header bytes + the declared
    bytes of the vector).  `none` = an access outside the vector.  Everything else is `localStep`. -/
def localStepM (p : Option Pending) (f : PFrame) : Option (Option Pending × List Packet) :=
  match f.term with
  | .done => some (none, f.unseg)
  | .invalid => some (none, f.unseg)
  | .seg m =>
    if segTypeOf m = 4 then some (some ⟨m, 4, f.ver, f.mt, f.seq⟩, f.unseg)
    else
      match (if f.unseg.isEmpty then p else none) with
      | none => some (none, f.unseg)
      | some q =>
        if q.ver = f.ver ∧ q.mt = f.mt ∧ f.seq = (q.seq + 1) % 65536 ∧ validNext q.last (segTypeOf m) then
          match wrB (q.buf ++ m.drop 16) 14
              (beEnc 2 (((q.buf ++ m.drop 16).length % 65536 + 65536 - 16) % 65536)) with
          | none => none
          | some buf =>
            if segTypeOf m = 12 then
              match ofMsgM q.mt buf with
              | none => none
              | some pk => some (none, f.unseg ++ [tagPacket f.ep q.ver pk])
            else some (some { q with buf := buf, last := segTypeOf m, seq := (q.seq + 1) % 65536 }, f.unseg)
        else some (none, f.unseg)

/-- the frames on which the automaton touches the pending vector: a non-first segment alone in its frame that
    continues the pending message `q` -/
def Continues (p : Option Pending) (f : PFrame) (q : Pending) (m : Bytes) : Prop :=
  f.term = .seg m ∧ segTypeOf m ≠ 4 ∧ f.unseg.isEmpty = true ∧ p = some q ∧
    (q.ver = f.ver ∧ q.mt = f.mt ∧ f.seq = (q.seq + 1) % 65536 ∧ validNext q.last (segTypeOf m) = true)

theorem wrB_fix (acc : Bytes) (h : 16 ≤ acc.length) :
    wrB acc 14 (beEnc 2 ((acc.length % 65536 + 65536 - 16) % 65536)) = some (fixLen acc) := by
  unfold wrB
  rw [if_pos (by rw [beEnc_length]; omega)]
  rfl

theorem wrB_fix_none (acc : Bytes) (h : acc.length < 16) :
    wrB acc 14 (beEnc 2 ((acc.length % 65536 + 65536 - 16) % 65536)) = none := by
  unfold wrB
  rw [if_neg (by rw [beEnc_length]; omega)]

/-- SOUND for every state (corrupt ones included): whatever the checked automaton returns is what the model returns —
    it can refuse, it cannot compute anything else -/
theorem localStepM_sound (p : Option Pending) (f : PFrame) (r : Option Pending × List Packet)
    (h : localStepM p f = some r) : r = localStep p f := by
  unfold localStepM at h
  unfold localStep
  split at h
  · rename_i ht; rw [ht]; exact (Option.some.inj h).symm
  · rename_i ht; rw [ht]; exact (Option.some.inj h).symm
  · rename_i m ht
    rw [ht]
    simp only
    split at h
    · rename_i h4; rw [if_pos h4]; exact (Option.some.inj h).symm
    · rename_i h4
      rw [if_neg h4]
      split at h
      · rename_i hq; rw [hq]; exact (Option.some.inj h).symm
      · rename_i q hq
        rw [hq]
        simp only
        split at h
        · rename_i hc
          rw [if_pos hc]
          by_cases h16 : 16 ≤ (q.buf ++ m.drop 16).length
          · rw [wrB_fix _ h16] at h
            simp only at h
            obtain ⟨hl, hb⟩ := C02.fixLen_read _ h16
            rw [← hl] at hb
            split at h
            · rename_i h12
              rw [if_pos h12]
              rw [C02.ofMsgM_eq _ _ hb] at h
              exact (Option.some.inj h).symm
            · rename_i h12
              rw [if_neg h12]
              exact (Option.some.inj h).symm
          · rw [wrB_fix_none _ (by omega)] at h
            cases h
        · rename_i hc
          rw [if_neg hc]
          exact (Option.some.inj h).symm

/-- **EXACTLY when an access of the pending vector is out of range**: on a frame that continues the pending message while
    the accumulated vector (pending bytes + the segment's bytes behind its header) is shorter than a message header.
    (Then the 2-byte store at offset 14 is outside.  When the vector holds 16 bytes or more, the store AND the
    read-back of header + rewritten length are inside — `C02.reassembled_length_inbounds` — whatever was accumulated,
    also beyond 65535 bytes.) -/
theorem localStepM_none_iff (p : Option Pending) (f : PFrame) :
    localStepM p f = none ↔ ∃ q m, Continues p f q m ∧ q.buf.length + (m.length - 16) < 16 := by
  constructor
  · intro h
    unfold localStepM at h
    split at h
    · cases h
    · cases h
    · rename_i m ht
      split at h
      · cases h
      · rename_i h4
        split at h
        · cases h
        · rename_i q hq
          have hpe : f.unseg.isEmpty = true ∧ p = some q := by
            by_cases he : f.unseg.isEmpty = true
            · rw [if_pos he] at hq; exact ⟨he, hq⟩
            · rw [if_neg he] at hq; cases hq
          split at h
          · rename_i hc
            by_cases h16 : 16 ≤ (q.buf ++ m.drop 16).length
            · exfalso
              rw [wrB_fix _ h16] at h
              simp only at h
              obtain ⟨hl, hb⟩ := C02.fixLen_read _ h16
              rw [← hl] at hb
              rw [C02.ofMsgM_eq _ _ hb] at h
              split at h <;> cases h
            · refine ⟨q, m, ⟨ht, h4, hpe.1, hpe.2, hc⟩, ?_⟩
              simp only [List.length_append, List.length_drop] at h16
              omega
          · cases h
  · intro ⟨q, m, ⟨ht, h4, he, hp, hc⟩, hlen⟩
    unfold localStepM
    rw [ht]
    simp only
    rw [if_neg h4, if_pos he, hp]
    simp only
    rw [if_pos hc, wrB_fix_none _ (by simp only [List.length_append, List.length_drop]; omega)]

/-- on a state that satisfies the invariant of `C02.decode_state_ok` (stored reassemblies hold at least a message header)
    every access of the pending vector is in range, for EVERY frame -/
theorem localStepM_eq (p : Option Pending) (f : PFrame) (hp : PendingOk p) :
    localStepM p f = some (localStep p f) := by
  cases h : localStepM p f with
  | some r => rw [localStepM_sound p f r h]
  | none =>
    exfalso
    obtain ⟨q, m, ⟨_, _, _, hpq, _⟩, hlen⟩ := (localStepM_none_iff p f).mp h
    subst hpq
    have := hp.2
    omega

/-- `step` with the checked automaton at the frame's endpoint -/
def stepM (s : DecState) (f : PFrame) : Option (DecState × List Packet) :=
  (localStepM (s f.ep) f).map fun r => (s.set f.ep r.1, r.2)

/-- the COMPLETE entry point with every access checked: reads of the supplied buffer through `rdB`/`rdN` (the walk and
    the TECMP path of `decodeM`) and the accesses of the pending vector through `localStepM` -/
def decodeCk (s : DecState) (buf : Option Bytes) : Option (DecState × List Packet) :=
  match buf with
  | none => some (s, [])
  | some b =>
    if b.length < 8 then some (s, [])
    else
      match rdN b 0 1 with
      | none => none
      | some b0 =>
        if b0 = 0 then (tecmpDecodeM b).map fun ps => (s, ps)
        else (parseFrameM b).bind fun f => stepM s f

/-- a history of calls on one decoder: `none` as soon as one call performs an out-of-range access -/
def runCk (s : DecState) : List (Option Bytes) → Option (DecState × List Packet)
  | [] => some (s, [])
  | b :: bs =>
    match decodeCk s b with
    | none => none
    | some r =>
      match runCk r.1 bs with
      | none => none
      | some r' => some (r'.1, r.2 ++ r'.2)

/-- sound on every state: the fully checked decoder can refuse, it cannot return anything but the model's result -/
theorem decodeCk_sound (s : DecState) (buf : Option Bytes) (r : DecState × List Packet)
    (h : decodeCk s buf = some r) : r = decode s buf := by
  unfold decodeCk at h
  unfold decode decodeWith
  cases buf with
  | none => exact (Option.some.inj h).symm
  | some b =>
    simp only at h ⊢
    by_cases h8 : b.length < 8
    · rw [if_pos h8] at h; rw [if_pos h8]; exact (Option.some.inj h).symm
    · rw [if_neg h8, C02.rdN1_some b 0 (by omega)] at h
      rw [if_neg h8]
      simp only at h
      by_cases h0 : byteAt b 0 = 0
      · rw [if_pos h0, C02.tecmpDecodeM_eq] at h
        rw [if_pos h0]
        exact (Option.some.inj h).symm
      · rw [if_neg h0, C02.parseFrameM_eq b (by omega)] at h
        rw [if_neg h0]
        simp only [Option.bind_some, stepM] at h
        cases hl : localStepM (s (parseFrame b).ep) (parseFrame b) with
        | none => rw [hl] at h; cases h
        | some x =>
          rw [hl] at h
          rw [localStepM_sound _ _ x hl] at h
          exact (Option.some.inj h).symm

/-- **one call, any buffer, any state satisfying the invariant**: no read outside the supplied buffer and no access
    outside the pending vector; the result is the model's -/
theorem decodeCk_eq (s : DecState) (hs : ∀ e, PendingOk (s e)) (buf : Option Bytes) :
    decodeCk s buf = some (decode s buf) := by
  cases h : decodeCk s buf with
  | some r => rw [decodeCk_sound s buf r h]
  | none =>
    exfalso
    unfold decodeCk at h
    cases buf with
    | none => cases h
    | some b =>
      simp only at h
      by_cases h8 : b.length < 8
      · rw [if_pos h8] at h; cases h
      · rw [if_neg h8, C02.rdN1_some b 0 (by omega)] at h
        simp only at h
        by_cases h0 : byteAt b 0 = 0
        · rw [if_pos h0, C02.tecmpDecodeM_eq] at h; cases h
        · rw [if_neg h0, C02.parseFrameM_eq b (by omega)] at h
          simp only [Option.bind_some, stepM, localStepM_eq _ _ (hs _)] at h
          cases h

/-- a history from any state satisfying the invariant -/
theorem history_safe_from (bufs : List (Option Bytes)) : ∀ (s : DecState), (∀ e, PendingOk (s e)) →
    runCk s bufs = some (decodeAll tecmpDecode s bufs) := by
  induction bufs with
  | nil => intro s _; rfl
  | cons b bs ih =>
    intro s hs
    have hd : decodeWith tecmpDecode s b = decode s b := rfl
    simp only [runCk, decodeCk_eq s hs b, ih _ (C02.decode_state_ok s b hs), decodeAll, hd]

/-- **Q2 + K3 + K5 (spatial) in one statement, no hypothesis.**  "For every byte string of every length, presented after
    any history of earlier decode calls": for EVERY list of buffers (null pointers, short buffers, TECMP messages, CMP
    frames, interleaved endpoints, truncated or corrupted in any way) fed to a fresh decoder, NO call reads outside its
    buffer and NO call reads or writes outside a pending reassembly vector; and the packets and the final state are
    the model's `decodeAll`. -/
theorem history_safe (bufs : List (Option Bytes)) :
    runCk DecState.empty bufs = some (decodeAll tecmpDecode DecState.empty bufs) :=
  history_safe_from bufs DecState.empty (fun _ => (trivial : PendingOk none))

/-- … in particular the call made AFTER any history -/
theorem decode_after_history_safe (hist : List (Option Bytes)) (buf : Option Bytes) :
    decodeCk (decodeAll tecmpDecode DecState.empty hist).1 buf =
      some (decode (decodeAll tecmpDecode DecState.empty hist).1 buf) :=
  decodeCk_eq _ (C03S.decodeAll_state_ok hist DecState.empty (fun _ => (trivial : PendingOk none))) buf

/-! ### witnesses for §A -/

/-- a pending entry that VIOLATES the invariant (an empty vector) and an intermediary segment that continues it: the
    checked automaton refuses (the 2-byte store at offset 14 is outside the 1-byte vector) … -/
example : localStepM (some ⟨[], 4, 1, 1, 5⟩) ⟨(0x0102, 7), 1, 1, 6, [], .seg (C17S.exSegMsg 8)⟩ = none := by decide
/-- … while the model's total `writeAt` silently re-shapes the list (1 byte in, 3 bytes out), which is why the
    theorems about `decode` alone cannot see such a write -/
example : ((localStep (some ⟨[], 4, 1, 1, 5⟩) ⟨(0x0102, 7), 1, 1, 6, [], .seg (C17S.exSegMsg 8)⟩).1.map
    fun q => q.buf.length) = some 3 := by decide
/-- a healthy pending entry (16 header bytes + 1) and the same segment: store and all in range, 18 bytes afterwards,
    length field rewritten to 2 -/
example : (localStepM (some ⟨C17S.exSegMsg 4, 4, 1, 1, 5⟩) ⟨(0x0102, 7), 1, 1, 6, [], .seg (C17S.exSegMsg 8)⟩).map
    (fun r => (r.1.map fun q => (q.buf.length, beAt q.buf 14 2, q.last, q.seq), r.2.length)) =
    some (some (18, 2, 8, 6), 0) := by decide
/-- … and a LAST segment on it: one packet, built by the checked constructor from the vector, payload 0x55 0x55 -/
example : (localStepM (some ⟨C17S.exSegMsg 4, 4, 1, 1, 5⟩) ⟨(0x0102, 7), 1, 1, 6, [], .seg (C17S.exSegMsg 12)⟩).map
    (fun r => r.2.map fun p => (p.deviceId, p.streamId, p.payload.map (·.data))) =
    some [(0x0102, 7, some [0x55, 0x55])] := by decide
example : (localStepM (some ⟨C17S.exSegMsg 4, 4, 1, 1, 5⟩) ⟨(0x0102, 7), 1, 1, 6, [], .seg (C17S.exSegMsg 12)⟩).map
    (fun r => (r.1.isSome, r.2.length)) = some (false, 1) := by decide
/-- `localStepM_none_iff`, right-hand side on the literal: `Continues` holds and 0 + (17 − 16) < 16 -/
example : Continues (some ⟨[], 4, 1, 1, 5⟩) ⟨(0x0102, 7), 1, 1, 6, [], .seg (C17S.exSegMsg 8)⟩ ⟨[], 4, 1, 1, 5⟩ (C17S.exSegMsg 8) :=
  ⟨rfl, by decide, rfl, rfl, rfl, rfl, rfl, by decide⟩

/-- a decoder state that violates the invariant at endpoint (0x0102, 7) -/
def corruptState : DecState := DecState.empty.set (0x0102, 7) (some ⟨[], 4, 1, 1, 5⟩)

theorem exMid_parse : parseFrame C17S.exMid =
    { ep := (0x0102, 7), ver := 1, mt := 1, seq := 6, unseg := [],
      term := .seg ((⟨9, 3, 8, 0x20⟩ : C05b.SegHdr).bytes 3 ++ [0xCC, 0xDD, 0xEE]) } := by
  have e : C17S.exMid = C05b.segFrame 1 0x0102 1 7 6 ⟨9, 3, 8, 0x20⟩ [0xCC, 0xDD, 0xEE] [0x77] := by decide
  rw [e]
  exact C05b.segFrame_parse 1 0x0102 1 7 6 ⟨9, 3, 8, 0x20⟩ 8 [0xCC, 0xDD, 0xEE] [0x77] (by decide) (by decide) (by decide)
    (by decide) (by decide) (by decide) (by unfold C05b.SegHdr.WF; decide) (by decide)

/-- **the invariant is what protects the accesses (finding 8).**  On a state violating `PendingOk`, the complete checked
    decoder FAILS on the (perfectly well-formed) frame `exMid`, whereas `decodeM` — which never looks at the pending
    vector — succeeds (`C02.decode_inbounds` holds for every state).  So `history_safe` is not true by construction:
    it needs `C02.decode_state_ok` at every step. -/
theorem decodeCk_corrupt_state :
    decodeCk corruptState (some C17S.exMid) = none ∧ (decodeM corruptState (some C17S.exMid)).isSome = true ∧
    ¬ PendingOk (corruptState (0x0102, 7)) := by
  refine ⟨?_, by rw [C02.decode_inbounds]; rfl, ?_⟩
  · have h8 : ¬ C17S.exMid.length < 8 := by decide
    have hr : rdN C17S.exMid 0 1 = some 1 := by decide
    unfold decodeCk
    simp only [h8, if_false, hr]
    rw [if_neg (by decide), C02.parseFrameM_eq _ (by decide), exMid_parse]
    simp only [Option.bind_some, stepM]
    have : localStepM (corruptState (0x0102, 7))
        { ep := (0x0102, 7), ver := 1, mt := 1, seq := 6, unseg := [],
          term := .seg ((⟨9, 3, 8, 0x20⟩ : C05b.SegHdr).bytes 3 ++ [0xCC, 0xDD, 0xEE]) } = none := by decide
    rw [this]; rfl
  · intro h
    have : (16 : Nat) ≤ 0 := h.2
    omega

/-- `history_safe` on a literal history exercising first, intermediary and last segment, a second endpoint in between, a
    null pointer, an undersized buffer and a TECMP message -/
example : runCk DecState.empty
      [some C17S.exFirst, none, some C17S.exFirstB, some [1, 2, 3], some C17S.exMid, some SrcTec.exCanFd, some C17S.exLast] =
    some (decodeAll tecmpDecode DecState.empty
      [some C17S.exFirst, none, some C17S.exFirstB, some [1, 2, 3], some C17S.exMid, some SrcTec.exCanFd, some C17S.exLast]) :=
  history_safe _

/-! ### the converter's stores into the payload objects it builds (TECMP path; finding 3, `Payload::setData<Header>`) -/

/-- CAN / CAN-FD object: the id word (offset 4), the two length bytes `setData` writes behind `resize(16 + n)` (offset 14) and
    the crc word (offset 8) are all stored INSIDE the object's vector, whatever the data length; the object ends up with
    exactly header + data bytes -/
theorem tecmp_can_stores_inbounds (a c : Nat) (data : Bytes) :
    (wrB canDefault 4 (beEnc 4 a)).isSome = true ∧
    (wrB (setTail 16 (writeAt canDefault 4 (beEnc 4 a)) data) 14
        [UInt8.ofNat (dlcOf (data.length % 256)), UInt8.ofNat data.length]).isSome = true ∧
    (wrB (canSetData (writeAt canDefault 4 (beEnc 4 a)) data) 8 (beEnc 4 c)).isSome = true ∧
    (writeAt (canSetData (writeAt canDefault 4 (beEnc 4 a)) data) 8 (beEnc 4 c)).length = 16 + data.length := by
  refine ⟨?_, ?_, ?_, ?_⟩ <;>
    simp [wrB, canDefault, zeros, setTail, canSetData, writeAt, resize] <;> omega

/-- LIN object: pid (offset 4), checksum (offset 6), the length byte of `setData` (offset 7) -/
theorem tecmp_lin_stores_inbounds (x y : UInt8) (data : Bytes) :
    (wrB linDefault 4 [x]).isSome = true ∧ (wrB (writeAt linDefault 4 [x]) 6 [y]).isSome = true ∧
    (wrB (setTail 8 (writeAt (writeAt linDefault 4 [x]) 6 [y]) data) 7 [UInt8.ofNat data.length]).isSome = true ∧
    (linSetData (writeAt (writeAt linDefault 4 [x]) 6 [y]) data).length = 8 + data.length := by
  refine ⟨?_, ?_, ?_, ?_⟩ <;>
    simp [wrB, linDefault, zeros, setTail, linSetData, writeAt, resize] <;> omega

/-- interface-status object: interface id (offset 0), messages total (offset 4), errors total (offset 20) in a 40-byte object -/
theorem tecmp_if_stores_inbounds (i m e : Nat) :
    (wrB ifDefault 0 (beEnc 4 i)).isSome = true ∧ (wrB (writeAt ifDefault 0 (beEnc 4 i)) 4 (beEnc 4 m)).isSome = true ∧
    (wrB (writeAt (writeAt ifDefault 0 (beEnc 4 i)) 4 (beEnc 4 m)) 20 (beEnc 4 e)).isSome = true ∧
    (writeAt (writeAt (writeAt ifDefault 0 (beEnc 4 i)) 4 (beEnc 4 m)) 20 (beEnc 4 e)).length = 40 := by
  refine ⟨?_, ?_, ?_, ?_⟩ <;>
    simp [wrB, ifDefault, zeros, writeAt] <;> omega

example : writeAt (canSetData (writeAt canDefault 4 (beEnc 4 0x1ABCDEF0)) [1, 2, 3]) 8 (beEnc 4 0x332211) =
    [0, 0, 0, 0, 0x1A, 0xBC, 0xDE, 0xF0, 0, 0x33, 0x22, 0x11, 0, 0, 3, 3, 1, 2, 3] := by decide

/-! ## §B  validator reads ⊆ payload slice ⊆ message ⊆ buffer (findings 1 and 10) -/

/-- none of the six payload validators reads outside `d` (the conclusion of `C02b.validators_inbounds`, as a predicate) -/
def ValidatorsInbounds (d : Bytes) : Prop :=
  C02b.canValidM d = some (canValid d) ∧ C02b.linValidM d = some (linValid d) ∧ C02b.ethValidM d = some (ethValid d) ∧
  C02b.analogValidM d = some (analogValid d) ∧ C02b.cmValidM d = some (cmValid d) ∧ C02b.ifValidM d = some (ifValid d)

/-- a message `Packet::isValidPacket` accepted: the payload handed to `Packet::create` is the checked slice
    `[16, 16 + declared)` of the message — it has the FULL declared length (the total `slice` did not truncate, so no byte
    behind the message was asked for) — and whichever validator `create` runs reads inside that slice -/
theorem msg_payload_validators_inbounds (r : Bytes) (h : msgValid r = true) :
    rdB r 16 (beAt r 14 2) = some (slice r 16 (beAt r 14 2)) ∧
    (slice r 16 (beAt r 14 2)).length = beAt r 14 2 ∧
    ValidatorsInbounds (slice r 16 (beAt r 14 2)) := by
  have hb := C02.msgValid_bound r h
  refine ⟨C02.rdB_some r 16 _ hb, ?_, C02b.validators_inbounds _⟩
  simp only [slice, List.length_take, List.length_drop]; omega

/-- the same for the reassembled message: header + rewritten length of the accumulated vector -/
theorem reassembled_payload_validators_inbounds (x : Bytes) (h : 16 ≤ x.length) :
    rdB (fixLen x) 16 (beAt (fixLen x) 14 2) = some (slice (fixLen x) 16 (beAt (fixLen x) 14 2)) ∧
    (slice (fixLen x) 16 (beAt (fixLen x) 14 2)).length = beAt (fixLen x) 14 2 ∧
    ValidatorsInbounds (slice (fixLen x) 16 (beAt (fixLen x) 14 2)) := by
  obtain ⟨hl, hb⟩ := C02.fixLen_read x h
  rw [← hl] at hb
  refine ⟨C02.rdB_some _ 16 _ hb, ?_, C02b.validators_inbounds _⟩
  simp only [slice, List.length_take, List.length_drop]; omega

/-- **in BUFFER coordinates.**  Every unsegmented packet the message loop delivers for the buffer `b` (any buffer, any
    content) sits at an offset `off ≥ 8` with header and declared payload inside `b`; its payload object is
    `create (message type of the frame, payload type byte at off+13) (the bytes b[off+16 .. off+16+declared))`, that
    slice has the full declared length, the checked read of it succeeds, and no validator reads outside it.  This is the
    composition "validator ⊆ payload ⊆ message ⊆ buffer" that `ofMsgM` only carried as a comment. -/
theorem unseg_payload_from_buffer (b : Bytes) :
    ∀ p ∈ (parseFrame b).unseg, ∃ off, 8 ≤ off ∧ off + 16 + beAt b (off + 14) 2 ≤ b.length ∧
      p.payload = some (create (byteAt b 4 * 256 + byteAt b (off + 13)) (slice b (off + 16) (beAt b (off + 14) 2))) ∧
      (slice b (off + 16) (beAt b (off + 14) 2)).length = beAt b (off + 14) 2 ∧
      rdB b (off + 16) (beAt b (off + 14) 2) = some (slice b (off + 16) (beAt b (off + 14) 2)) ∧
      ValidatorsInbounds (slice b (off + 16) (beAt b (off + 14) 2)) := by
  intro p hp
  have hu : (parseFrame b).unseg = (walk (beAt b 2 2, byteAt b 5) (byteAt b 0) (byteAt b 4) (b.drop 8)).1 := rfl
  rw [hu] at hp
  obtain ⟨off', _, hv, hpe⟩ := C03S.walk_source _ _ _ _ p hp
  rw [List.drop_drop] at hv hpe
  have hb := C02.msgValid_bound _ hv
  rw [C17S.beAt_drop, List.length_drop] at hb
  have hin : 8 + off' + 16 + beAt b (8 + off' + 14) 2 ≤ b.length := by omega
  have hlen : (slice b (8 + off' + 16) (beAt b (8 + off' + 14) 2)).length = beAt b (8 + off' + 14) 2 := by
    simp only [slice, List.length_take, List.length_drop]; omega
  refine ⟨8 + off', by omega, hin, ?_, hlen, C02.rdB_some b _ _ (by omega), C02b.validators_inbounds _⟩
  rw [hpe]
  simp only [tagPacket, Packet.ofMsg, C17S.beAt_drop, C17S.slice_drop, SrcTie.byteAt_drop]

/-- `unseg_payload_from_buffer` on a literal frame: one Ethernet message at offset 8 (declared length 8) and a truncated
    second one that is NOT delivered -/
example : ∃ off, 8 ≤ off ∧ off + 16 + beAt SrcDec.exFrame (off + 14) 2 ≤ SrcDec.exFrame.length ∧
    slice SrcDec.exFrame (off + 16) (beAt SrcDec.exFrame (off + 14) 2) = [0, 0, 0, 0, 0, 2, 0xAA, 0xBB] :=
  ⟨8, by decide, by decide, by decide⟩

/-! ## §C  source level: the result depends on no byte outside the buffer (finding 1, K3) -/

section Source
open AsamCmp.Src AsamCmp.SrcGen AsamCmp.SrcDec

/-- **K3 extensionally, for the TRANSLATED `Decoder::decode`** (translated TECMP decoder plugged in), after any history
    (`TableInv B t` is the invariant `SrcHist.decode_history_from` establishes for the table after any list of calls).
    Place the same buffer `b` (ANY bytes, ANY length) at two non-null addresses of two arbitrary memories
    `pre ++ b ++ post`, `pre' ++ b ++ post'`: both calls are defined, leave the SAME member state and return the SAME
    packets — the model's.  So no byte in front of or behind the supplied buffer influences anything the call does; and
    since `post` may be empty (`decode_src_flush_end`), in which case ANY read at or behind `b`'s end is undefined
    (`rd_past_end`), no such read happens. -/
theorem decode_src_buffer_local (B : Nat) (t : Table) (b pre post pre' post' : Bytes) (fuel : Nat)
    (hI : SrcHist.TableInv B t) (hB : B + 65536 < 2 ^ 64) (hpre : 0 < pre.length) (hpre' : 0 < pre'.length)
    (hmem : (pre ++ b ++ post).length < 2 ^ 63) (hmem' : (pre' ++ b ++ post').length < 2 ^ 63) (hf : b.length ≤ fuel) :
    ∃ s' outs outs',
      Decoder_decode_obj fuel (tblSt t) (pre ++ b ++ post) pre.length b.length (SrcTec.tecmpExt fuel) = some (s', outs) ∧
      Decoder_decode_obj fuel (tblSt t) (pre' ++ b ++ post') pre'.length b.length (SrcTec.tecmpExt fuel) = some (s', outs') ∧
      outs.map (Sum.elim toPacket SrcTec.tAbs) = outs'.map (Sum.elim toPacket SrcTec.tAbs) ∧
      outs.map (Sum.elim toPacket SrcTec.tAbs) = (decode t.abs (some b)).2 := by
  obtain ⟨o1, h1, k1⟩ := SrcHist.decode_step_src t pre b post fuel hI.1 (SrcHist.tableInv_reg hI hB) hpre hmem hf
  obtain ⟨o2, h2, k2⟩ := SrcHist.decode_step_src t pre' b post' fuel hI.1 (SrcHist.tableInv_reg hI hB) hpre' hmem' hf
  obtain ⟨_, _, k3⟩ := C17b.decodeLL_refines t (some b) hI.1
  exact ⟨_, o1, o2, h1, h2, by rw [k1, k2], by rw [k1, k3]⟩

/-- in the flat memory of Src/Sem.lean a read that touches the first byte behind the memory is undefined -/
theorem rd_past_end (m : Bytes) (a w : Nat) (h : m.length < a + w) : Src.rd m a w = none := by
  unfold Src.rd
  rw [if_neg (by omega)]

/-- the buffer flush against the END of memory (one byte in front so that the pointer is non-null, nothing behind):
    the translated `Decoder::decode` is defined and returns the model's packets — although every scalar read that
    reaches `data + size` is undefined there (`rd_past_end` with `m = [x] ++ b`) -/
theorem decode_src_flush_end (B : Nat) (t : Table) (b : Bytes) (x : UInt8) (fuel : Nat)
    (hI : SrcHist.TableInv B t) (hB : B + 65536 < 2 ^ 64) (hmem : b.length + 1 < 2 ^ 63) (hf : b.length ≤ fuel) :
    ∃ t' outs, Decoder_decode_obj fuel (tblSt t) ([x] ++ b ++ []) 1 b.length (SrcTec.tecmpExt fuel) = some (tblSt t', outs) ∧
      SrcHist.TableInv (B + b.length) t' ∧ t'.abs = (decode t.abs (some b)).1 ∧
      outs.map (Sum.elim toPacket SrcTec.tAbs) = (decode t.abs (some b)).2 ∧
      (∀ a w, b.length + 1 < a + w → Src.rd ([x] ++ b ++ []) a w = none) := by
  obtain ⟨t', outs, h1, h2, h3, h4⟩ := SrcHist.tableInv_preserved B t [x] b [] fuel hI hB Nat.zero_lt_one
    (by simp only [List.length_append, List.length_cons, List.length_nil]; omega) hf
  refine ⟨t', outs, h1, h2, h3, h4, ?_⟩
  intro a w haw
  exact rd_past_end _ a w (by simp only [List.length_append, List.length_cons, List.length_nil]; omega)

/-- hypotheses satisfiable; two different memories around the CMP frame `exFrame`, fresh decoder -/
example := decode_src_buffer_local 0 [] SrcDec.exFrame [9] [5, 5] [1, 2, 3] [] 64 SrcHist.tableInv_fresh.1 (by decide)
  (by decide) (by decide) (by decide) (by decide) (by decide)
example := decode_src_flush_end 0 [] SrcTec.exCanFd 9 64 SrcHist.tableInv_fresh.1 (by decide) (by decide) (by decide)

/-! ## §D  source level: no null element, every element owns a payload (findings 6 and 7) -/

/-- **K7 / K8 for the TECMP half at source level, in front of the seam.**  `tecmpExt` turns "undefined" into `[]`
    (`getD []`) and drops null pointers (`filterMap id`); this theorem says both never fire: the RAW vector the translated
    `TECMP::Decoder::Decode` returns is defined, contains no null pointer, every packet in it owns a payload object, it
    is literally `tecmpExt`'s list wrapped in `some`, and it has as many elements as the model delivers packets.
    Buffer: any content, any length below 2^64 − 2^16, non-null address. -/
theorem tecmp_raw_no_null (pre b post : Bytes) (fuel : Nat) (hpre : 0 < pre.length)
    (hmem : (pre ++ b ++ post).length < 2 ^ 64) (hf : b.length ≤ fuel) (hsz : b.length + 2 ^ 16 ≤ 2 ^ 64) :
    ∃ l, TECMP_Decoder_Decode_obj fuel (pre ++ b ++ post) pre.length b.length = some l ∧
      (∀ x ∈ l, ∃ tp, x = some tp ∧ tp.payload.isSome = true) ∧
      l = (SrcTec.tecmpExt fuel (pre ++ b ++ post) pre.length b.length).map some ∧
      l.length = (tecmpDecode b).length := by
  have hsz' : byteAt b 5 = 2 → b.length - 16 + beAt b 32 2 < 2 ^ 64 := fun _ => by
    have := C03.beAt_lt b 32 2; omega
  refine ⟨_, SrcTec.tecmpDecode_src_small pre b post fuel hpre hmem hf hsz, ?_, ?_, by rw [List.length_map]⟩
  · intro x hx
    obtain ⟨p, hp, rfl⟩ := List.mem_map.mp hx
    refine ⟨SrcTec.tRepr p, rfl, ?_⟩
    have := C02.tecmpDecode_payload b p hp
    simp only [SrcTec.tRepr, Option.isSome_map, this]
  · rw [SrcTec.tecmpExt_src pre b post fuel hpre hmem hf hsz', List.map_map]
    rfl

example : ∃ l, TECMP_Decoder_Decode_obj 49 ([9] ++ SrcTec.exCanFd ++ [5, 5]) 1 49 = some l ∧
    (∀ x ∈ l, ∃ tp, x = some tp ∧ tp.payload.isSome = true) ∧ l.length = 1 := by
  obtain ⟨l, h1, h2, _, h4⟩ := tecmp_raw_no_null [9] SrcTec.exCanFd [5, 5] 49 (by decide) (by decide) (by decide) (by decide)
  exact ⟨l, h1, h2, by rw [h4]; decide⟩

/-- **K6 / K7 / K8 for the whole translated `Decoder::decode`, after any history.**  The returned vector has exactly as
    many elements as the model delivers packets (nothing dropped, nothing added by the seam), at most one per 12 input
    bytes, and every element read as a packet owns a payload object.  (Left summands are "arguments of
    `std::make_shared<Packet>`" — non-null by construction; that the translated constructor then gives the packet a
    non-null payload is `SrcPv.wire_ctor_src` / `SrcPv.create_src`.) -/
theorem decode_src_count_payload (B : Nat) (t : Table) (pre b post : Bytes) (fuel : Nat)
    (hI : SrcHist.TableInv B t) (hB : B + 65536 < 2 ^ 64) (hpre : 0 < pre.length)
    (hmem : (pre ++ b ++ post).length < 2 ^ 63) (hf : b.length ≤ fuel) :
    ∃ s' outs, Decoder_decode_obj fuel (tblSt t) (pre ++ b ++ post) pre.length b.length (SrcTec.tecmpExt fuel) = some (s', outs) ∧
      outs.length = (decode t.abs (some b)).2.length ∧ 12 * outs.length ≤ b.length ∧
      ∀ o ∈ outs, (Sum.elim toPacket SrcTec.tAbs o).payload.isSome = true := by
  obtain ⟨t', outs, h1, _, _, h4⟩ := SrcHist.tableInv_preserved B t pre b post fuel hI hB hpre hmem hf
  have hlen : outs.length = (decode t.abs (some b)).2.length := by rw [← h4, List.length_map]
  refine ⟨_, outs, h1, hlen, by rw [hlen]; exact C02.decode_count _ b, ?_⟩
  intro o ho
  apply C02.decode_payload_present t.abs (some b)
  rw [← h4]
  exact List.mem_map_of_mem ho

end Source

/-! ## §E  `create` unfolded; the walk advances by the packet's own length (findings 7 and 9) -/

/-- what `Packet::create` can return: the typed / generic payload holding exactly the bytes it was given, or the
    invalid-marked payload of the SAME length holding zeros.  Never anything else, never "no object". -/
theorem create_cases (ty : Nat) (d : Bytes) : create ty d = ⟨ty, d⟩ ∨ create ty d = ⟨0, zeros d.length⟩ := by
  unfold create
  split
  · split
    · exact Or.inl rfl
    · exact Or.inr rfl
  · split
    · exact Or.inr rfl
    · exact Or.inl rfl

/-- the two cases on the decode path, with the facts already proved elsewhere: a message the loop accepts yields a packet
    whose payload object is `create …` of the declared bytes, of exactly the declared length, and whose
    `getPayloadLength()` — by which the C++ loop advances (`packet->getPayloadLength() + 16`, taken from the PACKET, 16-bit
    truncated), while the model advances by the header field — IS the declared length (`C17b.ofMsg_payloadLength`,
    `C17b.create_length` = `C04S.create_length`; exact characterisations of `create`: `C01S.create_keeps_iff`, `C04S.create_exact`) -/
theorem unseg_packet_object (ep : Ep) (ver mt : Nat) (r : Bytes) (h : msgValid r = true) :
    ∃ pl, (tagPacket ep ver (Packet.ofMsg mt r)).payload = some pl ∧
      pl = create (mt * 256 + byteAt r 13) (slice r 16 (beAt r 14 2)) ∧ pl.data.length = beAt r 14 2 ∧
      (pl = ⟨mt * 256 + byteAt r 13, slice r 16 (beAt r 14 2)⟩ ∨ pl = ⟨0, zeros (beAt r 14 2)⟩) ∧
      (tagPacket ep ver (Packet.ofMsg mt r)).payloadLength + 16 = 16 + beAt r 14 2 := by
  have hb := C02.msgValid_bound r h
  have hl : (slice r 16 (beAt r 14 2)).length = beAt r 14 2 := by
    simp only [slice, List.length_take, List.length_drop]; omega
  refine ⟨_, rfl, rfl, by rw [C17b.create_length, hl], ?_, by rw [C17b.ofMsg_payloadLength ep ver mt r h]; omega⟩
  have := create_cases (mt * 256 + byteAt r 13) (slice r 16 (beAt r 14 2))
  rw [hl] at this
  exact this

example : create tyEth [0, 0, 0, 0, 0, 2, 0xAA, 0xBB] = ⟨tyEth, [0, 0, 0, 0, 0, 2, 0xAA, 0xBB]⟩ := by decide
example : create tyEth [0, 0, 0, 0, 0, 9, 0xAA, 0xBB] = ⟨0, [0, 0, 0, 0, 0, 0, 0, 0]⟩ := by decide
example : create 0x0155 [1, 2] = ⟨0x0155, [1, 2]⟩ ∧ create 0 [1, 2] = ⟨0, [0, 0]⟩ := by decide

/-! ## §F  K2 "promptly": loop bounds (finding 9) -/

/-- **the fuel of the TECMP bus-status loop is never what stops it.**  Once the fuel covers the number of complete entries
    that remain, ANY additional fuel gives the same list — so the list is the one of the unfuelled loop
    `while (off + 12 + v <= size)`, and a loop that did not advance could not be hidden by the fuel. -/
theorem busEntries_fuel_irrelevant (b p : Bytes) (v : Nat) : ∀ (fuel off k : Nat), (p.length - off) / (12 + v) ≤ fuel →
    tecmpBusEntries b p v (fuel + k) off = tecmpBusEntries b p v fuel off := by
  intro fuel
  induction fuel with
  | zero =>
    intro off k h
    have hlt : p.length - off < 12 + v := by
      false_or_by_contra
      rename_i hc
      have : 1 ≤ (p.length - off) / (12 + v) := (Nat.le_div_iff_mul_le (by omega)).mpr (by omega)
      omega
    cases k with
    | zero => rfl
    | succ k =>
      rw [show 0 + (k + 1) = k + 1 from by omega]
      unfold tecmpBusEntries
      rw [if_neg (by omega)]
  | succ fuel ih =>
    intro off k h
    rw [show fuel + 1 + k = (fuel + k) + 1 from by omega]
    unfold tecmpBusEntries
    by_cases hc : off + (12 + v) ≤ p.length
    · rw [if_pos hc, if_pos hc]
      have e : (p.length - off) / (12 + v) = (p.length - (off + (12 + v))) / (12 + v) + 1 := by
        have : p.length - off = (p.length - (off + (12 + v))) + (12 + v) := by omega
        rw [this, Nat.add_div_right _ (by omega)]
      rw [ih (off + (12 + v)) k (by omega)]
    · rw [if_neg hc, if_neg hc]

/-- `tecmpBus` with any fuel at least the model's `p.length / 12 + 1` -/
theorem tecmpBus_any_fuel (b p : Bytes) (fuel : Nat) (hf : p.length / 12 + 1 ≤ fuel) :
    (if p.length < 12 then [] else tecmpBusEntries b p (beAt p 4 2) fuel 12) = tecmpBus b p := by
  unfold tecmpBus
  split
  · rfl
  · obtain ⟨k, rfl⟩ : ∃ k, fuel = (p.length / 12 + 1) + k := ⟨fuel - (p.length / 12 + 1), by omega⟩
    apply busEntries_fuel_irrelevant
    have h1 : (p.length - 12) / (12 + beAt p 4 2) ≤ (p.length - 12) / 12 := Nat.div_le_div_left (by omega) (by decide)
    have h2 : (p.length - 12) / 12 ≤ p.length / 12 := Nat.div_le_div_right (by omega)
    omega

/-- exact number of iterations of the bus-status loop = number of packets: the complete entries of `12 + v` bytes behind
    the 12 generic bytes — for EVERY payload, no hypothesis -/
theorem tecmpBus_length (b p : Bytes) :
    (tecmpBus b p).length = if p.length < 12 then 0 else (p.length - 12) / (12 + beAt p 4 2) := by
  unfold tecmpBus
  split
  · rfl
  · have h1 : (p.length - 12) / (12 + beAt p 4 2) ≤ (p.length - 12) / 12 := Nat.div_le_div_left (by omega) (by decide)
    have h2 : (p.length - 12) / 12 ≤ p.length / 12 := Nat.div_le_div_right (by omega)
    rw [C15S.busEntries_length _ _ _ _ _ (by omega)]

/-- sharp count for a TECMP message: a single packet, or (bus status) one per complete 12-byte entry behind the 28 header
    and 12 generic bytes -/
theorem tecmpDecode_length_le (b : Bytes) : (tecmpDecode b).length ≤ max 1 ((b.length - 40) / 12) := by
  have hcm : (tecmpCm b (b.drop 28)).length ≤ 1 := by
    unfold tecmpCm
    split
    · simp
    · split <;> simp
  have hcan : (tecmpCan b (b.drop 28)).length ≤ 1 := by
    unfold tecmpCan
    split
    · simp
    · simp only
      split
      · simp
      · split <;> simp
  have hlin : (tecmpLin b (b.drop 28)).length ≤ 1 := by
    unfold tecmpLin
    split
    · simp
    · simp only
      split <;> simp
  have hbus : (tecmpBus b (b.drop 28)).length ≤ (b.length - 40) / 12 := by
    rw [tecmpBus_length]
    split
    · exact Nat.zero_le _
    · simp only [List.length_drop]
      have : (b.length - 28 - 12) / (12 + beAt (b.drop 28) 4 2) ≤ (b.length - 28 - 12) / 12 :=
        Nat.div_le_div_left (by omega) (by decide)
      rw [show b.length - 40 = b.length - 28 - 12 from by omega]
      exact this
  unfold tecmpDecode
  by_cases h : b.length < 28
  · simp [h]
  · rw [if_neg h]
    simp only
    repeat' split
    all_goals first | (simp only [List.length_nil]; omega) | omega

/-- K6 over a whole history, from any state: at most one packet per 12 bytes handed to the decoder -/
theorem history_count (bufs : List (Option Bytes)) : ∀ (s : DecState),
    12 * (decodeAll tecmpDecode s bufs).2.length ≤ (bufs.map fun b => (b.map List.length).getD 0).sum := by
  induction bufs with
  | nil => intro s; simp [decodeAll]
  | cons b bs ih =>
    intro s
    have hd : decodeWith tecmpDecode s b = decode s b := rfl
    have h1 : 12 * (decode s b).2.length ≤ (b.map List.length).getD 0 := by
      cases b with
      | none => simp [C02.decode_null]
      | some x => exact C02.decode_count s x
    have h2 := ih (decode s b).1
    simp only [decodeAll, hd, List.length_append, List.map_cons, List.sum_cons]
    omega

section SourceFuel
open AsamCmp.Src AsamCmp.SrcGen AsamCmp.SrcDec

/-- **K2 at source level: linear work.**  After any history, on any buffer, the translated `Decoder::decode` (with the
    translated TECMP decoder) is DEFINED with fuel = the buffer's length: each loop of the call — the message walk, the
    bus-status loop — makes at most `size` iterations (the fuel is what bounds the iterations of each translated `while`;
    running out of it would be `none`).  Work per call linear in the input, independent of the history. -/
theorem decode_src_linear_fuel (B : Nat) (t : Table) (pre b post : Bytes)
    (hI : SrcHist.TableInv B t) (hB : B + 65536 < 2 ^ 64) (hpre : 0 < pre.length)
    (hmem : (pre ++ b ++ post).length < 2 ^ 63) :
    ∃ t' outs, Decoder_decode_obj b.length (tblSt t) (pre ++ b ++ post) pre.length b.length (SrcTec.tecmpExt b.length) =
        some (tblSt t', outs) ∧
      SrcHist.TableInv (B + b.length) t' ∧ t'.abs = (decode t.abs (some b)).1 ∧
      outs.map (Sum.elim toPacket SrcTec.tAbs) = (decode t.abs (some b)).2 :=
  SrcHist.tableInv_preserved B t pre b post b.length hI hB hpre hmem (Nat.le_refl _)

end SourceFuel

example : tecmpBusEntries SrcTec.exBusV (SrcTec.exBusV.drop 28) 4 1000 12 = tecmpBus SrcTec.exBusV (SrcTec.exBusV.drop 28) := by
  have := tecmpBus_any_fuel SrcTec.exBusV (SrcTec.exBusV.drop 28) 1000 (by decide)
  rw [if_neg (by decide)] at this
  rw [← this]
  decide
example : (tecmpBus SrcTec.exBusV (SrcTec.exBusV.drop 28)).length = 3 ∧ (SrcTec.exBusV.length - 40) / 12 = 5 := by decide

/-! ## §G  the C02 statements over histories, and witnesses on the reassembly branch (finding 8, non-vacuity) -/

/-- K8 over a whole history, from any state -/
theorem history_payload_present (bufs : List (Option Bytes)) : ∀ (s : DecState),
    ∀ p ∈ (decodeAll tecmpDecode s bufs).2, p.payload.isSome = true := by
  induction bufs with
  | nil => intro s p hp; simp [decodeAll] at hp
  | cons b bs ih =>
    intro s p hp
    have hd : decodeWith tecmpDecode s b = decode s b := rfl
    simp only [decodeAll, hd, List.mem_append] at hp
    rcases hp with hp | hp
    · exact C02.decode_payload_present s b p hp
    · exact ih _ p hp

section Witnesses
set_option maxRecDepth 100000

/-- first, intermediary and last segment: nothing, nothing, then ONE packet carrying the 6 accumulated bytes; in between
    the endpoint holds a pending entry that satisfies the invariant (`PendingOk (some _)`), afterwards nothing -/
theorem ex_reassembly :
    ((decodeAll tecmpDecode DecState.empty [some C17S.exFirst, some C17S.exMid, some C17S.exLast]).2.map
        fun p => (p.deviceId, p.streamId, p.payload.map (·.data))) = [(0x0102, 7, some [0xAA, 0xBB, 0xCC, 0xDD, 0xEE, 0xFF])] ∧
    ((decodeAll tecmpDecode DecState.empty [some C17S.exFirst, some C17S.exMid]).1 (0x0102, 7)).map
        (fun q => (q.buf.length, q.last, q.seq)) = some (21, 8, 6) ∧
    (decodeAll tecmpDecode DecState.empty [some C17S.exFirst, some C17S.exMid, some C17S.exLast]).1 (0x0102, 7) = none := by
  refine ⟨?_, ?_, ?_⟩
  · rw [← (C17b.runLL_refines _).2.2]; decide
  · rw [← (C17b.runLL_refines _).2.1]; decide
  · rw [← (C17b.runLL_refines _).2.1]; decide

/-- `C02.decode_count`, `C02.decode_payload_present` and `C02.decode_state_ok` on the reassembly branch: the state in
    front of the last segment is a reachable non-empty one, the call delivers one packet (12 · 1 ≤ 25) with a payload -/
example : let s := (decodeAll tecmpDecode DecState.empty [some C17S.exFirst, some C17S.exMid]).1
    (∀ e, PendingOk (s e)) ∧ 12 * (decode s (some C17S.exLast)).2.length ≤ C17S.exLast.length ∧
    ∀ p ∈ (decode s (some C17S.exLast)).2, p.payload.isSome = true :=
  ⟨C03S.decodeAll_state_ok _ _ (fun _ => (trivial : PendingOk none)), C02.decode_count _ _, C02.decode_payload_present _ _⟩

/-- the checked-read decoder on a TRUNCATED frame: `exFrame` cut to 30 bytes, i.e. inside the payload of its first message
    (22 message bytes, 8 declared behind the 16-byte header): defined, nothing is delivered -/
example : (decodeM DecState.empty (some (SrcDec.exFrame.take 30))).map (fun r => r.2.length) = some 0 := by
  rw [C02.decode_inbounds]
  show some (decode (Table.abs []) (some (SrcDec.exFrame.take 30))).2.length = some 0
  rw [← (C17b.decodeLL_refines [] _ C17b.tableOk_empty).2.2]
  decide
/-- … and the checked message validator itself, evaluated literally on the truncated message (22 bytes, declares 8 behind
    a 16-byte header): `some false`, i.e. rejected WITHOUT an out-of-range read -/
example : msgValidM ((SrcDec.exFrame.take 30).drop 8) = some false := by decide
example : msgValidM (SrcDec.exFrame.drop 8) = some true ∧ ofMsgM 1 (SrcDec.exFrame.drop 8) ≠ none := by decide
/-- the checked TECMP path evaluated literally, complete and truncated inside the CAN data -/
example : (tecmpDecodeM SrcTec.exCanFd).map List.length = some 1 ∧
    (tecmpDecodeM (SrcTec.exCanFd.take 40)).map List.length = some 0 := by decide

/-- **source level, on the reassembly branch** (the review: "no example exercises a non-empty table, `addSegment` or
    `getPacket`").  `SrcHist.decode_history_src` on a literal history — first segment, intermediary segment, a null
    pointer, last segment, each buffer in its own memory: the run of the TRANSLATED `Decoder::decode` is defined, returns
    call by call the model's packets — nothing, nothing, nothing, then the one reassembled packet with the six
    accumulated bytes — and leaves no pending entry for the endpoint. -/
example : ∃ t', SrcHist.srcDecodeRun 64 SrcGen.Decoder_default
        [.buf [9] C17S.exFirst [], .buf [9, 9] C17S.exMid [5], .null [] 7, .buf [9] C17S.exLast []] =
      some (SrcDec.tblSt t',
        (SrcHist.decodeEach DecState.empty [some C17S.exFirst, some C17S.exMid, none, some C17S.exLast]).2) ∧
    t'.abs (0x0102, 7) = none ∧
    (SrcHist.decodeEach DecState.empty [some C17S.exFirst, some C17S.exMid, none, some C17S.exLast]).2.length = 4 ∧
    ((SrcHist.decodeEach DecState.empty [some C17S.exFirst, some C17S.exMid, none, some C17S.exLast]).2.flatten.map
        fun p => (p.deviceId, p.streamId, p.payload.map (·.data))) = [(0x0102, 7, some [0xAA, 0xBB, 0xCC, 0xDD, 0xEE, 0xFF])] := by
  obtain ⟨t', h1, _, _, h4, h5, h6⟩ := SrcHist.decode_history_src
    [.buf [9] C17S.exFirst [], .buf [9, 9] C17S.exMid [5], .null [] 7, .buf [9] C17S.exLast []] 64
    (by
      intro c hc
      simp only [List.mem_cons, List.not_mem_nil, or_false] at hc
      rcases hc with rfl | rfl | rfl | rfl <;> simp only [SrcHist.Call.Ok] <;> decide)
    (by decide)
  have e : List.map SrcHist.Call.arg
      [.buf [9] C17S.exFirst [], .buf [9, 9] C17S.exMid [5], .null [] 7, .buf [9] C17S.exLast []] =
      [some C17S.exFirst, some C17S.exMid, none, some C17S.exLast] := rfl
  rw [e] at h1 h4 h5 h6
  refine ⟨t', h1, ?_, h6, ?_⟩
  · rw [h4]
    show (decodeAll tecmpDecode DecState.empty [some C17S.exFirst, some C17S.exMid, none, some C17S.exLast]).1 (0x0102, 7) = none
    rw [← (C17b.runLL_refines _).2.1]; decide
  · rw [h5]
    show ((decodeAll tecmpDecode DecState.empty [some C17S.exFirst, some C17S.exMid, none, some C17S.exLast]).2.map _) = _
    rw [← (C17b.runLL_refines _).2.2]; decide

/-- finding 2 (b): the reviewer's 33-byte TECMP CAN frame (28-byte header, message type 3, data type 2, declared length
    5, arbitration id, length byte 0).  The MODEL returns one CAN packet with an empty data field, every checked read
    succeeds and every registered theorem holds — the C++ passes `nullptr` to `memcpy(dst, nullptr, 0)` here
    (tecmp_can_payload.cpp `getData()` returns null when the payload holds no byte behind its 5-byte header), which the
    semantics of Src/Sem.lean (address 0 is an ordinary index, a copy of 0 bytes reads nothing) does not flag. -/
def ubsanFrame : Bytes :=
  [0, 7, 0, 9, 3, 3, 0, 2, 0, 0, 0, 0, 0x11, 0x22, 0x33, 0x44, 1, 2, 3, 4, 5, 6, 7, 8, 0, 5, 0, 0, 0x80, 0, 3, 0x21, 0]
theorem ubsan_witness_in_model :
    ubsanFrame.length = 33 ∧
    (tecmpDecodeM ubsanFrame).map (fun ps => ps.map fun p => (p.payload.map (·.ty), p.payload.map (·.data.length))) =
      some [(some tyCan, some 16)] := by decide

end Witnesses

end AsamCmp.C02S
