/-
  Source-level statements for the translated functions that no other theorem file mentions (35 C++ functions: getters / setters of
  `CanPayloadBase::Header`, `Packet`, `PayloadType`, `Payload`, `Encoder`, `InterfaceStatus`, `CaptureModulePayload`, and the TECMP
  `PayloadType` / `Payload` / `LinPayload::setData`).  Every translation that exists of each function is covered: the shallow one of
  GeneratedSrc.lean (object = bytes at address `this` of the memory `m`), the object / value ones of GeneratedSrcObj.lean (`_obj`,
  `_pv`) and the bit program of GeneratedSrcFields.lean (`_prog`, shown to compute what the shallow translation computes).

  Each theorem characterises the function for ALL inputs: when it is defined (`some`) and when not (`none` = undefined behaviour; here: an
  access outside the memory, `t << 8` overflowing `int` for an argument no `uint8_t` can hold, a wrapping `2 + n`), the exact result, and for setters the exact new state — one member / one word changes, stated
  as a record update or as `writeAt` of the member's bytes (`SameOutside`: everything outside those bytes is unchanged).  The GET / SET
  laws follow: the getter of the field set returns the value set (for an argument in the range of its C++ type, stated as a
  hypothesis), all other getters return what they returned before.

  Words: `PayloadType` keeps `messageType << 8 | rawType` in a host-order `uint32_t` (`setMT` / `setRaw` / `getMT` / `getRaw`);
  `CanPayloadBase::Header` keeps the protocol's big-endian words and masks them with byte-swapped constants, so the statements are
  about the protocol word `beAt m a 4` and its bit ranges (`C11.ext` / `C11.upd`, and the layout table's `getField` / `setField`).
-/
import AsamCmp.GeneratedSrc
import AsamCmp.GeneratedSrcObj
import AsamCmp.GeneratedSrcFields
import AsamCmp.Lemmas.SrcTecmpPrim
import AsamCmp.Lemmas.SrcAccessCm
import AsamCmp.Lemmas.SrcPacket
import AsamCmp.Lemmas.FieldArith
import AsamCmp.Props.SrcTieTecmp
set_option linter.unusedSimpArgs false
namespace AsamCmp.SrcLeft
open AsamCmp AsamCmp.Src AsamCmp.SrcGen AsamCmp.SrcTie

/-! ## bits -/

theorem bnot32_testBit (x j : Nat) (h : x < 2 ^ 32) : (bnot 32 x).testBit j = (decide (j < 32) && !x.testBit j) := by
  have e : bnot 32 x = 2 ^ 32 - (x + 1) := by unfold bnot; omega
  rw [e, Nat.testBit_two_pow_sub_succ h]

theorem and_ne_zero_iff (x y : Nat) : x &&& y ≠ 0 ↔ ∃ j, x.testBit j = true ∧ y.testBit j = true := by
  constructor
  · intro h
    apply Classical.byContradiction
    intro hn
    apply h
    apply Nat.eq_of_testBit_eq
    intro j
    rw [Nat.testBit_and, Nat.zero_testBit]
    cases hx : x.testBit j
    · rfl
    · cases hy : y.testBit j
      · rfl
      · exact absurd ⟨j, hx, hy⟩ hn
  · rintro ⟨j, hx, hy⟩ h0
    have := congrArg (fun n => Nat.testBit n j) h0
    simp only [Nat.testBit_and, hx, hy, Nat.zero_testBit, Bool.and_self] at this
    exact Bool.noConfusion this

theorem and_two_pow_ne_zero (x k : Nat) : ((x &&& 2 ^ k) != 0) = x.testBit k := by
  rw [Bool.eq_iff_iff, bne_iff_ne, and_ne_zero_iff]
  constructor
  · rintro ⟨j, hx, hj⟩
    rw [Nat.testBit_two_pow, decide_eq_true_eq] at hj
    subst hj; exact hx
  · intro h; exact ⟨k, h, Nat.testBit_two_pow_self⟩

/-- the value with the bytes of the low 32 bits reversed -/
def bswap32 (v : Nat) : Nat := v / 16777216 % 256 + v / 65536 % 256 * 256 + v / 256 % 256 * 65536 + v % 256 * 16777216

theorem bswap32_or_form (v : Nat) :
    bswap32 v = (v >>> 24 % 256) ||| (v >>> 16 % 256) <<< 8 ||| (v >>> 8 % 256) <<< 16 ||| (v % 256) <<< 24 := by
  have h0 : v >>> 24 % 256 < 2 ^ 8 := Nat.mod_lt _ (by decide)
  have h1 : v >>> 24 % 256 + (v >>> 16 % 256) <<< 8 < 2 ^ 16 := by
    have : v >>> 16 % 256 < 256 := Nat.mod_lt _ (by decide)
    rw [Nat.shiftLeft_eq]; omega
  have h2 : v >>> 24 % 256 + (v >>> 16 % 256) <<< 8 + (v >>> 8 % 256) <<< 16 < 2 ^ 24 := by
    have : v >>> 8 % 256 < 256 := Nat.mod_lt _ (by decide)
    rw [Nat.shiftLeft_eq (v >>> 8 % 256)]; omega
  rw [or_shl _ _ 8 h0, or_shl _ _ 16 h1, or_shl _ _ 24 h2]
  simp only [bswap32, Nat.shiftLeft_eq, Nat.shiftRight_eq_div_pow, Nat.reducePow]

theorem bswap32_testBit (v j : Nat) :
    (bswap32 v).testBit j = (decide (j < 32) && v.testBit (8 * (3 - j / 8) + j % 8)) := by
  have e256 : (256 : Nat) = 2 ^ 8 := by decide
  rw [bswap32_or_form, e256]
  simp only [Nat.testBit_or, Nat.testBit_shiftLeft, Nat.testBit_mod_two_pow, Nat.testBit_shiftRight]
  have T (p : Prop) [Decidable p] (h : p) : decide p = true := decide_eq_true h
  have F (p : Prop) [Decidable p] (h : ¬ p) : decide p = false := decide_eq_false h
  rcases (by omega : j < 8 ∨ (8 ≤ j ∧ j < 16) ∨ (16 ≤ j ∧ j < 24) ∨ (24 ≤ j ∧ j < 32) ∨ 32 ≤ j) with h | h | h | h | h
  · rw [(by omega : 8 * (3 - j / 8) + j % 8 = 24 + j), T (j < 8) h, F (j ≥ 8) (by omega), F (j ≥ 16) (by omega),
      F (j ≥ 24) (by omega), T (j < 32) (by omega)]
    simp only [Bool.true_and, Bool.false_and, Bool.or_false]
  · rw [(by omega : 8 * (3 - j / 8) + j % 8 = 16 + (j - 8)), F (j < 8) (by omega), T (j ≥ 8) (by omega),
      T (j - 8 < 8) (by omega), F (j ≥ 16) (by omega), F (j ≥ 24) (by omega), T (j < 32) (by omega)]
    simp only [Bool.true_and, Bool.false_and, Bool.or_false, Bool.false_or]
  · rw [(by omega : 8 * (3 - j / 8) + j % 8 = 8 + (j - 16)), F (j < 8) (by omega), T (j ≥ 8) (by omega),
      F (j - 8 < 8) (by omega), T (j ≥ 16) (by omega), T (j - 16 < 8) (by omega), F (j ≥ 24) (by omega),
      T (j < 32) (by omega)]
    simp only [Bool.true_and, Bool.false_and, Bool.or_false, Bool.false_or, Bool.and_false]
  · rw [(by omega : 8 * (3 - j / 8) + j % 8 = j - 24), F (j < 8) (by omega), T (j ≥ 8) (by omega),
      F (j - 8 < 8) (by omega), T (j ≥ 16) (by omega), F (j - 16 < 8) (by omega), T (j ≥ 24) (by omega),
      T (j - 24 < 8) (by omega), T (j < 32) (by omega)]
    simp only [Bool.true_and, Bool.false_and, Bool.or_false, Bool.false_or, Bool.and_false]
  · rw [F (j < 8) (by omega), T (j ≥ 8) (by omega), F (j - 8 < 8) (by omega), T (j ≥ 16) (by omega),
      F (j - 16 < 8) (by omega), T (j ≥ 24) (by omega), F (j - 24 < 8) (by omega), F (j < 32) (by omega)]
    simp only [Bool.true_and, Bool.false_and, Bool.or_false, Bool.false_or, Bool.and_false]

theorem bswap32_lt (v : Nat) : bswap32 v < 2 ^ 32 := by unfold bswap32; omega

theorem bswap32_or (x y : Nat) : bswap32 (x ||| y) = bswap32 x ||| bswap32 y := by
  apply Nat.eq_of_testBit_eq; intro j
  simp only [bswap32_testBit, Nat.testBit_or, Bool.and_or_distrib_left]

theorem bswap32_and (x y : Nat) : bswap32 (x &&& y) = bswap32 x &&& bswap32 y := by
  apply Nat.eq_of_testBit_eq; intro j
  simp only [bswap32_testBit, Nat.testBit_and]
  cases decide (j < 32) <;> simp

theorem bswap32_bswap32 (x : Nat) (h : x < 2 ^ 32) : bswap32 (bswap32 x) = x := by
  apply Nat.eq_of_testBit_eq; intro j
  simp only [bswap32_testBit]
  by_cases hj : j < 32
  · have e1 : 8 * (3 - j / 8) + j % 8 < 32 := by omega
    have e2 : 8 * (3 - (8 * (3 - j / 8) + j % 8) / 8) + (8 * (3 - j / 8) + j % 8) % 8 = j := by omega
    rw [e2, decide_eq_true hj, decide_eq_true e1, Bool.true_and, Bool.true_and]
  · have : x.testBit j = false := Nat.testBit_lt_two_pow (Nat.lt_of_lt_of_le h (Nat.pow_le_pow_right (by decide) (by omega)))
    rw [decide_eq_false hj, Bool.false_and, this]

theorem swapEndian_u32_eq (v : Nat) : swapEndian_u32 v = some (bswap32 v) := swap32_bytes v

theorem leEnc_bswap32 (v : Nat) : leEnc 4 (bswap32 v) = beEnc 4 v := SrcEnc.leEnc_swap32 v

theorem beAt_lt4 (m : Bytes) (a : Nat) : beAt m a 4 < 2 ^ 32 := by
  have h := beDec_lt (slice m a 4)
  have hl : (slice m a 4).length ≤ 4 := by simp [slice]; omega
  unfold beAt
  exact Nat.lt_of_lt_of_le h (by
    have : (256 : Nat) ^ (slice m a 4).length ≤ 256 ^ 4 := Nat.pow_le_pow_right (by decide) hl
    simpa using this)

/-- the little-endian value of a 4-byte member is the byte-reversed big-endian one -/
theorem leAt_eq_bswap32 (m : Bytes) (a : Nat) (h : a + 4 ≤ m.length) : leAt m a 4 = bswap32 (beAt m a 4) := by
  rw [leAt_four, beAt_four m a h]
  have := byteAt_lt m a; have := byteAt_lt m (a + 1); have := byteAt_lt m (a + 2); have := byteAt_lt m (a + 3)
  unfold bswap32; omega


/-! ## bit ranges of a word (`C11.ext` / `C11.upd`: read / replace the `k` bits at position `s`) -/

theorem mask_testBit (k s i : Nat) : ((2 ^ k - 1) <<< s).testBit i = (decide (s ≤ i) && decide (i - s < k)) := by
  rw [Nat.testBit_shiftLeft, Nat.testBit_two_pow_sub_one]

/-- `(W & ~mask) | (v << s)` replaces the field, for an in-range value -/
theorem clear_or_eq_upd (W v s k : Nat) (hW : W < 2 ^ 32) (hv : v < 2 ^ k) (hsk : s + k ≤ 32) :
    (W &&& bnot 32 ((2 ^ k - 1) <<< s)) ||| (v <<< s) = C11.upd s k v W := by
  have hm : (2 ^ k - 1) <<< s < 2 ^ 32 := by
    rw [Nat.shiftLeft_eq]
    calc (2 ^ k - 1) * 2 ^ s < 2 ^ k * 2 ^ s := Nat.mul_lt_mul_of_pos_right (by have := Nat.two_pow_pos k; omega) (Nat.two_pow_pos s)
      _ = 2 ^ (k + s) := (Nat.pow_add 2 k s).symm
      _ ≤ 2 ^ 32 := Nat.pow_le_pow_right (by decide) (by omega)
  apply Nat.eq_of_testBit_eq; intro i
  rw [C11.testBit_upd W hv, Nat.testBit_or, Nat.testBit_and, bnot32_testBit _ _ hm, mask_testBit, Nat.testBit_shiftLeft]
  by_cases h1 : s ≤ i
  · by_cases h2 : i < s + k
    · rw [if_pos ⟨h1, h2⟩, decide_eq_true h1, decide_eq_true (by omega : i - s < k)]
      simp only [Bool.and_self, Bool.not_true, Bool.and_false, Bool.false_or, Bool.true_and]
    · rw [if_neg (by omega), decide_eq_true h1, decide_eq_false (by omega : ¬ i - s < k),
        C11.testBit_of_lt hv (by omega : k ≤ i - s)]
      by_cases h3 : i < 32
      · rw [decide_eq_true h3]; simp only [Bool.and_false, Bool.not_false, Bool.and_true, Bool.or_false, Bool.and_self]
      · rw [C11.testBit_of_lt hW (by omega : 32 ≤ i)]; simp only [Bool.false_and, Bool.and_false, Bool.or_false]
  · rw [if_neg (by omega), decide_eq_false h1, decide_eq_true (by omega : i < 32)]
    simp only [Bool.false_and, Bool.not_false, Bool.and_true, Bool.or_false, Bool.and_self]

/-- `W & mask` is the field in its place -/
theorem and_mask_eq_ext (W s k : Nat) : W &&& ((2 ^ k - 1) <<< s) = (C11.ext s k W) <<< s := by
  apply Nat.eq_of_testBit_eq; intro i
  rw [Nat.testBit_and, mask_testBit, Nat.testBit_shiftLeft, C11.testBit_ext]
  by_cases h1 : s ≤ i
  · rw [decide_eq_true h1, (by omega : s + (i - s) = i)]
    simp only [Bool.true_and]; rw [Bool.and_comm]
  · rw [decide_eq_false h1]; simp only [Bool.false_and, Bool.and_false]

theorem and_mask_shr_eq_ext (W s k : Nat) : (W &&& ((2 ^ k - 1) <<< s)) >>> s = C11.ext s k W := by
  rw [and_mask_eq_ext, Nat.shiftLeft_shiftRight]

theorem or_two_pow_eq_upd (W s : Nat) : W ||| 2 ^ s = C11.upd s 1 1 W := by
  apply Nat.eq_of_testBit_eq; intro i
  rw [C11.testBit_upd W (by decide), Nat.testBit_or, Nat.testBit_two_pow]
  by_cases h : s = i
  · subst h; rw [if_pos ⟨Nat.le_refl _, by omega⟩, Nat.sub_self]; simp
  · rw [if_neg (by omega), decide_eq_false h, Bool.or_false]

theorem and_bnot_two_pow_eq_upd (W s : Nat) (hW : W < 2 ^ 32) (hs : s < 32) : W &&& bnot 32 (2 ^ s) = C11.upd s 1 0 W := by
  have h := clear_or_eq_upd W 0 s 1 hW (by decide) (by omega)
  rw [Nat.zero_shiftLeft, Nat.or_zero, (by decide : 2 ^ 1 - 1 = 1), Nat.one_shiftLeft] at h
  exact h

theorem ext_testBit_one (W s : Nat) : (C11.ext s 1 W != 0) = W.testBit s := by
  have h := C11.ext_lt s 1 W
  have e := C11.testBit_ext s 1 W 0
  simp only [Nat.add_zero, Nat.lt_add_one, decide_true, Bool.true_and] at e
  rw [← e]
  rcases (by omega : C11.ext s 1 W = 0 ∨ C11.ext s 1 W = 1) with h0 | h0 <;> rw [h0] <;> rfl

/-! ## memory: one scalar member, read / write / read-modify-write -/

theorem rd_def (m : Bytes) (a w : Nat) : Src.rd m a w = if a + w ≤ m.length then some (leAt m a w) else none := rfl

theorem wr_def (m : Bytes) (a w v : Nat) : wr m a w v = if a + w ≤ m.length then some (writeAt m a (leEnc w v)) else none := rfl

theorem wr_length (m : Bytes) (a w v : Nat) (h : a + w ≤ m.length) : (writeAt m a (leEnc w v)).length = m.length :=
  writeAt_length _ _ _ (by rw [leEnc_length]; exact h)

theorem leAt_lt (m : Bytes) (a w : Nat) : leAt m a w < 256 ^ w := by
  induction w generalizing a with
  | zero => rw [leAt_zero]; decide
  | succ w ih => rw [leAt_succ, Nat.pow_succ]; have := byteAt_lt m a; have := ih (a + 1); omega

/-- a member written and read back: the value, truncated to the member's width -/
theorem rd_wr_same (m : Bytes) (a w v : Nat) (h : a + w ≤ m.length) :
    Src.rd (writeAt m a (leEnc w v)) a w = some (v % 256 ^ w) := by
  rw [rd_eq _ _ _ (by rw [wr_length m a w v h]; exact h), SrcTec.leAt_writeAt_same _ _ _ _ h]

/-- a member written twice: the second value stays -/
theorem wr_wr_same (m : Bytes) (a w u v : Nat) (h : a + w ≤ m.length) :
    writeAt (writeAt m a (leEnc w u)) a (leEnc w v) = writeAt m a (leEnc w v) :=
  SrcTec.writeAt_writeAt_same _ _ _ _ (by rw [leEnc_length, leEnc_length]) (by rw [leEnc_length]; exact h)

/-- a read that does not overlap a write sees the old value -/
theorem rd_wr_other (m : Bytes) (a : Nat) (x : Bytes) (b w : Nat) (h : a + x.length ≤ m.length)
    (hd : b + w ≤ a ∨ a + x.length ≤ b) : Src.rd (writeAt m a x) b w = Src.rd m b w := by
  unfold Src.rd leAt
  rw [writeAt_length _ _ _ h, C11.slice_writeAt_other h hd]

/-- bytes outside a write are unchanged -/
theorem byteAt_wr_other (m : Bytes) (a : Nat) (x : Bytes) (i : Nat) (h : a + x.length ≤ m.length)
    (hd : i < a ∨ a + x.length ≤ i) : byteAt (writeAt m a x) i = byteAt m i := by
  unfold byteAt
  rw [List.getD_eq_getElem?_getD, List.getD_eq_getElem?_getD, C11.getElem?_writeAt_out h hd]

/-- `member = f(member)`: defined iff the member lies inside the memory; only the member's bytes change -/
theorem rmw (m : Bytes) (a w : Nat) (f : Nat → Nat) :
    (Src.rd m a w).bind (fun t => wr m a w (f t))
      = if a + w ≤ m.length then some (writeAt m a (leEnc w (f (leAt m a w)))) else none := by
  unfold Src.rd wr
  by_cases h : a + w ≤ m.length
  · rw [if_pos h, some_bind, if_pos h]
  · rw [if_neg h, none_bind, if_neg h]

/-- two successive read-modify-writes of the same member (`x &= ~mask; x |= v`) -/
theorem rmw_rmw (m : Bytes) (a w : Nat) (f g : Nat → Nat) :
    ((Src.rd m a w).bind (fun t => wr m a w (f t))).bind (fun m' => (Src.rd m' a w).bind (fun t => wr m' a w (g t)))
      = if a + w ≤ m.length then some (writeAt m a (leEnc w (g (f (leAt m a w) % 256 ^ w)))) else none := by
  rw [rmw]
  by_cases h : a + w ≤ m.length
  · rw [if_pos h, if_pos h, some_bind, rmw, if_pos (by rw [wr_length m a w _ h]; exact h),
      SrcTec.leAt_writeAt_same _ _ _ _ h, wr_wr_same m a w _ _ h]
  · rw [if_neg h, if_neg h, none_bind]


/-- `m'` differs from `m` at most in the `w` bytes at address `a` -/
def SameOutside (m m' : Bytes) (a w : Nat) : Prop :=
  m'.length = m.length ∧ ∀ i, i < a ∨ a + w ≤ i → m'[i]? = m[i]?

theorem sameOutside_writeAt (m : Bytes) (a : Nat) (x : Bytes) (h : a + x.length ≤ m.length) :
    SameOutside m (writeAt m a x) a x.length :=
  ⟨writeAt_length _ _ _ h, fun _ hi => C11.getElem?_writeAt_out h hi⟩

theorem sameOutside_wr (m : Bytes) (a w v : Nat) (h : a + w ≤ m.length) : SameOutside m (writeAt m a (leEnc w v)) a w := by
  have := sameOutside_writeAt m a (leEnc w v) (by rw [leEnc_length]; exact h)
  rw [leEnc_length] at this; exact this

theorem SameOutside.byteAt {m m' : Bytes} {a w : Nat} (h : SameOutside m m' a w) (i : Nat) (hi : i < a ∨ a + w ≤ i) :
    byteAt m' i = byteAt m i := by
  unfold AsamCmp.byteAt
  rw [List.getD_eq_getElem?_getD, List.getD_eq_getElem?_getD, h.2 i hi]

/-- every scalar read that does not overlap the changed bytes gives what it gave before (defined or not) -/
theorem SameOutside.rd {m m' : Bytes} {a w : Nat} (h : SameOutside m m' a w) (b k : Nat) (hd : b + k ≤ a ∨ a + w ≤ b) :
    Src.rd m' b k = Src.rd m b k := by
  have hs : slice m' b k = slice m b k := by
    apply List.ext_getElem?
    intro i
    rw [C11.getElem?_slice, C11.getElem?_slice]
    by_cases h1 : i < k
    · rw [if_pos h1, if_pos h1]; exact h.2 _ (by omega)
    · rw [if_neg h1, if_neg h1]
  unfold Src.rd leAt
  rw [h.1, hs]

theorem SameOutside.take {m m' : Bytes} {a w : Nat} (h : SameOutside m m' a w) : m'.take a = m.take a := by
  apply List.ext_getElem?
  intro i
  rw [List.getElem?_take, List.getElem?_take]
  by_cases h1 : i < a
  · rw [if_pos h1, if_pos h1]; exact h.2 i (Or.inl h1)
  · rw [if_neg h1, if_neg h1]

theorem SameOutside.drop {m m' : Bytes} {a w : Nat} (h : SameOutside m m' a w) : m'.drop (a + w) = m.drop (a + w) := by
  apply List.ext_getElem?
  intro i
  rw [List.getElem?_drop, List.getElem?_drop]
  exact h.2 _ (Or.inr (by omega))

/-- the word written is the word read back (a value of the member's type) -/
theorem leAt_wr4 (m : Bytes) (a v : Nat) (h : a + 4 ≤ m.length) (hv : v < 2 ^ 32) : leAt (writeAt m a (leEnc 4 v)) a 4 = v := by
  rw [SrcTec.leAt_writeAt_same _ _ _ _ h]; exact Nat.mod_eq_of_lt hv

theorem leAt_lt4 (m : Bytes) (a : Nat) : leAt m a 4 < 2 ^ 32 := leAt_lt m a 4

theorem and_mod4 (x k : Nat) (hx : x < 2 ^ 32) : (x &&& k) % 256 ^ 4 = x &&& k :=
  Nat.mod_eq_of_lt (Nat.lt_of_le_of_lt Nat.and_le_left hx)

/-- `x << 8` at `int` (the promoted `uint8_t` argument): defined for `x < 2^23` -/
theorem sshl8_eq (t : Nat) : sshl 32 t 8 = if t < 2 ^ 23 then some (t <<< 8) else none := by
  unfold sshl
  by_cases h : t < 2 ^ 23
  · rw [if_pos h, if_pos ⟨by decide, by omega, by rw [Nat.shiftLeft_eq]; omega⟩]
  · rw [if_neg h, if_neg]
    intro h3; have h4 := h3.2.2; rw [Nat.shiftLeft_eq] at h4; omega

/-! ## `PayloadType`: one `uint32_t`, message type in bits 8..15, raw payload type in bits 0..7 -/

/-- `type = (type & ~0xFF00) | (t << 8)` -/
def setMT (s t : Nat) : Nat := (s &&& bnot 32 65280) ||| t <<< 8
/-- `type = (type & ~0xFF) | t` -/
def setRaw (s t : Nat) : Nat := (s &&& bnot 32 255) ||| t
/-- `(type & 0xFF00) >> 8` as `uint8_t` -/
def getMT (s : Nat) : Nat := ((s &&& 65280) >>> 8) % 256
/-- `type & 0xFF` as `uint8_t` -/
def getRaw (s : Nat) : Nat := (s &&& 255) % 256

theorem setMT_eq_upd (s t : Nat) (hs : s < 2 ^ 32) (ht : t < 256) : setMT s t = C11.upd 8 8 t s :=
  clear_or_eq_upd s t 8 8 hs ht (by decide)

theorem setRaw_eq_upd (s t : Nat) (hs : s < 2 ^ 32) (ht : t < 256) : setRaw s t = C11.upd 0 8 t s := by
  have h := clear_or_eq_upd s t 0 8 hs ht (by decide)
  rw [Nat.shiftLeft_zero, Nat.shiftLeft_zero] at h
  exact h

theorem getMT_eq_ext (s : Nat) : getMT s = C11.ext 8 8 s := by
  unfold getMT
  rw [(by decide : 65280 = (2 ^ 8 - 1) <<< 8), and_mask_shr_eq_ext]
  exact Nat.mod_eq_of_lt (C11.ext_lt 8 8 s)

theorem getRaw_eq_ext (s : Nat) : getRaw s = C11.ext 0 8 s := by
  unfold getRaw
  have h := and_mask_shr_eq_ext s 0 8
  rw [Nat.shiftLeft_zero, Nat.shiftRight_zero] at h
  rw [(by decide : 255 = 2 ^ 8 - 1), h]
  exact Nat.mod_eq_of_lt (C11.ext_lt 0 8 s)

/-- arithmetic reading: the second / the lowest byte of the word -/
theorem getMT_arith (s : Nat) : getMT s = s / 256 % 256 := by rw [getMT_eq_ext]; rfl
theorem getRaw_arith (s : Nat) : getRaw s = s % 256 := by rw [getRaw_eq_ext]; simp [C11.ext]

theorem setMT_lt (s t : Nat) (hs : s < 2 ^ 32) (ht : t < 256) : setMT s t < 2 ^ 32 := by
  rw [setMT_eq_upd s t hs ht]; exact C11.upd_lt hs (by decide) ht
theorem setRaw_lt (s t : Nat) (hs : s < 2 ^ 32) (ht : t < 256) : setRaw s t < 2 ^ 32 := by
  rw [setRaw_eq_upd s t hs ht]; exact C11.upd_lt hs (by decide) ht

/-- the get / set laws of the packed word -/
theorem getMT_setMT (s t : Nat) (hs : s < 2 ^ 32) (ht : t < 256) : getMT (setMT s t) = t := by
  rw [setMT_eq_upd s t hs ht, getMT_eq_ext]; exact C11.ext_upd_same s ht
theorem getRaw_setMT (s t : Nat) (hs : s < 2 ^ 32) (ht : t < 256) : getRaw (setMT s t) = getRaw s := by
  rw [setMT_eq_upd s t hs ht, getRaw_eq_ext, getRaw_eq_ext]; exact C11.ext_upd_other s ht (Or.inl (by decide))
theorem getRaw_setRaw (s t : Nat) (hs : s < 2 ^ 32) (ht : t < 256) : getRaw (setRaw s t) = t := by
  rw [setRaw_eq_upd s t hs ht, getRaw_eq_ext]; exact C11.ext_upd_same s ht
theorem getMT_setRaw (s t : Nat) (hs : s < 2 ^ 32) (ht : t < 256) : getMT (setRaw s t) = getMT s := by
  rw [setRaw_eq_upd s t hs ht, getMT_eq_ext, getMT_eq_ext]; exact C11.ext_upd_other s ht (Or.inr (by decide))

/-- every bit of the word after `setMessageType` / `setRawPayloadType` -/
theorem setMT_testBit (s t i : Nat) (hs : s < 2 ^ 32) (ht : t < 256) :
    (setMT s t).testBit i = if 8 ≤ i ∧ i < 16 then t.testBit (i - 8) else s.testBit i := by
  rw [setMT_eq_upd s t hs ht]; exact C11.testBit_upd s ht i
theorem setRaw_testBit (s t i : Nat) (hs : s < 2 ^ 32) (ht : t < 256) :
    (setRaw s t).testBit i = if i < 8 then t.testBit i else s.testBit i := by
  rw [setRaw_eq_upd s t hs ht, C11.testBit_upd s ht i]
  simp only [Nat.zero_le, true_and, Nat.zero_add, Nat.sub_zero]


/-! ### object mode (`PayloadType` is its `uint32_t`; `Payload_St` = data vector + type) -/

theorem PayloadType_setType_pv_src (s v : Nat) : PayloadType_setType_pv s v = some (v, ()) := rfl

theorem PayloadType_setRawPayloadType_pv_src (s t : Nat) : PayloadType_setRawPayloadType_pv s t = some (setRaw s t, ()) := rfl

/-- the body of the object-mode `setMessageType` (the generated `to_underlying` helper is the identity and unfolds by computation;
    its name carries an overload counter and is not mentioned) -/
theorem setMT_pv_body (s t : Nat) :
    (do let t2 ← sshl 32 t 8
        pure ((s &&& bnot 32 65280) ||| t2, ()) : Option (Nat × Unit))
      = if t < 2 ^ 23 then some (setMT s t, ()) else none := by
  simp only [bind, pure]
  rw [sshl8_eq]
  by_cases h : t < 2 ^ 23
  · rw [if_pos h, if_pos h, some_bind]; rfl
  · rw [if_neg h, if_neg h, none_bind]

/-- defined iff `t << 8` does not overflow `int` (always for a `uint8_t` argument) -/
theorem PayloadType_setMessageType_pv_src (s t : Nat) :
    PayloadType_setMessageType_pv s t = if t < 2 ^ 23 then some (setMT s t, ()) else none :=
  setMT_pv_body s t

theorem PayloadType_setMessageType_pv_u8 (s t : Nat) (ht : t < 256) :
    PayloadType_setMessageType_pv s t = some (setMT s t, ()) := by
  rw [PayloadType_setMessageType_pv_src, if_pos (by omega)]

theorem PayloadType_getMessageType_pv_src (s : Nat) : PayloadType_getMessageType_pv s = some (s, getMT s) := rfl
theorem PayloadType_getRawPayloadType_pv_src (s : Nat) : PayloadType_getRawPayloadType_pv s = some (s, getRaw s) := rfl
theorem PayloadType_getType_pv_src (s : Nat) : PayloadType_getType_pv s = some (s, s) := rfl

/-- GET / SET laws of `PayloadType` (object mode): after `setMessageType t` the message type is `t` and the raw payload type is what
    it was; after `setRawPayloadType t` symmetrically; after `setType v` the whole word is `v` -/
theorem PayloadType_pv_laws (s t : Nat) (hs : s < 2 ^ 32) (ht : t < 256) :
    (∃ s', PayloadType_setMessageType_pv s t = some (s', ()) ∧ s' < 2 ^ 32 ∧
        PayloadType_getMessageType_pv s' = some (s', t) ∧
        PayloadType_getRawPayloadType_pv s' = some (s', getRaw s) ∧
        ∀ i, s'.testBit i = if 8 ≤ i ∧ i < 16 then t.testBit (i - 8) else s.testBit i) ∧
    (∃ s', PayloadType_setRawPayloadType_pv s t = some (s', ()) ∧ s' < 2 ^ 32 ∧
        PayloadType_getRawPayloadType_pv s' = some (s', t) ∧
        PayloadType_getMessageType_pv s' = some (s', getMT s) ∧
        ∀ i, s'.testBit i = if i < 8 then t.testBit i else s.testBit i) ∧
    (∀ v, ∃ s', PayloadType_setType_pv s v = some (s', ()) ∧ PayloadType_getType_pv s' = some (s', v)) := by
  refine ⟨⟨setMT s t, PayloadType_setMessageType_pv_u8 s t ht, setMT_lt s t hs ht, ?_, ?_, fun i => setMT_testBit s t i hs ht⟩,
    ⟨setRaw s t, rfl, setRaw_lt s t hs ht, ?_, ?_, fun i => setRaw_testBit s t i hs ht⟩, fun v => ⟨v, rfl, rfl⟩⟩
  · rw [PayloadType_getMessageType_pv_src, getMT_setMT s t hs ht]
  · rw [PayloadType_getRawPayloadType_pv_src, getRaw_setMT s t hs ht]
  · rw [PayloadType_getRawPayloadType_pv_src, getRaw_setRaw s t hs ht]
  · rw [PayloadType_getMessageType_pv_src, getMT_setRaw s t hs ht]

/-- `Payload::setType`: only the type member changes -/
theorem Payload_setType_pv_src (s : Payload_St) (v : Nat) : Payload_setType_pv s v = some ({ s with f_type := v }, ()) := rfl

theorem Payload_setRawPayloadType_pv_src (s : Payload_St) (t : Nat) :
    Payload_setRawPayloadType_pv s t = some ({ s with f_type := setRaw s.f_type t }, ()) := rfl

theorem Payload_setMessageType_pv_src (s : Payload_St) (t : Nat) :
    Payload_setMessageType_pv s t = if t < 2 ^ 23 then some ({ s with f_type := setMT s.f_type t }, ()) else none := by
  unfold Payload_setMessageType_pv
  simp only [bind, pure]
  rw [PayloadType_setMessageType_pv_src]
  by_cases h : t < 2 ^ 23
  · rw [if_pos h, if_pos h, some_bind]
  · rw [if_neg h, if_neg h, none_bind]

theorem Payload_setMessageType_pv_u8 (s : Payload_St) (t : Nat) (ht : t < 256) :
    Payload_setMessageType_pv s t = some ({ s with f_type := setMT s.f_type t }, ()) := by
  rw [Payload_setMessageType_pv_src, if_pos (by omega)]

theorem Payload_getters_pv_src (s : Payload_St) :
    Payload_getMessageType_pv s = some (s, getMT s.f_type) ∧ Payload_getRawPayloadType_pv s = some (s, getRaw s.f_type) ∧
    Payload_getType_pv s = some (s, s.f_type) ∧ Payload_getLength_pv s = some (s, s.f_payloadData.length) :=
  ⟨rfl, rfl, rfl, rfl⟩

/-- GET / SET laws of `Payload` (object mode); the data vector (hence `getLength`) is untouched by all three setters -/
theorem Payload_pv_laws (s : Payload_St) (t : Nat) (hs : s.f_type < 2 ^ 32) (ht : t < 256) :
    (∃ s', Payload_setMessageType_pv s t = some (s', ()) ∧ s'.f_payloadData = s.f_payloadData ∧ s'.f_type < 2 ^ 32 ∧
        Payload_getMessageType_pv s' = some (s', t) ∧
        Payload_getRawPayloadType_pv s' = some (s', getRaw s.f_type) ∧
        Payload_getLength_pv s' = some (s', s.f_payloadData.length)) ∧
    (∃ s', Payload_setRawPayloadType_pv s t = some (s', ()) ∧ s'.f_payloadData = s.f_payloadData ∧ s'.f_type < 2 ^ 32 ∧
        Payload_getRawPayloadType_pv s' = some (s', t) ∧
        Payload_getMessageType_pv s' = some (s', getMT s.f_type) ∧
        Payload_getLength_pv s' = some (s', s.f_payloadData.length)) ∧
    (∀ v, ∃ s', Payload_setType_pv s v = some (s', ()) ∧ s'.f_payloadData = s.f_payloadData ∧
        Payload_getType_pv s' = some (s', v) ∧ Payload_getLength_pv s' = some (s', s.f_payloadData.length)) := by
  refine ⟨⟨{ s with f_type := setMT s.f_type t }, Payload_setMessageType_pv_u8 s t ht, rfl, setMT_lt _ t hs ht, ?_, ?_, rfl⟩,
    ⟨{ s with f_type := setRaw s.f_type t }, rfl, rfl, setRaw_lt _ t hs ht, ?_, ?_, rfl⟩, fun v => ⟨_, rfl, rfl, rfl, rfl⟩⟩
  · rw [(Payload_getters_pv_src _).1]; simp only [getMT_setMT s.f_type t hs ht]
  · rw [(Payload_getters_pv_src _).2.1]; simp only [getRaw_setMT s.f_type t hs ht]
  · rw [(Payload_getters_pv_src _).2.1]; simp only [getRaw_setRaw s.f_type t hs ht]
  · rw [(Payload_getters_pv_src _).1]; simp only [getMT_setRaw s.f_type t hs ht]


/-! ### shallow mode: the `PayloadType` object is the 4-byte member at address `this` of the memory `m` -/

/-- the body of `setMessageType` -/
theorem setMT_body (m : Bytes) (a t : Nat) :
    (do let t1 ← Src.rd m a 4
        let m ← wr m a 4 (t1 &&& bnot 32 65280)
        let t3 ← sshl 32 t 8
        let t4 ← Src.rd m a 4
        let m ← wr m a 4 (t4 ||| t3)
        pure m)
      = if a + 4 ≤ m.length ∧ t < 2 ^ 23 then some (writeAt m a (leEnc 4 (setMT (leAt m a 4) t))) else none := by
  simp only [bind, pure]
  by_cases h : a + 4 ≤ m.length
  · rw [rd_eq _ _ _ h, some_bind, wr_eq _ _ _ _ h, some_bind, sshl8_eq]
    by_cases ht : t < 2 ^ 23
    · rw [if_pos ht, some_bind, rd_wr_same _ _ _ _ h, some_bind, wr_eq _ _ _ _ (by rw [wr_length _ _ _ _ h]; exact h),
        wr_wr_same _ _ _ _ _ h, and_mod4 _ _ (leAt_lt4 m a), if_pos ⟨h, ht⟩]
      rfl
    · rw [if_neg ht, none_bind, if_neg (fun hh => ht hh.2)]
  · rw [Src.rd, if_neg h, none_bind, if_neg (fun hh => h hh.1)]

/-- the body of `setRawPayloadType` -/
theorem setRaw_body (m : Bytes) (a t : Nat) :
    (do let t1 ← Src.rd m a 4
        let m ← wr m a 4 (t1 &&& bnot 32 255)
        let t2 ← Src.rd m a 4
        let m ← wr m a 4 (t2 ||| t)
        pure m)
      = if a + 4 ≤ m.length then some (writeAt m a (leEnc 4 (setRaw (leAt m a 4) t))) else none := by
  simp only [bind, pure]
  by_cases h : a + 4 ≤ m.length
  · rw [rd_eq _ _ _ h, some_bind, wr_eq _ _ _ _ h, some_bind, rd_wr_same _ _ _ _ h, some_bind,
      wr_eq _ _ _ _ (by rw [wr_length _ _ _ _ h]; exact h), wr_wr_same _ _ _ _ _ h, and_mod4 _ _ (leAt_lt4 m a), if_pos h]
    rfl
  · rw [Src.rd, if_neg h, none_bind, if_neg h]

/-- `PayloadType::setMessageType`: defined iff the member is inside the memory (and `t << 8` fits `int`: always for a `uint8_t`);
    only the 4 bytes of the member change, to the word with bits 8..15 replaced -/
theorem PayloadType_setMessageType_src (m : Bytes) (this t : Nat) :
    PayloadType_setMessageType m this t
      = if this + 4 ≤ m.length ∧ t < 2 ^ 23 then some (writeAt m this (leEnc 4 (setMT (leAt m this 4) t))) else none :=
  setMT_body m this t

theorem TECMP_PayloadType_setMessageType_src (m : Bytes) (this t : Nat) :
    TECMP_PayloadType_setMessageType m this t
      = if this + 4 ≤ m.length ∧ t < 2 ^ 23 then some (writeAt m this (leEnc 4 (setMT (leAt m this 4) t))) else none :=
  setMT_body m this t

theorem PayloadType_setRawPayloadType_src (m : Bytes) (this t : Nat) :
    PayloadType_setRawPayloadType m this t
      = if this + 4 ≤ m.length then some (writeAt m this (leEnc 4 (setRaw (leAt m this 4) t))) else none :=
  setRaw_body m this t

theorem TECMP_PayloadType_setRawPayloadType_src (m : Bytes) (this t : Nat) :
    TECMP_PayloadType_setRawPayloadType m this t
      = if this + 4 ≤ m.length then some (writeAt m this (leEnc 4 (setRaw (leAt m this 4) t))) else none :=
  setRaw_body m this t

theorem PayloadType_setType_src (m : Bytes) (this v : Nat) :
    PayloadType_setType m this v = if this + 4 ≤ m.length then some (writeAt m this (leEnc 4 v)) else none := by
  unfold PayloadType_setType wr
  split <;> rfl

theorem TECMP_PayloadType_setType_src (m : Bytes) (this v : Nat) :
    TECMP_PayloadType_setType m this v = if this + 4 ≤ m.length then some (writeAt m this (leEnc 4 v)) else none := by
  unfold TECMP_PayloadType_setType wr
  split <;> rfl

/-- the getters: defined iff the member is inside the memory; the packed fields of the little-endian member -/
theorem PayloadType_getters_src (m : Bytes) (this : Nat) :
    PayloadType_getMessageType m this = (if this + 4 ≤ m.length then some (getMT (leAt m this 4)) else none) ∧
    PayloadType_getRawPayloadType m this = (if this + 4 ≤ m.length then some (getRaw (leAt m this 4)) else none) ∧
    PayloadType_getType m this = (if this + 4 ≤ m.length then some (leAt m this 4) else none) := by
  unfold PayloadType_getMessageType PayloadType_getRawPayloadType PayloadType_getType Src.rd
  refine ⟨?_, ?_, ?_⟩ <;> split <;> rfl

theorem TECMP_PayloadType_getters_src (m : Bytes) (this : Nat) :
    TECMP_PayloadType_getMessageType m this = (if this + 4 ≤ m.length then some (getMT (leAt m this 4)) else none) ∧
    TECMP_PayloadType_getRawPayloadType m this = (if this + 4 ≤ m.length then some (getRaw (leAt m this 4)) else none) ∧
    TECMP_PayloadType_getType m this = (if this + 4 ≤ m.length then some (leAt m this 4) else none) := by
  unfold TECMP_PayloadType_getMessageType TECMP_PayloadType_getRawPayloadType TECMP_PayloadType_getType Src.rd
  refine ⟨?_, ?_, ?_⟩ <;> split <;> rfl


/-- GET / SET laws of `PayloadType` in memory, for a `uint8_t` argument: the setters are defined, leave every byte outside the member
    alone, and the getters afterwards return the value set / what they returned before -/
theorem PayloadType_src_laws (m : Bytes) (this t : Nat) (h : this + 4 ≤ m.length) (ht : t < 256) :
    (∃ m', PayloadType_setMessageType m this t = some m' ∧ SameOutside m m' this 4 ∧
        PayloadType_getMessageType m' this = some t ∧
        PayloadType_getRawPayloadType m' this = PayloadType_getRawPayloadType m this) ∧
    (∃ m', PayloadType_setRawPayloadType m this t = some m' ∧ SameOutside m m' this 4 ∧
        PayloadType_getRawPayloadType m' this = some t ∧
        PayloadType_getMessageType m' this = PayloadType_getMessageType m this) ∧
    (∀ v, v < 2 ^ 32 → ∃ m', PayloadType_setType m this v = some m' ∧ SameOutside m m' this 4 ∧
        PayloadType_getType m' this = some v) := by
  have hW := leAt_lt4 m this
  refine ⟨⟨_, by rw [PayloadType_setMessageType_src, if_pos ⟨h, by omega⟩], sameOutside_wr m this 4 _ h, ?_, ?_⟩,
    ⟨_, by rw [PayloadType_setRawPayloadType_src, if_pos h], sameOutside_wr m this 4 _ h, ?_, ?_⟩,
    fun v hv => ⟨_, by rw [PayloadType_setType_src, if_pos h], sameOutside_wr m this 4 _ h, ?_⟩⟩
  · rw [(PayloadType_getters_src _ _).1, if_pos (by rw [wr_length _ _ _ _ h]; exact h),
      leAt_wr4 m this _ h (setMT_lt _ t hW ht), getMT_setMT _ t hW ht]
  · rw [(PayloadType_getters_src _ _).2.1, (PayloadType_getters_src _ _).2.1, if_pos (by rw [wr_length _ _ _ _ h]; exact h),
      if_pos h, leAt_wr4 m this _ h (setMT_lt _ t hW ht), getRaw_setMT _ t hW ht]
  · rw [(PayloadType_getters_src _ _).2.1, if_pos (by rw [wr_length _ _ _ _ h]; exact h),
      leAt_wr4 m this _ h (setRaw_lt _ t hW ht), getRaw_setRaw _ t hW ht]
  · rw [(PayloadType_getters_src _ _).1, (PayloadType_getters_src _ _).1, if_pos (by rw [wr_length _ _ _ _ h]; exact h),
      if_pos h, leAt_wr4 m this _ h (setRaw_lt _ t hW ht), getMT_setRaw _ t hW ht]
  · rw [(PayloadType_getters_src _ _).2.2, if_pos (by rw [wr_length _ _ _ _ h]; exact h), leAt_wr4 m this _ h hv]

theorem TECMP_PayloadType_src_laws (m : Bytes) (this t : Nat) (h : this + 4 ≤ m.length) (ht : t < 256) :
    (∃ m', TECMP_PayloadType_setMessageType m this t = some m' ∧ SameOutside m m' this 4 ∧
        TECMP_PayloadType_getMessageType m' this = some t ∧
        TECMP_PayloadType_getRawPayloadType m' this = TECMP_PayloadType_getRawPayloadType m this) ∧
    (∃ m', TECMP_PayloadType_setRawPayloadType m this t = some m' ∧ SameOutside m m' this 4 ∧
        TECMP_PayloadType_getRawPayloadType m' this = some t ∧
        TECMP_PayloadType_getMessageType m' this = TECMP_PayloadType_getMessageType m this) ∧
    (∀ v, v < 2 ^ 32 → ∃ m', TECMP_PayloadType_setType m this v = some m' ∧ SameOutside m m' this 4 ∧
        TECMP_PayloadType_getType m' this = some v) := by
  have hW := leAt_lt4 m this
  refine ⟨⟨_, by rw [TECMP_PayloadType_setMessageType_src, if_pos ⟨h, by omega⟩], sameOutside_wr m this 4 _ h, ?_, ?_⟩,
    ⟨_, by rw [TECMP_PayloadType_setRawPayloadType_src, if_pos h], sameOutside_wr m this 4 _ h, ?_, ?_⟩,
    fun v hv => ⟨_, by rw [TECMP_PayloadType_setType_src, if_pos h], sameOutside_wr m this 4 _ h, ?_⟩⟩
  · rw [(TECMP_PayloadType_getters_src _ _).1, if_pos (by rw [wr_length _ _ _ _ h]; exact h),
      leAt_wr4 m this _ h (setMT_lt _ t hW ht), getMT_setMT _ t hW ht]
  · rw [(TECMP_PayloadType_getters_src _ _).2.1, (TECMP_PayloadType_getters_src _ _).2.1,
      if_pos (by rw [wr_length _ _ _ _ h]; exact h), if_pos h, leAt_wr4 m this _ h (setMT_lt _ t hW ht), getRaw_setMT _ t hW ht]
  · rw [(TECMP_PayloadType_getters_src _ _).2.1, if_pos (by rw [wr_length _ _ _ _ h]; exact h),
      leAt_wr4 m this _ h (setRaw_lt _ t hW ht), getRaw_setRaw _ t hW ht]
  · rw [(TECMP_PayloadType_getters_src _ _).1, (TECMP_PayloadType_getters_src _ _).1,
      if_pos (by rw [wr_length _ _ _ _ h]; exact h), if_pos h, leAt_wr4 m this _ h (setRaw_lt _ t hW ht), getMT_setRaw _ t hW ht]
  · rw [(TECMP_PayloadType_getters_src _ _).2.2, if_pos (by rw [wr_length _ _ _ _ h]; exact h), leAt_wr4 m this _ h hv]

/-! ### `Payload` / `TECMP::Payload` (shallow): the `PayloadType` member sits at offset 32 of the object -/

/-- the `Payload` accessors forward to the `PayloadType` member -/
theorem Payload_forward_src (m : Bytes) (this t : Nat) :
    Payload_setMessageType m this t = PayloadType_setMessageType m (this + 32) t ∧
    Payload_setRawPayloadType m this t = PayloadType_setRawPayloadType m (this + 32) t ∧
    Payload_getMessageType m this = PayloadType_getMessageType m (this + 32) ∧
    Payload_getRawPayloadType m this = PayloadType_getRawPayloadType m (this + 32) :=
  ⟨rfl, rfl, rfl, rfl⟩

theorem TECMP_Payload_forward_src (m : Bytes) (this t : Nat) :
    TECMP_Payload_setMessageType m this t = TECMP_PayloadType_setMessageType m (this + 32) t ∧
    TECMP_Payload_setRawPayloadType m this t = TECMP_PayloadType_setRawPayloadType m (this + 32) t ∧
    TECMP_Payload_getMessageType m this = TECMP_PayloadType_getMessageType m (this + 32) ∧
    TECMP_Payload_getRawPayloadType m this = TECMP_PayloadType_getRawPayloadType m (this + 32) :=
  ⟨rfl, rfl, rfl, rfl⟩

/-- `Payload::setMessageType`, total: defined iff the type member (offset 32, 4 bytes) is inside the memory -/
theorem Payload_setMessageType_src (m : Bytes) (this t : Nat) :
    Payload_setMessageType m this t
      = if this + 32 + 4 ≤ m.length ∧ t < 2 ^ 23 then
          some (writeAt m (this + 32) (leEnc 4 (setMT (leAt m (this + 32) 4) t))) else none := by
  rw [(Payload_forward_src m this t).1, PayloadType_setMessageType_src]

theorem Payload_setRawPayloadType_src (m : Bytes) (this t : Nat) :
    Payload_setRawPayloadType m this t
      = if this + 32 + 4 ≤ m.length then some (writeAt m (this + 32) (leEnc 4 (setRaw (leAt m (this + 32) 4) t))) else none := by
  rw [(Payload_forward_src m this t).2.1, PayloadType_setRawPayloadType_src]

theorem TECMP_Payload_setMessageType_src (m : Bytes) (this t : Nat) :
    TECMP_Payload_setMessageType m this t
      = if this + 32 + 4 ≤ m.length ∧ t < 2 ^ 23 then
          some (writeAt m (this + 32) (leEnc 4 (setMT (leAt m (this + 32) 4) t))) else none := by
  rw [(TECMP_Payload_forward_src m this t).1, TECMP_PayloadType_setMessageType_src]

theorem TECMP_Payload_setRawPayloadType_src (m : Bytes) (this t : Nat) :
    TECMP_Payload_setRawPayloadType m this t
      = if this + 32 + 4 ≤ m.length then some (writeAt m (this + 32) (leEnc 4 (setRaw (leAt m (this + 32) 4) t))) else none := by
  rw [(TECMP_Payload_forward_src m this t).2.1, TECMP_PayloadType_setRawPayloadType_src]

theorem TECMP_Payload_getRawPayloadType_src (m : Bytes) (this : Nat) :
    TECMP_Payload_getRawPayloadType m this
      = if this + 32 + 4 ≤ m.length then some (getRaw (leAt m (this + 32) 4)) else none := by
  rw [(TECMP_Payload_forward_src m this 0).2.2.2, (TECMP_PayloadType_getters_src _ _).2.1]

/-- the raw payload type is the lowest byte of the little-endian member: the byte at offset 32 -/
theorem TECMP_Payload_getRawPayloadType_byte (m : Bytes) (this : Nat) (h : this + 32 + 4 ≤ m.length) :
    TECMP_Payload_getRawPayloadType m this = some (byteAt m (this + 32)) ∧
    TECMP_PayloadType_getRawPayloadType m (this + 32) = some (byteAt m (this + 32)) := by
  have e : getRaw (leAt m (this + 32) 4) = byteAt m (this + 32) := by
    rw [getRaw_arith, leAt_four]; have := byteAt_lt m (this + 32); omega
  rw [TECMP_Payload_getRawPayloadType_src, (TECMP_PayloadType_getters_src _ _).2.1, if_pos h, e]
  exact ⟨rfl, rfl⟩

/-- GET / SET laws of `Payload` in memory (`uint8_t` argument) -/
theorem Payload_src_laws (m : Bytes) (this t : Nat) (h : this + 32 + 4 ≤ m.length) (ht : t < 256) :
    (∃ m', Payload_setMessageType m this t = some m' ∧ SameOutside m m' (this + 32) 4 ∧
        Payload_getMessageType m' this = some t ∧
        Payload_getRawPayloadType m' this = Payload_getRawPayloadType m this) ∧
    (∃ m', Payload_setRawPayloadType m this t = some m' ∧ SameOutside m m' (this + 32) 4 ∧
        Payload_getRawPayloadType m' this = some t ∧
        Payload_getMessageType m' this = Payload_getMessageType m this) := by
  obtain ⟨⟨m1, a1, a2, a3, a4⟩, ⟨m2, b1, b2, b3, b4⟩, _⟩ := PayloadType_src_laws m (this + 32) t h ht
  refine ⟨⟨m1, ?_, a2, ?_, ?_⟩, ⟨m2, ?_, b2, ?_, ?_⟩⟩
  · rw [(Payload_forward_src m this t).1, a1]
  · rw [(Payload_forward_src m1 this t).2.2.1, a3]
  · rw [(Payload_forward_src m1 this t).2.2.2, (Payload_forward_src m this t).2.2.2, a4]
  · rw [(Payload_forward_src m this t).2.1, b1]
  · rw [(Payload_forward_src m2 this t).2.2.2, b3]
  · rw [(Payload_forward_src m2 this t).2.2.1, (Payload_forward_src m this t).2.2.1, b4]

theorem TECMP_Payload_src_laws (m : Bytes) (this t : Nat) (h : this + 32 + 4 ≤ m.length) (ht : t < 256) :
    (∃ m', TECMP_Payload_setMessageType m this t = some m' ∧ SameOutside m m' (this + 32) 4 ∧
        TECMP_Payload_getMessageType m' this = some t ∧
        TECMP_Payload_getRawPayloadType m' this = TECMP_Payload_getRawPayloadType m this) ∧
    (∃ m', TECMP_Payload_setRawPayloadType m this t = some m' ∧ SameOutside m m' (this + 32) 4 ∧
        TECMP_Payload_getRawPayloadType m' this = some t ∧
        TECMP_Payload_getMessageType m' this = TECMP_Payload_getMessageType m this) := by
  obtain ⟨⟨m1, a1, a2, a3, a4⟩, ⟨m2, b1, b2, b3, b4⟩, _⟩ := TECMP_PayloadType_src_laws m (this + 32) t h ht
  refine ⟨⟨m1, ?_, a2, ?_, ?_⟩, ⟨m2, ?_, b2, ?_, ?_⟩⟩
  · rw [(TECMP_Payload_forward_src m this t).1, a1]
  · rw [(TECMP_Payload_forward_src m1 this t).2.2.1, a3]
  · rw [(TECMP_Payload_forward_src m1 this t).2.2.2, (TECMP_Payload_forward_src m this t).2.2.2, a4]
  · rw [(TECMP_Payload_forward_src m this t).2.1, b1]
  · rw [(TECMP_Payload_forward_src m2 this t).2.2.2, b3]
  · rw [(TECMP_Payload_forward_src m2 this t).2.2.1, (TECMP_Payload_forward_src m this t).2.2.1, b4]

/-! ### views of the payload bytes: pure pointer / size getters (`pd` / `sz`: address and size of the owned bytes) -/

theorem Payload_getRawPayload_src (pd sz this : Nat) : Payload_getRawPayload pd sz this = some pd := rfl
theorem TECMP_Payload_getRawPayload_src (pd sz this : Nat) : TECMP_Payload_getRawPayload pd sz this = some pd := rfl
theorem TECMP_Payload_getLength_src (pd sz this : Nat) : TECMP_Payload_getLength pd sz this = some sz := rfl
/-- both overloads (const / non-const) of `CaptureModulePayload::getHeader`: the header is the start of the payload bytes -/
theorem CaptureModulePayload_getHeader_src (pd sz this : Nat) :
    CaptureModulePayload_getHeader_v pd sz this = some pd ∧ CaptureModulePayload_getHeader_v2 pd sz this = some pd := ⟨rfl, rfl⟩


/-! ## plain member getters: `Encoder::getDeviceId` / `getStreamId`, `InterfaceStatus::getInterfaceId` -/

theorem Encoder_getDeviceId_obj_src (s : Encoder_St) : Encoder_getDeviceId_obj s = some (s, s.f_deviceId) := rfl
theorem Encoder_getStreamId_obj_src (s : Encoder_St) : Encoder_getStreamId_obj s = some (s, s.f_streamId) := rfl
theorem InterfaceStatus_getInterfaceId_obj_src (s : InterfaceStatus_St) :
    InterfaceStatus_getInterfaceId_obj s = some (s, s.f_interfaceId) := rfl

/-- shallow mode: the members are the `uint16_t` at offset 16, the `uint8_t` at offset 18 of the `Encoder` object, the `uint32_t` at
    offset 32 of the `InterfaceStatus` object; defined iff the member lies inside the memory -/
theorem Encoder_getDeviceId_src (m : Bytes) (this : Nat) :
    Encoder_getDeviceId m this = if this + 16 + 2 ≤ m.length then some (leAt m (this + 16) 2) else none := by
  unfold Encoder_getDeviceId Src.rd; split <;> rfl
theorem Encoder_getStreamId_src (m : Bytes) (this : Nat) :
    Encoder_getStreamId m this = if this + 18 + 1 ≤ m.length then some (byteAt m (this + 18)) else none := by
  unfold Encoder_getStreamId Src.rd; rw [leAt_one]
theorem InterfaceStatus_getInterfaceId_src (m : Bytes) (this : Nat) :
    InterfaceStatus_getInterfaceId m this = if this + 32 + 4 ≤ m.length then some (leAt m (this + 32) 4) else none := by
  unfold InterfaceStatus_getInterfaceId Src.rd; split <;> rfl

/-- the object `o` at address `pre.length` of `pre ++ o ++ post`: the result depends on the object's own bytes only -/
theorem Encoder_getters_mid (pre o post : Bytes) (h : 19 ≤ o.length) :
    Encoder_getDeviceId (pre ++ o ++ post) pre.length = some (byteAt o 16 + 256 * byteAt o 17) ∧
    Encoder_getStreamId (pre ++ o ++ post) pre.length = some (byteAt o 18) := by
  unfold Encoder_getDeviceId Encoder_getStreamId
  rw [rd_mid pre o post 16 2 (by omega), rd_mid pre o post 18 1 (by omega), leAt_two, leAt_one]
  exact ⟨rfl, rfl⟩

theorem InterfaceStatus_getInterfaceId_mid (pre o post : Bytes) (h : 36 ≤ o.length) :
    InterfaceStatus_getInterfaceId (pre ++ o ++ post) pre.length = some (leAt o 32 4) := by
  unfold InterfaceStatus_getInterfaceId
  rw [rd_mid pre o post 32 4 (by omega)]

/-! ## `Packet::getCommonFlag` / `Packet::setCommonFlag` -/

/-- the flags byte after `setCommonFlag(mask, value)`: `value ? flags | mask : flags & ~mask`, converted to `uint8_t` -/
def setFlag (f mask : Nat) (v : Bool) : Nat := (if v then f ||| mask else f &&& bnot 32 mask) % 256

theorem setFlag_lt (f mask : Nat) (v : Bool) : setFlag f mask v < 256 := Nat.mod_lt _ (by decide)

/-- every bit: inside the mask it is `value`, outside it is unchanged (bits 0..7; a `uint8_t` has no others) -/
theorem setFlag_testBit (f mask : Nat) (v : Bool) (j : Nat) (hm : mask < 2 ^ 32) :
    (setFlag f mask v).testBit j = (decide (j < 8) && (if mask.testBit j then v else f.testBit j)) := by
  unfold setFlag
  rw [(by decide : 256 = 2 ^ 8), Nat.testBit_mod_two_pow]
  cases v
  · simp only [Bool.false_eq_true, if_false, Nat.testBit_and, bnot32_testBit _ _ hm]
    by_cases hj : j < 8
    · rw [decide_eq_true hj, decide_eq_true (by omega : j < 32)]
      cases mask.testBit j <;> simp
    · rw [decide_eq_false hj]; rfl
  · simp only [if_true, Nat.testBit_or]
    cases mask.testBit j <;> simp

theorem testBit_lt_of_lt {x n j : Nat} (hx : x < 2 ^ n) (h : x.testBit j = true) : j < n := by
  apply Classical.byContradiction
  intro hn
  rw [C11.testBit_of_lt hx (by omega)] at h
  exact Bool.noConfusion h

/-- `flags & mask` afterwards: all of the mask's bits are set, or none -/
theorem setFlag_and_mask (f mask : Nat) (v : Bool) (hm : mask < 256) :
    setFlag f mask v &&& mask = if v then mask else 0 := by
  apply Nat.eq_of_testBit_eq; intro j
  rw [Nat.testBit_and, setFlag_testBit f mask v j (by omega)]
  cases hb : mask.testBit j
  · cases v <;> simp [hb]
  · have hj : j < 8 := testBit_lt_of_lt (n := 8) hm hb
    cases v <;> simp [hb, hj]

/-- bits outside the mask: unchanged -/
theorem setFlag_and_other (f mask mask' : Nat) (v : Bool) (hm : mask < 256) (hm' : mask' < 256) (hd : mask &&& mask' = 0) :
    setFlag f mask v &&& mask' = f &&& mask' := by
  apply Nat.eq_of_testBit_eq; intro j
  rw [Nat.testBit_and, Nat.testBit_and, setFlag_testBit f mask v j (by omega)]
  cases hb' : mask'.testBit j
  · simp
  · have hj : j < 8 := testBit_lt_of_lt (n := 8) hm' hb'
    have hb : mask.testBit j = false := by
      have := congrArg (fun n => Nat.testBit n j) hd
      simp only [Nat.testBit_and, hb', Bool.and_true, Nat.zero_testBit] at this
      exact this
    simp [hb, hj]

/-- `Packet::getCommonFlag` (both object translations): state unchanged, `(flags & mask) != 0` -/
theorem Packet_getCommonFlag_obj_src (s : Packet_St) (mask : Nat) :
    Packet_getCommonFlag_obj s mask = some (s, (s.f_commonFlags &&& mask) != 0) := rfl
theorem Packet_getCommonFlag_pv_src (s : PacketV_St) (mask : Nat) :
    Packet_getCommonFlag_pv s mask = some (s, (s.f_commonFlags &&& mask) != 0) := rfl

/-- meaning of the result: true iff some bit of the mask is set in the flags; for a single-bit mask: that bit -/
theorem getCommonFlag_meaning (f mask : Nat) :
    (((f &&& mask) != 0) = true ↔ ∃ j, f.testBit j = true ∧ mask.testBit j = true) ∧
    (∀ k, mask = 2 ^ k → ((f &&& mask) != 0) = f.testBit k) := by
  refine ⟨?_, fun k hk => ?_⟩
  · rw [bne_iff_ne]; exact and_ne_zero_iff f mask
  · rw [hk]; exact and_two_pow_ne_zero f k

/-- `Packet::setCommonFlag` (both object translations): only the flags member changes -/
theorem Packet_setCommonFlag_obj_src (s : Packet_St) (mask : Nat) (v : Bool) :
    Packet_setCommonFlag_obj s mask v = some ({ s with f_commonFlags := setFlag s.f_commonFlags mask v }, ()) := rfl
theorem Packet_setCommonFlag_pv_src (s : PacketV_St) (mask : Nat) (v : Bool) :
    Packet_setCommonFlag_pv s mask v = some ({ s with f_commonFlags := setFlag s.f_commonFlags mask v }, ()) := rfl

/-- GET / SET laws, object translation of `Packet` (encoder side) -/
theorem Packet_commonFlag_obj_laws (s : Packet_St) (mask : Nat) (v : Bool) (hm : mask < 256) :
    ∃ s', Packet_setCommonFlag_obj s mask v = some (s', ()) ∧
      Packet_getCommonFlag_obj s' mask = some (s', v && (mask != 0)) ∧
      (∀ mask', mask' < 256 → mask &&& mask' = 0 →
        Packet_getCommonFlag_obj s' mask' = some (s', (s.f_commonFlags &&& mask') != 0)) ∧
      Packet_getCommonFlags_obj s' = some (s', setFlag s.f_commonFlags mask v) ∧
      (∀ j, (setFlag s.f_commonFlags mask v).testBit j
          = (decide (j < 8) && (if mask.testBit j then v else s.f_commonFlags.testBit j))) ∧
      Packet_getVersion_obj s' = some (s', s.f_version) ∧ Packet_getDeviceId_obj s' = some (s', s.f_deviceId) ∧
      Packet_getStreamId_obj s' = some (s', s.f_streamId) ∧ Packet_getSequenceCounter_obj s' = some (s', s.f_sequenceCounter) ∧
      Packet_getTimestamp_obj s' = some (s', s.f_timestamp) ∧ Packet_getInterfaceId_obj s' = some (s', s.f_interfaceId) ∧
      Packet_getVendorId_obj s' = some (s', s.f_vendorId) ∧ Packet_getSegmentType_obj s' = some (s', s.f_segmentType) := by
  refine ⟨{ s with f_commonFlags := setFlag s.f_commonFlags mask v }, rfl, ?_, fun mask' hm' hd => ?_, rfl,
    fun j => setFlag_testBit _ _ _ j (by omega), rfl, rfl, rfl, rfl, rfl, rfl, rfl, rfl⟩
  · rw [Packet_getCommonFlag_obj_src]; simp only [setFlag_and_mask _ mask v hm]; cases v <;> rfl
  · rw [Packet_getCommonFlag_obj_src]; simp only [setFlag_and_other _ mask mask' v hm hm' hd]

/-- GET / SET laws, value translation of `Packet` (decoder side; the payload member is untouched too) -/
theorem Packet_commonFlag_pv_laws (s : PacketV_St) (mask : Nat) (v : Bool) (hm : mask < 256) :
    ∃ s', Packet_setCommonFlag_pv s mask v = some (s', ()) ∧
      Packet_getCommonFlag_pv s' mask = some (s', v && (mask != 0)) ∧
      (∀ mask', mask' < 256 → mask &&& mask' = 0 →
        Packet_getCommonFlag_pv s' mask' = some (s', (s.f_commonFlags &&& mask') != 0)) ∧
      Packet_getCommonFlags_pv s' = some (s', setFlag s.f_commonFlags mask v) ∧
      (∀ j, (setFlag s.f_commonFlags mask v).testBit j
          = (decide (j < 8) && (if mask.testBit j then v else s.f_commonFlags.testBit j))) ∧
      s'.f_payload = s.f_payload ∧
      Packet_getVersion_pv s' = some (s', s.f_version) ∧ Packet_getDeviceId_pv s' = some (s', s.f_deviceId) ∧
      Packet_getStreamId_pv s' = some (s', s.f_streamId) ∧ Packet_getSequenceCounter_pv s' = some (s', s.f_sequenceCounter) ∧
      Packet_getTimestamp_pv s' = some (s', s.f_timestamp) ∧ Packet_getInterfaceId_pv s' = some (s', s.f_interfaceId) ∧
      Packet_getVendorId_pv s' = some (s', s.f_vendorId) ∧ Packet_getSegmentType_pv s' = some (s', s.f_segmentType) := by
  refine ⟨{ s with f_commonFlags := setFlag s.f_commonFlags mask v }, rfl, ?_, fun mask' hm' hd => ?_, rfl,
    fun j => setFlag_testBit _ _ _ j (by omega), rfl, rfl, rfl, rfl, rfl, rfl, rfl, rfl, rfl⟩
  · rw [Packet_getCommonFlag_pv_src]; simp only [setFlag_and_mask _ mask v hm]; cases v <;> rfl
  · rw [Packet_getCommonFlag_pv_src]; simp only [setFlag_and_other _ mask mask' v hm hm' hd]


/-! ### shallow mode: the flags are the byte at offset 30 of the `Packet` object -/

theorem Packet_getCommonFlag_src (m : Bytes) (this mask : Nat) :
    Packet_getCommonFlag m this mask
      = if this + 30 + 1 ≤ m.length then some ((byteAt m (this + 30) &&& mask) != 0) else none := by
  unfold Packet_getCommonFlag Src.rd
  rw [leAt_one]
  split <;> rfl

/-- defined iff the flags byte is inside the memory; only that byte changes -/
theorem Packet_setCommonFlag_src (m : Bytes) (this mask : Nat) (v : Bool) :
    Packet_setCommonFlag m this mask v
      = if this + 30 + 1 ≤ m.length then some (writeAt m (this + 30) (leEnc 1 (setFlag (byteAt m (this + 30)) mask v))) else none := by
  unfold Packet_setCommonFlag
  simp only [bind, pure]
  by_cases h : this + 30 + 1 ≤ m.length
  · rw [if_pos h]
    cases v
    · simp only [Bool.false_eq_true, if_false]
      rw [rd_eq _ _ _ h, some_bind, some_bind, wr_eq _ _ _ _ h, leAt_one]; rfl
    · simp only [if_true]
      rw [rd_eq _ _ _ h, some_bind, some_bind, wr_eq _ _ _ _ h, leAt_one]; rfl
  · rw [if_neg h]
    cases v
    · simp only [Bool.false_eq_true, if_false]; rw [Src.rd, if_neg h, none_bind, none_bind]
    · simp only [if_true]; rw [Src.rd, if_neg h, none_bind, none_bind]

theorem byteAt_wr1 (m : Bytes) (a v : Nat) (h : a + 1 ≤ m.length) (hv : v < 256) :
    byteAt (writeAt m a (leEnc 1 v)) a = v := by
  rw [← leAt_one, SrcTec.leAt_writeAt_same _ _ _ _ h]; exact Nat.mod_eq_of_lt hv

/-- GET / SET laws in memory: the flag reads back, flags outside the mask and all other `Packet` members read as before -/
theorem Packet_commonFlag_src_laws (m : Bytes) (this mask : Nat) (v : Bool) (h : this + 30 + 1 ≤ m.length) (hm : mask < 256) :
    ∃ m', Packet_setCommonFlag m this mask v = some m' ∧ SameOutside m m' (this + 30) 1 ∧
      Packet_getCommonFlag m' this mask = some (v && (mask != 0)) ∧
      (∀ mask', mask' < 256 → mask &&& mask' = 0 → Packet_getCommonFlag m' this mask' = Packet_getCommonFlag m this mask') ∧
      Packet_getCommonFlags m' this = some (setFlag (byteAt m (this + 30)) mask v) ∧
      Packet_getVersion m' this = Packet_getVersion m this ∧ Packet_getDeviceId m' this = Packet_getDeviceId m this ∧
      Packet_getStreamId m' this = Packet_getStreamId m this ∧
      Packet_getSequenceCounter m' this = Packet_getSequenceCounter m this ∧
      Packet_getTimestamp m' this = Packet_getTimestamp m this ∧ Packet_getInterfaceId m' this = Packet_getInterfaceId m this ∧
      Packet_getVendorId m' this = Packet_getVendorId m this ∧ Packet_getSegmentType m' this = Packet_getSegmentType m this := by
  have hs := sameOutside_wr m (this + 30) 1 (setFlag (byteAt m (this + 30)) mask v) h
  have hl := hs.1
  have hb := byteAt_wr1 m (this + 30) _ h (setFlag_lt (byteAt m (this + 30)) mask v)
  refine ⟨_, by rw [Packet_setCommonFlag_src, if_pos h], hs, ?_, fun mask' hm' hd => ?_, ?_, ?_, ?_, ?_, ?_, ?_, ?_, ?_, ?_⟩
  · rw [Packet_getCommonFlag_src, if_pos (by rw [hl]; exact h), hb, setFlag_and_mask _ mask v hm]; cases v <;> rfl
  · rw [Packet_getCommonFlag_src, Packet_getCommonFlag_src, if_pos (by rw [hl]; exact h), if_pos h, hb,
      setFlag_and_other _ mask mask' v hm hm' hd]
  · unfold Packet_getCommonFlags; rw [rd_eq _ _ _ (by rw [hl]; exact h), leAt_one, hb]
  · unfold Packet_getVersion; rw [hs.rd _ _ (by omega)]
  · unfold Packet_getDeviceId; rw [hs.rd _ _ (by omega)]
  · unfold Packet_getStreamId; rw [hs.rd _ _ (by omega)]
  · unfold Packet_getSequenceCounter; rw [hs.rd _ _ (by omega)]
  · unfold Packet_getTimestamp; rw [hs.rd _ _ (by omega)]
  · unfold Packet_getInterfaceId; rw [hs.rd _ _ (by omega)]
  · unfold Packet_getVendorId; rw [hs.rd _ _ (by omega)]
  · unfold Packet_getSegmentType; rw [hs.rd _ _ (by omega)]


/-! ## `CanPayloadBase::Header`: the big-endian 32-bit words `id` (offset 4) and `crc` (offset 8)

  The C++ keeps the words in wire (big-endian) order and masks them with byte-swapped constants; on the little-endian host the member
  read `rd m a 4` is therefore `bswap32` of the protocol word `beAt m a 4`.  All statements below are about the PROTOCOL word. -/

theorem writeAt_inside (pre b post x : Bytes) (i : Nat) (h : i + x.length ≤ b.length) :
    writeAt (pre ++ b ++ post) (pre.length + i) x = pre ++ writeAt b i x ++ post := by
  unfold writeAt
  have e1 : (pre ++ b ++ post).take (pre.length + i) = pre ++ b.take i := by
    rw [List.append_assoc, List.take_length_add_append, List.take_append_of_le_length (by omega)]
  have e2 : (pre ++ b ++ post).drop (pre.length + i + x.length) = b.drop (i + x.length) ++ post := by
    rw [List.append_assoc, Nat.add_assoc, List.drop_length_add_append, List.drop_append_of_le_length (by omega)]
  rw [e1, e2]
  simp only [List.append_assoc]

theorem beAt_mid (pre b post : Bytes) (i w : Nat) (h : i + w ≤ b.length) :
    beAt (pre ++ b ++ post) (pre.length + i) w = beAt b i w := by
  unfold beAt; rw [slice_mid pre b post i w h]

theorem rd4_bswap (m : Bytes) (a : Nat) (h : a + 4 ≤ m.length) : Src.rd m a 4 = some (bswap32 (beAt m a 4)) := by
  rw [rd_eq _ _ _ h, leAt_eq_bswap32 m a h]

theorem wr4_bswap (m : Bytes) (a v : Nat) (h : a + 4 ≤ m.length) :
    wr m a 4 (bswap32 v) = some (writeAt m a (beEnc 4 v)) := by
  rw [wr_eq _ _ _ _ h, leEnc_bswap32]

theorem bswap32_ne_zero (x : Nat) (hx : x < 2 ^ 32) : (bswap32 x != 0) = (x != 0) := by
  rw [Bool.eq_iff_iff, bne_iff_ne, bne_iff_ne]
  constructor
  · intro h h0; apply h; rw [h0]; rfl
  · intro h h0; apply h
    have := bswap32_bswap32 x hx
    rw [h0] at this; exact this.symm

/-- a masked read followed by `swapEndian`: the masked protocol word -/
theorem swap_and (W K : Nat) (hW : W < 2 ^ 32) : swapEndian_u32 (bswap32 W &&& bswap32 K) = some (W &&& K) := by
  rw [← bswap32_and, swapEndian_u32_eq, bswap32_bswap32 _ (Nat.lt_of_le_of_lt Nat.and_le_left hW)]

/-- flag getter on the member: bit `k` of the protocol word, where `c = bswap32 (2^k)` is the folded constant -/
theorem flag_get (m : Bytes) (a c k : Nat) (hc : c = bswap32 (2 ^ k)) :
    (do let t1 ← Src.rd m a 4; pure ((t1 &&& c) != 0))
      = if a + 4 ≤ m.length then some ((beAt m a 4).testBit k) else none := by
  simp only [bind, pure]
  by_cases h : a + 4 ≤ m.length
  · rw [rd4_bswap m a h, some_bind, if_pos h, hc, ← bswap32_and,
      bswap32_ne_zero _ (Nat.lt_of_le_of_lt Nat.and_le_left (beAt_lt4 m a)), and_two_pow_ne_zero]
  · rw [Src.rd, if_neg h, none_bind, if_neg h]

/-- flag setter on the member: bit `k` of the protocol word becomes `v`, nothing else changes -/
theorem flag_set (m : Bytes) (a c k : Nat) (v : Bool) (hk : k < 32) (hc : c = bswap32 (2 ^ k))
    (hn : bnot 32 c = bswap32 (bnot 32 (2 ^ k))) :
    (do let t3 ← (if v then (do let t1 ← Src.rd m a 4; pure (t1 ||| c)) else (do let t2 ← Src.rd m a 4; pure (t2 &&& (bnot 32 c))))
        let m ← wr m a 4 t3
        pure m)
      = if a + 4 ≤ m.length then some (writeAt m a (beEnc 4 (C11.upd k 1 (if v then 1 else 0) (beAt m a 4)))) else none := by
  simp only [bind, pure]
  by_cases h : a + 4 ≤ m.length
  · rw [if_pos h]
    cases v
    · simp only [Bool.false_eq_true, if_false]
      rw [rd4_bswap m a h, some_bind, some_bind, hn, ← bswap32_and, wr4_bswap m a _ h,
        and_bnot_two_pow_eq_upd _ k (beAt_lt4 m a) hk]
    · simp only [if_true]
      rw [rd4_bswap m a h, some_bind, some_bind, hc, ← bswap32_or, wr4_bswap m a _ h, or_two_pow_eq_upd]
  · rw [if_neg h]
    cases v
    · simp only [Bool.false_eq_true, if_false]; rw [Src.rd, if_neg h, none_bind, none_bind]
    · simp only [if_true]; rw [Src.rd, if_neg h, none_bind, none_bind]

/-! ### the flag accessors: `rtr/rrs` = bit 30 of `id`; `sbcParity` = bit 24, `sbcSupport` = bit 30 of `crc` -/

theorem CanHeader_getRtrRrs_src (m : Bytes) (this : Nat) :
    CanPayloadBase_Header_getRtrRrs m this
      = if this + 4 + 4 ≤ m.length then some ((beAt m (this + 4) 4).testBit 30) else none :=
  flag_get m (this + 4) 64 30 (by decide)

theorem CanHeader_getSbcParity_src (m : Bytes) (this : Nat) :
    CanPayloadBase_Header_getSbcParity m this
      = if this + 8 + 4 ≤ m.length then some ((beAt m (this + 8) 4).testBit 24) else none :=
  flag_get m (this + 8) 1 24 (by decide)

theorem CanHeader_getSbcSupport_src (m : Bytes) (this : Nat) :
    CanPayloadBase_Header_getSbcSupport m this
      = if this + 8 + 4 ≤ m.length then some ((beAt m (this + 8) 4).testBit 30) else none :=
  flag_get m (this + 8) 64 30 (by decide)

theorem CanHeader_setRtrRrs_src (m : Bytes) (this : Nat) (v : Bool) :
    CanPayloadBase_Header_setRtrRrs m this v
      = if this + 4 + 4 ≤ m.length then
          some (writeAt m (this + 4) (beEnc 4 (C11.upd 30 1 (if v then 1 else 0) (beAt m (this + 4) 4)))) else none :=
  flag_set m (this + 4) 64 30 v (by decide) (by decide) (by decide)

theorem CanHeader_setSbcParity_src (m : Bytes) (this : Nat) (v : Bool) :
    CanPayloadBase_Header_setSbcParity m this v
      = if this + 8 + 4 ≤ m.length then
          some (writeAt m (this + 8) (beEnc 4 (C11.upd 24 1 (if v then 1 else 0) (beAt m (this + 8) 4)))) else none :=
  flag_set m (this + 8) 1 24 v (by decide) (by decide) (by decide)

theorem CanHeader_setSbcSupport_src (m : Bytes) (this : Nat) (v : Bool) :
    CanPayloadBase_Header_setSbcSupport m this v
      = if this + 8 + 4 ≤ m.length then
          some (writeAt m (this + 8) (beEnc 4 (C11.upd 30 1 (if v then 1 else 0) (beAt m (this + 8) 4)))) else none :=
  flag_set m (this + 8) 64 30 v (by decide) (by decide) (by decide)


/-! ### the value accessors of the `crc` word: CAN `crc` = bits 0..14, CAN-FD `crc` = bits 0..20, `sbc` = bits 21..23 -/

theorem CanHeader_getCrc_src (m : Bytes) (this : Nat) :
    CanPayloadBase_Header_getCrc m this
      = if this + 8 + 4 ≤ m.length then some (C11.ext 0 15 (beAt m (this + 8) 4)) else none := by
  unfold CanPayloadBase_Header_getCrc
  simp only [bind, pure]
  by_cases h : this + 8 + 4 ≤ m.length
  · rw [rd4_bswap m _ h, some_bind, (by decide : 4286513152 = bswap32 32767), swap_and _ _ (beAt_lt4 m _), some_bind, if_pos h,
      (by decide : 32767 = (2 ^ 15 - 1) <<< 0), and_mask_eq_ext, Nat.shiftLeft_zero]
    exact congrArg some (Nat.mod_eq_of_lt (Nat.lt_trans (C11.ext_lt 0 15 _) (by decide)))
  · rw [Src.rd, if_neg h, none_bind, if_neg h]

theorem CanHeader_getCrcSbc_src (m : Bytes) (this : Nat) :
    CanPayloadBase_Header_getCrcSbc m this
      = if this + 8 + 4 ≤ m.length then some (C11.ext 0 21 (beAt m (this + 8) 4)) else none := by
  unfold CanPayloadBase_Header_getCrcSbc
  simp only [bind, pure]
  by_cases h : this + 8 + 4 ≤ m.length
  · rw [rd4_bswap m _ h, some_bind, (by decide : 4294909696 = bswap32 2097151), swap_and _ _ (beAt_lt4 m _), if_pos h,
      (by decide : 2097151 = (2 ^ 21 - 1) <<< 0), and_mask_eq_ext, Nat.shiftLeft_zero]
  · rw [Src.rd, if_neg h, none_bind, if_neg h]

theorem CanHeader_getSbc_src (m : Bytes) (this : Nat) :
    CanPayloadBase_Header_getSbc m this
      = if this + 8 + 4 ≤ m.length then some (C11.ext 21 3 (beAt m (this + 8) 4)) else none := by
  unfold CanPayloadBase_Header_getSbc
  simp only [bind, pure]
  by_cases h : this + 8 + 4 ≤ m.length
  · rw [rd4_bswap m _ h, some_bind, (by decide : 57344 = bswap32 14680064), swap_and _ _ (beAt_lt4 m _), some_bind, if_pos h,
      (by decide : 14680064 = (2 ^ 3 - 1) <<< 21), ushr, if_pos (by decide), some_bind, and_mask_shr_eq_ext]
    exact congrArg some (Nat.mod_eq_of_lt (Nat.lt_trans (C11.ext_lt 21 3 _) (by decide)))
  · rw [Src.rd, if_neg h, none_bind, if_neg h]

/-- the `crc` word after `setSbc(sbc)`, for EVERY argument: `(crc & ~0x00E00000) | (sbc << 21)` — the argument is not masked -/
def sbcWord (W sbc : Nat) : Nat := (W &&& bnot 32 14680064) ||| (sbc <<< 21) % 2 ^ 32

theorem CanHeader_setSbc_src (m : Bytes) (this sbc : Nat) :
    CanPayloadBase_Header_setSbc m this sbc
      = if this + 8 + 4 ≤ m.length then
          some (writeAt m (this + 8) (beEnc 4 (sbcWord (beAt m (this + 8) 4) sbc))) else none := by
  unfold CanPayloadBase_Header_setSbc
  simp only [bind, pure]
  by_cases h : this + 8 + 4 ≤ m.length
  · have hb : bnot 32 57344 = bswap32 (bnot 32 14680064) := by decide
    have hl : (writeAt m (this + 8) (beEnc 4 (beAt m (this + 8) 4 &&& bnot 32 14680064))).length = m.length :=
      writeAt_length _ _ _ (by rw [beEnc_length]; exact h)
    have hlt : beAt m (this + 8) 4 &&& bnot 32 14680064 < 2 ^ 32 := Nat.lt_of_le_of_lt Nat.and_le_left (beAt_lt4 m _)
    rw [rd4_bswap m _ h, some_bind, hb, ← bswap32_and, wr4_bswap m _ _ h, some_bind, ushl, if_pos (by decide), some_bind,
      swapEndian_u32_eq, some_bind, rd4_bswap _ _ (by rw [hl]; exact h), some_bind,
      C11.beAt_writeAt_same (w := 4) h hlt, ← bswap32_or, wr4_bswap _ _ _ (by rw [hl]; exact h),
      C11.writeAt_writeAt_same (by rw [beEnc_length]; exact h) (by rw [beEnc_length, beEnc_length]), if_pos h]
    rfl
  · rw [Src.rd, if_neg h, none_bind, if_neg h]

/-- in range (`sbc < 8`): exactly the three `sbc` bits are replaced -/
theorem sbcWord_eq_upd (W sbc : Nat) (hW : W < 2 ^ 32) (h : sbc < 8) : sbcWord W sbc = C11.upd 21 3 sbc W := by
  unfold sbcWord
  rw [Nat.mod_eq_of_lt (by rw [Nat.shiftLeft_eq]; omega), (by decide : 14680064 = (2 ^ 3 - 1) <<< 21)]
  exact clear_or_eq_upd W sbc 21 3 hW h (by decide)

/-- every bit of the word after `setSbc`, for every argument: the high bits of an out-of-range argument (`sbc ≥ 8`) are OR-ed into
    the neighbouring fields (bits 24..: `sbcParity`, …) -/
theorem sbcWord_testBit (W sbc i : Nat) :
    (sbcWord W sbc).testBit i
      = (W.testBit i && (decide (i < 32) && !(decide (21 ≤ i) && decide (i - 21 < 3)))
          || decide (i < 32) && (decide (i ≥ 21) && sbc.testBit (i - 21))) := by
  unfold sbcWord
  rw [Nat.testBit_or, Nat.testBit_and, bnot32_testBit _ _ (by decide), (by decide : 14680064 = (2 ^ 3 - 1) <<< 21), mask_testBit,
    Nat.testBit_mod_two_pow, Nat.testBit_shiftLeft]


/-- frame, at any address: whenever one of the four setters is defined, the new memory differs from the old one at most in the
    four bytes of the word it addresses (`id` for `setRtrRrs`, `crc` for the others) -/
theorem CanHeader_setters_frame (m m' : Bytes) (this : Nat) (v : Bool) (sbc : Nat) :
    (CanPayloadBase_Header_setRtrRrs m this v = some m' → SameOutside m m' (this + 4) 4) ∧
    (CanPayloadBase_Header_setSbcParity m this v = some m' → SameOutside m m' (this + 8) 4) ∧
    (CanPayloadBase_Header_setSbcSupport m this v = some m' → SameOutside m m' (this + 8) 4) ∧
    (CanPayloadBase_Header_setSbc m this sbc = some m' → SameOutside m m' (this + 8) 4) := by
  have key (a W : Nat) (hm : (if a + 4 ≤ m.length then some (writeAt m a (beEnc 4 W)) else none) = some m') :
      SameOutside m m' a 4 := by
    by_cases h : a + 4 ≤ m.length
    · rw [if_pos h] at hm
      have e := Option.some.inj hm
      rw [← e]
      have := sameOutside_writeAt m a (beEnc 4 W) (by rw [beEnc_length]; exact h)
      rw [beEnc_length] at this; exact this
    · rw [if_neg h] at hm; cases hm
  refine ⟨fun h => ?_, fun h => ?_, fun h => ?_, fun h => ?_⟩
  · rw [CanHeader_setRtrRrs_src] at h; exact key _ _ h
  · rw [CanHeader_setSbcParity_src] at h; exact key _ _ h
  · rw [CanHeader_setSbcSupport_src] at h; exact key _ _ h
  · rw [CanHeader_setSbc_src] at h; exact key _ _ h

/-! ### the same statements against the protocol layout table (`Layout.c_can` / `Layout.c_canfd`, field model `getField` / `setField`
  of Fields.lean — the model C11 / C12 are proved about): the header `hdr` sits at address `pre.length` of `pre ++ hdr ++ post` -/

def fRtr : Field := ⟨"rtr", 4, 4, 30, 1, ""⟩
def fCrc : Field := ⟨"crc", 8, 4, 0, 15, ""⟩
def fCrcFd : Field := ⟨"crc", 8, 4, 0, 21, ""⟩
def fSbc : Field := ⟨"sbc", 8, 4, 21, 3, ""⟩
def fSbcParity : Field := ⟨"sbcParity", 8, 4, 24, 1, ""⟩
def fSbcSupport : Field := ⟨"sbcSupport", 8, 4, 30, 1, ""⟩

/-- these are the table's fields (`rtr` is called `rrs` in the CAN-FD table: same word, same bit) -/
theorem can_fields_in_layout :
    Layout.c_can.find "rtr" = some fRtr ∧ Layout.c_can.find "crc" = some fCrc ∧
    Layout.c_canfd.find "rrs" = some { fRtr with name := "rrs" } ∧ Layout.c_canfd.find "crc" = some fCrcFd ∧
    Layout.c_canfd.find "sbc" = some fSbc ∧ Layout.c_canfd.find "sbcParity" = some fSbcParity ∧
    Layout.c_canfd.find "sbcSupport" = some fSbcSupport := by decide

theorem mid_len (pre hdr post : Bytes) (k : Nat) (h : k ≤ hdr.length) : pre.length + k ≤ (pre ++ hdr ++ post).length := by
  simp only [List.length_append]; omega

theorem flag_val (v : Bool) : ((if v then 1 else 0 : Nat) != 0) = v := by cases v <;> rfl
theorem flag_lt (v : Bool) : (if v then 1 else 0 : Nat) < 2 ^ 1 := by cases v <;> decide

/-- getters: defined, the field of the table (flags: `field != 0`) -/
theorem CanHeader_getters_mid (pre hdr post : Bytes) (h : 12 ≤ hdr.length) :
    CanPayloadBase_Header_getRtrRrs (pre ++ hdr ++ post) pre.length = some (getField fRtr hdr != 0) ∧
    CanPayloadBase_Header_getSbcParity (pre ++ hdr ++ post) pre.length = some (getField fSbcParity hdr != 0) ∧
    CanPayloadBase_Header_getSbcSupport (pre ++ hdr ++ post) pre.length = some (getField fSbcSupport hdr != 0) ∧
    CanPayloadBase_Header_getCrc (pre ++ hdr ++ post) pre.length = some (getField fCrc hdr) ∧
    CanPayloadBase_Header_getCrcSbc (pre ++ hdr ++ post) pre.length = some (getField fCrcFd hdr) ∧
    CanPayloadBase_Header_getSbc (pre ++ hdr ++ post) pre.length = some (getField fSbc hdr) := by
  have l4 := mid_len pre hdr post (4 + 4) (by omega)
  have l8 := mid_len pre hdr post (8 + 4) (by omega)
  rw [← Nat.add_assoc] at l4 l8
  refine ⟨?_, ?_, ?_, ?_, ?_, ?_⟩
  · rw [CanHeader_getRtrRrs_src, if_pos l4, beAt_mid pre hdr post 4 4 (by omega), ← ext_testBit_one]; rfl
  · rw [CanHeader_getSbcParity_src, if_pos l8, beAt_mid pre hdr post 8 4 (by omega), ← ext_testBit_one]; rfl
  · rw [CanHeader_getSbcSupport_src, if_pos l8, beAt_mid pre hdr post 8 4 (by omega), ← ext_testBit_one]; rfl
  · rw [CanHeader_getCrc_src, if_pos l8, beAt_mid pre hdr post 8 4 (by omega)]; rfl
  · rw [CanHeader_getCrcSbc_src, if_pos l8, beAt_mid pre hdr post 8 4 (by omega)]; rfl
  · rw [CanHeader_getSbc_src, if_pos l8, beAt_mid pre hdr post 8 4 (by omega)]; rfl

/-- setters: defined, the memory outside the header untouched, the header is `setField` of the table's field -/
theorem CanHeader_setters_mid (pre hdr post : Bytes) (h : 12 ≤ hdr.length) (v : Bool) (sbc : Nat) (hs : sbc < 8) :
    CanPayloadBase_Header_setRtrRrs (pre ++ hdr ++ post) pre.length v
      = some (pre ++ setField fRtr (if v then 1 else 0) hdr ++ post) ∧
    CanPayloadBase_Header_setSbcParity (pre ++ hdr ++ post) pre.length v
      = some (pre ++ setField fSbcParity (if v then 1 else 0) hdr ++ post) ∧
    CanPayloadBase_Header_setSbcSupport (pre ++ hdr ++ post) pre.length v
      = some (pre ++ setField fSbcSupport (if v then 1 else 0) hdr ++ post) ∧
    CanPayloadBase_Header_setSbc (pre ++ hdr ++ post) pre.length sbc = some (pre ++ setField fSbc sbc hdr ++ post) := by
  have l4 := mid_len pre hdr post (4 + 4) (by omega)
  have l8 := mid_len pre hdr post (8 + 4) (by omega)
  rw [← Nat.add_assoc] at l4 l8
  refine ⟨?_, ?_, ?_, ?_⟩
  · rw [CanHeader_setRtrRrs_src, if_pos l4, beAt_mid pre hdr post 4 4 (by omega),
      writeAt_inside pre hdr post _ 4 (by rw [beEnc_length]; omega)]; rfl
  · rw [CanHeader_setSbcParity_src, if_pos l8, beAt_mid pre hdr post 8 4 (by omega),
      writeAt_inside pre hdr post _ 8 (by rw [beEnc_length]; omega)]; rfl
  · rw [CanHeader_setSbcSupport_src, if_pos l8, beAt_mid pre hdr post 8 4 (by omega),
      writeAt_inside pre hdr post _ 8 (by rw [beEnc_length]; omega)]; rfl
  · rw [CanHeader_setSbc_src, if_pos l8, beAt_mid pre hdr post 8 4 (by omega),
      writeAt_inside pre hdr post _ 8 (by rw [beEnc_length]; omega),
      sbcWord_eq_upd _ sbc (beAt_lt4 hdr 8) hs]; rfl

/-- all six translated getters of the header at once -/
def canRead (M : Bytes) (this : Nat) : Option Bool × Option Bool × Option Bool × Option Nat × Option Nat × Option Nat :=
  (CanPayloadBase_Header_getRtrRrs M this, CanPayloadBase_Header_getSbcParity M this, CanPayloadBase_Header_getSbcSupport M this,
   CanPayloadBase_Header_getCrc M this, CanPayloadBase_Header_getCrcSbc M this, CanPayloadBase_Header_getSbc M this)

theorem canRead_mid (pre hdr post : Bytes) (h : 12 ≤ hdr.length) :
    canRead (pre ++ hdr ++ post) pre.length
      = (some (getField fRtr hdr != 0), some (getField fSbcParity hdr != 0), some (getField fSbcSupport hdr != 0),
         some (getField fCrc hdr), some (getField fCrcFd hdr), some (getField fSbc hdr)) := by
  obtain ⟨a, b, c, d, e, f⟩ := CanHeader_getters_mid pre hdr post h
  unfold canRead; rw [a, b, c, d, e, f]

/-- GET / SET laws: each setter is defined, changes the header only, makes its own getter return the value set and leaves the
    other five getters' results as they were (`sbc` in range; out of range see `sbcWord_testBit`) -/
theorem CanHeader_laws (pre hdr post : Bytes) (h : 12 ≤ hdr.length) (v : Bool) (sbc : Nat) (hs : sbc < 8) :
    (∃ hdr', CanPayloadBase_Header_setRtrRrs (pre ++ hdr ++ post) pre.length v = some (pre ++ hdr' ++ post) ∧
      hdr'.length = hdr.length ∧ (∀ i, i < 4 ∨ 8 ≤ i → hdr'[i]? = hdr[i]?) ∧
      canRead (pre ++ hdr' ++ post) pre.length
        = (some v, (canRead (pre ++ hdr ++ post) pre.length).2)) ∧
    (∃ hdr', CanPayloadBase_Header_setSbcParity (pre ++ hdr ++ post) pre.length v = some (pre ++ hdr' ++ post) ∧
      hdr'.length = hdr.length ∧ (∀ i, i < 8 ∨ 12 ≤ i → hdr'[i]? = hdr[i]?) ∧
      canRead (pre ++ hdr' ++ post) pre.length
        = ((canRead (pre ++ hdr ++ post) pre.length).1, some v, (canRead (pre ++ hdr ++ post) pre.length).2.2)) ∧
    (∃ hdr', CanPayloadBase_Header_setSbcSupport (pre ++ hdr ++ post) pre.length v = some (pre ++ hdr' ++ post) ∧
      hdr'.length = hdr.length ∧ (∀ i, i < 8 ∨ 12 ≤ i → hdr'[i]? = hdr[i]?) ∧
      canRead (pre ++ hdr' ++ post) pre.length
        = ((canRead (pre ++ hdr ++ post) pre.length).1, (canRead (pre ++ hdr ++ post) pre.length).2.1, some v,
           (canRead (pre ++ hdr ++ post) pre.length).2.2.2)) ∧
    (∃ hdr', CanPayloadBase_Header_setSbc (pre ++ hdr ++ post) pre.length sbc = some (pre ++ hdr' ++ post) ∧
      hdr'.length = hdr.length ∧ (∀ i, i < 8 ∨ 12 ≤ i → hdr'[i]? = hdr[i]?) ∧
      canRead (pre ++ hdr' ++ post) pre.length
        = ((canRead (pre ++ hdr ++ post) pre.length).1, (canRead (pre ++ hdr ++ post) pre.length).2.1,
           (canRead (pre ++ hdr ++ post) pre.length).2.2.1, (canRead (pre ++ hdr ++ post) pre.length).2.2.2.1,
           (canRead (pre ++ hdr ++ post) pre.length).2.2.2.2.1, some sbc)) := by
  obtain ⟨s1, s2, s3, s4⟩ := CanHeader_setters_mid pre hdr post h v sbc hs
  have hv := flag_lt v
  have hs3 : sbc < 2 ^ 3 := hs
  have B (f : Field) (hf : f.off + f.w ≤ 12) : f.off + f.w ≤ hdr.length := by omega
  have L (f : Field) (x : Nat) (hf : f.off + f.w ≤ 12) : 12 ≤ (setField f x hdr).length := by
    rw [C11.setField_length' x (B f hf)]; exact h
  have S (f : Field) (x : Nat) (hf : f.off + f.w ≤ 12) (h1 : f.shift + f.bits ≤ 8 * f.w) (hx : x < 2 ^ f.bits) :
      getField f (setField f x hdr) = x := C11.get_set_same' h1 (B f hf) hx
  have O (f g : Field) (x : Nat) (hf : f.off + f.w ≤ 12) (h1 : f.shift + f.bits ≤ 8 * f.w) (h2 : g.shift + g.bits ≤ 8 * g.w)
      (hx : x < 2 ^ f.bits) (hd : f.disjoint g = true)
      (hw : (f.off = g.off ∧ f.w = g.w) ∨ f.off + f.w ≤ g.off ∨ g.off + g.w ≤ f.off) :
      getField g (setField f x hdr) = getField g hdr := C11.get_set_other' h1 (B f hf) h2 hx hd hw
  refine ⟨⟨_, s1, C11.setField_length' _ (B fRtr (by decide)), fun i hi => C11.set_frame' _ (B fRtr (by decide)) hi, ?_⟩,
    ⟨_, s2, C11.setField_length' _ (B fSbcParity (by decide)), fun i hi => C11.set_frame' _ (B fSbcParity (by decide)) hi, ?_⟩,
    ⟨_, s3, C11.setField_length' _ (B fSbcSupport (by decide)), fun i hi => C11.set_frame' _ (B fSbcSupport (by decide)) hi, ?_⟩,
    ⟨_, s4, C11.setField_length' _ (B fSbc (by decide)), fun i hi => C11.set_frame' _ (B fSbc (by decide)) hi, ?_⟩⟩
  · rw [canRead_mid pre _ post (L fRtr _ (by decide)), canRead_mid pre hdr post h,
      S fRtr _ (by decide) (by decide) hv, flag_val,
      O fRtr fSbcParity _ (by decide) (by decide) (by decide) hv (by decide) (by decide),
      O fRtr fSbcSupport _ (by decide) (by decide) (by decide) hv (by decide) (by decide),
      O fRtr fCrc _ (by decide) (by decide) (by decide) hv (by decide) (by decide),
      O fRtr fCrcFd _ (by decide) (by decide) (by decide) hv (by decide) (by decide),
      O fRtr fSbc _ (by decide) (by decide) (by decide) hv (by decide) (by decide)]
  · rw [canRead_mid pre _ post (L fSbcParity _ (by decide)), canRead_mid pre hdr post h,
      S fSbcParity _ (by decide) (by decide) hv, flag_val,
      O fSbcParity fRtr _ (by decide) (by decide) (by decide) hv (by decide) (by decide),
      O fSbcParity fSbcSupport _ (by decide) (by decide) (by decide) hv (by decide) (by decide),
      O fSbcParity fCrc _ (by decide) (by decide) (by decide) hv (by decide) (by decide),
      O fSbcParity fCrcFd _ (by decide) (by decide) (by decide) hv (by decide) (by decide),
      O fSbcParity fSbc _ (by decide) (by decide) (by decide) hv (by decide) (by decide)]
  · rw [canRead_mid pre _ post (L fSbcSupport _ (by decide)), canRead_mid pre hdr post h,
      S fSbcSupport _ (by decide) (by decide) hv, flag_val,
      O fSbcSupport fRtr _ (by decide) (by decide) (by decide) hv (by decide) (by decide),
      O fSbcSupport fSbcParity _ (by decide) (by decide) (by decide) hv (by decide) (by decide),
      O fSbcSupport fCrc _ (by decide) (by decide) (by decide) hv (by decide) (by decide),
      O fSbcSupport fCrcFd _ (by decide) (by decide) (by decide) hv (by decide) (by decide),
      O fSbcSupport fSbc _ (by decide) (by decide) (by decide) hv (by decide) (by decide)]
  · rw [canRead_mid pre _ post (L fSbc _ (by decide)), canRead_mid pre hdr post h,
      S fSbc _ (by decide) (by decide) hs3,
      O fSbc fRtr _ (by decide) (by decide) (by decide) hs3 (by decide) (by decide),
      O fSbc fSbcParity _ (by decide) (by decide) (by decide) hs3 (by decide) (by decide),
      O fSbc fSbcSupport _ (by decide) (by decide) (by decide) hs3 (by decide) (by decide),
      O fSbc fCrc _ (by decide) (by decide) (by decide) hs3 (by decide) (by decide),
      O fSbc fCrcFd _ (by decide) (by decide) (by decide) hs3 (by decide) (by decide)]


/-! ## `TECMP::Payload::setData<Header>` / `TECMP::LinPayload::setData`

  `x` is the caller's buffer (the bytes readable behind the `data` pointer), `n` the `size_t` length argument; the object's vector is
  the whole memory `m` (template mode of the translator), the 2-byte LIN header at its start. -/

/-- defined iff `n` bytes are readable in the caller's buffer and `2 + n` does not wrap `size_t`; the vector becomes its first two
    bytes (zero-filled if it was shorter) followed by the `n` data bytes -/
theorem TECMP_Payload_setData_src (m : Bytes) (this : Nat) (x : Bytes) (n : Nat) :
    TECMP_Payload_setData_x_u64 m this x n
      = if n ≤ x.length ∧ 2 + n < 2 ^ 64 then some (resize m 2 ++ x.take n) else none := by
  by_cases h : n ≤ x.length ∧ 2 + n < 2 ^ 64
  · rw [if_pos h, payload_setData_spec TECMP_Payload_setData_x_u64 2 (fun _ _ _ _ => rfl) m this x n h.1 h.2,
      setTail_eq_resize]
  · rw [if_neg h]
    unfold TECMP_Payload_setData_x_u64 wrBytes
    simp only [bind, pure]
    rw [if_neg]
    intro hc
    apply h
    refine ⟨hc.1, ?_⟩
    have h2 := hc.2
    rw [resize_length] at h2
    unfold uadd at h2
    apply Classical.byContradiction
    intro hge
    have : (2 + n) % 2 ^ 64 < 2 + n := Nat.lt_of_lt_of_le (Nat.mod_lt _ (Nat.two_pow_pos 64)) (by omega)
    omega

theorem resize_two (m : Bytes) : resize m 2 = [m.getD 0 0, m.getD 1 0] := by
  unfold resize
  match m with
  | [] => rfl
  | [a] => rfl
  | a :: b :: r => simp

/-- `LinPayload::setData(data, n)`: the same, then the header's length byte (offset 1) is set to `(uint8_t) n`; the `pid` byte
    (offset 0) keeps its value -/
theorem TECMP_LinPayload_setData_src (m : Bytes) (this : Nat) (x : Bytes) (n : Nat) :
    TECMP_LinPayload_setData m this x n
      = if n ≤ x.length ∧ 2 + n < 2 ^ 64 then some ([m.getD 0 0, UInt8.ofNat n] ++ x.take n) else none := by
  unfold TECMP_LinPayload_setData
  simp only [bind, pure]
  rw [TECMP_Payload_setData_src]
  by_cases h : n ≤ x.length ∧ 2 + n < 2 ^ 64
  · rw [if_pos h, if_pos h, some_bind, resize_two]
    unfold TECMP_LinPayload_getHeader_v2 TECMP_LinPayload_Header_setDataLength swapEndian_u8
    simp only [bind, pure, some_bind]
    rw [wr_eq _ _ _ _ (by simp), leEnc_one]
    rfl
  · rw [if_neg h, if_neg h, none_bind]

/-- GET after SET through the translated readers of the same class (object = its own memory, as the converter uses them): length,
    `pid` unchanged, `dataLength = n mod 256`, the data pointer and the data bytes -/
theorem TECMP_LinPayload_setData_laws (m : Bytes) (this : Nat) (x : Bytes) (n : Nat) (hn : n ≤ x.length) (h64 : 2 + n < 2 ^ 64) :
    ∃ m', TECMP_LinPayload_setData m this x n = some m' ∧ m'.length = 2 + n ∧ m'.drop 2 = x.take n ∧
      TECMP_Payload_getLength 0 m'.length this = some (2 + n) ∧
      TECMP_LinPayload_getPid m' 0 m'.length this = some (byteAt m 0) ∧
      TECMP_LinPayload_getDataLength m' 0 m'.length this = some (n % 256) ∧
      TECMP_LinPayload_getData 0 m'.length this = some 2 := by
  have hl : ([m.getD 0 0, UInt8.ofNat n] ++ x.take n).length = 2 + n := by
    simp only [List.length_append, List.length_cons, List.length_nil, List.length_take]; omega
  refine ⟨_, by rw [TECMP_LinPayload_setData_src, if_pos ⟨hn, h64⟩], hl, rfl, by rw [hl]; rfl, ?_, ?_, rfl⟩
  · have := (tecmp_lin_src [] ([m.getD 0 0, UInt8.ofNat n] ++ x.take n) [] this (by simp only [List.nil_append, List.append_nil]; rw [hl]; exact h64) (by rw [hl]; omega)).1
    simp only [List.nil_append, List.append_nil, List.length_nil] at this
    rw [this]; rfl
  · have := (tecmp_lin_src [] ([m.getD 0 0, UInt8.ofNat n] ++ x.take n) [] this (by simp only [List.nil_append, List.append_nil]; rw [hl]; exact h64) (by rw [hl]; omega)).2.1
    simp only [List.nil_append, List.append_nil, List.length_nil] at this
    rw [this]
    simp [byteAt]


/-! ## `CaptureModulePayload::getVendorDataStringView`

  Behind the 26-byte header follow five length-prefixed blocks (16-bit big-endian length, then the bytes); the function walks over the
  first four and returns the fifth as a `string_view` = (pointer, length) pair.  `pd` is the address of the payload bytes. -/

theorem beAt2_lt (m : Bytes) (a : Nat) : beAt m a 2 < 65536 := by
  have h := beDec_lt (slice m a 2)
  have hl : (slice m a 2).length ≤ 2 := by simp [slice]; omega
  unfold beAt
  exact Nat.lt_of_lt_of_le h (by
    have : (256 : Nat) ^ (slice m a 2).length ≤ 256 ^ 2 := Nat.pow_le_pow_right (by decide) hl
    simpa using this)

/-- `initStringView(ptr, str)`, total: defined iff the two length bytes are readable; `str` = the block's bytes, `ptr` moves behind -/
theorem initStringView_total (m : Bytes) (p : Nat) (sv : Nat × Nat) :
    CaptureModulePayload_initStringView m p sv
      = if p + 2 ≤ m.length then some (p + 2 + beAt m p 2, (p + 2, beAt m p 2)) else none := by
  unfold CaptureModulePayload_initStringView
  simp only [bind, pure]
  by_cases h : p + 2 ≤ m.length
  · rw [rd_eq _ _ _ h, some_bind, swap16_leAt m p h, some_bind, nonneg_u16 _ (beAt2_lt m p), some_bind, if_pos h]
  · rw [Src.rd, if_neg h, none_bind, if_neg h]

/-- address of the block behind the block at `p` -/
def cmNext (m : Bytes) (p : Nat) : Nat := p + 2 + beAt m p 2

/-- address of the `k`-th block (0 = device description, …, 4 = vendor data) -/
def cmBlockAt (m : Bytes) (pd : Nat) : Nat → Nat
  | 0 => pd + 26
  | k + 1 => cmNext m (cmBlockAt m pd k)

theorem cmNext_ge (m : Bytes) (p : Nat) : p + 2 ≤ cmNext m p := by unfold cmNext; omega

/-- defined iff the length prefix of the fifth block is readable (the earlier prefixes then are, the walk only moves forward);
    the view is the fifth block: pointer behind its prefix, its declared length -/
theorem CaptureModulePayload_getVendorDataStringView_src (m : Bytes) (pd sz this : Nat) :
    CaptureModulePayload_getVendorDataStringView m pd sz this
      = if cmBlockAt m pd 4 + 2 ≤ m.length then some (cmBlockAt m pd 4 + 2, beAt m (cmBlockAt m pd 4) 2) else none := by
  unfold CaptureModulePayload_getVendorDataStringView
  simp only [bind, pure, initStringView_total]
  have g0 := cmNext_ge m (pd + 26)
  have g1 := cmNext_ge m (cmNext m (pd + 26))
  have g2 := cmNext_ge m (cmNext m (cmNext m (pd + 26)))
  have g3 := cmNext_ge m (cmNext m (cmNext m (cmNext m (pd + 26))))
  have e4 : cmBlockAt m pd 4 = cmNext m (cmNext m (cmNext m (cmNext m (pd + 26)))) := rfl
  rw [e4]
  by_cases h0 : pd + 26 + 2 ≤ m.length
  · rw [if_pos h0, some_bind]
    show (if cmNext m (pd + 26) + 2 ≤ m.length then _ else none).bind _ = _
    by_cases h1 : cmNext m (pd + 26) + 2 ≤ m.length
    · rw [if_pos h1, some_bind]
      show (if cmNext m (cmNext m (pd + 26)) + 2 ≤ m.length then _ else none).bind _ = _
      by_cases h2 : cmNext m (cmNext m (pd + 26)) + 2 ≤ m.length
      · rw [if_pos h2, some_bind]
        show (if cmNext m (cmNext m (cmNext m (pd + 26))) + 2 ≤ m.length then _ else none).bind _ = _
        by_cases h3 : cmNext m (cmNext m (cmNext m (pd + 26))) + 2 ≤ m.length
        · rw [if_pos h3, some_bind]
          show (if cmNext m (cmNext m (cmNext m (cmNext m (pd + 26)))) + 2 ≤ m.length then _ else none).bind _ = _
          by_cases h4 : cmNext m (cmNext m (cmNext m (cmNext m (pd + 26)))) + 2 ≤ m.length
          · rw [if_pos h4, some_bind, if_pos h4]; rfl
          · rw [if_neg h4, none_bind, if_neg h4]
        · rw [if_neg h3, none_bind, if_neg (by omega)]
      · rw [if_neg h2, none_bind, if_neg (by omega)]
    · rw [if_neg h1, none_bind, if_neg (by omega)]
  · rw [if_neg h0, none_bind, if_neg (by omega)]

/-- the two accessors already tied to the model (`cm_access_src`) are the components of this view -/
theorem CaptureModulePayload_vendorData_components (m : Bytes) (pd sz this : Nat) :
    CaptureModulePayload_getVendorData m pd sz this
      = (CaptureModulePayload_getVendorDataStringView m pd sz this).map (·.1) ∧
    CaptureModulePayload_getVendorDataLength m pd sz this
      = (CaptureModulePayload_getVendorDataStringView m pd sz this).map (fun v => v.2 % 65536) := by
  unfold CaptureModulePayload_getVendorData CaptureModulePayload_getVendorDataLength
    CaptureModulePayload_getVendorDataStringView
  constructor <;> simp only [bind, pure, Option.map_bind, Function.comp_def, Option.map_some]


/-- on a payload `b` the library's validator accepts (`cmValid`, tied to `isValidPayload` by `cm_validator_src`), at any position of
    any memory: defined, independent of the surrounding memory, and the view lies inside `b` — it is the fifth block of `b` -/
theorem CaptureModulePayload_getVendorDataStringView_valid (pre b post : Bytes) (this : Nat) (hv : cmValid b = true) :
    CaptureModulePayload_getVendorDataStringView (pre ++ b ++ post) pre.length b.length this
      = some (pre.length + (cmBlockAt b 0 4 + 2), beAt b (cmBlockAt b 0 4) 2) ∧
    cmBlockAt b 0 4 + 2 + beAt b (cmBlockAt b 0 4) 2 ≤ b.length := by
  unfold cmValid at hv
  simp only [Bool.and_eq_true, decide_eq_true_eq] at hv
  obtain ⟨h26, hv1⟩ := hv
  obtain ⟨l1, p2, e1, q1, _, hb1, hv2⟩ := blocksOk_block b 4 26 h26 hv1
  obtain ⟨l2, p3, e2, q2, _, hb2, hv3⟩ := blocksOk_block b 3 p2 hb1 hv2
  obtain ⟨l3, p4, e3, q3, _, hb3, hv4⟩ := blocksOk_block b 2 p3 hb2 hv3
  obtain ⟨l4, p5, e4, q4, _, hb4, hv5⟩ := blocksOk_block b 1 p4 hb3 hv4
  obtain ⟨l5, p6, e5, q5, _, hb5, _⟩ := blocksOk_block b 0 p5 hb4 hv5
  have c4 : cmBlockAt b 0 4 = p5 := by
    simp only [cmBlockAt, cmNext, Nat.zero_add, e1, q1, e2, q2, e3, q3, e4, q4]
  rw [c4, e5]
  refine ⟨?_, by omega⟩
  simp (disch := omega) only [CaptureModulePayload_getVendorDataStringView, initStringView_src, e1, e2, e3, e4, e5, q1, q2, q3, q4,
    q5, bind, pure, some_bind]


/-! ## the second translation of the accessors: bit programs (GeneratedSrcFields.lean, semantics `Src.Bit.run`)

  For every accessor above that also has a bit program: running the program at `this` on the memory `m` computes exactly what the
  shallow translation computes — same definedness, same result, same final memory (getters: unchanged).  So every theorem above is also
  a theorem about the program.  Value arguments are passed as argument 0 (`Op.arg 0`). -/

section progs
open AsamCmp.Src.Bit

theorem map_bind' {α β γ : Type} (x : Option α) (f : α → β) (g : β → Option γ) :
    (x.map f).bind g = x.bind (fun a => g (f a)) := by cases x <;> rfl
theorem bind_map' {α β γ : Type} (x : Option α) (f : α → Option β) (g : β → γ) :
    (x.bind f).map g = x.bind (fun a => (f a).map g) := by cases x <;> rfl
theorem map_some' {α β : Type} (a : α) (g : α → β) : (some a).map g = some (g a) := by rw [Option.map_some]
theorem bind_assoc' {α β γ : Type} (x : Option α) (f : α → Option β) (g : β → Option γ) :
    (x.bind f).bind g = x.bind fun a => (f a).bind g := by cases x <;> rfl
theorem map_eq_bind' {α β : Type} (x : Option α) (f : α → β) : x.map f = x.bind fun a => some (f a) := by cases x <;> rfl
theorem bind_some_id {α : Type} (x : Option α) : (x.bind fun a => some a) = x := by cases x <;> rfl

/-! one step of `run`, the state kept as (memory, list of values) -/
variable (this : Nat) (args : List Nat) (m : Bytes) (vals : List Nat) (os : List Bit.Op)
theorem run_nil : Bit.run this args ⟨m, vals⟩ [] = some ⟨m, vals⟩ := rfl
theorem run_rd (off w : Nat) : Bit.run this args ⟨m, vals⟩ (.rd off w :: os)
    = (Src.rd m (this + off) w).bind fun v => Bit.run this args ⟨m, vals ++ [v]⟩ os := by
  simp only [Bit.run, Bit.step, map_bind', Bit.St.push]
theorem run_wr (off w a : Nat) : Bit.run this args ⟨m, vals⟩ (.wr off w a :: os)
    = (wr m (this + off) w (vals.getD a 0)).bind fun m' => Bit.run this args ⟨m', vals ++ [0]⟩ os := by
  simp only [Bit.run, Bit.step, map_bind', Bit.St.val]
theorem run_arg (k : Nat) : Bit.run this args ⟨m, vals⟩ (.arg k :: os) = Bit.run this args ⟨m, vals ++ [args.getD k 0]⟩ os := by
  simp only [Bit.run, Bit.step, some_bind, Bit.St.push]
theorem run_const (c : Nat) : Bit.run this args ⟨m, vals⟩ (.const c :: os) = Bit.run this args ⟨m, vals ++ [c]⟩ os := by
  simp only [Bit.run, Bit.step, some_bind, Bit.St.push]
theorem run_band (a b : Nat) : Bit.run this args ⟨m, vals⟩ (.band a b :: os)
    = Bit.run this args ⟨m, vals ++ [vals.getD a 0 &&& vals.getD b 0]⟩ os := by
  simp only [Bit.run, Bit.step, some_bind, Bit.St.push, Bit.St.val]
theorem run_bor (a b : Nat) : Bit.run this args ⟨m, vals⟩ (.bor a b :: os)
    = Bit.run this args ⟨m, vals ++ [vals.getD a 0 ||| vals.getD b 0]⟩ os := by
  simp only [Bit.run, Bit.step, some_bind, Bit.St.push, Bit.St.val]
theorem run_bnot (bits a : Nat) : Bit.run this args ⟨m, vals⟩ (.bnot bits a :: os)
    = Bit.run this args ⟨m, vals ++ [bnot bits (vals.getD a 0)]⟩ os := by
  simp only [Bit.run, Bit.step, some_bind, Bit.St.push, Bit.St.val]
theorem run_trunc (bits a : Nat) : Bit.run this args ⟨m, vals⟩ (.trunc bits a :: os)
    = Bit.run this args ⟨m, vals ++ [vals.getD a 0 % 2 ^ bits]⟩ os := by
  simp only [Bit.run, Bit.step, some_bind, Bit.St.push, Bit.St.val]
theorem run_ushl (bits a n : Nat) : Bit.run this args ⟨m, vals⟩ (.ushl bits a n :: os)
    = (ushl bits (vals.getD a 0) n).bind fun v => Bit.run this args ⟨m, vals ++ [v]⟩ os := by
  simp only [Bit.run, Bit.step, map_bind', Bit.St.push, Bit.St.val]
theorem run_ushr (bits a n : Nat) : Bit.run this args ⟨m, vals⟩ (.ushr bits a n :: os)
    = (ushr bits (vals.getD a 0) n).bind fun v => Bit.run this args ⟨m, vals ++ [v]⟩ os := by
  simp only [Bit.run, Bit.step, map_bind', Bit.St.push, Bit.St.val]
theorem run_sshl (bits a n : Nat) : Bit.run this args ⟨m, vals⟩ (.sshl bits a n :: os)
    = (sshl bits (vals.getD a 0) n).bind fun v => Bit.run this args ⟨m, vals ++ [v]⟩ os := by
  simp only [Bit.run, Bit.step, map_bind', Bit.St.push, Bit.St.val]

/-- evaluate a concrete program step by step; normalise both sides to right-nested `bind`s of the partial primitives -/
macro "prog_norm" : tactic =>
  `(tactic| simp only [run_nil, run_rd, run_wr, run_arg, run_const, run_band, run_bor, run_bnot, run_trunc, run_ushl, run_ushr,
      run_sshl, Bit.St.val, bind, pure, map_eq_bind', bind_assoc', bind_some_id, some_bind, map_some', List.nil_append, List.cons_append,
      List.getD_cons_zero, List.getD_cons_succ, List.getD_nil, swapEndian_u32,
      Nat.reducePow, Nat.add_zero, Bool.false_eq_true, if_true, if_false])

theorem CanPayloadBase_Header_getCrc_prog_agrees (m : Bytes) (this : Nat) :
    (Bit.run this [] ⟨m, []⟩ CanPayloadBase_Header_getCrc_prog.1).map (fun st => (st.m, st.val CanPayloadBase_Header_getCrc_prog.2))
      = (CanPayloadBase_Header_getCrc m this).map (fun r => (m, r)) := by
  unfold CanPayloadBase_Header_getCrc_prog CanPayloadBase_Header_getCrc
  prog_norm

theorem CanPayloadBase_Header_getCrcSbc_prog_agrees (m : Bytes) (this : Nat) :
    (Bit.run this [] ⟨m, []⟩ CanPayloadBase_Header_getCrcSbc_prog.1).map (fun st => (st.m, st.val CanPayloadBase_Header_getCrcSbc_prog.2))
      = (CanPayloadBase_Header_getCrcSbc m this).map (fun r => (m, r)) := by
  unfold CanPayloadBase_Header_getCrcSbc_prog CanPayloadBase_Header_getCrcSbc
  prog_norm

theorem CanPayloadBase_Header_getSbc_prog_agrees (m : Bytes) (this : Nat) :
    (Bit.run this [] ⟨m, []⟩ CanPayloadBase_Header_getSbc_prog.1).map (fun st => (st.m, st.val CanPayloadBase_Header_getSbc_prog.2))
      = (CanPayloadBase_Header_getSbc m this).map (fun r => (m, r)) := by
  unfold CanPayloadBase_Header_getSbc_prog CanPayloadBase_Header_getSbc
  prog_norm

theorem Encoder_getDeviceId_prog_agrees (m : Bytes) (this : Nat) :
    (Bit.run this [] ⟨m, []⟩ Encoder_getDeviceId_prog.1).map (fun st => (st.m, st.val Encoder_getDeviceId_prog.2))
      = (Encoder_getDeviceId m this).map (fun r => (m, r)) := by
  unfold Encoder_getDeviceId_prog Encoder_getDeviceId
  prog_norm

theorem Encoder_getStreamId_prog_agrees (m : Bytes) (this : Nat) :
    (Bit.run this [] ⟨m, []⟩ Encoder_getStreamId_prog.1).map (fun st => (st.m, st.val Encoder_getStreamId_prog.2))
      = (Encoder_getStreamId m this).map (fun r => (m, r)) := by
  unfold Encoder_getStreamId_prog Encoder_getStreamId
  prog_norm

theorem InterfaceStatus_getInterfaceId_prog_agrees (m : Bytes) (this : Nat) :
    (Bit.run this [] ⟨m, []⟩ InterfaceStatus_getInterfaceId_prog.1).map (fun st => (st.m, st.val InterfaceStatus_getInterfaceId_prog.2))
      = (InterfaceStatus_getInterfaceId m this).map (fun r => (m, r)) := by
  unfold InterfaceStatus_getInterfaceId_prog InterfaceStatus_getInterfaceId
  prog_norm

theorem TECMP_PayloadType_getRawPayloadType_prog_agrees (m : Bytes) (this : Nat) :
    (Bit.run this [] ⟨m, []⟩ TECMP_PayloadType_getRawPayloadType_prog.1).map (fun st => (st.m, st.val TECMP_PayloadType_getRawPayloadType_prog.2))
      = (TECMP_PayloadType_getRawPayloadType m this).map (fun r => (m, r)) := by
  unfold TECMP_PayloadType_getRawPayloadType_prog TECMP_PayloadType_getRawPayloadType
  prog_norm

theorem CanPayloadBase_Header_getRtrRrs_prog_agrees (m : Bytes) (this : Nat) :
    (Bit.run this [] ⟨m, []⟩ CanPayloadBase_Header_getRtrRrs_prog.1).map (fun st => (st.m, st.val CanPayloadBase_Header_getRtrRrs_prog.2 != 0))
      = (CanPayloadBase_Header_getRtrRrs m this).map (fun r => (m, r)) := by
  unfold CanPayloadBase_Header_getRtrRrs_prog CanPayloadBase_Header_getRtrRrs
  prog_norm

theorem CanPayloadBase_Header_getSbcParity_prog_agrees (m : Bytes) (this : Nat) :
    (Bit.run this [] ⟨m, []⟩ CanPayloadBase_Header_getSbcParity_prog.1).map (fun st => (st.m, st.val CanPayloadBase_Header_getSbcParity_prog.2 != 0))
      = (CanPayloadBase_Header_getSbcParity m this).map (fun r => (m, r)) := by
  unfold CanPayloadBase_Header_getSbcParity_prog CanPayloadBase_Header_getSbcParity
  prog_norm

theorem CanPayloadBase_Header_getSbcSupport_prog_agrees (m : Bytes) (this : Nat) :
    (Bit.run this [] ⟨m, []⟩ CanPayloadBase_Header_getSbcSupport_prog.1).map (fun st => (st.m, st.val CanPayloadBase_Header_getSbcSupport_prog.2 != 0))
      = (CanPayloadBase_Header_getSbcSupport m this).map (fun r => (m, r)) := by
  unfold CanPayloadBase_Header_getSbcSupport_prog CanPayloadBase_Header_getSbcSupport
  prog_norm

theorem Packet_getCommonFlag_prog_agrees (m : Bytes) (this mask : Nat) :
    (Bit.run this [mask] ⟨m, []⟩ (Packet_getCommonFlag_prog (.arg 0)).1).map
        (fun st => (st.m, st.val (Packet_getCommonFlag_prog (.arg 0)).2 != 0))
      = (Packet_getCommonFlag m this mask).map (fun r => (m, r)) := by
  unfold Packet_getCommonFlag_prog Packet_getCommonFlag
  prog_norm

theorem CanPayloadBase_Header_setRtrRrs_prog_agrees (m : Bytes) (this : Nat) (v : Bool) :
    (Bit.run this [] ⟨m, []⟩ (CanPayloadBase_Header_setRtrRrs_prog v).1).map (fun st => st.m) = CanPayloadBase_Header_setRtrRrs m this v := by
  unfold CanPayloadBase_Header_setRtrRrs_prog CanPayloadBase_Header_setRtrRrs
  cases v <;> prog_norm <;> cases (Src.rd m (this + 4) 4) <;> rfl

theorem CanPayloadBase_Header_setSbcParity_prog_agrees (m : Bytes) (this : Nat) (v : Bool) :
    (Bit.run this [] ⟨m, []⟩ (CanPayloadBase_Header_setSbcParity_prog v).1).map (fun st => st.m) = CanPayloadBase_Header_setSbcParity m this v := by
  unfold CanPayloadBase_Header_setSbcParity_prog CanPayloadBase_Header_setSbcParity
  cases v <;> prog_norm <;> cases (Src.rd m (this + 8) 4) <;> rfl

theorem CanPayloadBase_Header_setSbcSupport_prog_agrees (m : Bytes) (this : Nat) (v : Bool) :
    (Bit.run this [] ⟨m, []⟩ (CanPayloadBase_Header_setSbcSupport_prog v).1).map (fun st => st.m) = CanPayloadBase_Header_setSbcSupport m this v := by
  unfold CanPayloadBase_Header_setSbcSupport_prog CanPayloadBase_Header_setSbcSupport
  cases v <;> prog_norm <;> cases (Src.rd m (this + 8) 4) <;> rfl

theorem Packet_setCommonFlag_prog_agrees (m : Bytes) (this mask : Nat) (v : Bool) :
    (Bit.run this [mask] ⟨m, []⟩ (Packet_setCommonFlag_prog (.arg 0) v).1).map (fun st => st.m) = Packet_setCommonFlag m this mask v := by
  unfold Packet_setCommonFlag_prog Packet_setCommonFlag
  cases v <;> prog_norm <;> cases (Src.rd m (this + 30) 1) <;> rfl

theorem CanPayloadBase_Header_setSbc_prog_agrees (m : Bytes) (this x : Nat) :
    (Bit.run this [x] ⟨m, []⟩ (CanPayloadBase_Header_setSbc_prog (.arg 0)).1).map (fun st => st.m) = CanPayloadBase_Header_setSbc m this x := by
  unfold CanPayloadBase_Header_setSbc_prog CanPayloadBase_Header_setSbc
  prog_norm

theorem PayloadType_setMessageType_prog_agrees (m : Bytes) (this x : Nat) :
    (Bit.run this [x] ⟨m, []⟩ (PayloadType_setMessageType_prog (.arg 0)).1).map (fun st => st.m) = PayloadType_setMessageType m this x := by
  have e : PayloadType_setMessageType m this x = (do
      let t1 ← Src.rd m this 4
      let m ← wr m this 4 (t1 &&& bnot 32 65280)
      let t3 ← sshl 32 x 8
      let t4 ← Src.rd m this 4
      let m ← wr m this 4 (t4 ||| t3)
      pure m) := rfl
  rw [e]
  unfold PayloadType_setMessageType_prog
  prog_norm

theorem PayloadType_setRawPayloadType_prog_agrees (m : Bytes) (this x : Nat) :
    (Bit.run this [x] ⟨m, []⟩ (PayloadType_setRawPayloadType_prog (.arg 0)).1).map (fun st => st.m) = PayloadType_setRawPayloadType m this x := by
  unfold PayloadType_setRawPayloadType_prog PayloadType_setRawPayloadType
  prog_norm

theorem PayloadType_setType_prog_agrees (m : Bytes) (this x : Nat) :
    (Bit.run this [x] ⟨m, []⟩ (PayloadType_setType_prog (.arg 0)).1).map (fun st => st.m) = PayloadType_setType m this x := by
  unfold PayloadType_setType_prog PayloadType_setType
  prog_norm

theorem TECMP_PayloadType_setMessageType_prog_agrees (m : Bytes) (this x : Nat) :
    (Bit.run this [x] ⟨m, []⟩ (TECMP_PayloadType_setMessageType_prog (.arg 0)).1).map (fun st => st.m) = TECMP_PayloadType_setMessageType m this x := by
  have e : TECMP_PayloadType_setMessageType m this x = (do
      let t1 ← Src.rd m this 4
      let m ← wr m this 4 (t1 &&& bnot 32 65280)
      let t3 ← sshl 32 x 8
      let t4 ← Src.rd m this 4
      let m ← wr m this 4 (t4 ||| t3)
      pure m) := rfl
  rw [e]
  unfold TECMP_PayloadType_setMessageType_prog
  prog_norm

theorem TECMP_PayloadType_setRawPayloadType_prog_agrees (m : Bytes) (this x : Nat) :
    (Bit.run this [x] ⟨m, []⟩ (TECMP_PayloadType_setRawPayloadType_prog (.arg 0)).1).map (fun st => st.m) = TECMP_PayloadType_setRawPayloadType m this x := by
  unfold TECMP_PayloadType_setRawPayloadType_prog TECMP_PayloadType_setRawPayloadType
  prog_norm

theorem TECMP_PayloadType_setType_prog_agrees (m : Bytes) (this x : Nat) :
    (Bit.run this [x] ⟨m, []⟩ (TECMP_PayloadType_setType_prog (.arg 0)).1).map (fun st => st.m) = TECMP_PayloadType_setType m this x := by
  unfold TECMP_PayloadType_setType_prog TECMP_PayloadType_setType
  prog_norm

end progs

end AsamCmp.SrcLeft
