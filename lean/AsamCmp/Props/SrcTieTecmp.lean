/-
  Source-level tie, TECMP part: the header validity test and the header / payload readers that `TECMP::Decoder` and
  `TECMP::Converter` use, translated from /repo's source on every run (GeneratedSrc.lean), read exactly the bytes the TECMP model
  (`Tecmp.lean`: `tecmpDecode`, `tecmpCan`, `tecmpLin`, `tecmpPacket`) reads — for every memory content.
-/
import AsamCmp.GeneratedSrc
import AsamCmp.Tecmp
import AsamCmp.Props.SrcTie
import AsamCmp.Lemmas.SrcAccess
set_option linter.unusedSimpArgs false
set_option linter.unusedVariables false
namespace AsamCmp.SrcTie
open AsamCmp AsamCmp.Src AsamCmp.SrcGen

/-- the 28-byte TECMP header at the start of the buffer: validity (message type 0xFF or data type 0xFF00 on the wire — the
    library compares the raw little-endian word with 0xFF — mark an invalid header) and the fields the decoder uses -/
theorem tecmp_header_src (b : Bytes) (h : 28 ≤ b.length) :
    TECMP_CmpHeader_isValid b 0 = some (!(decide (byteAt b 5 = 0xFF) || (decide (byteAt b 6 = 0xFF) && decide (byteAt b 7 = 0)))) ∧
    TECMP_CmpHeader_getPayloadLength b 0 = some (beAt b 24 2) ∧
    TECMP_CmpHeader_getMessageType b 0 = some (byteAt b 5) ∧
    TECMP_CmpHeader_getDataType b 0 = some (beAt b 6 2) ∧
    TECMP_CmpHeader_getDeviceId b 0 = some (byteAt b 1) ∧
    TECMP_CmpHeader_getInterfaceId b 0 = some (beAt b 12 4) ∧
    TECMP_CmpHeader_getTimestamp b 0 = some (beAt b 16 8) := by
  have h6 := byteAt_lt b 6
  have h7 := byteAt_lt b 7
  refine ⟨?_, ?_⟩
  · unfold TECMP_CmpHeader_isValid
    simp (disch := omega) only [rd_eq, leAt_one, leAt_two, Nat.zero_add, Nat.reduceAdd]
    src_norm
    simp only [Bool.not_or, Bool.not_and]
    src_finish
  · unfold TECMP_CmpHeader_getPayloadLength TECMP_CmpHeader_getMessageType TECMP_CmpHeader_getDataType
      TECMP_CmpHeader_getDeviceId TECMP_CmpHeader_getInterfaceId TECMP_CmpHeader_getTimestamp swapEndian_u8
    simp (disch := omega) only [rd_eq, leAt_one, swap16_leAt, swap32_leAt, swap64_leAt, bind, some_bind, pure,
      Nat.zero_add, and_self]

/-- TECMP LIN payload `p` (owned bytes at address `pre.length`): id byte, length byte, data pointer, checksum byte behind the data
    (0 when absent) — what `tecmpLin` reads -/
theorem tecmp_lin_src (pre p post : Bytes) (this : Nat) (h : (pre ++ p ++ post).length < 2 ^ 64) (hp : 2 ≤ p.length) :
    TECMP_LinPayload_getPid (pre ++ p ++ post) pre.length p.length this = some (byteAt p 0) ∧
    TECMP_LinPayload_getDataLength (pre ++ p ++ post) pre.length p.length this = some (byteAt p 1) ∧
    TECMP_LinPayload_getData pre.length p.length this = some (pre.length + 2) ∧
    TECMP_LinPayload_getCrc (pre ++ p ++ post) pre.length p.length this =
      some (if p.length ≤ 2 + byteAt p 1 then 0 else byteAt p (2 + byteAt p 1)) := by
  have hb := mem_lt pre p post h
  have h1 := byteAt_lt p 1
  refine ⟨?_, ?_, rfl, ?_⟩
  · simp only [TECMP_LinPayload_getPid, TECMP_LinPayload_Header_getPid, swapEndian_u8]
    src_calls []
  · simp only [TECMP_LinPayload_getDataLength, TECMP_LinPayload_Header_getDataLength, swapEndian_u8]
    src_calls []
  · simp only [TECMP_LinPayload_getCrc, TECMP_LinPayload_Header_getDataLength, swapEndian_u8]
    by_cases hle : p.length ≤ 2 + byteAt p 1
    · src_calls [hle]
    · src_calls [hle, nonneg_byteAt, Nat.add_assoc]

/-- TECMP CAN payload: arbitration id, length byte, data pointer (null when nothing follows the 5 header bytes) -/
theorem tecmp_can_src (pre p post : Bytes) (this : Nat) (h : (pre ++ p ++ post).length < 2 ^ 64) (hp : 5 ≤ p.length) :
    TECMP_CanPayload_getArbId (pre ++ p ++ post) pre.length p.length this = some (beAt p 0 4) ∧
    TECMP_CanPayload_getDlc (pre ++ p ++ post) pre.length p.length this = some (byteAt p 4) ∧
    TECMP_CanPayload_getData pre.length p.length this = some (if 5 < p.length then pre.length + 5 else 0) := by
  refine ⟨?_, ?_, ?_⟩
  · simp only [TECMP_CanPayload_getArbId, TECMP_CanPayload_Header_getArbId]
    src_calls []
  · simp only [TECMP_CanPayload_getDlc, TECMP_CanPayload_Header_getDlc, swapEndian_u8]
    src_calls []
  · simp only [TECMP_CanPayload_getData]
    src_norm
    exact ite_some _ _ _

end AsamCmp.SrcTie
