/-
  Source-level `Packet::getRawCmpHeader` / `getRawMessageHeader` (src/packet.cpp), translated on every run as state transformers
  over the record of the packet's scalar members (GeneratedSrcObj.lean; a default-initialised local header object — bytes reflected
  from the compiled headers — filled through the translated header setters and copied out; the three getters that go through the
  owned payload object are opaque inputs): they produce exactly the `frameHeader` / `msgHeader` of the packet model, i.e. the raw
  header bytes that `SrcEnc.pktIn` hands to the translated encoder.
-/
import AsamCmp.GeneratedSrcObj
import AsamCmp.Packet
import AsamCmp.Lemmas.SrcPacket
set_option linter.unusedSimpArgs false
set_option linter.unusedVariables false
namespace AsamCmp.SrcEnc
open AsamCmp AsamCmp.Src AsamCmp.SrcGen

/-- the scalar members of a packet of the model -/
def pktSt (p : Packet) : Packet_St :=
  { f_version := p.version, f_deviceId := p.deviceId, f_streamId := p.streamId, f_sequenceCounter := p.seq, f_timestamp := p.ts,
    f_interfaceId := p.ifId, f_vendorId := p.vendorId, f_commonFlags := p.flags, f_segmentType := p.segType }

/-- members within their C types -/
def PktReg (p : Packet) : Prop :=
  p.version < 256 ∧ p.deviceId < 65536 ∧ p.streamId < 256 ∧ p.seq < 65536 ∧ p.ts < 2 ^ 64 ∧ p.ifId < 2 ^ 32 ∧
  p.vendorId < 65536 ∧ p.flags < 256

theorem rawCmpHeader_src (p : Packet) (h : PktReg p) :
    Packet_getRawCmpHeader_obj (pktSt p) p.mt = some (pktSt p, frameHeader p.version p.deviceId p.mt p.streamId p.seq) := by
  simp only [Packet_getRawCmpHeader_obj, Packet_getVersion_obj, Packet_getDeviceId_obj, Packet_getStreamId_obj,
    Packet_getSequenceCounter_obj, CmpHeader_setVersion, CmpHeader_setDeviceId, CmpHeader_setMessageType,
    CmpHeader_setStreamId, CmpHeader_setSequenceCounter, pktSt, frameHeader]
  pkt_calls [takeExact_all]
  simp only [beEnc_two]
  list_eval

theorem rawMsgHeader_src (p : Packet) (h : PktReg p) :
    Packet_getRawMessageHeader_obj (pktSt p) p.mt p.rawType p.payloadLength =
      some (pktSt p, msgHeader p (p.flags &&& 0x0C) p.payloadLength) := by
  obtain ⟨_, _, _, _, _, _, _, hf⟩ := h
  simp only [Packet_getRawMessageHeader_obj, Packet_getTimestamp_obj, Packet_getInterfaceId_obj,
    Packet_getVendorId_obj, Packet_getCommonFlags_obj, MessageHeader_setTimestamp, MessageHeader_setInterfaceId,
    MessageHeader_setVendorId, MessageHeader_setCommonFlags, MessageHeader_setPayloadType,
    MessageHeader_setPayloadLength, pktSt, msgHeader, flags_byte p.flags hf, Bool.or_eq_true, beq_iff_eq]
  -- the translated `switch` on the message type: 1 / 3 or 0xFF / 2 / default
  by_cases h1 : p.mt = 1
  · simp only [h1, ↓reduceIte]
    msg_hdr_finish
  · by_cases h3 : p.mt = 3 ∨ p.mt = 255
    · simp only [h1, h3, ↓reduceIte]
      msg_hdr_finish
    · by_cases h2 : p.mt = 2
      · simp only [h1, h3, eq_true h2, ↓reduceIte]
        msg_hdr_finish
      · simp only [h1, h3, h2, ↓reduceIte]
        msg_hdr_finish

end AsamCmp.SrcEnc
