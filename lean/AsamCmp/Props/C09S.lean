/-
  C09S  Closures of the review of the statements registered for C09 (frame headers: the encoder's
  identity and consecutive sequence counters).  Only ADDITIONAL theorems about the existing definitions.

  Reviewer's findings (/tmp/audit/out_C09.md) and what this file adds:
   1  clause C (version) only for version-homogeneous batches
        -> `encode_runs` (EVERY batch: the frame carrying a message of packet i has the version of the
           FIRST packet of the maximal run of equal message types packet i lies in), `runStart_spec`,
           corollaries `version_exists`, `version_of_run`, `version_uniform`;
           `version_follows_run_not_packet`: the frame version need NOT be the version of the packet
           whose message it carries (concrete witness) — the text "the batch's version" is only well
           defined for homogeneous batches, this is what the code does otherwise.
   3  bytes: message-type byte missing, single call only
        -> `call_bytes` (bytes 0..7 of every frame of one call, byte 4 and byte 0 included, no range
           hypothesis hidden), `headers_bytes` (every history), `fresh_headers_bytes`.
   4  domain of the totalised model -> `src_history` states the domain explicitly (`SrcHist.Op.Ok`);
        `encode_tiny_max`: for max ≤ 24 the model emits NO frame (so the model-level statements are
        vacuous there; the C++ has undefined behaviour there).
   5  non-vacuity -> section 7 (frames ARE produced: `encode_nonempty`; literal histories crossing a
        reset, wrapping, dropping the trailing empty frame).
   6 / 2a  histories at source level, single-packet overload
        -> `src_history_from` / `src_history`: C09 on the bytes and getters of the TRANSLATED methods
           over any list of operations (composition of `SrcHist.encode_history_from` with section 3).
   7  `EMsg.pkt` is a ghost label -> `encode_runs` has `batch[m.idx]? = some m.pkt`.
   2b `Packet::getRawCmpHeader` -> `rawCmpHeader_version_type` (bytes 0 and 4 of what the translated
        function returns are the packet's version and message type).
-/
import AsamCmp.Props.C09b
import AsamCmp.Props.SrcHistory
import AsamCmp.Props.SrcPacketValue
import AsamCmp.Lemmas.C09SRun
namespace AsamCmp.C09S
open AsamCmp AsamCmp.C09b

/-! ## 1. Clause C (version) and clause D (message type) for EVERY batch; the ghost label tied down -/

/-- `runStart batch i` is the start of the MAXIMAL run of consecutive packets of one message type
    ending at index `i`: it is ≤ i, all packets from it to `i` have the message type of packet `i`,
    and it is index 0 or the packet before it has another message type -/
theorem runStart_spec (batch : List Packet) (i : Nat) :
    runStart batch i ≤ i ∧
    (∀ j, runStart batch i ≤ j → j ≤ i → batch[j]?.map Packet.mt = batch[i]?.map Packet.mt) ∧
    (runStart batch i = 0 ∨
      batch[runStart batch i - 1]?.map Packet.mt ≠ batch[runStart batch i]?.map Packet.mt) :=
  ⟨runStart_le batch i, fun j h1 h2 => runStart_same batch i j h1 h2, runStart_max batch i⟩

/-- **clauses C and D for every batch** (property: "every emitted frame carries … the batch's protocol
    version and the message type of its messages"; no hypothesis at all: ANY encoder state, ANY batch —
    versions and types mixed at will —, ANY configuration).  Every emitted frame holds at least one
    message, and for every message `m` of a frame `f`:
      * `m` is labelled with the packet at its index in the batch (the label `pkt` is not free),
      * `f` announces that packet's message type,
      * `f` carries the version (mod 256: the field is one byte) of the packet `q` at
        `runStart batch m.idx`, the FIRST packet of the run of equal message types `m`'s packet lies in
        (and `q` has the frame's message type too). -/
theorem encode_runs (e : Enc) (batch : List Packet) (c : Ctx) :
    ∀ f ∈ (e.encode batch c).2, f.msgs ≠ [] ∧ ∀ m ∈ f.msgs,
      batch[m.idx]? = some m.pkt ∧ m.pkt.mt = f.mt ∧
      ∃ q, batch[runStart batch m.idx]? = some q ∧ q.mt = f.mt ∧ f.ver = q.version % 256 := by
  intro f hf
  obtain ⟨hne, hok⟩ := encode_closedOk e batch c f hf
  refine ⟨hne, ?_⟩
  intro m hm
  obtain ⟨h1, h2, q, h3, h4⟩ := hok m hm
  refine ⟨h1, h2, q, h3, ?_, h4⟩
  have := runStart_same batch m.idx (runStart batch m.idx) (Nat.le_refl _) (runStart_le batch m.idx)
  rw [h3, h1, Option.map_some, Option.map_some, Option.some.injEq] at this
  rw [this, h2]

/-- every emitted frame holds a message (so the clauses "of its messages" are never vacuous) -/
theorem encode_nonempty (e : Enc) (batch : List Packet) (c : Ctx) :
    ∀ f ∈ (e.encode batch c).2, ∃ m, m ∈ f.msgs := by
  intro f hf
  have := (encode_runs e batch c f hf).1
  cases hm : f.msgs with
  | nil => exact absurd hm this
  | cons m ms => exact ⟨m, List.mem_cons_self ..⟩

/-- the reviewer's minimum (a): byte 0 of every frame is the version of SOME packet of the batch — one
    that has the frame's message type -/
theorem version_exists (e : Enc) (batch : List Packet) (c : Ctx) :
    ∀ f ∈ (e.encode batch c).2, ∃ p ∈ batch, f.ver = p.version % 256 ∧ p.mt = f.mt := by
  intro f hf
  obtain ⟨m, hm⟩ := encode_nonempty e batch c f hf
  obtain ⟨_, _, q, h3, h4, h5⟩ := (encode_runs e batch c f hf).2 m hm
  exact ⟨q, List.mem_of_getElem? h3, h5, h4⟩

/-- the reviewer's minimum (b): if the packets of `m`'s run up to `m`'s packet all have version `v`, the
    frame carrying `m` has version `v mod 256` -/
theorem version_of_run (e : Enc) (batch : List Packet) (c : Ctx) :
    ∀ f ∈ (e.encode batch c).2, ∀ m ∈ f.msgs, ∀ v,
      (∀ j p, runStart batch m.idx ≤ j → j ≤ m.idx → batch[j]? = some p → p.version = v) →
      f.ver = v % 256 := by
  intro f hf m hm v hv
  obtain ⟨_, _, q, h3, _, h5⟩ := (encode_runs e batch c f hf).2 m hm
  rw [h5, hv _ q (Nat.le_refl _) (runStart_le batch m.idx) h3]

/-- the registered clause of `C09_encode` (one version for the whole batch) is a special case — now
    without the hypothesis that the encoder is idle -/
theorem version_uniform (e : Enc) (batch : List Packet) (c : Ctx) (v : Nat)
    (hv : ∀ p ∈ batch, p.version = v) : ∀ f ∈ (e.encode batch c).2, f.ver = v % 256 := by
  intro f hf
  obtain ⟨p, hp, h1, _⟩ := version_exists e batch c f hf
  rw [h1, hv p hp]

/-- the header fields of every frame of a call from an idle encoder are within their widths (the
    hypotheses `hv hm hq` of `C09b.header_fields`, which no registered theorem discharged) -/
theorem frame_fields_range (e : Enc) (batch : List Packet) (c : Ctx) (hidle : e.Idle) :
    ∀ f ∈ (e.encode batch c).2, f.ver < 256 ∧ f.mt < 256 ∧ f.seq < 65536 ∧ f.dev = e.dev ∧ f.stream = e.stream := by
  intro f hf
  obtain ⟨p, _, h1, h2⟩ := version_exists e batch c f hf
  obtain ⟨_, _, _, _, hfr, _, _⟩ := C09_encode e batch c hidle
  obtain ⟨i, hi, rfl⟩ := List.getElem_of_mem hf
  obtain ⟨hq, hd, hs⟩ := hfr i hi
  refine ⟨by rw [h1]; exact Nat.mod_lt _ (by decide), by rw [← h2]; exact Packet.mt_lt p, ?_, hd, hs⟩
  rw [hq]; exact Nat.mod_lt _ (by decide)

/-! ### what the code does on a version-mixed batch: a witness -/

/-- a packet of message type `mt` (payload type 1), protocol version `v`, payload `d` -/
def pv (mt v : Nat) (d : Bytes) : Packet := { payload := some ⟨mt * 256 + 1, d⟩, version := v }

/-- two packets of message type 1 (versions 1, 2), then two of message type 3 (versions 3, 4) -/
def mixed : List Packet := [pv 1 1 [1], pv 1 2 [2], pv 3 3 [3], pv 3 4 [4]]

/-- the two frames: (version, message type, [(index, version of the packet) of every message]) -/
theorem mixed_frames :
    ((Enc.fresh 5 7).encode mixed ⟨0, 100⟩).2.map
        (fun f => (f.ver, f.mt, f.msgs.map fun m => (m.idx, m.pkt.version))) =
      [(1, 1, [(0, 1), (1, 2)]), (3, 3, [(2, 3), (3, 4)])] := by decide +kernel

example : (List.range 4).map (runStart mixed) = [0, 0, 2, 2] := by decide

/-- **the frame version follows the run, not the packet**: there is a batch (with a payload in every
    packet and a valid configuration) for which a message of a version-2 packet travels in a frame
    announcing version 1.  The property's "the batch's protocol version" is defined only for
    version-homogeneous batches; for the others this is the behaviour of `addNewCMPFrame` /
    `cmpFrameTemplate` (template built from the first packet of a run, reused until the type changes). -/
theorem version_follows_run_not_packet :
    ∃ (e : Enc) (batch : List Packet) (c : Ctx), e.Idle ∧ c.ok = true ∧ (∀ p ∈ batch, p.payload.isSome) ∧
      ∃ f ∈ (e.encode batch c).2, ∃ m ∈ f.msgs, f.ver ≠ m.pkt.version % 256 := by
  refine ⟨Enc.fresh 5 7, mixed, ⟨0, 100⟩, ⟨rfl, rfl, rfl, by decide⟩, by decide, by decide, ?_⟩
  have h : (((Enc.fresh 5 7).encode mixed ⟨0, 100⟩).2.any fun f =>
      f.msgs.any fun m => f.ver != m.pkt.version % 256) = true := by decide +kernel
  rw [List.any_eq_true] at h
  obtain ⟨f, hf, h⟩ := h
  rw [List.any_eq_true] at h
  obtain ⟨m, hm, h⟩ := h
  exact ⟨f, hf, m, hm, by simpa using h⟩

/-! ## 2. The history statement with the full clauses C and D -/

/-- what C09 demands of the frames of one call, given the ghost view `g` = (device id, stream id,
    counter of the last frame) before it — `C09_call_ok` with the version clause for every batch, the
    label `pkt` tied to the batch, and no frame empty -/
def call_ok (g : Nat × Nat × Nat) (op : EncOp) (fs : List EFrame) : Prop :=
  match op with
  | .encode batch _ =>
    ∀ i (h : i < fs.length),
      fs[i].seq = (g.2.2 + i + 1) % 65536 ∧ fs[i].dev = g.1 ∧ fs[i].stream = g.2.1 ∧
      fs[i].msgs ≠ [] ∧ ∀ m ∈ fs[i].msgs,
        batch[m.idx]? = some m.pkt ∧ m.pkt.mt = fs[i].mt ∧
        ∃ q, batch[runStart batch m.idx]? = some q ∧ q.mt = fs[i].mt ∧ fs[i].ver = q.version % 256
  | _ => fs = []

/-- all calls of a history satisfy `call_ok`, threading the ghost view of `C09.ghost` -/
def hist_ok : (Nat × Nat × Nat) → List EncOp → List (List EFrame) → Prop
  | _, [], [] => True
  | g, op :: ops, fs :: fss => call_ok g op fs ∧ hist_ok (ghost g op fs) ops fss
  | _, _, _ => False

/-- one API call from an idle encoder -/
theorem call_strong (e : Enc) (hidle : e.Idle) (op : EncOp) :
    call_ok (e.dev, e.stream, e.seqc) op (e.apply op).2 ∧ (e.apply op).1.Idle ∧
    ((e.apply op).1.dev, (e.apply op).1.stream, (e.apply op).1.seqc) =
      ghost (e.dev, e.stream, e.seqc) op (e.apply op).2 := by
  have hcfg := C09_config e hidle
  cases op with
  | setDev d =>
    obtain ⟨h1, h2, h3, h4, -⟩ := hcfg d
    refine ⟨rfl, h1, ?_⟩
    simp only [Enc.apply, ghost, h2, h3, h4]
  | setStream d =>
    obtain ⟨-, -, -, -, h1, h2, h3, h4, -⟩ := hcfg d
    refine ⟨rfl, h1, ?_⟩
    simp only [Enc.apply, ghost, h2, h3, h4]
  | restart =>
    obtain ⟨-, -, -, -, -, -, -, -, h1, h2, h3, h4⟩ := hcfg 0
    refine ⟨rfl, h1, ?_⟩
    simp only [Enc.apply, ghost, h2, h3, h4]
  | encode b c =>
    obtain ⟨h1, h2, h3, h4, h5, -, -⟩ := C09_encode e b c hidle
    refine ⟨?_, h1, ?_⟩
    · intro i hi
      obtain ⟨a1, a2, a3⟩ := h5 i hi
      obtain ⟨b1, b2⟩ := encode_runs e b c _ (List.getElem_mem hi)
      exact ⟨a1, a2, a3, b1, b2⟩
    · simp only [Enc.apply, ghost, h2, h3, h4]

/-- **C09 for every history, clauses C and D at full strength** (property: "over any history of
    configuration changes and encode calls on one encoder"; the only hypothesis is that the start state
    is a state between API calls): every frame of every call has the configured ids, the consecutive
    counter (restarting at 1 after a reset), at least one message, the message type of each of its
    messages and the version of the first packet of that message's run; the final state is idle and
    reports the ghost's ids and counter -/
theorem headers_strong (e : Enc) (hidle : e.Idle) (ops : List EncOp) :
    let r := e.runOps ops
    hist_ok (e.dev, e.stream, e.seqc) ops r.2 ∧ r.1.Idle ∧
    (r.1.dev, r.1.stream, r.1.seqc) =
      (List.zip ops r.2).foldl (fun g x => ghost g x.1 x.2) (e.dev, e.stream, e.seqc) := by
  induction ops generalizing e with
  | nil => exact ⟨trivial, hidle, rfl⟩
  | cons op ops ih =>
    obtain ⟨h1, h2, h3⟩ := call_strong e hidle op
    have h := ih (e.apply op).1 h2
    rw [h3] at h
    simp only [Enc.runOps, List.zip_cons_cons, List.foldl_cons, hist_ok]
    exact ⟨⟨h1, h.1⟩, h.2.1, h.2.2⟩

/-- `call_ok` is at least as strong as the registered `C09_call_ok` -/
theorem call_ok_weaken {g : Nat × Nat × Nat} {op : EncOp} {fs : List EFrame} (h : call_ok g op fs) :
    C09_call_ok g op fs := by
  cases op with
  | setDev d => exact h
  | setStream d => exact h
  | restart => exact h
  | encode batch c =>
    refine ⟨fun i hi => ⟨(h i hi).1, (h i hi).2.1, (h i hi).2.2.1⟩, ?_, ?_⟩
    · intro f hf m hm
      obtain ⟨i, hi, rfl⟩ := List.getElem_of_mem hf
      exact ((h i hi).2.2.2.2 m hm).2.1
    · intro v hv f hf
      obtain ⟨i, hi, rfl⟩ := List.getElem_of_mem hf
      obtain ⟨_, _, _, hne, hms⟩ := h i hi
      cases hm : fs[i].msgs with
      | nil => exact absurd hm hne
      | cons m ms =>
        obtain ⟨_, _, q, hq, _, hver⟩ := hms m (by rw [hm]; exact List.mem_cons_self ..)
        rw [hver, hv q (List.mem_of_getElem? hq)]

theorem hist_ok_weaken : ∀ (ops : List EncOp) (g : Nat × Nat × Nat) (fss : List (List EFrame)),
    hist_ok g ops fss → C09_hist_ok g ops fss := by
  intro ops
  induction ops with
  | nil =>
    intro g fss h
    cases fss with
    | nil => trivial
    | cons _ _ => exact h
  | cons op ops ih =>
    intro g fss h
    cases fss with
    | nil => exact h
    | cons fs fss => exact ⟨call_ok_weaken h.1, ih _ _ h.2⟩

/-! ## 3. The observation point: bytes 0..7 of the returned byte vectors -/

/-- what C09 says of the serialisation `b` of frame number `i` of a call on `batch`, ghost view `g`
    before the call: at least the 8 header bytes; reserved byte 1 is 0; bytes 2..3 the device id;
    byte 5 the stream id; bytes 6..7 the counter; and for every message of the frame: byte 4 is the
    message type of its packet and byte 0 the version of the first packet of its run -/
def FrameBytesOk (g : Nat × Nat × Nat) (i : Nat) (batch : List Packet) (b : Bytes) (f : EFrame) : Prop :=
  8 ≤ b.length ∧ byteAt b 1 = 0 ∧ beAt b 2 2 = g.1 ∧ byteAt b 5 = g.2.1 ∧
  beAt b 6 2 = (g.2.2 + i + 1) % 65536 ∧
  f.msgs ≠ [] ∧ ∀ m ∈ f.msgs,
    batch[m.idx]? = some m.pkt ∧ byteAt b 4 = m.pkt.mt ∧
    ∃ q, batch[runStart batch m.idx]? = some q ∧ q.mt = m.pkt.mt ∧ byteAt b 0 = q.version % 256

def call_ok_bytes (g : Nat × Nat × Nat) (op : EncOp) (fs : List EFrame) : Prop :=
  match op with
  | .encode batch c => ∀ i (h : i < fs.length), FrameBytesOk g i batch (EFrame.bytes c.min fs[i]) fs[i]
  | _ => fs = []

def hist_ok_bytes : (Nat × Nat × Nat) → List EncOp → List (List EFrame) → Prop
  | _, [], [] => True
  | g, op :: ops, fs :: fss => call_ok_bytes g op fs ∧ hist_ok_bytes (ghost g op fs) ops fss
  | _, _, _ => False

/-- the configured ids are within their C types (`uint16_t deviceId`, `uint8_t streamId`) -/
def GR (g : Nat × Nat × Nat) : Prop := g.1 < 65536 ∧ g.2.1 < 256

theorem ghost_range {g : Nat × Nat × Nat} (hg : GR g) (op : EncOp) (fs : List EFrame) : GR (ghost g op fs) := by
  obtain ⟨d, s, q⟩ := g
  obtain ⟨h1, h2⟩ := hg
  cases op with
  | setDev d' => exact ⟨Nat.mod_lt _ (by decide), h2⟩
  | setStream s' => exact ⟨h1, Nat.mod_lt _ (by decide)⟩
  | restart => exact ⟨h1, h2⟩
  | encode b c => exact ⟨h1, h2⟩

theorem call_ok.bytes {g : Nat × Nat × Nat} {op : EncOp} {fs : List EFrame} (h : call_ok g op fs) (hg : GR g) :
    call_ok_bytes g op fs := by
  cases op with
  | setDev d => exact h
  | setStream d => exact h
  | restart => exact h
  | encode batch c =>
    intro i hi
    obtain ⟨hq, hd, hs, hne, hm⟩ := h i hi
    refine ⟨bytes_length_ge .., byte1 .., ?_, ?_, ?_, hne, ?_⟩
    · rw [word2, hd]; exact Nat.mod_eq_of_lt hg.1
    · rw [byte5, hs]; exact Nat.mod_eq_of_lt hg.2
    · rw [word6, hq, Nat.mod_mod]
    · intro m hmm
      obtain ⟨a, b, q, q1, q2, q3⟩ := hm m hmm
      refine ⟨a, ?_, q, q1, q2.trans b.symm, ?_⟩
      · rw [byte4, ← b]; exact Nat.mod_eq_of_lt (Packet.mt_lt _)
      · rw [byte0, q3, Nat.mod_mod]

theorem hist_ok.bytes : ∀ (ops : List EncOp) (g : Nat × Nat × Nat) (fss : List (List EFrame)),
    hist_ok g ops fss → GR g → hist_ok_bytes g ops fss := by
  intro ops
  induction ops with
  | nil =>
    intro g fss h _
    cases fss with
    | nil => trivial
    | cons _ _ => exact h
  | cons op ops ih =>
    intro g fss h hg
    cases fss with
    | nil => exact h
    | cons fs fss => exact ⟨h.1.bytes hg, ih _ _ h.2 (ghost_range hg op fs)⟩

/-- **C09 on bytes, one call** (`C09b.C09_bytes` completed): frame `i` of the byte vectors returned by
    one call from an idle encoder whose ids are within their C types carries the device id at bytes
    2..3, the stream id at byte 5, 0 at byte 1, the counter `(seqc + i + 1) mod 2^16` at bytes 6..7,
    and — for every message in it — that message's packet's message type at BYTE 4 and the version of
    the first packet of its run at BYTE 0; afterwards the encoder reports the counter of the last frame -/
theorem call_bytes (e : Enc) (batch : List Packet) (c : Ctx) (hidle : e.Idle)
    (hdev : e.dev < 65536) (hstream : e.stream < 256) :
    let r := e.encode batch c
    r.1.seqc = (e.seqc + r.2.length) % 65536 ∧
    ∀ i (h : i < r.2.length),
      FrameBytesOk (e.dev, e.stream, e.seqc) i batch
        ((r.2.map (EFrame.bytes c.min))[i]'(by simpa using h)) r.2[i] := by
  intro r
  obtain ⟨h1, _, _⟩ := call_strong e hidle (.encode batch c)
  have h2 := h1.bytes ⟨hdev, hstream⟩
  refine ⟨(C09_encode e batch c hidle).2.2.2.1, ?_⟩
  intro i hi
  rw [List.getElem_map]
  exact h2 i hi

/-- **bytes 0..7 exactly**: the first 8 bytes of frame `i` of a call from an idle encoder are, for every
    message `m` the frame holds, literally the header `frameHeader (version of the first packet of m's
    run) (device id) (m's packet's message type) (stream id) (seqc + i + 1 mod 2^16)` — no range
    hypothesis: `frameHeader` truncates every field to its width as the C++ stores do -/
theorem call_header_exact (e : Enc) (batch : List Packet) (c : Ctx) (hidle : e.Idle) :
    ∀ i (h : i < (e.encode batch c).2.length), ∀ m ∈ (e.encode batch c).2[i].msgs,
      ∃ q, batch[runStart batch m.idx]? = some q ∧
        (EFrame.bytes c.min (e.encode batch c).2[i]).take 8 =
          frameHeader (q.version % 256) e.dev m.pkt.mt e.stream ((e.seqc + i + 1) % 65536) := by
  intro i hi m hm
  obtain ⟨h1, _, _⟩ := call_strong e hidle (.encode batch c)
  obtain ⟨a1, a2, a3, _, a5⟩ := h1 i hi
  obtain ⟨_, b2, q, b3, _, b5⟩ := a5 m hm
  refine ⟨q, b3, ?_⟩
  rw [C09_header_bytes]
  show frameHeader ((e.encode batch c).2[i]).ver ((e.encode batch c).2[i]).dev ((e.encode batch c).2[i]).mt
    ((e.encode batch c).2[i]).stream ((e.encode batch c).2[i]).seq = _
  have a1' : ((e.encode batch c).2[i]).seq = (e.seqc + i + 1) % 65536 := a1
  have a2' : ((e.encode batch c).2[i]).dev = e.dev := a2
  have a3' : ((e.encode batch c).2[i]).stream = e.stream := a3
  have b2' : m.pkt.mt = ((e.encode batch c).2[i]).mt := b2
  have b5' : ((e.encode batch c).2[i]).ver = q.version % 256 := b5
  rw [a1', a2', a3', ← b2', b5']

/-- **C09 on bytes, every history** (property: "over any history …", observation point "bytes 0-7 of
    every frame returned"; hypotheses: the start state is between API calls and its ids are a
    `uint16_t` / `uint8_t`, as the setters' parameter types guarantee for every configured id) -/
theorem headers_bytes (e : Enc) (hidle : e.Idle) (hdev : e.dev < 65536) (hstream : e.stream < 256)
    (ops : List EncOp) :
    hist_ok_bytes (e.dev, e.stream, e.seqc) ops (e.runOps ops).2 :=
  hist_ok.bytes ops _ _ (headers_strong e hidle ops).1 ⟨hdev, hstream⟩

/-- the reviewer's form: from the freshly constructed encoder configured with ids in range -/
theorem fresh_headers_bytes (d s : Nat) (hd : d < 65536) (hs : s < 256) (ops : List EncOp) :
    hist_ok_bytes (d, s, 0) ops ((Enc.fresh d s).runOps ops).2 :=
  headers_bytes (Enc.fresh d s) ⟨rfl, rfl, rfl, Nat.zero_lt_succ _⟩ hd hs ops

/-! ## 4. The same on the TRANSLATED C++ methods, over any history (findings 2a, 4, 6) -/

open AsamCmp.Src AsamCmp.SrcGen AsamCmp.SrcEnc AsamCmp.SrcHist

/-- what a caller observes over a history of calls of the translated methods, against the ghost view:
    for every operation there are structured frames `fs` (the ghost: which message lies where) whose
    serialisations ARE the returned byte vectors, the bytes satisfy `call_ok_bytes`, and the translated
    `getDeviceId()`, `getStreamId()`, `getSequenceCounter()` called after the operation return the ghost
    view after it — in particular the counter of the last frame emitted since the last reset (0 if none) -/
def ObsHistOk : (Nat × Nat × Nat) → List Op → List Obs → Prop
  | _, [], [] => True
  | g, op :: ops, o :: os =>
    ∃ fs : List EFrame, o.frames = fs.map (EFrame.bytes op.min) ∧ call_ok_bytes g op.toModel fs ∧
      (o.dev, o.stream, o.seq) = ghost g op.toModel fs ∧ ObsHistOk (ghost g op.toModel fs) ops os
  | _, _, _ => False

theorem model_obs : ∀ (ops : List Op) (e : Enc), e.Idle → GR (e.dev, e.stream, e.seqc) →
    ObsHistOk (e.dev, e.stream, e.seqc) ops (modelRun e ops).2 := by
  intro ops
  induction ops with
  | nil => intro e _ _; trivial
  | cons op ops ih =>
    intro e hidle hg
    obtain ⟨h1, h2, h3⟩ := call_strong e hidle op.toModel
    have hg' := ghost_range hg op.toModel (e.apply op.toModel).2
    have h := ih (e.apply op.toModel).1 h2 (by rw [h3]; exact hg')
    rw [h3] at h
    simp only [modelRun, ObsHistOk]
    exact ⟨_, rfl, h1.bytes hg, h3, h⟩

/-- the model encoder an object of the translated class stands for between public calls: only the four
    members a call reads before writing them -/
def encOf (s : Encoder_St) : Enc :=
  { dev := s.f_deviceId, stream := s.f_streamId, seqc := s.f_sequenceCounter, curMt := s.f_messageType }

/-- **C09 end to end, from ANY object state.**  Hypotheses, all named by the property or its anchors:
    the three members are within their C types (`uint16_t deviceId`, `uint8_t streamId`,
    `uint16_t sequenceCounter`; the scratch members — template, frames, bytesLeft, min, max — may hold
    anything); `Op.Ok` for every operation: setter arguments within their parameter types, for the encode
    calls 25 ≤ max, min ≤ max, max < 2^32 and every packet owns a payload shorter than 2^16 bytes (outside
    of which the C++ has undefined behaviour: finding 4); enough fuel for the translated loop.
    Then the run of the TRANSLATED `setDeviceId` / `setStreamId` / `restart` / iterator-range `encode` /
    single-packet `encode`, the three getters called after every operation, is DEFINED and satisfies C09
    on the returned bytes (`ObsHistOk`). -/
theorem src_history_from (ops : List Op) (fuel : Nat) (hf : 65536 ≤ fuel) (s : Encoder_St)
    (hd : s.f_deviceId < 65536) (hs : s.f_streamId < 256) (hq : s.f_sequenceCounter < 65536)
    (hok : ∀ op ∈ ops, op.Ok) :
    ∃ s' obs, srcEncRun fuel s ops = some (s', obs) ∧
      ObsHistOk (s.f_deviceId, s.f_streamId, s.f_sequenceCounter) ops obs := by
  have hidle : (encOf s).Idle := ⟨rfl, rfl, rfl, hq⟩
  have hcorr : Corr s (encOf s) := ⟨rfl, rfl, rfl, rfl, hidle⟩
  obtain ⟨s', h1, _⟩ := encode_history_from fuel hf ops s (encOf s) hcorr hok
  exact ⟨s', _, h1, model_obs ops (encOf s) hidle ⟨hd, hs⟩⟩

/-- … in particular from the default-constructed encoder (device 0, stream 0, counter 0) -/
theorem src_history (ops : List Op) (fuel : Nat) (hf : 65536 ≤ fuel) (hok : ∀ op ∈ ops, op.Ok) :
    ∃ s' obs, srcEncRun fuel Encoder_default ops = some (s', obs) ∧ ObsHistOk (0, 0, 0) ops obs :=
  src_history_from ops fuel hf Encoder_default (by decide) (by decide) (by decide) hok

/-! ## 5. `Packet::getRawCmpHeader` (finding 2b) -/

/-- the TRANSLATED `Packet::getRawCmpHeader`, on a packet within its C types that owns a payload,
    returns 8 bytes whose byte 0 is the packet's version and byte 4 the payload's message type — the two
    values the encoder's template (hence every frame header, clauses C and D) takes from the packet.
    (Deleting `header.setVersion(getVersion())` or `header.setMessageType(getMessageType())` falsifies it.) -/
theorem rawCmpHeader_version_type (p : Packet) (pl : Payload) (hfit : p.Fits) (hp : p.payload = some pl) :
    ∃ hdr, Packet_getRawCmpHeader_pv (SrcPv.repr p) = some (SrcPv.repr p, hdr) ∧
      hdr = (pktIn p).rawCmpHeader ∧ hdr.length = 8 ∧ byteAt hdr 0 = p.version ∧ byteAt hdr 4 = pl.mt := by
  obtain ⟨_, _, _, g4, _⟩ := SrcPv.pktIn_src p pl hfit hp
  refine ⟨_, g4, rfl, ?_, ?_, ?_⟩
  · simp [pktIn, frameHeader]
  · have := (C01.parse_fields (p.version % 256) p.deviceId p.mt p.streamId p.seq []).1
    rw [List.append_nil] at this
    simp only [pktIn]
    rw [this, Nat.mod_mod]
    exact Nat.mod_eq_of_lt hfit.1
  · have := (C01.parse_fields (p.version % 256) p.deviceId p.mt p.streamId p.seq []).2.2.1
    rw [List.append_nil] at this
    simp only [pktIn]
    rw [this, Nat.mod_eq_of_lt (Packet.mt_lt p)]
    simp [Packet.mt, hp]

/-! ## 6. The totalised model below the valid configurations (finding 4) -/

theorem chunks_zero (l : Bytes) : chunks 0 l = [] := by
  rw [chunks]; simp

/-- no frame with a message anywhere -/
def NoMsg (s : Enc) : Prop := s.closed = [] ∧ ∀ f, s.cur = some f → f.msgs = []

theorem closeLast_noMsg {s : Enc} (h : NoMsg s) : NoMsg s.closeLast := by
  refine ⟨?_, fun f hf => by rw [Enc.closeLast_cur] at hf; cases hf⟩
  cases hc : s.cur with
  | none => rw [Enc.closeLast_none hc]; exact h.1
  | some f =>
    have : f.msgs.isEmpty = true := by rw [h.2 f hc]; rfl
    rw [Enc.closeLast_empty hc this]; exact h.1

theorem addNew_noMsg {s : Enc} (h : NoMsg s) (p : Packet) : NoMsg (s.addNew p) := by
  have h' := closeLast_noMsg h
  refine ⟨h'.1, ?_⟩
  intro f hf
  simp only [Enc.addNew, Option.some.injEq] at hf
  rw [← hf]

theorem putPacket_noMsg (c : Ctx) (hc : c.max ≤ 24) {s : Enc} (h : NoMsg s) (ip : Nat × Packet) :
    NoMsg (putPacket c s ip) := by
  obtain ⟨i, p⟩ := ip
  have hcap : c.cap - 16 = 0 := by unfold Ctx.cap; omega
  have hcap' : c.cap ≤ 16 := by unfold Ctx.cap; omega
  have h1 : NoMsg (if s.cur.isNone || s.curMt != p.mt then
              ({ s with curMt := p.mt, tmpl := none } : Enc).addNew p else s) := by
    split
    · exact addNew_noMsg (s := { s with curMt := p.mt, tmpl := none }) h p
    · exact h
  unfold putPacket
  simp only
  generalize (if s.cur.isNone || s.curMt != p.mt then
              ({ s with curMt := p.mt, tmpl := none } : Enc).addNew p else s) = s1 at h1 ⊢
  have h2 : NoMsg (if s1.left c < 16 + p.payloadLength then s1.addNew p else s1) := by
    split
    · exact addNew_noMsg h1 p
    · exact h1
  generalize (if s1.left c < 16 + p.payloadLength then s1.addNew p else s1) = s2 at h2 ⊢
  split
  · exact h2
  · next hlen =>
    have hl := Enc.left_le c s2
    have hseg : decide (s2.left c < 16 + p.payloadLength) = true := decide_eq_true (by omega)
    rw [hseg, hcap, chunks_zero]
    exact h2

/-- **below the valid configurations the model is silent**: for `max ≤ 24` (no room for a frame header,
    a message header and one payload byte) `Enc.encode` returns NO frame and keeps the counter, whatever
    the batch.  So every model-level C09 statement is vacuously true there — for a reason unrelated to
    the C++, which computes `bytesLeft - sizeof(MessageHeader)` on unsigned values (undefined
    behaviour / endless loop).  The honest domain is `Ctx.ok`, which `src_history` states. -/
theorem encode_tiny_max (e : Enc) (batch : List Packet) (c : Ctx) (hc : c.max ≤ 24) (hidle : e.Idle) :
    (e.encode batch c).2 = [] ∧ (e.encode batch c).1.seqc = e.seqc := by
  have hfold : ∀ (l : List (Nat × Packet)) (s : Enc), NoMsg s → NoMsg (l.foldl (putPacket c) s) := by
    intro l
    induction l with
    | nil => intro s h; exact h
    | cons ip l ih => intro s h; exact ih _ (putPacket_noMsg c hc h ip)
  have h := closeLast_noMsg (hfold ((List.range batch.length).zip batch)
    { e with closed := [], cur := none, tmpl := none } ⟨rfl, fun f hf => by cases hf⟩)
  have hl : (e.encode batch c).2 = [] := h.1
  refine ⟨hl, ?_⟩
  have := (C09_encode e batch c hidle).2.2.2.1
  rw [this, hl, List.length_nil, Nat.add_zero]
  exact Nat.mod_eq_of_lt hidle.2.2.2

/-! ## 7. Non-vacuity (finding 5): frames ARE produced, literal histories

Every frame clause of the theorems above is `∀ i < length …`; `encode_nonempty` and the following
evaluations (by the kernel, on the model's functions themselves) show the frames exist, that a history
crosses resets, wraps at 65536 and gives back the counter of the dropped trailing empty frame. -/
namespace Ex

/-- a packet of message type 1, version 1, two payload bytes: a message of 18 bytes -/
def p2 : Packet := pv 1 1 [0xAA, 0xBB]
/-- 40 payload bytes: does not fit 32 bytes, segmented into 16 + 16 + 8 -/
def p40 : Packet := pv 1 1 ((List.range 40).map UInt8.ofNat)
/-- max 40: 32 bytes behind the frame header, room for ONE message of 18 bytes -/
def c40 : Ctx := ⟨0, 40⟩

theorem idle57 : (Enc.fresh 5 7).Idle := ⟨rfl, rfl, rfl, by decide⟩

/-- the reviewer's history: one frame, two frames, `setDeviceId(9)`, one frame -/
def ops1 : List EncOp := [.encode [p2] c40, .encode [p2, p2] c40, .setDev 9, .encode [p2] c40]

/-- (device, stream, counter) of every frame of every call: continuity across calls, restart at 1 and
    the new device id after the setter -/
example : ((Enc.fresh 5 7).runOps ops1).2.map (·.map fun f => (f.dev, f.stream, f.seq)) =
    [[(5, 7, 1)], [(5, 7, 2), (5, 7, 3)], [], [(9, 7, 1)]] := by decide +kernel

/-- … the same on bytes 0..7 of the returned byte vectors -/
example : ((Enc.fresh 5 7).runOps ops1).2.map (·.map fun f => (EFrame.bytes 0 f).take 8) =
    [[[1, 0, 0, 5, 1, 7, 0, 1]], [[1, 0, 0, 5, 1, 7, 0, 2], [1, 0, 0, 5, 1, 7, 0, 3]], [],
     [[1, 0, 0, 9, 1, 7, 0, 1]]] := by decide +kernel

/-- … and what the encoder reports at the end: the counter of the last frame -/
example : (((Enc.fresh 5 7).runOps ops1).1.dev, ((Enc.fresh 5 7).runOps ops1).1.stream,
    ((Enc.fresh 5 7).runOps ops1).1.seqc) = (9, 7, 1) := by decide +kernel

/-- the hypotheses of the history theorems hold of it -/
example := headers_strong (Enc.fresh 5 7) idle57 ops1
example := headers_bytes (Enc.fresh 5 7) idle57 (by decide) (by decide) ops1
example := fresh_headers_bytes 5 7 (by decide) (by decide) ops1

/-- `restart` and `setStreamId` (argument reduced to 8 bits: 300 → 44): counter 1 again each time -/
example : ((Enc.fresh 5 7).runOps
      [.encode [p2] c40, .restart, .encode [p2] c40, .setStream 300, .encode [p2] c40]).2.map
        (·.map fun f => (f.dev, f.stream, f.seq)) =
    [[(5, 7, 1)], [], [(5, 7, 1)], [], [(5, 44, 1)]] := by decide +kernel

/-- wrap: from counter 65535 the next two frames carry 0 and 1, and 1 is reported -/
example : ((({ dev := 5, stream := 7, seqc := 65535 } : Enc).encode [p2, p2] c40).2.map (·.seq),
    (({ dev := 5, stream := 7, seqc := 65535 } : Enc).encode [p2, p2] c40).1.seqc) = ([0, 1], 1) := by
  decide +kernel
example : ({ dev := 5, stream := 7, seqc := 65535 } : Enc).Idle := ⟨rfl, rfl, rfl, by decide⟩

/-- give-back: the batch ends in a segmented packet; the frame opened behind the last segment is
    dropped and its counter given back — three frames 1, 2, 3 (segment flags 4, 8, 12), 3 is reported,
    and the frame of the NEXT call carries 4 -/
example : ((Enc.fresh 5 7).runOps [.encode [p40] c40, .encode [p2] c40]).2.map
      (·.map fun f => (f.seq, f.msgs.map fun m => (m.idx, m.seg, m.body.length))) =
    [[(1, [(0, 4, 16)]), (2, [(0, 8, 16)]), (3, [(0, 12, 8)])], [(4, [(0, 0, 2)])]] := by decide +kernel
example : ((Enc.fresh 5 7).encode [p40] c40).1.seqc = 3 := by decide +kernel

/-- `encode_runs` on the version-mixed batch: the hypotheses are none; the conclusion computes to the
    run starts `[0, 0, 2, 2]` and the versions `1` (packets 0, 1) and `3` (packets 2, 3) -/
example := encode_runs (Enc.fresh 5 7) mixed ⟨0, 100⟩
example : mixed.map Packet.mt = [1, 1, 3, 3] ∧ mixed.map Packet.version = [1, 2, 3, 4] := by decide

/-- `call_header_exact` on the mixed batch: frame 1 holds the messages of packets 2 and 3 -/
example : (EFrame.bytes 0 ((Enc.fresh 5 7).encode mixed ⟨0, 100⟩).2[1]!).take 8 = [3, 0, 0, 5, 3, 7, 0, 2] := by
  decide +kernel
example := call_header_exact (Enc.fresh 5 7) mixed ⟨0, 100⟩ idle57
example := call_bytes (Enc.fresh 5 7) mixed ⟨0, 100⟩ idle57 (by decide) (by decide)

/-- `encode_tiny_max`: max = 24 -/
example : ((Enc.fresh 5 7).encode [p2, p40] ⟨0, 24⟩).2.length = 0 := by decide +kernel
example := encode_tiny_max (Enc.fresh 5 7) [p2, p40] ⟨0, 24⟩ (by decide) idle57

/-! ### the translated methods -/

open AsamCmp.Src AsamCmp.SrcGen AsamCmp.SrcEnc AsamCmp.SrcHist

instance (p : Packet) : Decidable p.Enc := by unfold Packet.Enc; exact inferInstance

/-- single-packet `encode`, iterator-range `encode` on the version-mixed batch, `setStreamId(7)`,
    iterator-range `encode` of two packets that need a frame each -/
def sops : List Op :=
  [.encode1 p2 c40, .encodeBatch mixed ⟨0, 100⟩, .setStreamId 7, .encodeBatch [p2, p2] c40]

theorem sops_ok : ∀ op ∈ sops, op.Ok := by
  intro op hop
  simp only [sops, List.mem_cons, List.not_mem_nil, or_false] at hop
  rcases hop with rfl | rfl | rfl | rfl
  · exact ⟨by decide, by decide, by decide⟩
  · exact ⟨by decide, by decide, by decide⟩
  · show (7 : Nat) < 256
    decide
  · exact ⟨by decide, by decide, by decide⟩

/-- the TRANSLATED methods on this history, evaluated by the kernel: (bytes 0..7 of every returned
    frame, getSequenceCounter(), getDeviceId(), getStreamId()) after every call.  Versions 1 and 3 for
    the two runs of the mixed batch, counters continuing 1 | 2, 3 across the calls, 0 after the setter,
    then 1, 2 with stream id 7 -/
example : (srcEncRun 65536 Encoder_default sops).map
      (·.2.map fun o => (o.frames.map (·.take 8), o.seq, o.dev, o.stream)) =
    some [([[1, 0, 0, 0, 1, 0, 0, 1]], 1, 0, 0),
          ([[1, 0, 0, 0, 1, 0, 0, 2], [3, 0, 0, 0, 3, 0, 0, 3]], 3, 0, 0),
          ([], 0, 0, 7),
          ([[1, 0, 0, 0, 1, 7, 0, 1], [1, 0, 0, 0, 1, 7, 0, 2]], 2, 0, 7)] := by decide +kernel

/-- the hypotheses of `src_history` are satisfied by it -/
example : ∃ s' obs, srcEncRun 65536 Encoder_default sops = some (s', obs) ∧ ObsHistOk (0, 0, 0) sops obs :=
  src_history sops 65536 (by decide) sops_ok

example := src_history SrcHist.exOps 65536 (by decide) SrcHist.exOps_ok

/-- `rawCmpHeader_version_type` on a version-2 packet with a CAN payload (message type 1): the
    hypotheses hold, and the 8 bytes are literally these (version 2 at byte 0, type 1 at byte 4) -/
def p7 : Packet := { payload := some ⟨tyCan, [1, 2, 3]⟩, version := 2, deviceId := 0x0102, streamId := 7, seq := 5 }
theorem p7_fits : p7.Fits :=
  ⟨by decide, by decide, by decide, by decide, by decide, by decide, by decide, by decide, by decide,
    fun pl h => by cases h; exact ⟨by decide, by decide⟩⟩
example := rawCmpHeader_version_type p7 ⟨tyCan, [1, 2, 3]⟩ p7_fits rfl
example : (Packet_getRawCmpHeader_pv (SrcPv.repr p7)).map (·.2) = some [2, 0, 1, 2, 1, 7, 0, 5] := by
  decide +kernel

end Ex

end AsamCmp.C09S
