/-
  C13  Payload builders store data faithfully and produce self-valid payloads.

  After setting data on any payload class the getters return exactly the data and lengths supplied,
  header fields set earlier are preserved, the length fields and the CAN DLC code match the data
  length, strings are NUL-terminated and zero-padded to even length, the stream-id list is zero-padded
  to even length, and the library's own validity check and decoder accept the result.  The raw bytes
  depend only on the final logical content, not on what the object held before.
  (`b` is the object's byte string before the call; it always holds at least its header.)
-/
import AsamCmp.Access
import AsamCmp.Builders
import AsamCmp.Lemmas.Builders
namespace AsamCmp.C13
open AsamCmp

/-! ### CAN / CAN-FD -/
theorem can_setData (b d : Bytes) (hb : 16 ≤ b.length) (hd : d.length < 256) :
    let o := canSetData b d
    o.length = 16 + d.length ∧ o.take 14 = b.take 14 ∧ byteAt o 14 = dlcOf d.length ∧ byteAt o 15 = d.length ∧
    o.drop 16 = d ∧ canAccess o = some [dataView "data" 16 d.length] := by
  intro o
  have ho : o = b.take 14 ++ ([UInt8.ofNat (dlcOf (d.length % 256)), UInt8.ofNat d.length] ++ d) :=
    canSetData_eq b d hb
  have h14 : (b.take 14).length = 14 := take_length_of_le b 14 (by omega)
  have hlen : o.length = 16 + d.length := by rw [ho]; simp [h14]; omega
  have hdlc := dlcOf_le d.length
  have h15 : byteAt o 15 = d.length := by
    rw [ho, show b.take 14 ++ ([UInt8.ofNat (dlcOf (d.length % 256)), UInt8.ofNat d.length] ++ d) =
      (b.take 14 ++ [UInt8.ofNat (dlcOf (d.length % 256))]) ++ (UInt8.ofNat d.length :: d) by simp,
      byteAt_at _ _ _ 15 (by simp [h14])]
    simp; omega
  refine ⟨hlen, ?_, ?_, h15, ?_, ?_⟩
  · rw [ho]; exact List.take_left' h14
  · rw [ho, List.cons_append, byteAt_at _ _ _ 14 h14, Nat.mod_eq_of_lt hd]
    simp; omega
  · rw [ho, ← List.append_assoc]
    exact List.drop_left' (by simp [h14])
  · simp only [canAccess, C03.rd_ok o 0 16 (by omega), C03.rd_ok o 15 1 (by omega), C03.beAt_one, h15,
      bind, Option.bind, pure]

theorem can_setData_valid (b d : Bytes) (hb : 16 ≤ b.length) (hd : d.length < 256)
    (hflags : beAt b 0 2 &&& 0x03FF = 0) (herr : beAt b 12 2 = 0) :
    canValid (canSetData b d) = true ∧ create tyCan (canSetData b d) = ⟨tyCan, canSetData b d⟩ ∧
    create tyCanFd (canSetData b d) = ⟨tyCanFd, canSetData b d⟩ := by
  have hfacts := can_setData b d hb hd
  dsimp only at hfacts
  obtain ⟨hlen, htake, _, h15, _, _⟩ := hfacts
  have hvalid : canValid (canSetData b d) = true := by
    simp only [canValid, Bool.and_eq_true, decide_eq_true_eq, beq_iff_eq,
      beAt_of_take _ b 14 0 2 htake (by omega), beAt_of_take _ b 14 12 2 htake (by omega), hflags, herr,
      h15, hlen, and_true]
    omega
  exact ⟨hvalid, create_of_valid _ _ _ rfl hvalid, create_of_valid _ _ _ rfl hvalid⟩

/-- canonicity: the result depends on the header fields and the data only -/
theorem can_setData_canonical (b₁ b₂ d : Bytes) (h1 : 16 ≤ b₁.length) (h2 : 16 ≤ b₂.length)
    (hh : b₁.take 14 = b₂.take 14) : canSetData b₁ d = canSetData b₂ d := by
  rw [canSetData_eq b₁ d h1, canSetData_eq b₂ d h2, hh]

/-- the ISO 11898 DLC code -/
theorem dlc_iso : dlcOf 0 = 0 ∧ dlcOf 8 = 8 ∧ dlcOf 12 = 9 ∧ dlcOf 16 = 10 ∧ dlcOf 20 = 11 ∧ dlcOf 24 = 12 ∧
    dlcOf 32 = 13 ∧ dlcOf 48 = 14 ∧ dlcOf 64 = 15 ∧ (∀ n, n ≤ 8 → dlcOf n = n) := by
  refine ⟨by decide, by decide, by decide, by decide, by decide, by decide, by decide, by decide,
    by decide, ?_⟩
  intro n hn
  simp [dlcOf, hn]

/-- ISO 11898-1: the size of the data field a DLC code stands for (classic CAN 0..8 ↦ the code itself; CAN FD 9 ↦ 12, 10 ↦ 16,
    11 ↦ 20, 12 ↦ 24, 13 ↦ 32, 14 ↦ 48, 15 ↦ 64; a DLC is a 4-bit field, codes above 15 do not exist: 0) -/
def dlcLen (c : Nat) : Nat :=
  if c ≤ 8 then c
  else if c = 9 then 12 else if c = 10 then 16 else if c = 11 then 20 else if c = 12 then 24
  else if c = 13 then 32 else if c = 14 then 48 else if c = 15 then 64 else 0

/-- `dlcLen` is the ISO table -/
theorem dlcLen_table (c : Nat) : dlcLen c = [0,1,2,3,4,5,6,7,8,12,16,20,24,32,48,64].getD c 0 := by
  by_cases h : c ≤ 15
  · have hc : c = 0 ∨ c = 1 ∨ c = 2 ∨ c = 3 ∨ c = 4 ∨ c = 5 ∨ c = 6 ∨ c = 7 ∨ c = 8 ∨ c = 9 ∨ c = 10 ∨ c = 11 ∨
        c = 12 ∨ c = 13 ∨ c = 14 ∨ c = 15 := by omega
    rcases hc with e | e | e | e | e | e | e | e | e | e | e | e | e | e | e | e <;> subst e <;> decide
  · have h1 : dlcLen c = 0 := by
      unfold dlcLen
      repeat' split
      all_goals omega
    rw [h1, List.getD_eq_getElem?_getD, List.getElem?_eq_none (by simp only [List.length_cons, List.length_nil]; omega)]
    rfl

/-- `dlcOf`, range by range -/
theorem dlcOf_cases (n : Nat) :
    (n ≤ 8 ∧ dlcOf n = n) ∨ (8 < n ∧ n ≤ 12 ∧ dlcOf n = 9) ∨ (12 < n ∧ n ≤ 16 ∧ dlcOf n = 10) ∨
    (16 < n ∧ n ≤ 20 ∧ dlcOf n = 11) ∨ (20 < n ∧ n ≤ 24 ∧ dlcOf n = 12) ∨ (24 < n ∧ n ≤ 32 ∧ dlcOf n = 13) ∨
    (32 < n ∧ n ≤ 48 ∧ dlcOf n = 14) ∨ (48 < n ∧ dlcOf n = 15) := by
  unfold dlcOf
  repeat' split
  all_goals omega

/-- `dlcLen`, code by code -/
theorem dlcLen_cases (c : Nat) :
    (c ≤ 8 ∧ dlcLen c = c) ∨ (c = 9 ∧ dlcLen c = 12) ∨ (c = 10 ∧ dlcLen c = 16) ∨ (c = 11 ∧ dlcLen c = 20) ∨
    (c = 12 ∧ dlcLen c = 24) ∨ (c = 13 ∧ dlcLen c = 32) ∨ (c = 14 ∧ dlcLen c = 48) ∨ (c = 15 ∧ dlcLen c = 64) ∨
    (15 < c ∧ dlcLen c = 0) := by
  unfold dlcLen
  repeat' split
  all_goals omega

/-- the DLC code COVERS the data length, and it is the SMALLEST code that does: for every length a CAN FD data field can hold
    (0..64) the data field announced by `dlcOf n` has room for the `n` bytes, and no smaller code's data field has -/
theorem dlc_covers (n : Nat) (hn : n ≤ 64) : n ≤ dlcLen (dlcOf n) ∧ ∀ c, c < dlcOf n → dlcLen c < n := by
  have h1 := dlcOf_cases n
  have h2 := dlcLen_cases (dlcOf n)
  refine ⟨by omega, ?_⟩
  intro c hc
  have h3 := dlcLen_cases c
  omega

/-- the DLC code stands for EXACTLY the data length iff the length is one of the sixteen ISO data-field sizes -/
theorem dlc_exact_iff (n : Nat) :
    dlcLen (dlcOf n) = n ↔
      (n ≤ 8 ∨ n = 12 ∨ n = 16 ∨ n = 20 ∨ n = 24 ∨ n = 32 ∨ n = 48 ∨ n = 64) := by
  have h1 := dlcOf_cases n
  have h2 := dlcLen_cases (dlcOf n)
  omega

/-- above the largest CAN FD data field: the largest code -/
theorem dlc_above_64 (n : Nat) (hn : 64 < n) : dlcOf n = 15 := by
  unfold dlcOf
  repeat' split
  all_goals omega

/-- `dlcOf` is monotone and never 0 for a non-empty data field (the repaired defect: DLC 0 next to a non-zero data length) -/
theorem dlc_mono (m n : Nat) (h : m ≤ n) : dlcOf m ≤ dlcOf n := by
  unfold dlcOf
  repeat' split
  all_goals omega

theorem dlc_zero_iff (n : Nat) : dlcOf n = 0 ↔ n = 0 := by
  unfold dlcOf
  repeat' split
  all_goals omega

/-- K5 on a built CAN / CAN-FD payload: the DLC byte is `dlcOf` of the number of bytes supplied, the data-length byte is that
    number (both from `can_setData`), hence — for every length a CAN FD frame can carry — the data field the DLC byte announces
    covers the data-length byte, no smaller code does, and the two agree exactly on the ISO lengths; above 64 the DLC byte is 15. -/
theorem can_setData_dlc (b d : Bytes) (hb : 16 ≤ b.length) (hd : d.length < 256) :
    let o := canSetData b d
    byteAt o 14 = dlcOf d.length ∧ byteAt o 15 = d.length ∧ byteAt o 14 ≤ 15 ∧
    (d.length ≤ 64 → byteAt o 15 ≤ dlcLen (byteAt o 14) ∧ ∀ c, c < byteAt o 14 → dlcLen c < byteAt o 15) ∧
    (dlcLen (byteAt o 14) = byteAt o 15 ↔
      (d.length ≤ 8 ∨ d.length = 12 ∨ d.length = 16 ∨ d.length = 20 ∨ d.length = 24 ∨ d.length = 32 ∨ d.length = 48 ∨
        d.length = 64)) ∧
    (64 < d.length → byteAt o 14 = 15) ∧ (byteAt o 14 = 0 ↔ d.length = 0) := by
  intro o
  obtain ⟨_, _, h14, h15, _, _⟩ := can_setData b d hb hd
  rw [h14, h15]
  exact ⟨rfl, rfl, dlcOf_le _, dlc_covers _, dlc_exact_iff _, dlc_above_64 _, dlc_zero_iff _⟩

/-! ### LIN -/
theorem lin_setData (b d : Bytes) (hb : 8 ≤ b.length) (hd : d.length < 256) :
    let o := linSetData b d
    o.length = 8 + d.length ∧ o.take 7 = b.take 7 ∧ byteAt o 7 = d.length ∧ o.drop 8 = d ∧
    linAccess o = some [dataView "data" 8 d.length] ∧ linValid o = true ∧ create tyLin o = ⟨tyLin, o⟩ := by
  intro o
  have ho : o = b.take 7 ++ ([UInt8.ofNat d.length] ++ d) := linSetData_eq b d hb
  have h7l : (b.take 7).length = 7 := take_length_of_le b 7 (by omega)
  have hlen : o.length = 8 + d.length := by rw [ho]; simp [h7l]; omega
  have h7 : byteAt o 7 = d.length := by
    rw [ho, List.cons_append, byteAt_at _ _ _ 7 h7l]
    simp; omega
  have hvalid : linValid o = true := by
    simp only [linValid, Bool.and_eq_true, decide_eq_true_eq, h7, hlen]
    omega
  refine ⟨hlen, ?_, h7, ?_, ?_, hvalid, create_of_valid _ _ _ rfl hvalid⟩
  · rw [ho]; exact List.take_left' h7l
  · rw [ho, ← List.append_assoc]
    exact List.drop_left' (by simp [h7l])
  · simp only [linAccess, C03.rd_ok o 0 8 (by omega), C03.rd_ok o 7 1 (by omega), C03.beAt_one, h7,
      bind, Option.bind, pure]

theorem lin_setData_canonical (b₁ b₂ d : Bytes) (h1 : 8 ≤ b₁.length) (h2 : 8 ≤ b₂.length)
    (hh : b₁.take 7 = b₂.take 7) : linSetData b₁ d = linSetData b₂ d := by
  rw [linSetData_eq b₁ d h1, linSetData_eq b₂ d h2, hh]

/-! ### Ethernet -/
theorem eth_setData (b d : Bytes) (hb : 6 ≤ b.length) (hd : d.length < 65536) :
    let o := ethSetData b d
    o.length = 6 + d.length ∧ o.take 4 = b.take 4 ∧ beAt o 4 2 = d.length ∧ o.drop 6 = d ∧
    ethAccess o = some [dataView "data" 6 d.length] ∧
    (beAt b 0 2 &&& 0x003B = 0 → ethValid o = true ∧ create tyEth o = ⟨tyEth, o⟩) := by
  intro o
  have ho : o = b.take 4 ++ (beEnc 2 d.length ++ d) := ethSetData_eq b d hb
  have h4l : (b.take 4).length = 4 := take_length_of_le b 4 (by omega)
  have hlen : o.length = 6 + d.length := by rw [ho]; simp [h4l]; omega
  have h4 : beAt o 4 2 = d.length := by rw [ho]; exact beAt2_at _ _ 4 _ h4l hd
  have htake : o.take 4 = b.take 4 := by rw [ho]; exact List.take_left' h4l
  refine ⟨hlen, htake, h4, ?_, ?_, ?_⟩
  · rw [ho, ← List.append_assoc]
    exact List.drop_left' (by simp [h4l])
  · simp only [ethAccess, C03.rd_ok o 0 6 (by omega), C03.rd_ok o 4 2 (by omega), h4,
      bind, Option.bind, pure]
  · intro hflags
    have hvalid : ethValid o = true := by
      simp only [ethValid, Bool.and_eq_true, decide_eq_true_eq, beq_iff_eq,
        beAt_of_take o b 4 0 2 htake (by omega), hflags, h4, hlen, and_true]
      omega
    exact ⟨hvalid, create_of_valid _ _ _ rfl hvalid⟩

theorem eth_setData_canonical (b₁ b₂ d : Bytes) (h1 : 6 ≤ b₁.length) (h2 : 6 ≤ b₂.length)
    (hh : b₁.take 4 = b₂.take 4) : ethSetData b₁ d = ethSetData b₂ d := by
  rw [ethSetData_eq b₁ d h1, ethSetData_eq b₂ d h2, hh]

/-! ### analog -/
theorem analog_setData (b d : Bytes) (hb : 16 ≤ b.length) :
    let o := analogSetData b d
    o.length = 16 + d.length ∧ o.take 16 = b.take 16 ∧ o.drop 16 = d ∧
    (byteAt b 1 &&& 3 ≤ 1 → analogValid o = true ∧ create tyAnalog o = ⟨tyAnalog, o⟩) := by
  intro o
  have ho : o = b.take 16 ++ d := analogSetData_eq b d hb
  have h16l : (b.take 16).length = 16 := take_length_of_le b 16 (by omega)
  have hlen : o.length = 16 + d.length := by rw [ho]; simp [h16l]
  have htake : o.take 16 = b.take 16 := by rw [ho]; exact List.take_left' h16l
  refine ⟨hlen, htake, ?_, ?_⟩
  · rw [ho]; exact List.drop_left' h16l
  · intro hdt
    have hvalid : analogValid o = true := by
      simp only [analogValid, Bool.and_eq_true, decide_eq_true_eq,
        byteAt_of_take o b 16 1 htake (by omega), hlen]
      exact ⟨by omega, hdt⟩
    exact ⟨hvalid, create_of_valid _ _ _ rfl hvalid⟩

theorem analog_setData_canonical (b₁ b₂ d : Bytes) (h1 : 16 ≤ b₁.length) (h2 : 16 ≤ b₂.length)
    (hh : b₁.take 16 = b₂.take 16) : analogSetData b₁ d = analogSetData b₂ d := by
  rw [analogSetData_eq b₁ d h1, analogSetData_eq b₂ d h2, hh]

/-! ### capture-module status -/

/-- one string block: even length field = text + NUL rounded up, the text, then NULs only -/
theorem cmString_spec (s : Bytes) (hs : s.length + 2 < 65536) :
    let n := s.length + 1 + (s.length + 1) % 2
    cmString s = beEnc 2 n ++ s ++ zeros (n - s.length) ∧ n % 2 = 0 ∧ (cmString s).length = 2 + n ∧
    1 ≤ n - s.length ∧ n - s.length ≤ 2 := by
  intro n
  have _ := hs
  refine ⟨rfl, by omega, ?_, by omega, by omega⟩
  show (beEnc 2 n ++ s ++ zeros (n - s.length)).length = 2 + n
  simp [zeros]
  omega

/-- strings without NUL are returned exactly, with the vendor data, at offsets inside the payload;
    the validator and `Packet::create` accept the result; the header is preserved -/
theorem cm_setData (b s1 s2 s3 s4 v : Bytes) (hb : 26 ≤ b.length)
    (h1 : s1.length + 2 < 65536) (h2 : s2.length + 2 < 65536) (h3 : s3.length + 2 < 65536) (h4 : s4.length + 2 < 65536)
    (hv : v.length < 65536)
    (n1 : 0 ∉ s1) (n2 : 0 ∉ s2) (n3 : 0 ∉ s3) (n4 : 0 ∉ s4) :
    let o := cmSetData b s1 s2 s3 s4 v
    o.take 26 = b.take 26 ∧ cmValid o = true ∧ create tyCm o = ⟨tyCm, o⟩ ∧
    ∃ o1 o2 o3 o4 o5,
      cmAccess o = some [⟨"deviceDescription", some o1, s1.length⟩, ⟨"serialNumber", some o2, s2.length⟩,
                         ⟨"hardwareVersion", some o3, s3.length⟩, ⟨"softwareVersion", some o4, s4.length⟩,
                         ⟨"vendorData", some o5, v.length⟩] ∧
      slice o o1 s1.length = s1 ∧ slice o o2 s2.length = s2 ∧ slice o o3 s3.length = s3 ∧
      slice o o4 s4.length = s4 ∧ slice o o5 v.length = v := by
  intro o
  exact cm_facts b s1 s2 s3 s4 v o (cmSetData_eq b s1 s2 s3 s4 v hb) hb h1 h2 h3 h4 hv n1 n2 n3 n4

theorem cm_setData_canonical (b₁ b₂ s1 s2 s3 s4 v : Bytes) (h1 : 26 ≤ b₁.length) (h2 : 26 ≤ b₂.length)
    (hh : b₁.take 26 = b₂.take 26) : cmSetData b₁ s1 s2 s3 s4 v = cmSetData b₂ s1 s2 s3 s4 v := by
  rw [cmSetData_eq b₁ s1 s2 s3 s4 v h1, cmSetData_eq b₂ s1 s2 s3 s4 v h2, hh]

/-! ### interface status -/
theorem if_setData (b ids v : Bytes) (hb : 36 ≤ b.length) (hi : ids.length < 65536) (hv : v.length < 65536) :
    let o := ifSetData b ids v
    let pad := ids.length % 2
    o.take 36 = b.take 36 ∧ o.length = 36 + 2 + ids.length + pad + 2 + v.length ∧
    beAt o 36 2 = ids.length ∧ slice o 38 ids.length = ids ∧
    slice o (38 + ids.length) pad = zeros pad ∧
    beAt o (38 + ids.length + pad) 2 = v.length ∧ slice o (38 + ids.length + pad + 2) v.length = v ∧
    ifAccess o = some [dataView "streamIds" 38 ids.length, dataView "vendorData" (38 + ids.length + pad + 2) v.length] ∧
    (byteAt b 29 ≤ 2 → ifValid o = true ∧ create tyIf o = ⟨tyIf, o⟩) := by
  intro o pad
  exact if_facts b ids v o (ifSetData_eq b ids v hb) hb hi hv

theorem if_setData_canonical (b₁ b₂ ids v : Bytes) (h1 : 36 ≤ b₁.length) (h2 : 36 ≤ b₂.length)
    (hh : b₁.take 36 = b₂.take 36) : ifSetData b₁ ids v = ifSetData b₂ ids v := by
  rw [ifSetData_eq b₁ ids v h1, ifSetData_eq b₂ ids v h2, hh]

/-- default-constructed objects are valid payloads of their class -/
theorem defaults_valid : canValid canDefault = true ∧ linValid linDefault = true ∧ ethValid ethDefault = true ∧
    analogValid analogDefault = true ∧ cmValid cmDefault = true ∧ ifValid ifDefault = true := by
  decide

/-- non-vacuity: three stream ids on an object that held four: the pad byte is zero -/
example : slice (ifSetData (ifSetData ifDefault [1,2,3,4] []) [1,2,3] []) 36 8 = [0,3,1,2,3,0,0,0] := by decide

end AsamCmp.C13
