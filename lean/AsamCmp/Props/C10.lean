/-
  C10  Encoder output does not depend on earlier encode calls.

  Encoding a batch on an encoder that has already encoded arbitrary other batches with arbitrary
  configurations produces exactly the frames a fresh encoder with the same device id and stream
  id produces, apart from a constant offset of the sequence counters.
-/
import AsamCmp.EncHist
import AsamCmp.Lemmas.EncHist
namespace AsamCmp

/-- core: `encode` reads only (dev, stream, seqc) of the encoder it is called on -/
theorem C10_encode_any_state (e : Enc) (batch : List Packet) (c : Ctx) :
    (e.encode batch c).2 = shiftSeq e.seqc ((Enc.fresh e.dev e.stream).encode batch c).2 := by
  exact encode_shift e batch c

/-- C10: after any history, the frames of the next call are those of a fresh encoder with the
    same ids, shifted by the counter -/
theorem C10_history_independent (ops : List EncOp) (batch : List Packet) (c : Ctx) :
    let e := ((Enc.fresh 0 0).runOps ops).1
    (e.encode batch c).2 = shiftSeq e.seqc ((Enc.fresh e.dev e.stream).encode batch c).2 := by
  intro e
  exact C10_encode_any_state e batch c

/-- in particular a payload that needs segmentation is segmented on every call: the number of
    frames and all message flags coincide with those of the fresh encoder -/
theorem C10_same_shape (ops : List EncOp) (batch : List Packet) (c : Ctx) :
    let e := ((Enc.fresh 0 0).runOps ops).1
    ((e.encode batch c).2.map fun f => f.msgs.map fun m => (m.idx, m.seg, m.body)) =
    (((Enc.fresh e.dev e.stream).encode batch c).2.map fun f => f.msgs.map fun m => (m.idx, m.seg, m.body)) := by
  intro e
  rw [C10_encode_any_state e batch c, shiftSeq, List.map_map]
  rfl

end AsamCmp
