/-
  Source-level tie, encoder part: `Encoder::buildSegmentationFlag`, translated from /repo's source on every run
  (GeneratedSrc.lean), is the `segFlag` of the low-level encoder model (EncoderLL.lean, proved to refine the encoder model).
-/
import AsamCmp.Props.SrcTie
import AsamCmp.EncoderLL
set_option linter.unusedSimpArgs false
namespace AsamCmp.SrcTie
open AsamCmp AsamCmp.Src AsamCmp.SrcGen

/-- `Encoder::buildSegmentationFlag` is the model's `segFlag` (no overflow of `pos + n` in `size_t`) -/
theorem segFlag_src (this : Nat) (isSeg : Bool) (segInd n len pos : Nat) (h : pos + n < 2 ^ 64) :
    Encoder_buildSegmentationFlag this isSeg segInd n len pos = some (EncLL.segFlag isSeg segInd n len pos) := by
  unfold Encoder_buildSegmentationFlag EncLL.segFlag
  src_norm
  (repeat' split) <;> first | rfl | omega

end AsamCmp.SrcTie
