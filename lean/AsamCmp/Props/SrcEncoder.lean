/-
  Source-level encoder: every method of `ASAM::CMP::Encoder` (src/encoder.cpp) is translated from the typed clang AST on every
  run into a state transformer over the record of its data members (GeneratedSrcObj.lean, vlib/srcobj.py: member vectors as byte
  lists, pointers into them with static provenance, header writes through the translated byte-level functions, the `while` loop as
  recursion on fuel, the `const Packet&` argument as the opaque record `PktIn`).  The theorems say that this translation, started
  in any state a caller can produce, is DEFINED (no undefined behaviour: every `memcpy` / header write inside its vector, `back()` /
  `pop_back()` never on an empty vector, no signed overflow) and computes exactly the hand-written low-level model `EncLL`
  (EncoderLL.lean) — which `C07b.encodeLL_refines` proves equal to the structured encoder model that C01, C06b, C07–C10 are about.
-/
import AsamCmp.GeneratedSrcObj
import AsamCmp.EncoderLL
import AsamCmp.Props.C07
import AsamCmp.Lemmas.SrcEncPublic
namespace AsamCmp.SrcEnc
open AsamCmp AsamCmp.Src AsamCmp.SrcGen

/-- the record of data members read as the low-level model's state (a bijection) -/
def toLL (s : Encoder_St) : EncLL :=
  { min := s.f_minBytesPerMessage, max := s.f_maxBytesPerMessage, dev := s.f_deviceId, stream := s.f_streamId,
    tmpl := s.f_cmpFrameTemplate, bytesLeft := s.f_bytesLeft, seqc := s.f_sequenceCounter, mt := s.f_messageType,
    frames := s.f_cmpFrames }

def ofLL (l : EncLL) : Encoder_St :=
  { f_minBytesPerMessage := l.min, f_maxBytesPerMessage := l.max, f_deviceId := l.dev, f_streamId := l.stream,
    f_cmpFrameTemplate := l.tmpl, f_bytesLeft := l.bytesLeft, f_sequenceCounter := l.seqc, f_messageType := l.mt,
    f_cmpFrames := l.frames }

/-- what the encoder reads from a packet of the model: message type, payload length and bytes, and the raw headers that
    `Packet::getRawCmpHeader` / `getRawMessageHeader` produce (`frameHeader` / `msgHeader` of Packet.lean) -/
def pktIn (p : Packet) : PktIn :=
  { messageType := p.mt, payloadLength := p.payloadLength, rawPayload := p.data,
    rawCmpHeader := frameHeader (p.version % 256) p.deviceId p.mt p.streamId p.seq,
    rawMsgHeader := msgHeader p (p.flags % 256 &&& 0x0C) p.payloadLength }

/-- the member values any sequence of public calls leaves: ids and counter within their C types -/
def Reg (s : Encoder_St) : Prop :=
  s.f_deviceId < 65536 ∧ s.f_streamId < 256 ∧ s.f_sequenceCounter < 65536 ∧ s.f_messageType < 256

/-- the composition `init(ctx); putPacket(p) for every p of the batch; return getEncodedData();` of the translated methods.  The
    iterator-range overloads of `encode` — member TEMPLATES, translated from their bodies in include/asam_cmp/encoder.h
    (vlib/srctmpl.py: `Encoder_encode_range_obj`, `Encoder_encode_ptrRange_obj`) — are exactly this composition: `encode_range_eq` -/
def srcEncodeBatch (fuel : Nat) (s : Encoder_St) (batch : List Packet) (mn mx : Nat) : Option (Encoder_St × List Bytes) := do
  let (s, _) ← Encoder_init_obj s mn mx
  let s ← batch.foldlM (fun s p => (Encoder_putPacket_obj fuel s (pktIn p)).map (·.1)) s
  Encoder_getEncodedData_obj s

/-! The lemma files (Lemmas/SrcEnc*.lean) are stated with their own copies `stOf` / `pkOf` of `ofLL` / `pktIn`. -/

theorem ofLL_eq (l : EncLL) : ofLL l = stOf l := rfl
theorem pktIn_eq (p : Packet) : pktIn p = pkOf p := rfl
theorem toLL_stOf (l : EncLL) : toLL (stOf l) = l := rfl
theorem st_cases (s : Encoder_St) : ∃ l, s = stOf l := ⟨toLL s, rfl⟩

theorem step_eq (fuel : Nat) :
    (fun (s : Encoder_St) (x : PktIn) => (do
        let (s, _) ← Encoder_putPacket_obj fuel s x
        pure s : Option Encoder_St))
      = fun s x => (Encoder_putPacket_obj fuel s x).map (·.1) := by
  funext s x
  cases Encoder_putPacket_obj fuel s x <;> rfl

theorem foldlM_range (fuel : Nat) (batch : List Packet) (s : Encoder_St) :
    (batch.map pktIn).foldlM (fun s x => do
        let (s, _) ← Encoder_putPacket_obj fuel s x
        pure s) s
      = batch.foldlM (fun s p => (Encoder_putPacket_obj fuel s (pktIn p)).map (·.1)) s := by
  rw [step_eq, List.foldlM_map]

/-- the iterator-range overloads of `encode` (over a range of `Packet`s and over a range of `shared_ptr<Packet>`), translated from
    the template bodies: on the range designating `batch` both are the composition `srcEncodeBatch` -/
theorem encode_range_eq (fuel : Nat) (s : Encoder_St) (batch : List Packet) (mn mx : Nat) :
    Encoder_encode_range_obj fuel s (batch.map pktIn) mn mx = srcEncodeBatch fuel s batch mn mx ∧
    Encoder_encode_ptrRange_obj fuel s (batch.map pktIn) mn mx = srcEncodeBatch fuel s batch mn mx := by
  unfold Encoder_encode_range_obj Encoder_encode_ptrRange_obj srcEncodeBatch
  simp only [foldlM_range]
  cases Encoder_init_obj s mn mx with
  | none => exact ⟨rfl, rfl⟩
  | some r =>
    obtain ⟨s1, u⟩ := r
    simp only [Option.bind_eq_bind, Option.bind_some]
    cases List.foldlM (fun s p => Option.map (fun x => x.fst) (Encoder_putPacket_obj fuel s (pktIn p))) s1 batch with
    | none => exact ⟨rfl, rfl⟩
    | some s2 =>
      simp only [Option.bind_some]
      cases Encoder_getEncodedData_obj s2 with
      | none => exact ⟨rfl, rfl⟩
      | some r2 => exact ⟨rfl, rfl⟩

/-- the configuration calls -/
theorem config_src (s : Encoder_St) (d st : Nat) :
    Encoder_setDeviceId_obj s d = some (ofLL { (toLL s) with dev := d, bytesLeft := 0, frames := [], tmpl := [], seqc := 0 }, ()) ∧
    Encoder_setStreamId_obj s st = some (ofLL { (toLL s) with stream := st, bytesLeft := 0, frames := [], tmpl := [], seqc := 0 }, ()) ∧
    Encoder_restart_obj s = some (ofLL { (toLL s) with seqc := 0 }, ()) ∧
    Encoder_getSequenceCounter_obj s = some (s, s.f_sequenceCounter) := by
  obtain ⟨l, rfl⟩ := st_cases s
  refine ⟨?_, ?_, rfl, rfl⟩
  · unfold Encoder_setDeviceId_obj
    st_norm [mk_eq_stOf, clear_src, ofLL_eq, toLL_stOf] <;> rfl
  · unfold Encoder_setStreamId_obj
    st_norm [mk_eq_stOf, clear_src, ofLL_eq, toLL_stOf] <;> rfl

/-- `encodeBatch_src` below, without the hypotheses it turns out not to need: the member values may be anything (every value the
    encoder writes is reduced to its field's width by the write itself, in the source and in the model alike), and so may the
    payload sizes (`getPayloadLength()` is the 16-bit truncation, in `pktIn` as in the model: both encode that many bytes) -/
theorem encodeBatch_src_gen (s : Encoder_St) (batch : List Packet) (c : Ctx) (fuel : Nat)
    (hc : c.ok = true) (hmax : c.max < 2 ^ 32) (hf : 65536 ≤ fuel) :
    srcEncodeBatch fuel s batch c.min c.max = some (ofLL ((toLL s).encode batch c).1, ((toLL s).encode batch c).2) := by
  obtain ⟨l, rfl⟩ := st_cases s
  obtain ⟨i1, e1⟩ := fold_src fuel hf batch (l.init c) (init_inv _ c hc hmax)
  unfold srcEncodeBatch EncLL.encode
  st_norm [ofLL_eq, pktIn_eq, toLL_stOf, init_src, e1, getEncodedData_src _ i1] <;> rfl

/-- `encode1_src` below, likewise without `Reg s` and the bound on the payload -/
theorem encode1_src_gen (s : Encoder_St) (p : Packet) (c : Ctx) (fuel : Nat)
    (hc : c.ok = true) (hmax : c.max < 2 ^ 32) (hf : 65536 ≤ fuel) :
    Encoder_encode_obj fuel s (pktIn p) c.min c.max = some (ofLL ((toLL s).encode [p] c).1, ((toLL s).encode [p] c).2) := by
  obtain ⟨l, rfl⟩ := st_cases s
  obtain ⟨o1, e1⟩ := putPacket_src (l.init c) p fuel (init_inv _ c hc hmax) hf
  unfold Encoder_encode_obj EncLL.encode
  st_norm [ofLL_eq, pktIn_eq, toLL_stOf, init_src, e1, getEncodedData_src _ o1.inv, List.foldl_cons, List.foldl_nil] <;> rfl

set_option linter.unusedVariables false in   -- `hs`, `hb` are not needed: see `encodeBatch_src_gen`
/-- a whole batch, from ANY encoder state with members in range (whatever earlier calls left in the scratch members), for every
    batch of packets with payloads shorter than 2^16 and every valid configuration: the translated source is defined and returns
    exactly the low-level model's frames and final state -/
theorem encodeBatch_src (s : Encoder_St) (batch : List Packet) (c : Ctx) (fuel : Nat)
    (hs : Reg s) (hc : c.ok = true) (hmax : c.max < 2 ^ 32) (hb : ∀ p ∈ batch, p.Enc ∧ p.mt < 256) (hf : 65536 ≤ fuel) :
    srcEncodeBatch fuel s batch c.min c.max = some (ofLL ((toLL s).encode batch c).1, ((toLL s).encode batch c).2) :=
  encodeBatch_src_gen s batch c fuel hc hmax hf

set_option linter.unusedVariables false in   -- `hs`, `hp` are not needed: see `encode1_src_gen`
/-- the single-packet overload `encode(const Packet&, const DataContext&)`, translated as a whole -/
theorem encode1_src (s : Encoder_St) (p : Packet) (c : Ctx) (fuel : Nat)
    (hs : Reg s) (hc : c.ok = true) (hmax : c.max < 2 ^ 32) (hp : p.Enc ∧ p.mt < 256) (hf : 65536 ≤ fuel) :
    Encoder_encode_obj fuel s (pktIn p) c.min c.max = some (ofLL ((toLL s).encode [p] c).1, ((toLL s).encode [p] c).2) :=
  encode1_src_gen s p c fuel hc hmax hf

/-- the two iterator-range overloads of `encode`, translated from the template bodies, on the range designating `batch`: defined
    from ANY encoder state, equal to the low-level model -/
theorem encodeRange_src (s : Encoder_St) (batch : List Packet) (c : Ctx) (fuel : Nat)
    (hc : c.ok = true) (hmax : c.max < 2 ^ 32) (hf : 65536 ≤ fuel) :
    Encoder_encode_range_obj fuel s (batch.map pktIn) c.min c.max
      = some (ofLL ((toLL s).encode batch c).1, ((toLL s).encode batch c).2) ∧
    Encoder_encode_ptrRange_obj fuel s (batch.map pktIn) c.min c.max
      = some (ofLL ((toLL s).encode batch c).1, ((toLL s).encode batch c).2) := by
  obtain ⟨h1, h2⟩ := encode_range_eq fuel s batch c.min c.max
  rw [h1, h2]
  exact ⟨encodeBatch_src_gen s batch c fuel hc hmax hf, encodeBatch_src_gen s batch c fuel hc hmax hf⟩

end AsamCmp.SrcEnc
