/-
  Obligations that tie the constants reflected from /repo's current headers and objects
  (`Generated.lean`, rewritten on every run) to the protocol tables the model is built from.
  A changed struct member, mask, enum value, DLC table entry or a new mutable static breaks one of
  these at build time.
-/
import AsamCmp.Generated
import AsamCmp.Layout
import AsamCmp.Builders
import AsamCmp.Decoder
namespace AsamCmp.GenChecks
open AsamCmp

def lookupNat (l : List (String × Nat)) (k : String) : Option Nat := (l.find? (·.1 == k)).map (·.2)

/-- header sizes are exactly those of the standard (C12) -/
theorem sizes_ok :
    Generated.sizes.all (fun (n, sz) => (Layout.all.find? (·.name == n)).map (·.size) == some sz) = true ∧
    Generated.sizes.length = 14 := by decide

def layoutOff (c f : String) : Option Nat :=
  ((Layout.all.find? (·.name == c)).bind (·.find f)).map (·.off)

/-- every struct member sits at the byte offset the protocol table gives its field (C12) -/
theorem offsets_ok : Generated.offsets.all (fun (c, f, o) => layoutOff c f == some o) = true ∧
    70 ≤ Generated.offsets.length := by decide

def fieldMask (c f : String) : Option Nat :=
  ((Layout.all.find? (·.name == c)).bind (·.find f)).map fun fl => (2 ^ fl.bits - 1) * 2 ^ fl.shift

/-- the library's private mask constants are the bit ranges of the table's fields (C11, C12) -/
theorem masks_ok :
    lookupNat Generated.masks "can.idMask" = fieldMask "can" "id" ∧
    lookupNat Generated.masks "can.rsvdMask" = fieldMask "can" "rsvd" ∧
    lookupNat Generated.masks "can.rtrMask" = fieldMask "can" "rtr" ∧
    lookupNat Generated.masks "can.ideMask" = fieldMask "can" "ide" ∧
    lookupNat Generated.masks "can.crcMask" = fieldMask "can" "crc" ∧
    lookupNat Generated.masks "can.crcSupportMask" = fieldMask "can" "crcSupport" ∧
    lookupNat Generated.masks "can.crcSbcMask" = fieldMask "canfd" "crc" ∧
    lookupNat Generated.masks "can.crcSbcSbcMask" = fieldMask "canfd" "sbc" ∧
    lookupNat Generated.masks "can.crcSbcSbcShift" = some 21 ∧
    lookupNat Generated.masks "can.crcSbcParityMask" = fieldMask "canfd" "sbcParity" ∧
    lookupNat Generated.masks "can.crcSbcSupportMask" = fieldMask "canfd" "sbcSupport" ∧
    lookupNat Generated.masks "lin.linIdMask" = fieldMask "lin" "linId" ∧
    lookupNat Generated.masks "lin.parityMask" = fieldMask "lin" "parityBits" ∧
    lookupNat Generated.masks "lin.parityShift" = some 6 ∧
    lookupNat Generated.masks "analog.sampleDtMask" = fieldMask "analog" "sampleDt" ∧
    lookupNat Generated.masks "analog.aInt16" = some 0 ∧
    lookupNat Generated.masks "analog.aInt32" = some 1 ∧
    -- validator masks: CAN error flags are bits 9..0, Ethernet error flags bits 0,1,3,4,5
    lookupNat Generated.masks "can.errorMask" = some 0x03FF ∧
    lookupNat Generated.masks "eth.errorMask" = some 0x003B ∧
    lookupNat Generated.masks "msghdr.seg" = some 0x0C ∧
    lookupNat Generated.masks "msghdr.errorInPayload" = some 0x40 ∧
    lookupNat Generated.masks "packet.errorInPayload" = some 0x40 ∧
    lookupNat Generated.masks "msghdr.firstSegment" = some 4 ∧
    lookupNat Generated.masks "msghdr.intermediarySegment" = some 8 ∧
    lookupNat Generated.masks "msghdr.lastSegment" = some 12 := by decide

/-- enum values used by the model -/
theorem enums_ok :
    Generated.enums =
      [("mt.data", 1), ("mt.control", 2), ("mt.status", 3), ("mt.vendor", 255),
       ("pt.can", tyCan), ("pt.canFd", tyCanFd), ("pt.lin", tyLin), ("pt.analog", tyAnalog), ("pt.ethernet", tyEth),
       ("pt.cmStatMsg", tyCm), ("pt.ifStatMsg", tyIf), ("pt.invalid", 0), ("if.disabled", 2),
       ("tecmp.mt.cmStatus", 1), ("tecmp.mt.busStatus", 2), ("tecmp.mt.data", 3),
       ("tecmp.dt.can", 2), ("tecmp.dt.canFd", 3), ("tecmp.dt.lin", 4),
       ("cm.minPayloadSize", 36), ("if.minPayloadSize", 40)] := by decide

/-- the real `encodeDlc`, evaluated on all 256 data lengths, is the ISO 11898 table of the model (C13) -/
theorem dlc_ok : Generated.dlcTable = (List.range 256).map dlcOf := by decide +kernel

/-- `SegmentedPacket::isValidSegmentType`, executed for all 16 (current, next) pairs, is the model's
    `validNext` (C05, C06, C17) -/
theorem validNext_ok :
    Generated.validNextTable = ([0, 4, 8, 12].flatMap fun c => [0, 4, 8, 12].map fun n => (c, n, validNext c n)) := by decide

/-- rules the dumper checked exhaustively on the real functions (payload type validity and packing,
    byte swaps, TECMP header validity, segment bits) all hold -/
theorem rules_ok : Generated.rules.all (fun r => r.2 == 1) = true ∧ Generated.rules.length = 5 := by decide

/-- the dispatch of `Packet::create`, translated from the current source text: every typed payload
    type is validated by, and constructed as, its own class (seven cases, nothing else); unknown
    types stay generic and rejected payloads are marked invalid — the shape `create`/`validatorOf`
    of the model have (C03, C04) -/
theorem create_dispatch_ok :
    Generated.createDispatch =
      [("can", "CanPayload", "CanPayload"), ("canFd", "CanFdPayload", "CanFdPayload"), ("lin", "LinPayload", "LinPayload"),
       ("analog", "AnalogPayload", "AnalogPayload"), ("ethernet", "EthernetPayload", "EthernetPayload"),
       ("cmStatMsg", "CaptureModulePayload", "CaptureModulePayload"), ("ifStatMsg", "InterfacePayload", "InterfacePayload")] ∧
    Generated.createShape = (7, true, true) := by decide

/-- the library objects have no mutable static storage besides the allow-list (C19) -/
theorem no_shared_state : Generated.mutableStatics = [] := by decide

end AsamCmp.GenChecks
