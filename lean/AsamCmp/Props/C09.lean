/-
  C09  Frame headers carry consecutive sequence counters and the encoder's identity.

  Statement (properties.jsonl): over any history of configuration changes and encode calls on
  one encoder, every emitted frame carries the currently configured device id and stream id,
  the batch's protocol version and the message type of its messages, and a 16-bit sequence
  counter exactly one greater (modulo 65536) than that of the previously emitted frame,
  starting again at 1 after the device id or stream id is set or the encoder is restarted.
  The counter the encoder reports always equals that of the last frame it emitted.
-/
import AsamCmp.EncHist
import AsamCmp.Lemmas.EncHist
namespace AsamCmp

/-- bytes 0..7 of a serialised frame are its header fields, big-endian, at the layout's offsets -/
theorem C09_header_bytes (min : Nat) (f : EFrame) :
    (EFrame.bytes min f).take 8 = frameHeader f.ver f.dev f.mt f.stream f.seq := by
  have hl : (frameHeader f.ver f.dev f.mt f.stream f.seq).length = 8 := by simp [frameHeader]
  simp only [EFrame.bytes, List.append_assoc]
  exact List.take_left' hl

/-- one encode call from an idle encoder: identity, counters, message type and version of
    every frame, and the counter reported afterwards -/
theorem C09_encode (e : Enc) (batch : List Packet) (c : Ctx) (hidle : e.Idle) :
    let r := e.encode batch c
    r.1.Idle ∧ r.1.dev = e.dev ∧ r.1.stream = e.stream ∧
    r.1.seqc = (e.seqc + r.2.length) % 65536 ∧
    (∀ i (h : i < r.2.length), r.2[i].seq = (e.seqc + i + 1) % 65536 ∧ r.2[i].dev = e.dev ∧ r.2[i].stream = e.stream) ∧
    (∀ f ∈ r.2, ∀ m ∈ f.msgs, m.pkt.mt = f.mt) ∧
    (∀ v, (∀ p ∈ batch, p.version = v) → ∀ f ∈ r.2, f.ver = v % 256) := by
  obtain ⟨-, -, -, hq⟩ := hidle
  have hinv := encState_inv e batch c hq
  have hcur := Enc.closeLast_cur
    (((List.range batch.length).zip batch).foldl (putPacket c)
      { e with closed := [], cur := none, tmpl := none })
  change (e.encState batch c).cur = none at hcur
  rw [encode_eq]
  generalize e.encState batch c = s at hinv hcur
  have hs := hinv.seqc
  simp only [hcur, Option.isSome_none] at hs
  refine ⟨⟨rfl, rfl, rfl, ?_⟩, hinv.hdev, hinv.hstream, ?_, ?_, ?_, ?_⟩
  · show s.seqc < 65536
    omega
  · show s.seqc = _
    rw [hs]; simp
  · intro i hi
    have hf := hinv.cfr _ (List.getElem_mem hi)
    exact ⟨hinv.cseq i hi, hf.hdev, hf.hstream⟩
  · intro f hf
    exact (hinv.cfr f hf).hmt
  · intro v hv f hf
    obtain ⟨p, hp, hpv⟩ := (hinv.cfr f hf).hver
    rw [hpv, hv p hp]

/-- the setters and restart: idle again, counter 0, ids as configured -/
theorem C09_config (e : Enc) (hidle : e.Idle) (d : Nat) :
    (e.setDevice d).Idle ∧ (e.setDevice d).seqc = 0 ∧ (e.setDevice d).dev = d % 65536 ∧ (e.setDevice d).stream = e.stream ∧
    (e.setStream d).Idle ∧ (e.setStream d).seqc = 0 ∧ (e.setStream d).stream = d % 256 ∧ (e.setStream d).dev = e.dev ∧
    e.restart.Idle ∧ e.restart.seqc = 0 ∧ e.restart.dev = e.dev ∧ e.restart.stream = e.stream := by
  obtain ⟨h1, h2, h3, -⟩ := hidle
  simp [Enc.setDevice, Enc.setStream, Enc.restart, Enc.Idle, h1, h2, h3]

/-- ghost view of a history: (device id, stream id, counter of the last frame emitted since the
    last reset or 0) after the history -/
def ghost : (Nat × Nat × Nat) → EncOp → List EFrame → (Nat × Nat × Nat)
  | (_, s, _), .setDev d, _ => (d % 65536, s, 0)
  | (d, _, _), .setStream s, _ => (d, s % 256, 0)
  | (d, s, _), .restart, _ => (d, s, 0)
  | (d, s, q), .encode _ _, fs => (d, s, (q + fs.length) % 65536)

/-- what C09 demands of the frames of one call, given the ghost view before it -/
def C09_call_ok (g : Nat × Nat × Nat) (op : EncOp) (fs : List EFrame) : Prop :=
  match op with
  | .encode batch _ =>
    (∀ i (h : i < fs.length), fs[i].seq = (g.2.2 + i + 1) % 65536 ∧ fs[i].dev = g.1 ∧ fs[i].stream = g.2.1) ∧
    (∀ f ∈ fs, ∀ m ∈ f.msgs, m.pkt.mt = f.mt) ∧
    (∀ v, (∀ p ∈ batch, p.version = v) → ∀ f ∈ fs, f.ver = v % 256)
  | _ => fs = []

/-- all calls of a history satisfy `C09_call_ok`, threading the ghost view -/
def C09_hist_ok : (Nat × Nat × Nat) → List EncOp → List (List EFrame) → Prop
  | _, [], [] => True
  | g, op :: ops, fs :: fss => C09_call_ok g op fs ∧ C09_hist_ok (ghost g op fs) ops fss
  | _, _, _ => False

/-- C09 for every history: every frame of every call has the configured ids, consecutive
    counters (restarting at 1 after a reset) and the reported counter is that of the last frame -/
theorem C09_headers (e : Enc) (hidle : e.Idle) (ops : List EncOp) :
    let r := e.runOps ops
    C09_hist_ok (e.dev, e.stream, e.seqc) ops r.2 ∧
    r.1.Idle ∧
    (r.1.dev, r.1.stream, r.1.seqc) = (List.zip ops r.2).foldl (fun g x => ghost g x.1 x.2) (e.dev, e.stream, e.seqc) := by
  induction ops generalizing e with
  | nil => exact ⟨trivial, hidle, rfl⟩
  | cons op ops ih =>
    have key : C09_call_ok (e.dev, e.stream, e.seqc) op (e.apply op).2 ∧ (e.apply op).1.Idle ∧
        ((e.apply op).1.dev, (e.apply op).1.stream, (e.apply op).1.seqc) =
          ghost (e.dev, e.stream, e.seqc) op (e.apply op).2 := by
      have hcfg := C09_config e hidle
      cases op with
      | setDev d =>
        obtain ⟨h1, h2, h3, h4, -⟩ := hcfg d
        refine ⟨rfl, h1, ?_⟩
        simp only [Enc.apply, ghost, h2, h3, h4]
      | setStream d =>
        obtain ⟨-, -, -, -, h1, h2, h3, h4, -⟩ := hcfg d
        refine ⟨rfl, h1, ?_⟩
        simp only [Enc.apply, ghost, h2, h3, h4]
      | restart =>
        obtain ⟨-, -, -, -, -, -, -, -, h1, h2, h3, h4⟩ := hcfg 0
        refine ⟨rfl, h1, ?_⟩
        simp only [Enc.apply, ghost, h2, h3, h4]
      | encode b c =>
        obtain ⟨h1, h2, h3, h4, h5, h6, h7⟩ := C09_encode e b c hidle
        refine ⟨⟨h5, h6, h7⟩, h1, ?_⟩
        simp only [Enc.apply, ghost, h2, h3, h4]
    obtain ⟨h1, h2, h3⟩ := key
    have h := ih (e.apply op).1 h2
    rw [h3] at h
    simp only [Enc.runOps, List.zip_cons_cons, List.foldl_cons, C09_hist_ok]
    exact ⟨⟨h1, h.1⟩, h.2.1, h.2.2⟩

/-- non-vacuity: a freshly constructed encoder is idle -/
example : (Enc.fresh 5 7).Idle := by simp [Enc.fresh, Enc.Idle]

end AsamCmp
