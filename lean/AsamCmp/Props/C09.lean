/-
  C09  Frame headers carry consecutive sequence counters and the encoder's identity.

  Statement (properties.jsonl): over any history of configuration changes and encode calls on
  one encoder, every emitted frame carries the currently configured device id and stream id,
  the batch's protocol version and the message type of its messages, and a 16-bit sequence
  counter exactly one greater (modulo 65536) than that of the previously emitted frame,
  starting again at 1 after the device id or stream id is set or the encoder is restarted.
  The counter the encoder reports always equals that of the last frame it emitted.
-/
import AsamCmp.EncHist
namespace AsamCmp

/-- bytes 0..7 of a serialised frame are its header fields, big-endian, at the layout's offsets -/
theorem C09_header_bytes (min : Nat) (f : EFrame) :
    (EFrame.bytes min f).take 8 = frameHeader f.ver f.dev f.mt f.stream f.seq := by
  sorry

/-- one encode call from an idle encoder: identity, counters, message type and version of
    every frame, and the counter reported afterwards -/
theorem C09_encode (e : Enc) (batch : List Packet) (c : Ctx) (hidle : e.Idle) :
    let r := e.encode batch c
    r.1.Idle ∧ r.1.dev = e.dev ∧ r.1.stream = e.stream ∧
    r.1.seqc = (e.seqc + r.2.length) % 65536 ∧
    (∀ i (h : i < r.2.length), r.2[i].seq = (e.seqc + i + 1) % 65536 ∧ r.2[i].dev = e.dev ∧ r.2[i].stream = e.stream) ∧
    (∀ f ∈ r.2, ∀ m ∈ f.msgs, m.pkt.mt = f.mt) ∧
    (∀ v, (∀ p ∈ batch, p.version = v) → ∀ f ∈ r.2, f.ver = v % 256) := by
  sorry

/-- the setters and restart: idle again, counter 0, ids as configured -/
theorem C09_config (e : Enc) (hidle : e.Idle) (d : Nat) :
    (e.setDevice d).Idle ∧ (e.setDevice d).seqc = 0 ∧ (e.setDevice d).dev = d % 65536 ∧ (e.setDevice d).stream = e.stream ∧
    (e.setStream d).Idle ∧ (e.setStream d).seqc = 0 ∧ (e.setStream d).stream = d % 256 ∧ (e.setStream d).dev = e.dev ∧
    e.restart.Idle ∧ e.restart.seqc = 0 ∧ e.restart.dev = e.dev ∧ e.restart.stream = e.stream := by
  sorry

/-- ghost view of a history: (device id, stream id, counter of the last frame emitted since the
    last reset or 0) after the history -/
def ghost : (Nat × Nat × Nat) → EncOp → List EFrame → (Nat × Nat × Nat)
  | (_, s, _), .setDev d, _ => (d % 65536, s, 0)
  | (d, _, _), .setStream s, _ => (d, s % 256, 0)
  | (d, s, _), .restart, _ => (d, s, 0)
  | (d, s, q), .encode _ _, fs => (d, s, (q + fs.length) % 65536)

/-- what C09 demands of the frames of one call, given the ghost view before it -/
def C09_call_ok (g : Nat × Nat × Nat) (op : EncOp) (fs : List EFrame) : Prop :=
  match op with
  | .encode batch _ =>
    (∀ i (h : i < fs.length), fs[i].seq = (g.2.2 + i + 1) % 65536 ∧ fs[i].dev = g.1 ∧ fs[i].stream = g.2.1) ∧
    (∀ f ∈ fs, ∀ m ∈ f.msgs, m.pkt.mt = f.mt) ∧
    (∀ v, (∀ p ∈ batch, p.version = v) → ∀ f ∈ fs, f.ver = v % 256)
  | _ => fs = []

/-- all calls of a history satisfy `C09_call_ok`, threading the ghost view -/
def C09_hist_ok : (Nat × Nat × Nat) → List EncOp → List (List EFrame) → Prop
  | _, [], [] => True
  | g, op :: ops, fs :: fss => C09_call_ok g op fs ∧ C09_hist_ok (ghost g op fs) ops fss
  | _, _, _ => False

/-- C09 for every history: every frame of every call has the configured ids, consecutive
    counters (restarting at 1 after a reset) and the reported counter is that of the last frame -/
theorem C09_headers (e : Enc) (hidle : e.Idle) (ops : List EncOp) :
    let r := e.runOps ops
    C09_hist_ok (e.dev, e.stream, e.seqc) ops r.2 ∧
    r.1.Idle ∧
    (r.1.dev, r.1.stream, r.1.seqc) = (List.zip ops r.2).foldl (fun g x => ghost g x.1 x.2) (e.dev, e.stream, e.seqc) := by
  sorry

/-- non-vacuity: a freshly constructed encoder is idle -/
example : (Enc.fresh 5 7).Idle := by simp [Enc.fresh, Enc.Idle]

end AsamCmp
