/-
  Source-level C11 / C12 (part C): every field accessor of the wire records named by the API glue, translated from /repo's source on
  every run into a bit program (GeneratedSrcFields.lean), passes the decidable check of Src/BitProg.lean against the protocol
  layout table (Layout.lean) — evaluated by the kernel (`decide +kernel`, no extra axioms) — and therefore (`classCheck_sound`)
  does, for EVERY memory content, object position and in-range value, exactly what the table says: defined (no undefined
  behaviour, no access outside the header bytes), a getter returns the field and changes nothing, a setter changes exactly the
  field's bits (`setField` of the layout model, about which C11 / C12 are proved).  `*_coverage`: every field of the class has a
  getter entry and a setter entry, except the listed exemptions.
-/
import AsamCmp.GeneratedSrcFields
import AsamCmp.Lemmas.FieldCheckSound
namespace AsamCmp.SrcFields
open AsamCmp AsamCmp.Src.Bit AsamCmp.SrcGen

theorem cm_checks : classCheck Layout.c_cm entries_cm = true := by decide +kernel
theorem cm_src : ∀ e ∈ entries_cm, ∃ f, Layout.c_cm.find e.field = some f ∧ e.acc.Holds Layout.c_cm.size f :=
  classCheck_sound _ _ cm_checks
theorem cm_coverage : coverageOk Layout.c_cm entries_cm [] = true := by decide +kernel

theorem if_checks : classCheck Layout.c_if entries_if = true := by decide +kernel
theorem if_src : ∀ e ∈ entries_if, ∃ f, Layout.c_if.find e.field = some f ∧ e.acc.Holds Layout.c_if.size f :=
  classCheck_sound _ _ if_checks
theorem if_coverage : coverageOk Layout.c_if entries_if [] = true := by decide +kernel

theorem tecmphdr_checks : classCheck Layout.c_tecmphdr entries_tecmphdr = true := by decide +kernel
theorem tecmphdr_src : ∀ e ∈ entries_tecmphdr, ∃ f, Layout.c_tecmphdr.find e.field = some f ∧ e.acc.Holds Layout.c_tecmphdr.size f :=
  classCheck_sound _ _ tecmphdr_checks
theorem tecmphdr_coverage : coverageOk Layout.c_tecmphdr entries_tecmphdr [] = true := by decide +kernel

end AsamCmp.SrcFields
