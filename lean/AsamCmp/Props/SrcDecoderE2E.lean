/-
  The chain closed for the decoder: translated C++ source of `Decoder::decode` (GeneratedSrcObj.lean, Props/SrcDecoder.lean) =
  low-level model `decodeLL` (DecoderLL.lean) = decoder model `decode` (Decoder.lean, Props/C17b.lean).  So what the TRANSLATED
  SOURCE delivers for a CMP frame, and the pending table it leaves, are those of the model that C01, C02, C04, C05, C06, C17, C18
  are about.
-/
import AsamCmp.Props.SrcDecoder
namespace AsamCmp.SrcDec
open AsamCmp AsamCmp.Src AsamCmp.SrcGen

theorem decode_src_model {F : Type} (t : Table) (pre b post : Bytes) (fuel : Nat) (ext : Bytes → Nat → Nat → List F)
    (hT : C17b.TableOk t) (hR : TableReg t) (hpre : 0 < pre.length) (h8 : 8 ≤ b.length) (h0 : byteAt b 0 ≠ 0)
    (hmem : (pre ++ b ++ post).length < 2 ^ 63) (hf : b.length ≤ fuel) :
    ∃ t', ∃ outs : List PktOut,
      Decoder_decode_obj fuel (tblSt t) (pre ++ b ++ post) pre.length b.length ext = some (tblSt t', outs.map Sum.inl) ∧
      C17b.TableOk t' ∧ t'.abs = (decode t.abs (some b)).1 ∧ outs.map toPacket = (decode t.abs (some b)).2 := by
  obtain ⟨outs, h1, h2⟩ := decode_src t pre b post fuel ext hT hR hpre h8 h0 hmem hf
  obtain ⟨k1, k2, k3⟩ := C17b.decodeLL_refines t (some b) hT
  exact ⟨_, outs, h1, k1, k2, by rw [h2, k3]⟩

end AsamCmp.SrcDec
