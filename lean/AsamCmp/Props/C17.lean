/-
  C17  Decoder keeps reassembly state only for messages still in progress.

  After any history of frames the decoder holds pending reassembly data for exactly those
  endpoints whose most recent frame opened or continued a still-incomplete segmented message;
  completing, aborting or superseding a message releases its buffer.  Pending bytes never exceed
  the segment bytes received for the open messages, so traffic without open messages leaves the
  decoder's memory at its baseline however long it runs.
-/
import AsamCmp.Decoder
import AsamCmp.Props.C18
import AsamCmp.Lemmas.LayerB
namespace AsamCmp

/-- a segment terminator carries at least a message header (true of everything `parseFrame` yields) -/
def PFrame.WF (f : PFrame) : Prop :=
  match f.term with
  | .seg m => 16 ≤ m.length
  | _ => True

theorem parseFrame_WF (b : Bytes) : (parseFrame b).WF := by
  unfold PFrame.WF
  split
  · rename_i m hm
    exact walk_seg_length _ _ _ _ m hm
  · trivial

/-- Specification automaton, independent of buffers: the descriptor of the message in progress on
    one endpoint — (version, message type, counter of its latest segment) — or `none`.
    A first segment opens; an intermediary segment that arrives alone in its frame with the same
    version and type and the successor counter continues; everything else (unsegmented or invalid
    message, last segment, mismatch, header-only frame) closes. -/
def openSpec (o : Option (Nat × Nat × Nat)) (f : PFrame) : Option (Nat × Nat × Nat) :=
  match f.term with
  | .seg m =>
    if segTypeOf m = 4 then some (f.ver, f.mt, f.seq)
    else if segTypeOf m = 8 ∧ f.unseg.isEmpty then
      match o with
      | some (v, t, q) => if v = f.ver ∧ t = f.mt ∧ f.seq = (q + 1) % 65536 then some (v, t, f.seq) else none
      | none => none
    else none
  | _ => none

def openAfter (fs : List PFrame) : Option (Nat × Nat × Nat) := fs.foldl openSpec none

/-- bytes of the message in progress: segment bytes received since its first segment -/
def openBytesStep (acc : Nat) (f : PFrame) : Nat :=
  match f.term with
  | .seg m => if segTypeOf m = 4 then m.length - 16 else acc + (m.length - 16)
  | _ => 0

def openBytes (fs : List PFrame) : Nat := fs.foldl openBytesStep 0

def Pending.descr (p : Pending) : Nat × Nat × Nat := (p.ver, p.mt, p.seq)

/-- stored reassemblies always come from a first or an intermediary segment -/
def PendingOk (p : Option Pending) : Prop :=
  match p with
  | none => True
  | some q => (q.last = 4 ∨ q.last = 8) ∧ 16 ≤ q.buf.length

/-- one step refines the specification automaton -/
theorem localStep_refines (p : Option Pending) (f : PFrame) (hp : PendingOk p) (hf : f.WF) :
    (localStep p f).1.map Pending.descr = openSpec (p.map Pending.descr) f ∧ PendingOk (localStep p f).1 := by
  obtain ⟨ep, ver, mt, seq, unseg, term⟩ := f
  cases term with
  | done => simp [localStep, openSpec, PendingOk]
  | invalid => simp [localStep, openSpec, PendingOk]
  | seg m =>
    simp only [PFrame.WF] at hf
    simp only [localStep, openSpec]
    by_cases h4 : segTypeOf m = 4
    · simp [h4, PendingOk, Pending.descr, hf]
    · simp only [h4, if_false]
      by_cases hu : unseg.isEmpty = true
      · simp only [hu, if_true, and_true]
        cases p with
        | none => simp [PendingOk]
        | some q =>
          simp only [PendingOk] at hp
          obtain ⟨hlast, hbuf⟩ := hp
          have hvn : validNext q.last (segTypeOf m) = true ↔ (segTypeOf m = 8 ∨ segTypeOf m = 12) := by
            simp [validNext, hlast]
          simp only [Option.map_some, Pending.descr]
          have hlen : 16 ≤ (fixLen (q.buf ++ List.drop 16 m)).length := by
            rw [fixLen_length] <;> simp <;> omega
          simp only [hvn]
          generalize fixLen (q.buf ++ List.drop 16 m) = nb at hlen ⊢
          generalize segTypeOf m = t at *
          by_cases h12 : t = 12
          · subst h12
            constructor
            · split <;> simp
            · split <;> simp [PendingOk]
          · by_cases h8 : t = 8
            · subst h8
              by_cases hc : q.ver = ver ∧ q.mt = mt ∧ seq = (q.seq + 1) % 65536
              · obtain ⟨h1, h2, h3⟩ := hc
                simp [h1, h2, h3, PendingOk, hlen, Pending.descr]
              · have hc' : ¬ (q.ver = ver ∧ q.mt = mt ∧ seq = (q.seq + 1) % 65536 ∧ True) := by
                  simpa using hc
                simp [hc, PendingOk]
            · simp [h12, h8, PendingOk]
      · simp [hu, PendingOk]

/-- the single-endpoint fold refines the specification automaton from any admissible start -/
theorem lrun_refines : ∀ (fs : List PFrame) (p : Option Pending), (∀ f ∈ fs, f.WF) → PendingOk p →
    (lrun p fs).map Pending.descr = fs.foldl openSpec (p.map Pending.descr) ∧ PendingOk (lrun p fs) := by
  intro fs
  induction fs with
  | nil => intro p _ hp; exact ⟨rfl, hp⟩
  | cons f fs ih =>
    intro p hwf hp
    obtain ⟨h1, h2⟩ := localStep_refines p f hp (hwf f (List.mem_cons_self ..))
    have := ih (localStep p f).1 (fun g hg => hwf g (List.mem_cons_of_mem _ hg)) h2
    simp only [lrun, List.foldl_cons] at this ⊢
    rw [← h1]
    exact this

/-- pending bytes are bounded by 16 + `acc` -/
def BytesOk (p : Option Pending) (acc : Nat) : Prop :=
  match p with
  | none => True
  | some q => q.buf.length ≤ 16 + acc

theorem localStep_bytes (p : Option Pending) (f : PFrame) (acc : Nat) (hp : PendingOk p) (hf : f.WF)
    (hb : BytesOk p acc) : BytesOk (localStep p f).1 (openBytesStep acc f) := by
  obtain ⟨ep, ver, mt, seq, unseg, term⟩ := f
  cases term with
  | done => simp [localStep, BytesOk]
  | invalid => simp [localStep, BytesOk]
  | seg m =>
    simp only [PFrame.WF] at hf
    simp only [localStep, openBytesStep]
    by_cases h4 : segTypeOf m = 4
    · simp only [h4, if_true, BytesOk]; omega
    · simp only [h4, if_false]
      by_cases hu : unseg.isEmpty = true
      · simp only [hu, if_true]
        cases p with
        | none => simp [BytesOk]
        | some q =>
          simp only [PendingOk] at hp
          simp only [BytesOk] at hb
          obtain ⟨hlast, hbuf⟩ := hp
          have hlen : (fixLen (q.buf ++ List.drop 16 m)).length = q.buf.length + (m.length - 16) := by
            rw [fixLen_length] <;> simp <;> omega
          dsimp only
          generalize fixLen (q.buf ++ List.drop 16 m) = nb at hlen ⊢
          split
          · split
            · simp [BytesOk]
            · simp only [BytesOk]; omega
          · simp [BytesOk]
      · simp [hu, BytesOk]

theorem lrun_bytes : ∀ (fs : List PFrame) (p : Option Pending) (acc : Nat), (∀ f ∈ fs, f.WF) →
    PendingOk p → BytesOk p acc → BytesOk (lrun p fs) (fs.foldl openBytesStep acc) := by
  intro fs
  induction fs with
  | nil => intro p acc _ _ hb; exact hb
  | cons f fs ih =>
    intro p acc hwf hp hb
    have hf := hwf f (List.mem_cons_self ..)
    have h2 := (localStep_refines p f hp hf).2
    have h3 := localStep_bytes p f acc hp hf hb
    exact ih (localStep p f).1 _ (fun g hg => hwf g (List.mem_cons_of_mem _ hg)) h2 h3

/-- C17 (which endpoints hold state): after any history from the empty decoder, endpoint `e` has a
    pending reassembly exactly when the specification automaton, run over `e`'s own frames, says a
    message is in progress — and then with that message's descriptor -/
theorem C17_pending_iff_open (fs : List PFrame) (hwf : ∀ f ∈ fs, f.WF) (e : Ep) :
    ((run DecState.empty fs).1 e).map Pending.descr = openAfter (fs.filter (fun f => f.ep = e)) := by
  rw [run_fst_at]
  have hwf' : ∀ f ∈ fs.filter (fun f => f.ep = e), f.WF := fun f hf => hwf f (List.mem_filter.mp hf).1
  exact (lrun_refines _ none hwf' trivial).1

/-- C17 (how much): pending bytes never exceed the 16 header bytes plus the segment bytes received
    for the open message -/
theorem C17_pending_bytes (fs : List PFrame) (hwf : ∀ f ∈ fs, f.WF) (e : Ep) :
    match (run DecState.empty fs).1 e with
    | none => True
    | some q => q.buf.length ≤ 16 + openBytes (fs.filter (fun f => f.ep = e)) := by
  rw [run_fst_at]
  have hwf' : ∀ f ∈ fs.filter (fun f => f.ep = e), f.WF := fun f hf => hwf f (List.mem_filter.mp hf).1
  exact lrun_bytes _ none 0 hwf' trivial trivial

/-- C17 (baseline): if no endpoint has a message in progress, the table is empty -/
theorem C17_idle_empty (fs : List PFrame) (hwf : ∀ f ∈ fs, f.WF)
    (hidle : ∀ e, openAfter (fs.filter (fun f => f.ep = e)) = none) :
    ∀ e, (run DecState.empty fs).1 e = none := by
  intro e
  have h := C17_pending_iff_open fs hwf e
  rw [hidle e] at h
  cases hq : (run DecState.empty fs).1 e with
  | none => rfl
  | some q => rw [hq] at h; cases h

/-- endpoints that never sent a frame hold nothing -/
theorem C17_support (fs : List PFrame) (e : Ep) (h : ∀ f ∈ fs, f.ep ≠ e) :
    (run DecState.empty fs).1 e = none := by
  rw [run_fst_at]
  have : fs.filter (fun f => f.ep = e) = [] := by
    rw [List.filter_eq_nil_iff]
    intro f hf
    simpa using h f hf
  rw [this]
  rfl

/-- a frame whose walk ends without a segment (all messages unsegmented, an invalid message, or no
    message bytes at all) always releases its endpoint's buffer, whatever was pending -/
theorem C17_release (p : Option Pending) (f : PFrame) (h : ∀ m, f.term ≠ .seg m) :
    (localStep p f).1 = none := by
  unfold localStep
  split
  · rfl
  · rfl
  · rename_i m hm
    exact absurd hm (h m)

/-- completing a message releases its buffer: a last segment never leaves anything pending -/
theorem C17_last_releases (p : Option Pending) (f : PFrame) (m : Bytes) (h : f.term = .seg m)
    (hl : segTypeOf m = 12) : (localStep p f).1 = none := by
  unfold localStep
  simp only [h, hl]
  rw [if_neg (by decide)]
  split
  · rfl
  · split
    · simp
    · rfl

end AsamCmp
