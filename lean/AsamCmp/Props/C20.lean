/-
  C20  Outputs never contain or depend on uninitialised memory.

  What Lean carries: every model function is a function of its inputs and its logical state, so
  determinacy of the model is definitional; the content is in the explicit byte theorems below, most
  of them corollaries of the other properties.  PARTIAL: definedness of the real memory (no decision
  depends on an uninitialised value) cannot be exhibited by any model; it is observed with allocator /
  stack fill patterns (outputs must equal the model's under every pattern) and valgrind memcheck.
-/
import AsamCmp.Props.C07
import AsamCmp.Props.C13
import AsamCmp.Props.C05
namespace AsamCmp.C20
open AsamCmp

/-- every byte of an encoded frame is a frame-header byte, a message-header byte, a payload byte or
    an explicit zero pad byte -/
theorem frame_bytes_determined (min : Nat) (f : EFrame) :
    EFrame.bytes min f =
      frameHeader f.ver f.dev f.mt f.stream f.seq ++ f.msgs.flatMap (fun m => msgHeader m.pkt m.seg m.body.length ++ m.body) ++
      zeros (min - (8 + f.used)) := by
  have h : (frameHeader f.ver f.dev f.mt f.stream f.seq ++ f.msgs.flatMap EMsg.bytes).length = 8 + f.used := by
    have := frame_length 0 f
    simp only [EFrame.bytes, zeros, Nat.zero_sub, List.replicate_zero, List.append_nil] at this
    omega
  simp only [EFrame.bytes, h]
  rfl

/-- the reserved byte of the frame header is zero -/
theorem frame_reserved_zero (ver dev mt stream seq : Nat) : (frameHeader ver dev mt stream seq)[1]? = some 0 := by
  simp [frameHeader]

/-- the id bytes a control (or unknown-type) message leaves unused are zero, and so is the reserved
    half of the vendor word of status / vendor messages -/
theorem unused_ids_zero (p : Packet) (seg len : Nat) :
    (p.mt ≠ 1 → p.mt ≠ 3 → p.mt ≠ 0xFF → slice (msgHeader p seg len) 8 4 = [0, 0, 0, 0]) ∧
    ((p.mt = 3 ∨ p.mt = 0xFF) → slice (msgHeader p seg len) 8 2 = [0, 0]) := by
  constructor
  · intro h1 h3 hf
    have hv : ¬ (p.mt = 3 ∨ p.mt = 0xFF) := fun h => h.elim h3 hf
    have hd : List.drop 8 (beEnc 8 p.ts) = [] := List.drop_eq_nil_of_le (by simp)
    simp only [msgHeader, if_neg h1, if_neg hv, slice, List.append_assoc]
    rw [List.drop_append_of_le_length (by simp), hd]
    simp
  · intro h
    have h1 : p.mt ≠ 1 := by rcases h with h | h <;> omega
    have hd : List.drop 8 (beEnc 8 p.ts) = [] := List.drop_eq_nil_of_le (by simp)
    simp only [msgHeader, if_neg h1, if_pos h, slice, List.append_assoc]
    rw [List.drop_append_of_le_length (by simp), hd]
    simp

/-- builder output is canonical in the logical content: the padding byte of an odd stream-id list and
    every byte behind the header are written, whatever the object held before -/
theorem builder_canonical (b₁ b₂ ids v : Bytes) (h1 : 36 ≤ b₁.length) (h2 : 36 ≤ b₂.length) (hh : b₁.take 36 = b₂.take 36) :
    ifSetData b₁ ids v = ifSetData b₂ ids v := C13.if_setData_canonical b₁ b₂ ids v h1 h2 hh

/-- reassembled payload bytes are exactly the declared segment bytes -/
theorem reassembly_bytes_declared (M : SegMsg) (hwf : M.WF) (hlen : M.body.length ≤ 65535) :
    M.expected.payload = some (create (M.mt * 256 + byteAt M.first.1 13) M.body) := expected_payload M hwf hlen

end AsamCmp.C20
