/-
  Source-level `PayloadType`, `Payload` and `Packet` AS VALUES (src/payload.cpp, src/packet.cpp, include/asam_cmp/payload_type.h).

  `vlib/srcobj.py` (`PvTranslator`, "packet value mode") translates, on every run, from the typed clang AST: the `PayloadType`
  methods (the class is flattened to its `uint32_t`), the `Payload` constructors / getters / `operator==`, the payload-class
  constructors that `Packet::create` reaches (followed through their base initialisers), and ALL of `Packet`: the four
  constructors, both `operator=`, `swap`, `operator==` / `!=`, `create`, `setMessageHeader`, `setPayload`, `getPayload`, `isValid`,
  the getters that go through the owned payload and the two raw-header serialisers calling them.  The owned payload
  (`std::unique_ptr<Payload>`) is an `Option Payload_St`; dereferencing a null pointer is undefined = `none`.

  The theorems say that these translations, for ALL inputs, are defined and equal the hand-written model (Packet.lean, Values.lean)
  on represented values (`repr`, `plRepr` — bijections between model values and generated records, `abs_repr` / `repr_abs`), so
  the former contracts `mkPacket` (Src/Obj.lean: what the decoder's `std::make_shared<Packet>(…)` yields), `pktIn`
  (Props/SrcEncoder.lean: what the encoder reads from a `const Packet&`) and the value-semantics model of C14 are now theorems
  about the translated source.  Hypotheses appear only where the C++ needs them; each is explained where it is stated.
-/
import AsamCmp.GeneratedSrcObj
import AsamCmp.Values
import AsamCmp.Props.SrcEncoder
import AsamCmp.Props.SrcDecoder
import AsamCmp.Lemmas.SrcPacketValueCreate
import AsamCmp.Lemmas.SrcPacketValueHdr
set_option linter.unusedVariables false
set_option linter.unusedSimpArgs false
namespace AsamCmp.SrcPv
open AsamCmp AsamCmp.Src AsamCmp.SrcGen

/-! ## 0. representation

  `plRepr : Payload → Payload_St`, `repr : Packet → PacketV_St` (Lemmas/SrcPacketValue.lean) copy the fields; every generated
  state is the representation of exactly one model value, so a theorem about all `repr p` is a theorem about all states. -/

theorem repr_bijective : (∀ p, abs (repr p) = p) ∧ (∀ s, repr (abs s) = s) ∧
    (∀ p, plAbs (plRepr p) = p) ∧ (∀ s, plRepr (plAbs s) = s) :=
  ⟨abs_repr, repr_abs, plAbs_plRepr, plRepr_plAbs⟩

/-! ## 1. `PayloadType`

  No hypothesis: the statements hold for every `Nat` (in particular for every `uint32_t` bit pattern `ty < 2^32`). -/

theorem payloadType_src (p : Payload) :
    PayloadType_getType_pv p.ty = some (p.ty, p.ty) ∧
    PayloadType_getMessageType_pv p.ty = some (p.ty, p.mt) ∧
    PayloadType_getRawPayloadType_pv p.ty = some (p.ty, p.raw) ∧
    PayloadType_isValid_pv p.ty = some (p.ty, p.isValid) ∧
    PayloadType_ctor_u32_pv p.ty = some p.ty ∧
    (∀ q : Payload, opEq_PayloadType_pv p.ty q.ty = some (p.ty == q.ty) ∧
                    opNe_PayloadType_pv p.ty q.ty = some (p.ty != q.ty)) :=
  ⟨pt_getType _, pt_getMessageType _, pt_getRaw _, pt_isValid _, pt_ctor32 _, fun q => ⟨pt_opEq _ _, pt_opNe _ _⟩⟩

/-- `PayloadType(msgType, rawPayloadType)`.  `hmt`, `hraw`: both parameters are `uint8_t` (an enum over `uint8_t` and a
    `uint8_t`); the constructor shifts in `int`, which is defined for these values.  The getters give the two parts back. -/
theorem payloadType_ctor_src (mt raw : Nat) (hmt : mt < 256) (hraw : raw < 256) :
    PayloadType_ctor_u8_u8_pv mt raw = some (mt * 256 + raw) ∧
    (∀ d, (⟨mt * 256 + raw, d⟩ : Payload).mt = mt ∧ (⟨mt * 256 + raw, d⟩ : Payload).raw = raw) := by
  refine ⟨pt_ctor8 mt raw hmt hraw, fun d => ⟨?_, ?_⟩⟩
  · simp only [Payload.mt]; omega
  · simp only [Payload.raw]; omega

/-- the getters of `Payload` (they forward to the member `type`) -/
theorem payload_getters_src (p : Payload) :
    Payload_getType_pv (plRepr p) = some (plRepr p, p.ty) ∧
    Payload_getMessageType_pv (plRepr p) = some (plRepr p, p.mt) ∧
    Payload_getRawPayloadType_pv (plRepr p) = some (plRepr p, p.raw) ∧
    Payload_isValid_pv (plRepr p) = some (plRepr p, p.isValid) ∧
    Payload_getLength_pv (plRepr p) = some (plRepr p, p.data.length) ∧
    Payload_ctor_copy_pv (plRepr p) = some (plRepr p) :=
  ⟨pl_getType p, pl_getMessageType p, pl_getRaw p, pl_isValid p, pl_getLength p, pl_copy p⟩

/-! ## 2. `Payload(type, data, size)`

  The bytes `d` sit at address `pre.length` of the memory `pre ++ d ++ post`, `size = d.length`.  No hypothesis: the `memcpy` reads
  exactly `d` (with `post = []` a longer read would be `none`), and is skipped for `size == 0` or `PayloadType::invalid`, in which
  case the object keeps the `size` zero bytes of `payloadData(size)`. -/

theorem payload_ctor_src (ty : Nat) (pre d post : Bytes) :
    Payload_ctor_PayloadType_ptr_u64_pv (pre ++ d ++ post) ty pre.length d.length =
      some (plRepr (if ty = 0 then ⟨0, zeros d.length⟩ else ⟨ty, d⟩)) :=
  pl_ctor ty pre d post

/-! ## 3. `Packet::create`

  For EVERY type code and EVERY byte string the translated switch — validator of the case, constructor of the case, fall-through
  to `PayloadType::invalid`, `default` — is defined and builds exactly the model's `create ty d`: a case that validated with another
  class's `isValidPayload`, constructed another class, or forgot the `invalid` fall-through would break this theorem (this
  replaces the dispatch table read from the source text as the tie of C03).
  `hmem`: the memory is smaller than the address space (the validators compute `size - sizeof(Header)` in `size_t`).
  `s` is the packet the (non-static, private) method is called on: it is not touched. -/

theorem create_src (s : PacketV_St) (ty : Nat) (pre d post : Bytes) (hmem : (pre ++ d ++ post).length < 2 ^ 64) :
    Packet_create_pv s (pre ++ d ++ post) ty pre.length d.length = some (s, some (plRepr (create ty d))) :=
  create_eq s ty pre d post hmem

/-! ## 4. `Packet(msgType, data, size)`

  `h16`, `hlen`: the 16 header bytes and the declared number of payload bytes are there (the constructor reads them without
  looking at `size` — `Packet::isValidPacket` is the caller's duty; with fewer bytes the translation is `none`).
  `hmt`: `msgType` is an enum over `uint8_t`.  `hmem` as in `create_src`.  `size` is ignored (any value). -/

theorem wire_ctor_src (mt : Nat) (pre m post : Bytes) (size : Nat) (hmt : mt < 256) (h16 : 16 ≤ m.length)
    (hlen : 16 + beAt m 14 2 ≤ m.length) (hmem : (pre ++ m ++ post).length < 2 ^ 64) :
    Packet_ctor_u8_ptr_u64_pv (pre ++ m ++ post) mt pre.length size = some (repr (Packet.ofMsg mt m)) :=
  wire_ctor_eq mt pre m post size hmt h16 hlen hmem

/-- the contract `mkPacket` of Src/Obj.lean, which the translated decoder uses for `std::make_shared<Packet>(mt, data, size)`, is
    what the translated constructor does: whenever `mkPacket` on the bytes from `p` on succeeds with `o`, the constructor at
    address `p` of the same memory is defined and yields `Packet.ofMsg o.mt o.msg` -/
theorem wire_ctor_mkPacket (mt : Nat) (m : Bytes) (p size : Nat) (o : PktOut) (hmt : mt < 256) (hmem : m.length < 2 ^ 64)
    (h : mkPacket mt (m.drop p) = some o) :
    Packet_ctor_u8_ptr_u64_pv m mt p size = some (repr (Packet.ofMsg o.mt o.msg)) := by
  unfold mkPacket at h
  split at h
  · rename_i hc
    obtain ⟨h16, hlen⟩ := hc
    cases h
    have hp : p ≤ m.length := by
      have : (m.drop p).length = m.length - p := List.length_drop
      omega
    have hpl : (m.take p).length = p := by rw [List.length_take]; omega
    have hm : m.take p ++ m.drop p ++ [] = m := by rw [List.append_nil, List.take_append_drop]
    have := wire_ctor_eq mt (m.take p) (m.drop p) [] size hmt h16 hlen (by rw [hm]; exact hmem)
    rw [hm, hpl] at this
    rw [this, SrcDec.ofMsg_take]
  · cases h

/-- … and with the three setters `Decoder::decode` / `SegmentedPacket::getPacket` apply afterwards: the model packet
    `SrcDec.toPacket` that `SrcDec.decode_src` delivers -/
theorem toPacket_src (mt : Nat) (m : Bytes) (p size ver dev stream : Nat) (o : PktOut) (hmt : mt < 256)
    (hmem : m.length < 2 ^ 64) (h : mkPacket mt (m.drop p) = some o) :
    (do let s ← Packet_ctor_u8_ptr_u64_pv m mt p size
        let (s, _) ← Packet_setVersion_pv s ver
        let (s, _) ← Packet_setDeviceId_pv s dev
        let (s, _) ← Packet_setStreamId_pv s stream
        pure s) =
      some (repr (SrcDec.toPacket { o with version := ver, deviceId := dev, streamId := stream })) := by
  rw [wire_ctor_mkPacket mt m p size o hmt hmem h]
  rfl

/-! ## 5. what the encoder reads from a packet (`SrcEnc.pktIn`)

  `hf`: the members are within their C types (`Packet.Fits`; the raw-header serialisers store them into fields of those widths).
  `hp`: there is a payload — `getMessageType()`, `getPayloadType()`, `getPayload()` dereference the pointer unconditionally. -/

theorem pktIn_src (p : Packet) (pl : Payload) (hf : p.Fits) (hp : p.payload = some pl) :
    Packet_getMessageType_pv (repr p) = some (repr p, (SrcEnc.pktIn p).messageType) ∧
    Packet_getPayloadLength_pv (repr p) = some (repr p, (SrcEnc.pktIn p).payloadLength) ∧
    (∃ q, Packet_getPayload_pv (repr p) = some (repr p, q) ∧ q.f_payloadData = (SrcEnc.pktIn p).rawPayload) ∧
    Packet_getRawCmpHeader_pv (repr p) = some (repr p, (SrcEnc.pktIn p).rawCmpHeader) ∧
    Packet_getRawMessageHeader_pv (repr p) = some (repr p, (SrcEnc.pktIn p).rawMsgHeader) := by
  have hv : p.version % 256 = p.version := Nat.mod_eq_of_lt hf.1
  have hfl : p.flags % 256 = p.flags := Nat.mod_eq_of_lt hf.2.2.2.2.2.2.2.1
  refine ⟨pk_getMt p pl hp, pk_getLen p, ⟨plRepr pl, pk_getPayload p pl hp, ?_⟩, ?_, ?_⟩
  · simp only [SrcEnc.pktIn, plRepr, Packet.data, hp]
  · rw [rawCmp_pv p pl hp hf]; simp only [SrcEnc.pktIn, hv]
  · rw [rawMsg_pv p pl hp hf]; simp only [SrcEnc.pktIn, hfl]

/-- the other getters: payload type, validity (for every packet, with or without payload) -/
theorem getters_src (p : Packet) :
    Packet_getPayloadLength_pv (repr p) = some (repr p, p.payloadLength) ∧
    Packet_isValid_pv (repr p) = some (repr p, p.isValid) ∧
    (∀ pl, p.payload = some pl → Packet_getPayloadType_pv (repr p) = some (repr p, p.rawType)) :=
  ⟨pk_getLen p, pk_isValid p, fun pl hp => pk_getPt p pl hp⟩

/-- WITHOUT payload (a default-constructed or moved-from packet) `getMessageType()`, `getPayloadType()`, `getPayload()` — and the
    two serialisers, which call `getMessageType()` — are undefined in the source (null dereference) and `none` in the translation;
    `getPayloadLength()` and `isValid()` test the pointer and answer 0 / false.  This documents the guard a caller needs. -/
theorem no_payload_src (p : Packet) (hp : p.payload = none) :
    Packet_getMessageType_pv (repr p) = none ∧ Packet_getPayloadType_pv (repr p) = none ∧
    Packet_getPayload_pv (repr p) = none ∧ Packet_getRawCmpHeader_pv (repr p) = none ∧
    Packet_getRawMessageHeader_pv (repr p) = none ∧
    Packet_getPayloadLength_pv (repr p) = some (repr p, 0) ∧ Packet_isValid_pv (repr p) = some (repr p, false) := by
  obtain ⟨h1, h2, h3⟩ := pk_null p hp
  obtain ⟨h4, h5⟩ := raw_null p hp
  refine ⟨h1, h2, h3, h4, h5, ?_, ?_⟩
  · rw [pk_getLen]; simp only [Packet.payloadLength, hp]
  · rw [pk_isValid]; simp only [Packet.isValid, hp]

/-! ## 6. value semantics (C14): the translated special members = Values.lean

  No hypotheses: for every source and every prior target state (every state is a `repr`, `repr_bijective`). -/

/-- `Packet() = default`: the default member initialisers -/
theorem default_src : Packet_ctor_default_pv = some (repr Packet.dflt) := rfl

/-- copy constructor (a constructor has no prior target state: the new object depends on the source only) -/
theorem copy_src (p : Packet) : Packet_ctor_copy_pv (repr p) = some (repr (copyCtor p)) := by
  unfold Packet_ctor_copy_pv copyCtor
  cases hp : p.payload with
  | none => simp only [repr, hp, Option.map_none, Option.isSome_none, Bool.false_eq_true, if_false, pure]
  | some pl => simp only [repr, hp, Option.map_some, Option.isSome_some, if_true, bind, SrcTie.some_bind, pure, pl_copy]

/-- move constructor: (new object, source afterwards) -/
theorem moveCtor_src (p : Packet) :
    Packet_ctor_move_pv (repr p) = some (repr (moveCtor p).1, repr (moveCtor p).2) := by
  unfold Packet_ctor_move_pv
  simp only [swap_eq, bind, SrcTie.some_bind, pure, moveCtor]
  rfl

/-- `swap(Packet&, Packet&)` on two distinct objects -/
theorem swap_src (a b : Packet) : swap_Packet_pv (repr a) (repr b) = some (repr b, repr a) := swap_eq _ _

/-- copy assignment, both answers of the address comparison `this != &other` (generated from the one body): onto ANY other
    object, and onto itself -/
theorem copyAssign_src (dst src : Packet) :
    Packet_opAssign_copy_pv (repr dst) (repr src) = some (repr (copyAssign dst src), ()) ∧
    Packet_opAssign_copy_self_pv (repr src) = some (repr (copyAssign src src), ()) := by
  constructor
  · unfold Packet_opAssign_copy_pv
    simp only [copy_src, swap_eq, bind, SrcTie.some_bind, pure, copyAssign, copyCtor, Bool.not_false, if_true]
  · rfl

/-- the move constructor and the one-object `swap` on any state (rewrite rules for the two assignment theorems below, so that
    their proofs survive a body that reaches the same result through these functions) -/
theorem moveCtor_st (s : PacketV_St) : Packet_ctor_move_pv s = some (s, repr Packet.dflt) := by
  unfold Packet_ctor_move_pv
  simp only [swap_eq, bind, SrcTie.some_bind, pure]
  rfl

theorem swap_same_st (s : PacketV_St) : swap_Packet_same_pv s = some s := by
  cases s; rfl

/-- move assignment onto another object: (target afterwards, source afterwards) -/
theorem moveAssign_src (dst src : Packet) :
    Packet_opAssign_move_pv (repr dst) (repr src) =
      some (repr (moveAssign dst src).1, (), repr (moveAssign dst src).2) := by
  unfold Packet_opAssign_move_pv
  simp only [swap_eq, swap_same_st, moveCtor_st, Packet_ctor_default_pv, bind, SrcTie.some_bind, pure, moveAssign]

/-- the scalar accessors (translated over the same record): a setter changes its member and nothing else — in particular not
    the owned payload —, a getter returns its member and changes nothing -/
theorem scalar_accessors_src (p : Packet) (v : Nat) :
    Packet_setVersion_pv (repr p) v = some (repr { p with version := v }, ()) ∧
    Packet_setDeviceId_pv (repr p) v = some (repr { p with deviceId := v }, ()) ∧
    Packet_setStreamId_pv (repr p) v = some (repr { p with streamId := v }, ()) ∧
    Packet_setSequenceCounter_pv (repr p) v = some (repr { p with seq := v }, ()) ∧
    Packet_setTimestamp_pv (repr p) v = some (repr { p with ts := v }, ()) ∧
    Packet_setInterfaceId_pv (repr p) v = some (repr { p with ifId := v }, ()) ∧
    Packet_setVendorId_pv (repr p) v = some (repr { p with vendorId := v }, ()) ∧
    Packet_setCommonFlags_pv (repr p) v = some (repr { p with flags := v }, ()) ∧
    Packet_setSegmentType_pv (repr p) v = some (repr { p with segType := v }, ()) ∧
    Packet_getVersion_pv (repr p) = some (repr p, p.version) ∧
    Packet_getDeviceId_pv (repr p) = some (repr p, p.deviceId) ∧
    Packet_getStreamId_pv (repr p) = some (repr p, p.streamId) ∧
    Packet_getSequenceCounter_pv (repr p) = some (repr p, p.seq) ∧
    Packet_getTimestamp_pv (repr p) = some (repr p, p.ts) ∧
    Packet_getInterfaceId_pv (repr p) = some (repr p, p.ifId) ∧
    Packet_getVendorId_pv (repr p) = some (repr p, p.vendorId) ∧
    Packet_getCommonFlags_pv (repr p) = some (repr p, p.flags) ∧
    Packet_getSegmentType_pv (repr p) = some (repr p, p.segType) :=
  ⟨rfl, rfl, rfl, rfl, rfl, rfl, rfl, rfl, rfl, rfl, rfl, rfl, rfl, rfl, rfl, rfl, rfl, rfl⟩

/-- `swap(p, p)`: both reference parameters denote the one object (the `_same` variant, generated from the same body with every read
    and write through `lhs` / `rhs` going to the current `s`): the object is unchanged -/
theorem swap_same_src (p : Packet) : swap_Packet_same_pv (repr p) = some (repr p) := swap_same_st _

/-- SELF-move-assignment `p = std::move(p)` (the `_self` variant: the parameter `other` denotes `*this`): the object — payload
    included — is unchanged, which is what the library's swap-based design gives and what "whatever the target held before …
    self-assignment" (C14) asks.  A rewrite that releases or resets the payload before taking it over breaks this theorem. -/
theorem moveAssign_self_src (p : Packet) : Packet_opAssign_move_self_pv (repr p) = some (repr p, ()) := by
  unfold Packet_opAssign_move_self_pv
  simp only [swap_eq, swap_same_st, moveCtor_st, Packet_ctor_default_pv, bind, SrcTie.some_bind, pure]

/-- `setPayload`: the packet owns a copy of the argument -/
theorem setPayload_src (p : Packet) (pl : Payload) :
    Packet_setPayload_pv (repr p) (plRepr pl) = some (repr { p with payload := some pl }, ()) := by
  unfold Packet_setPayload_pv
  simp only [pl_copy, bind, SrcTie.some_bind, pure, repr, Option.map_some]

/-- `operator==(const Payload&, const Payload&)`.  `g` is the answer of the pointer comparison `lhsRaw == rhsRaw`, which values
    cannot decide; `hg`: equal `data()` pointers mean the same (or two empty) vectors, hence equal bytes.
    `h64`: a vector's size is a `size_t` (the loop counter is one).  `hf`: the loop runs `size` rounds plus the final test. -/
theorem payloadEq_src (a b : Payload) (g : Bool) (fuel : Nat) (hg : g = true → a.data = b.data)
    (h64 : a.data.length < 2 ^ 64) (hf : a.data.length < fuel) :
    opEq_Payload_pv fuel g (plRepr a) (plRepr b) = some (payloadEq a b) :=
  plEq a b g fuel hg h64 hf

/-- `operator==(const Packet&, const Packet&)`: nine getters, the real payload sizes, then the payloads.  Hypotheses as in
    `payloadEq_src`, about the two owned payloads if both are there. -/
theorem packetEq_src (a b : Packet) (g : Bool) (fuel : Nat)
    (hg : ∀ x y, a.payload = some x → b.payload = some y → g = true → x.data = y.data)
    (h64 : a.fullLength < 2 ^ 64) (hf : a.fullLength < fuel) :
    opEq_Packet_pv fuel g (repr a) (repr b) = some (packetEq a b) :=
  pkEq a b g fuel hg h64 hf

theorem packetNe_src (a b : Packet) (g : Bool) (fuel : Nat)
    (hg : ∀ x y, a.payload = some x → b.payload = some y → g = true → x.data = y.data)
    (h64 : a.fullLength < 2 ^ 64) (hf : a.fullLength < fuel) :
    opNe_Packet_pv fuel g (repr a) (repr b) = some (packetNe a b) := by
  unfold opNe_Packet_pv
  simp only [packetEq_src a b g fuel hg h64 hf, bind, SrcTie.some_bind, pure, packetNe]

/-! ## 7. the hypotheses are satisfiable: a CAN data message with three data bytes -/

/-- CAN payload: flags 0, id 0x12, 3 data bytes -/
def exCan : Bytes := [0, 0, 0, 0, 0, 0x12, 0, 0, 0, 0, 0, 0, 0, 0, 0, 3, 0xAA, 0xBB, 0xCC]
/-- message: timestamp 1000, interface id 3, flags 0, payload type 1 (CAN), length 19 -/
def exMsg : Bytes := [0, 0, 0, 0, 0, 0, 3, 0xE8, 0, 0, 0, 3, 0, 1, 0, 19] ++ exCan
def exPkt : Packet :=
  { payload := some ⟨tyCan, exCan⟩, version := 1, deviceId := 7, streamId := 2, seq := 5, ts := 1000, ifId := 3 }

example : exPkt.Fits :=
  ⟨by decide, by decide, by decide, by decide, by decide, by decide, by decide, by decide, by decide,
    fun pl h => by cases h; exact ⟨by decide, by decide⟩⟩

example : canValid exCan = true ∧ create tyCan exCan = ⟨tyCan, exCan⟩ ∧ exPkt.isValid = true := by decide

example : Packet.ofMsg 1 exMsg = { exPkt with version := 1, deviceId := 0, streamId := 0, seq := 0 } := by decide +kernel

-- 1
example := payloadType_src ⟨tyCan, exCan⟩
example : PayloadType_ctor_u8_u8_pv 1 1 = some tyCan := (payloadType_ctor_src 1 1 (by decide) (by decide)).1
-- 2
example : Payload_ctor_PayloadType_ptr_u64_pv ([0xFF] ++ exCan ++ [0xEE]) tyCan 1 19 = some (plRepr ⟨tyCan, exCan⟩) :=
  payload_ctor_src tyCan [0xFF] exCan [0xEE]
-- 3
example : Packet_create_pv (repr exPkt) ([0xFF] ++ exCan ++ [0xEE]) tyCan 1 19 =
    some (repr exPkt, some (plRepr (create tyCan exCan))) :=
  create_src (repr exPkt) tyCan [0xFF] exCan [0xEE] (by decide)
-- 4
example : Packet_ctor_u8_ptr_u64_pv ([0xFF] ++ exMsg ++ [0xEE]) 1 1 35 = some (repr (Packet.ofMsg 1 exMsg)) :=
  wire_ctor_src 1 [0xFF] exMsg [0xEE] 35 (by decide) (by decide) (by decide) (by decide)
example : ∃ o, mkPacket 1 (([0xFF] ++ exMsg ++ [0xEE]).drop 1) = some o ∧
    Packet_ctor_u8_ptr_u64_pv ([0xFF] ++ exMsg ++ [0xEE]) 1 1 35 = some (repr (Packet.ofMsg o.mt o.msg)) :=
  ⟨{ mt := 1, msg := exMsg }, by decide +kernel,
    wire_ctor_mkPacket 1 _ 1 35 { mt := 1, msg := exMsg } (by decide) (by decide) (by decide +kernel)⟩
-- 5
example := pktIn_src exPkt ⟨tyCan, exCan⟩
  ⟨by decide, by decide, by decide, by decide, by decide, by decide, by decide, by decide, by decide,
    fun pl h => by cases h; exact ⟨by decide, by decide⟩⟩ rfl
example := no_payload_src Packet.dflt rfl
-- 6
example := copy_src exPkt
example := moveCtor_src exPkt
example := copyAssign_src Packet.dflt exPkt
example := moveAssign_src Packet.dflt exPkt
example := swap_src Packet.dflt exPkt
example : swap_Packet_same_pv (repr exPkt) = some (repr exPkt) := swap_same_src exPkt
example : Packet_opAssign_move_self_pv (repr exPkt) = some (repr exPkt, ()) := moveAssign_self_src exPkt
example : (Packet_opAssign_move_self_pv (repr exPkt)).map (fun r => r.1.f_payload) = some (some (plRepr ⟨tyCan, exCan⟩)) := by
  decide +kernel
example : opEq_Payload_pv 20 false (plRepr ⟨tyCan, exCan⟩) (plRepr ⟨tyCan, exCan⟩) = some true :=
  payloadEq_src ⟨tyCan, exCan⟩ ⟨tyCan, exCan⟩ false 20 (fun h => by cases h) (by decide) (by decide)
example : opEq_Packet_pv 20 true (repr exPkt) (repr exPkt) = some (packetEq exPkt exPkt) :=
  packetEq_src exPkt exPkt true 20 (fun x y hx hy _ => by rw [hx] at hy; cases hy; rfl) (by decide) (by decide)
example : opNe_Packet_pv 20 false (repr exPkt) (repr Packet.dflt) = some (packetNe exPkt Packet.dflt) :=
  packetNe_src exPkt Packet.dflt false 20 (fun x y _ hy _ => by cases hy) (by decide) (by decide)

/-- the translation itself, evaluated by the kernel on the example (no theorem involved): the wire constructor on the message
    inside a larger memory, and a comparison that finds the differing byte -/
example : Packet_ctor_u8_ptr_u64_pv ([0xFF] ++ exMsg ++ [0xEE]) 1 1 35 =
    some (repr { exPkt with deviceId := 0, streamId := 0, seq := 0 }) := by decide +kernel
example : opEq_Payload_pv 20 false (plRepr ⟨tyCan, exCan⟩) (plRepr ⟨tyCan, exCan.set 17 0⟩) = some false := by decide +kernel

end AsamCmp.SrcPv
