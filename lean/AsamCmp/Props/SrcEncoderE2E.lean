/-
  The chain closed for the encoder: translated C++ source (GeneratedSrcObj.lean, Props/SrcEncoder.lean) = low-level model
  (EncoderLL.lean) = structured encoder model (Encoder.lean, Props/C07b.lean).  So the frames the TRANSLATED SOURCE returns are,
  byte for byte, the serialisation of the frames of the model that the theorems C01, C06b, C07, C08, C09, C10 are about.
-/
import AsamCmp.Props.SrcEncoder
import AsamCmp.Props.C07b
namespace AsamCmp.SrcEnc
open AsamCmp AsamCmp.Src AsamCmp.SrcGen

theorem toLL_ofLL (l : EncLL) : toLL (ofLL l) = l := rfl

/-- for EVERY encoder object of the model (any history), every batch of packets with payloads shorter than 2^16 and every valid
    configuration below 4 GiB: the translated `init; putPacket…; getEncodedData` is defined and returns exactly the serialised
    frames of the structured model, and leaves the counter and message type the model leaves -/
theorem encodeBatch_src_struct (e : Enc) (batch : List Packet) (c : Ctx) (fuel : Nat)
    (hc : c.ok = true) (hmax : c.max < 2 ^ 32) (hb : ∀ p ∈ batch, p.Enc) (hq : e.seqc < 65536) (hf : 65536 ≤ fuel) :
    ∃ s', srcEncodeBatch fuel (ofLL e.toLL) batch c.min c.max = some (s', (e.encode batch c).2.map (EFrame.bytes c.min)) ∧
      s'.f_sequenceCounter = (e.encode batch c).1.seqc ∧ s'.f_messageType = (e.encode batch c).1.curMt ∧
      s'.f_deviceId = e.dev ∧ s'.f_streamId = e.stream ∧ s'.f_cmpFrames = [] ∧ s'.f_cmpFrameTemplate = [] := by
  have h := encodeBatch_src_gen (ofLL e.toLL) batch c fuel hc hmax hf
  rw [toLL_ofLL] at h
  obtain ⟨r1, r2, r3, r4, r5, r6, r7⟩ := C07b.encodeLL_refines e batch c hc hb hq
  refine ⟨ofLL (e.toLL.encode batch c).1, ?_, r2, r3, r4, r5, r6, r7⟩
  rw [h, r1]

/-- the same for the public entry points themselves: the two iterator-range overloads of `encode` (translated member templates) -/
theorem encodeRange_src_struct (e : Enc) (batch : List Packet) (c : Ctx) (fuel : Nat)
    (hc : c.ok = true) (hmax : c.max < 2 ^ 32) (hb : ∀ p ∈ batch, p.Enc) (hq : e.seqc < 65536) (hf : 65536 ≤ fuel) :
    ∃ s', Encoder_encode_range_obj fuel (ofLL e.toLL) (batch.map pktIn) c.min c.max
            = some (s', (e.encode batch c).2.map (EFrame.bytes c.min)) ∧
      Encoder_encode_ptrRange_obj fuel (ofLL e.toLL) (batch.map pktIn) c.min c.max
            = some (s', (e.encode batch c).2.map (EFrame.bytes c.min)) ∧
      s'.f_sequenceCounter = (e.encode batch c).1.seqc ∧ s'.f_messageType = (e.encode batch c).1.curMt := by
  obtain ⟨s', h, r2, r3, _⟩ := encodeBatch_src_struct e batch c fuel hc hmax hb hq hf
  obtain ⟨h1, h2⟩ := encode_range_eq fuel (ofLL e.toLL) batch c.min c.max
  exact ⟨s', by rw [h1, h], by rw [h2, h], r2, r3⟩

end AsamCmp.SrcEnc
