/-
  C01  Encode then decode returns the original packets.

  For every non-empty batch of packets with non-empty, well-formed payloads and every frame-size
  configuration (maximum >= 25 bytes, minimum <= maximum), decoding the encoder's output frames in
  order yields exactly the original packets in the original order: same payload type and payload
  bytes, message type, timestamp, interface id (data messages) or vendor id (status/vendor
  messages), protocol version and non-segmentation flag bits, tagged with the encoder's device id
  and stream id.  This holds whether packets were aggregated into one frame or segmented over
  many, and for batches that mix message types.
-/
import AsamCmp.RoundTrip
import AsamCmp.Props.C07
import AsamCmp.Props.C05
import AsamCmp.Lemmas.WalkBytes
import AsamCmp.Lemmas.RoundTrip
namespace AsamCmp.C01
open AsamCmp

/-- C01, for every encoder state `e` (any history), every decoder state `d` (any history, even a
    stale reassembly on the same endpoint), every batch of the domain and every configuration -/
theorem C01_roundtrip (e : Enc) (d : DecState) (batch : List Packet) (c : Ctx) (v : Nat)
    (hc : c.ok = true) (hne : batch ≠ [])
    (hwf : ∀ p ∈ batch, p.WF) (hver : ∀ p ∈ batch, p.version = v)
    (hdev : e.dev < 65536) (hstream : e.stream < 256) :
    let frames := (e.encode batch c).2.map (EFrame.bytes c.min)
    let r := decodeAll tecmpDecode d (frames.map some)
    P_C01 e.dev e.stream batch r.2 = true ∧ r.1 (e.dev, e.stream) = none := by
  exact roundtrip e d batch c v hc hne hwf hver hdev hstream

end AsamCmp.C01
