/-
  C08  Segmentation and aggregation follow the protocol rules — STRENGTHENING theorems.

  Additional theorems about the EXISTING definitions (nothing existing is changed) that close the weaknesses an
  independent review found in the statements registered for C08 (Props/C07.lean, C07b.lean, SrcEncoder*.lean):

   §1  (finding 3) `P_C08` on its own admits message-less frames.  `P_C08s` = `P_C08` + "every frame holds a message";
       proved on the bytes; `frameChainOk`: the explicit reading of "segments occupy consecutive frames, one per frame
       and alone in it, flagged first, intermediary…, last", derived from `P_C08s` for ANY frame list (wire-level lemma).
   §2  (finding 1) batches that contain an EMPTY payload: conjuncts 1–4 of `P_C08` (and `P_C07`, and the frame chain) hold for
       every batch; the greedy conjunct holds whenever an empty payload has the message type of its predecessor; and the
       negative: an empty payload of a FOREIGN message type between two packets of one type breaks the greedy conjunct.
   §3  (finding 4) the message HEADERS on the wire: a second walker that keeps the 16 header bytes finds, for every batch,
       exactly the prescribed (header, body) sequence `wireOf` — every piece carries its own packet's header.
   §4  (finding 3/"exact characterisation") `P_C08s` determines the frame layout UNIQUELY.
   §5  (findings 2, 5) composed end-to-end statements about the translated C++ entry points (`encode` over an iterator
       range, over a `shared_ptr` range, and the single-packet overload) from ANY encoder object.
   §6  (finding 6) evaluated examples, positive and negative.

  HYPOTHESES used by the main theorems, and the words of the property they stand for:
    `hc : c.ok = true`                       "all DataContext in the C07 domain": 25 ≤ max and min ≤ max (no upper bound on max)
    `hb : ∀ p ∈ batch, p.Enc ∧ 1 ≤ len`      "all batches … in the C07 domain": a payload is present, 1..65535 bytes
    `hb : ∀ p ∈ batch, p.Enc`                the same WITHOUT the lower bound (payload 0..65535 bytes): beyond the domain, §2
    `emptyFollows none …`                    only in §2, only for the greedy clause: "an empty payload has the message type of
                                             its predecessor" (vacuous on the property's domain: `emptyFollows_of_pos`)
    any `e : Enc` / any `s : Encoder_St`     every encoder object, whatever earlier calls left in it
    `hq : seqc < 65536`, `hmax : max < 2^32`, `hf : 65536 ≤ fuel`
                                             only in the statements about the low-level model / the translated C++: the members
                                             are within their C types (uint16_t counter, the DataContext fields), and the
                                             translation's loop fuel covers the longest payload.  Not restrictions of the batch.
  Every main theorem is instantiated on a literal input in §2b / §6.
-/
import AsamCmp.Props.C07b
import AsamCmp.Props.SrcEncoderE2E
import AsamCmp.Props.SrcPacketValue
import AsamCmp.Lemmas.C08SGreedy
import AsamCmp.Lemmas.C08SHdr
import AsamCmp.Lemmas.C08SUnique
namespace AsamCmp.C08S
open AsamCmp

/-! ## §1  frames without messages; segments in consecutive frames -/

/-- conjuncts 1–4 of `P_C08` (Tile.lean), verbatim: prescribed (flag, length) sequence; a segment is alone in its frame;
    every message has the type announced in its frame header; no frame overflows -/
def P_C08core (c : Ctx) (batch : List (Nat × Nat)) (fs : List SFrame) : Bool :=
  ((fs.flatMap fun f => f.msgs.map fun m => (m.seg, m.body.length)) == batch.flatMap (fun (_, len) => pieceShape c.cap len)) &&
  fs.all (fun f => f.msgs.all (·.seg == 0) || f.msgs.length == 1) &&
  ((fs.flatMap fun f => f.msgs.map fun _ => f.mt) == pieceMts c.cap batch) &&
  fs.all (fun f => decide (f.used ≤ c.cap))

/-- `P_C08` is its first four conjuncts and the greedy-fill conjunct -/
theorem P_C08_split (c : Ctx) (batch : List (Nat × Nat)) (fs : List SFrame) :
    P_C08 c batch fs = (P_C08core c batch fs && greedyOk c.cap fs) := rfl

/-- every frame holds at least one message -/
def noEmptyFrame (fs : List SFrame) : Bool := fs.all (fun f => !f.msgs.isEmpty)

/-- C08 as the property's text reads it: `P_C08` and no message-less frame (without which "consecutive frames" and
    "appended whenever it fits" say nothing: an interposed empty frame hides both from `P_C08`) -/
def P_C08s (c : Ctx) (batch : List (Nat × Nat)) (fs : List SFrame) : Bool :=
  noEmptyFrame fs && P_C08 c batch fs

/-- `P_C07` contains the clause -/
theorem P_C07_noEmpty {c : Ctx} {pl : List Bytes} {fs : List SFrame} (h : P_C07 c pl fs = true) :
    noEmptyFrame fs = true := by
  unfold P_C07 at h
  simp only [Bool.and_eq_true] at h
  have h1 := h.1.1
  rw [List.all_eq_true] at h1
  unfold noEmptyFrame
  rw [List.all_eq_true]
  intro f hf
  have := h1 f hf
  simp only [Bool.and_eq_true] at this
  exact this.1.1.2

/-- the flag sequence of a well-segmented message stream, as a two-state machine (`inside` = a first segment was seen and
    its last segment not yet): outside only 0 (unsegmented) or 4 (first) may come, inside only 8 (intermediary) or 12 (last) -/
def segSeqOk : Bool → List Nat → Bool
  | inside, [] => !inside
  | inside, s :: r =>
    if inside then (s == 8 && segSeqOk true r) || (s == 12 && segSeqOk false r)
    else (s == 0 && segSeqOk false r) || (s == 4 && segSeqOk true r)

/-- "its segments occupy consecutive frames, one per frame and alone in it, flagged first, intermediary…, last", frame by
    frame: after a frame holding a first segment the IMMEDIATELY following frames hold exactly one message each, flagged
    intermediary, up to the one flagged last; outside such a run no frame holds a segment flag; no frame is empty -/
def frameChainOk : Bool → List SFrame → Bool
  | inside, [] => !inside
  | inside, f :: r =>
    match f.msgs with
    | [] => false
    | [m] =>
      if inside then (m.seg == 8 && frameChainOk true r) || (m.seg == 12 && frameChainOk false r)
      else (m.seg == 0 && frameChainOk false r) || (m.seg == 4 && frameChainOk true r)
    | m :: m' :: ms => !inside && (m :: m' :: ms).all (·.seg == 0) && frameChainOk false r

theorem segSeqOk_append (l2 : List Nat) (h2 : segSeqOk false l2 = true) :
    ∀ (l1 : List Nat) (b : Bool), segSeqOk b l1 = true → segSeqOk b (l1 ++ l2) = true := by
  intro l1
  induction l1 with
  | nil =>
    intro b h
    cases b with
    | false => simpa using h2
    | true => simp [segSeqOk] at h
  | cons s r ih =>
    intro b h
    cases b with
    | false =>
      simp only [segSeqOk, Bool.false_eq_true, if_false, Bool.or_eq_true, Bool.and_eq_true] at h
      simp only [List.cons_append, segSeqOk, Bool.false_eq_true, if_false, Bool.or_eq_true, Bool.and_eq_true]
      rcases h with h | h
      · exact Or.inl ⟨h.1, ih _ h.2⟩
      · exact Or.inr ⟨h.1, ih _ h.2⟩
    | true =>
      simp only [segSeqOk, if_true, Bool.or_eq_true, Bool.and_eq_true] at h
      simp only [List.cons_append, segSeqOk, if_true, Bool.or_eq_true, Bool.and_eq_true]
      rcases h with h | h
      · exact Or.inl ⟨h.1, ih _ h.2⟩
      · exact Or.inr ⟨h.1, ih _ h.2⟩

theorem segSeqOk_tail (n : Nat) : segSeqOk true (List.replicate n 8 ++ [12]) = true := by
  induction n with
  | zero => simp [segSeqOk]
  | succ n ih => simp [List.replicate_succ, segSeqOk, ih]

/-- the prescribed pieces of one packet are a closed run: nothing, one unsegmented message, or first, intermediary…, last -/
theorem pieceShape_segSeq (cap len : Nat) (hcap : 17 ≤ cap) :
    segSeqOk false ((pieceShape cap len).map Prod.fst) = true := by
  unfold pieceShape
  by_cases h0 : len = 0
  · simp [h0, segSeqOk]
  · rw [if_neg h0]
    by_cases h1 : 16 + len ≤ cap
    · simp [h1, segSeqOk]
    · rw [if_neg h1]
      simp only
      have hfull : 1 ≤ (len - 1) / (cap - 16) := by
        rw [Nat.le_div_iff_mul_le (by omega)]
        omega
      obtain ⟨n, hn⟩ : ∃ n, (len - 1) / (cap - 16) = n + 1 := ⟨(len - 1) / (cap - 16) - 1, by omega⟩
      rw [hn, List.range_succ_eq_map]
      simp only [List.map_cons, List.map_map, List.cons_append, segSeqOk, Bool.false_eq_true, if_false]
      have e : (List.range n).map ((fun i => (if i = 0 then 4 else 8, cap - 16)) ∘ Nat.succ) =
          List.replicate n (8, cap - 16) := by
        rw [List.eq_replicate_iff]
        refine ⟨by simp, ?_⟩
        intro b hb
        obtain ⟨i, _, rfl⟩ := List.mem_map.mp hb
        simp
      rw [e]
      simp only [↓reduceIte]
      have := segSeqOk_tail n
      simp [this]

theorem batch_segSeq (cap : Nat) (hcap : 17 ≤ cap) (batch : List (Nat × Nat)) :
    segSeqOk false ((batch.flatMap (fun (_, len) => pieceShape cap len)).map Prod.fst) = true := by
  induction batch with
  | nil => rfl
  | cons x r ih =>
    simp only [List.flatMap_cons, List.map_append]
    exact segSeqOk_append _ ih _ _ (pieceShape_segSeq cap x.2 hcap)

theorem segSeqOk_zeros (rest : List Nat) : ∀ (zs : List Nat) (b : Bool), (∀ z ∈ zs, z = 0) → zs ≠ [] →
    segSeqOk b (zs ++ rest) = true → b = false ∧ segSeqOk false rest = true := by
  intro zs
  induction zs with
  | nil => intro _ _ h; exact absurd rfl h
  | cons z zs ih =>
    intro b hz _ h
    have hz0 : z = 0 := hz z (by simp)
    subst hz0
    cases b with
    | true => simp [segSeqOk] at h
    | false =>
      simp only [List.cons_append, segSeqOk, Bool.false_eq_true, if_false, beq_self_eq_true, Bool.true_and] at h
      have h' : segSeqOk false (zs ++ rest) = true := by simpa using h
      refine ⟨rfl, ?_⟩
      cases zs with
      | nil => simpa using h'
      | cons z' zs' => exact (ih false (fun x hx => hz x (by simp [hx])) (by simp) h').2

/-- wire-level lemma, for ANY frame list: no empty frame, segments alone in their frame, and a well-bracketed flag
    sequence give the frame chain -/
theorem frameChain_of (fs : List SFrame) :
    ∀ b, noEmptyFrame fs = true →
      fs.all (fun f => f.msgs.all (·.seg == 0) || f.msgs.length == 1) = true →
      segSeqOk b (fs.flatMap fun f => f.msgs.map (·.seg)) = true → frameChainOk b fs = true := by
  induction fs with
  | nil => intro b _ _ h; simpa [frameChainOk, segSeqOk] using h
  | cons f r ih =>
    intro b hne hal hs
    simp only [noEmptyFrame, List.all_cons, Bool.and_eq_true] at hne hal
    have ih' := fun b => ih b hne.2 hal.2
    simp only [List.flatMap_cons] at hs
    unfold frameChainOk
    cases hm : f.msgs with
    | nil => simp [hm] at hne
    | cons m ms =>
      cases ms with
      | nil =>
        simp only [hm, List.map_cons, List.map_nil, List.cons_append, List.nil_append, segSeqOk] at hs
        cases b with
        | true =>
          simp only [if_true, Bool.or_eq_true, Bool.and_eq_true] at hs ⊢
          rcases hs with h | h
          · exact Or.inl ⟨h.1, ih' _ h.2⟩
          · exact Or.inr ⟨h.1, ih' _ h.2⟩
        | false =>
          simp only [Bool.false_eq_true, if_false, Bool.or_eq_true, Bool.and_eq_true] at hs ⊢
          rcases hs with h | h
          · exact Or.inl ⟨h.1, ih' _ h.2⟩
          · exact Or.inr ⟨h.1, ih' _ h.2⟩
      | cons m' ms' =>
        have hall : (m :: m' :: ms').all (·.seg == 0) = true := by
          have := hal.1
          rw [hm] at this
          simpa using this
        have hz : ∀ z ∈ (m :: m' :: ms').map (·.seg), z = 0 := by
          intro z hz
          obtain ⟨x, hx, rfl⟩ := List.mem_map.mp hz
          have := List.all_eq_true.mp hall x hx
          simpa using this
        rw [hm] at hs
        obtain ⟨hb, hrest⟩ := segSeqOk_zeros _ _ b hz (by simp) hs
        subst hb
        simp only [Bool.not_false, Bool.true_and, Bool.and_eq_true]
        exact ⟨hall, ih' _ hrest⟩

/-- wire-level: `P_C08s` (for a frame size of the domain, `25 ≤ max`) implies the frame chain — for ANY frame list, not only
    the encoder's.  In particular the reviewer's `[[(4,76)], [], [(12,24)]]` cannot satisfy `P_C08s`. -/
theorem P_C08s_frameChain (c : Ctx) (hc : c.ok = true) (batch : List (Nat × Nat)) (fs : List SFrame)
    (h : P_C08s c batch fs = true) : frameChainOk false fs = true := by
  unfold P_C08s P_C08 at h
  simp only [Bool.and_eq_true, beq_iff_eq] at h
  obtain ⟨hne, ⟨⟨⟨⟨h1, h2⟩, _⟩, _⟩, _⟩⟩ := h
  apply frameChain_of fs false hne h2
  have : (fs.flatMap fun f => f.msgs.map (·.seg)) =
      (fs.flatMap fun f => f.msgs.map fun m => (m.seg, m.body.length)).map Prod.fst := by
    rw [List.map_flatMap]
    simp [List.map_map, Function.comp_def]
  rw [this, h1]
  exact batch_segSeq c.cap (Ctx.ok_cap hc).1 batch

theorem pieceShape_full (cap len : Nat) : ∀ x ∈ pieceShape cap len, x.1 = 4 ∨ x.1 = 8 → x.2 = cap - 16 := by
  intro x hx hseg
  unfold pieceShape at hx
  by_cases h0 : len = 0
  · simp [h0] at hx
  · rw [if_neg h0] at hx
    by_cases h1 : 16 + len ≤ cap
    · rw [if_pos h1] at hx
      simp only [List.mem_singleton] at hx
      subst hx
      simp at hseg
    · rw [if_neg h1] at hx
      simp only [List.mem_append, List.mem_map, List.mem_singleton] at hx
      rcases hx with ⟨i, _, rfl⟩ | rfl
      · rfl
      · simp at hseg

/-- wire-level, for ANY frame list: "each [segment] but the last filling its frame to the maximum", spelled out.  If `P_C07` and
    conjuncts 1–4 of `P_C08` hold (frame size of the domain), a frame that holds a message flagged first (4) or intermediary
    (8) holds nothing else, carries no padding, and is exactly `max` bytes long. -/
theorem nonlast_segment_fills_frame (c : Ctx) (hc : c.ok = true) (payloads : List Bytes) (batch : List (Nat × Nat))
    (fs : List SFrame) (h7 : P_C07 c payloads fs = true) (h8 : P_C08core c batch fs = true) :
    ∀ f ∈ fs, ∀ m ∈ f.msgs, (m.seg = 4 ∨ m.seg = 8) → f.msgs = [m] ∧ f.pad = 0 ∧ f.len = c.max := by
  intro f hf m hm hseg
  obtain ⟨hcap, hmax, _⟩ := Ctx.ok_cap hc
  unfold P_C08core at h8
  simp only [Bool.and_eq_true, beq_iff_eq] at h8
  obtain ⟨⟨⟨h1, h2⟩, _⟩, _⟩ := h8
  -- alone in its frame
  have hal := List.all_eq_true.mp h2 f hf
  have hone : f.msgs = [m] := by
    simp only [Bool.or_eq_true, List.all_eq_true, beq_iff_eq] at hal
    rcases hal with h | h
    · have := h m hm; omega
    · cases hms : f.msgs with
      | nil => simp [hms] at hm
      | cons a as =>
        rw [hms] at h hm
        simp only [List.length_cons] at h
        have : as = [] := List.eq_nil_of_length_eq_zero (by omega)
        subst this
        simp only [List.mem_singleton] at hm
        rw [hm]
  -- its length is the prescribed full-segment length
  have hin : (m.seg, m.body.length) ∈ fs.flatMap (fun f => f.msgs.map fun m => (m.seg, m.body.length)) :=
    List.mem_flatMap.mpr ⟨f, hf, List.mem_map.mpr ⟨m, hm, rfl⟩⟩
  rw [h1] at hin
  obtain ⟨b, _, hb⟩ := List.mem_flatMap.mp hin
  have hlen : m.body.length = c.cap - 16 := pieceShape_full c.cap b.2 _ hb hseg
  have hused : f.used = c.cap := by
    simp only [SFrame.used, hone, List.map_cons, List.map_nil, List.sum_cons, List.sum_nil, SMsg.size, hlen]
    omega
  -- C07: length = 8 + used + pad ≤ max
  unfold P_C07 at h7
  simp only [Bool.and_eq_true] at h7
  have hw := List.all_eq_true.mp h7.1.1 f hf
  simp only [Bool.and_eq_true, decide_eq_true_eq] at hw
  obtain ⟨⟨⟨⟨_, hle⟩, _⟩, heq⟩, _⟩ := hw
  rw [hused] at heq
  exact ⟨hone, by omega, by omega⟩

/-! ## §2  every payload length 0..65535 -/

theorem tile_all (c : Ctx) (fs : List EFrame)
    (hm : ∀ f ∈ fs, ∀ m ∈ f.msgs, 1 ≤ m.body.length ∧ m.body.length < 65536 ∧ (m.seg = 0 ∨ m.seg = 4 ∨ m.seg = 8 ∨ m.seg = 12)) :
    tileFrames (fs.map (EFrame.bytes c.min)) = some (fs.map (EFrame.shape c.min)) := by
  induction fs with
  | nil => rfl
  | cons f fs ih =>
    simp only [List.map_cons, tileFrames]
    rw [tile_bytes c.min f (hm f (by simp)), ih (fun g hg => hm g (by simp [hg]))]

/-- conjuncts 1–4 of `P_C08` on the model for EVERY batch of packets with a payload shorter than 2^16 — empty payloads
    included (hypothesis `p.Enc` only: the "1 ≤ length" of `C08_seg_rules` is not needed for them) -/
theorem C08_core_any_length (e : Enc) (batch : List Packet) (c : Ctx) (hc : c.ok = true)
    (hb : ∀ p ∈ batch, p.Enc) :
    P_C08core c (batch.map fun p => (p.mt, p.data.length)) ((e.encode batch c).2.map (EFrame.shape c.min)) = true := by
  obtain ⟨hcap, _, _⟩ := Ctx.ok_cap hc
  obtain ⟨hok, hall, _⟩ := encode_spec e batch c hcap
  have hlen : ∀ ip ∈ (List.range batch.length).zip batch, ip.2.data.length < 65536 := by
    intro ip hip
    have : ip.2 ∈ batch := by
      rw [← zip_snd batch]; exact List.mem_map_of_mem hip
    exact (hb _ this).2
  unfold P_C08core
  simp only [Bool.and_eq_true]
  refine ⟨⟨⟨?_, ?_⟩, ?_⟩, ?_⟩
  · rw [beq_iff_eq, shape_flatMap c.min (fun s b => (s, b.length)), hall, pieces_shapes c hcap _ hlen, zip_snd]
  · rw [List.all_eq_true]
    intro g hg
    obtain ⟨f, hf, rfl⟩ := List.mem_map.mp hg
    rcases (hok f hf).1.alone with h | h
    · simp [EFrame.shape, List.all_map, Function.comp_def]
      exact Or.inl h
    · simp [EFrame.shape, h]
  · rw [beq_iff_eq, shape_mts c.min _ (fun f hf => (hok f hf).1), hall, pieces_mts c hcap _ hlen, zip_snd]
  · rw [List.all_eq_true]
    intro g hg
    obtain ⟨f, hf, rfl⟩ := List.mem_map.mp hg
    rw [shape_used]
    exact decide_eq_true (hok f hf).1.used

/-- the greedy conjunct on the model for every batch in which an empty payload has the message type of the packet in front
    of it (`emptyFollows`, Lemmas/C08SGreedy.lean; true of every batch without empty payloads) -/
theorem C08_greedy_empty_follows (e : Enc) (batch : List Packet) (c : Ctx) (hc : c.ok = true)
    (hb : ∀ p ∈ batch, p.Enc)
    (hef : emptyFollows none (batch.map fun p => (p.mt, p.data.length)) = true) :
    greedyOk c.cap ((e.encode batch c).2.map (EFrame.shape c.min)) = true := by
  obtain ⟨hcap, _, _⟩ := Ctx.ok_cap hc
  obtain ⟨hok, _, _⟩ := encode_spec e batch c hcap
  have e1 : (batch.map fun p => (p.mt, p.payloadLength)) = batch.map fun p => (p.mt, p.data.length) := by
    apply List.map_congr_left
    intro p hp
    rw [(hb p hp).plen]
  exact greedyOk_of c c.min _ (fun f hf => (hok f hf).1.mtlt) (encode_greedyE e batch c hcap (e1 ▸ hef))

/-- **finding 1, closed.**  On the BYTES, for every encoder state, every configuration with `25 ≤ max`, `min ≤ max` and every
    batch of packets with a payload of 0..65535 bytes: tiling succeeds, `P_C07` holds, no frame is empty, conjuncts 1–4 of
    `P_C08` hold, the segments form the frame chain — and the greedy conjunct (hence all of `P_C08`) holds whenever an empty
    payload has the message type of its predecessor. -/
theorem C08_bytes_any_length (e : Enc) (batch : List Packet) (c : Ctx) (hc : c.ok = true)
    (hb : ∀ p ∈ batch, p.Enc) :
    ∃ fs, tileFrames ((e.encode batch c).2.map (EFrame.bytes c.min)) = some fs ∧
      P_C07 c (batch.map Packet.data) fs = true ∧
      noEmptyFrame fs = true ∧
      P_C08core c (batch.map fun p => (p.mt, p.data.length)) fs = true ∧
      (emptyFollows none (batch.map fun p => (p.mt, p.data.length)) = true →
        P_C08s c (batch.map fun p => (p.mt, p.data.length)) fs = true ∧ frameChainOk false fs = true) := by
  have h7 := C07_frames_wf e batch c hc hb
  have hcore := C08_core_any_length e batch c hc hb
  refine ⟨_, tile_all c _ (encode_msgs_ok e batch c hc), h7, P_C07_noEmpty h7, hcore, ?_⟩
  intro hef
  have hs : P_C08s c (batch.map fun p => (p.mt, p.data.length)) ((e.encode batch c).2.map (EFrame.shape c.min)) = true := by
    unfold P_C08s
    rw [P_C08_split, P_C07_noEmpty h7, hcore, C08_greedy_empty_follows e batch c hc hb hef]
    rfl
  exact ⟨hs, P_C08s_frameChain c hc _ _ hs⟩

/-- "each but the last filling its frame to the maximum" on the encoder's bytes, every payload length 0..65535: a frame that
    holds a first or intermediary segment holds nothing else, has no padding and is exactly `max` bytes long -/
theorem C08_nonlast_segments_fill_bytes (e : Enc) (batch : List Packet) (c : Ctx) (hc : c.ok = true)
    (hb : ∀ p ∈ batch, p.Enc) :
    ∃ fs, tileFrames ((e.encode batch c).2.map (EFrame.bytes c.min)) = some fs ∧
      ∀ f ∈ fs, ∀ m ∈ f.msgs, (m.seg = 4 ∨ m.seg = 8) → f.msgs = [m] ∧ f.pad = 0 ∧ f.len = c.max := by
  obtain ⟨fs, h1, h2, _, h4, _⟩ := C08_bytes_any_length e batch c hc hb
  exact ⟨fs, h1, nonlast_segment_fills_frame c hc _ _ fs h2 h4⟩

/-- **finding 3, closed** on the property's own domain (payload length 1..65535, `25 ≤ max`, `min ≤ max`): the strengthened
    predicate `P_C08s` (no message-less frame) and the explicit consecutive-frames chain hold of the tiled bytes -/
theorem C08_strong_bytes (e : Enc) (batch : List Packet) (c : Ctx) (hc : c.ok = true)
    (hb : ∀ p ∈ batch, p.Enc ∧ 1 ≤ p.data.length) :
    ∃ fs, tileFrames ((e.encode batch c).2.map (EFrame.bytes c.min)) = some fs ∧
      P_C07 c (batch.map Packet.data) fs = true ∧
      P_C08s c (batch.map fun p => (p.mt, p.data.length)) fs = true ∧
      frameChainOk false fs = true := by
  obtain ⟨fs, h1, h2, _, _, h5⟩ := C08_bytes_any_length e batch c hc (fun p hp => (hb p hp).1)
  have := h5 (emptyFollows_of_pos _ _ (by
    intro x hx
    obtain ⟨p, hp, rfl⟩ := List.mem_map.mp hx
    exact (hb p hp).2))
  exact ⟨fs, h1, h2, this.1, this.2⟩

/-- the same of the low-level (line-by-line) model -/
theorem C08_strong_lowlevel (e : Enc) (batch : List Packet) (c : Ctx) (hc : c.ok = true)
    (hb : ∀ p ∈ batch, p.Enc ∧ 1 ≤ p.data.length) (hq : e.seqc < 65536) :
    ∃ fs, tileFrames (e.toLL.encode batch c).2 = some fs ∧
      P_C07 c (batch.map Packet.data) fs = true ∧
      P_C08s c (batch.map fun p => (p.mt, p.data.length)) fs = true ∧
      frameChainOk false fs = true := by
  rw [(C07b.encodeLL_refines e batch c hc (fun p hp => (hb p hp).1) hq).1]
  exact C08_strong_bytes e batch c hc hb

/-- … and `C08_bytes_any_length` of the low-level model -/
theorem C08_lowlevel_any_length (e : Enc) (batch : List Packet) (c : Ctx) (hc : c.ok = true)
    (hb : ∀ p ∈ batch, p.Enc) (hq : e.seqc < 65536) :
    ∃ fs, tileFrames (e.toLL.encode batch c).2 = some fs ∧
      P_C07 c (batch.map Packet.data) fs = true ∧
      noEmptyFrame fs = true ∧
      P_C08core c (batch.map fun p => (p.mt, p.data.length)) fs = true ∧
      (emptyFollows none (batch.map fun p => (p.mt, p.data.length)) = true →
        P_C08s c (batch.map fun p => (p.mt, p.data.length)) fs = true ∧ frameChainOk false fs = true) := by
  rw [(C07b.encodeLL_refines e batch c hc hb hq).1]
  exact C08_bytes_any_length e batch c hc hb

/-! ## §3  the message headers on the wire (finding 4) -/

/-- what the tiler of Tile.lean keeps of a message the header walker found -/
def toSMsg (hb : Bytes × Bytes) : SMsg := ⟨byteAt hb.1 12 &&& 0x0C, hb.2⟩

/-- the header walker (`tileFrameH`, Lemmas/C08SHdr.lean) and the tiler of Tile.lean cut a frame into the same messages -/
theorem tileFrameH_tileFrame (b : Bytes) :
    (tileFrameH b).map (fun ms => ms.map toSMsg) = (tileFrame b).map (·.msgs) := by
  unfold tileFrameH tileFrame
  by_cases h : b.length < 8
  · simp [h]
  · simp only [h, if_false]
    have := tileMsgsH_tileMsgs (b.length + 1) (b.drop 8)
    cases h2 : tileMsgs (b.length + 1) (b.drop 8) with
    | none =>
      rw [h2] at this
      cases h1 : tileMsgsH (b.length + 1) (b.drop 8) with
      | none => rfl
      | some x => rw [h1] at this; simp at this
    | some x =>
      obtain ⟨ms', pad⟩ := x
      rw [h2] at this
      cases h1 : tileMsgsH (b.length + 1) (b.drop 8) with
      | none => rw [h1] at this; simp at this
      | some ms =>
        rw [h1] at this
        simp only [Option.map_some, Option.some.injEq] at this
        simp only [Option.map_some, Option.some.injEq]
        exact this

/-- … and so do `wireMsgs` and `tileFrames` over a list of frames: same success, same messages in the same order -/
theorem wireMsgs_tileFrames (bs : List Bytes) :
    (wireMsgs bs).map (fun ms => ms.map toSMsg) = (tileFrames bs).map (fun fs => fs.flatMap (·.msgs)) := by
  induction bs with
  | nil => rfl
  | cons b bs ih =>
    have hb := tileFrameH_tileFrame b
    unfold wireMsgs tileFrames
    cases h1 : tileFrameH b with
    | none =>
      rw [h1] at hb
      cases h2 : tileFrame b with
      | none => rfl
      | some f => rw [h2] at hb; simp at hb
    | some ms =>
      rw [h1] at hb
      cases h2 : tileFrame b with
      | none => rw [h2] at hb; simp at hb
      | some f =>
        rw [h2] at hb
        simp only [Option.map_some, Option.some.injEq] at hb
        cases h3 : wireMsgs bs with
        | none =>
          rw [h3] at ih
          cases h4 : tileFrames bs with
          | none => rfl
          | some fs => rw [h4] at ih; simp at ih
        | some ws =>
          rw [h3] at ih
          cases h4 : tileFrames bs with
          | none => rw [h4] at ih; simp at ih
          | some fs =>
            rw [h4] at ih
            simp only [Option.map_some, Option.some.injEq] at ih
            simp only [Option.map_some, List.map_append, List.flatMap_cons, hb, ih]

/-- **finding 4, closed.**  For every encoder state, every configuration of the domain and every batch of packets with a
    payload of 0..65535 bytes: the header-keeping walker succeeds on the encoder's bytes and finds EXACTLY the prescribed
    message sequence `batch.flatMap (wireOf cap)`: packets in batch order, for each packet one message per prescribed piece,
    every piece — first, intermediary and last segments alike — carrying the 16-byte header of ITS OWN packet
    (`msgHeader p seg len`: timestamp, interface / vendor id, flags, payload type, the piece's segment bits and length),
    followed by the consecutive slice of that packet's payload. -/
theorem C08_wire_messages (e : Enc) (batch : List Packet) (c : Ctx) (hc : c.ok = true)
    (hb : ∀ p ∈ batch, p.Enc) :
    wireMsgs ((e.encode batch c).2.map (EFrame.bytes c.min)) = some (batch.flatMap (wireOf c.cap)) := by
  obtain ⟨hcap, _, _⟩ := Ctx.ok_cap hc
  obtain ⟨_, hall, _⟩ := encode_spec e batch c hcap
  have hlen : ∀ ip ∈ (List.range batch.length).zip batch, ip.2.data.length < 65536 := by
    intro ip hip
    have : ip.2 ∈ batch := by
      rw [← zip_snd batch]; exact List.mem_map_of_mem hip
    exact (hb _ this).2
  rw [wireMsgs_bytes c.min _ (encode_msgs_ok e batch c hc), hall, pieces_wires c hcap _ hlen, zip_snd]

/-- the same of the low-level (line-by-line) model -/
theorem C08_wire_messages_lowlevel (e : Enc) (batch : List Packet) (c : Ctx) (hc : c.ok = true)
    (hb : ∀ p ∈ batch, p.Enc) (hq : e.seqc < 65536) :
    wireMsgs (e.toLL.encode batch c).2 = some (batch.flatMap (wireOf c.cap)) := by
  rw [(C07b.encodeLL_refines e batch c hc hb hq).1]
  exact C08_wire_messages e batch c hc hb

/-- `wireOf` unfolded for a packet that fits an empty frame: ONE message, unsegmented, the packet's header with its full
    length, the whole payload -/
theorem wireOf_fits (cap : Nat) (p : Packet) (h1 : 1 ≤ p.data.length) (h2 : 16 + p.data.length ≤ cap) :
    wireOf cap p = [(msgHeader p 0 p.data.length, p.data)] := by
  unfold wireOf pieceShape
  rw [if_neg (by omega), if_pos h2]
  simp [cut]

/-- `wireOf` for an empty payload: nothing -/
theorem wireOf_empty (cap : Nat) (p : Packet) (h : p.data.length = 0) : wireOf cap p = [] := by
  unfold wireOf pieceShape
  rw [if_pos h]
  rfl

/-! ## §4  `P_C08s` determines the frame layout uniquely -/

/-- the clauses of `P_C08s`, as propositions -/
theorem P_C08s_parts {c : Ctx} {batch : List (Nat × Nat)} {fs : List SFrame} (h : P_C08s c batch fs = true) :
    (∀ f ∈ fs, FOk c.cap f) ∧ greedyOk c.cap fs = true ∧
    fs.flatMap K = batch.flatMap (fun (_, len) => pieceShape c.cap len) ∧ mtsOf fs = pieceMts c.cap batch := by
  unfold P_C08s P_C08 noEmptyFrame at h
  simp only [Bool.and_eq_true, beq_iff_eq] at h
  obtain ⟨hne, ⟨⟨⟨⟨h1, h2⟩, h3⟩, h4⟩, h5⟩⟩ := h
  rw [List.all_eq_true] at hne h2 h4
  refine ⟨?_, h5, h1, ?_⟩
  · intro f hf
    refine ⟨?_, ?_, ?_⟩
    · have := hne f hf
      intro hk
      have : f.msgs = [] := by simpa [K] using hk
      simp [this] at *
    · have := h2 f hf
      simp only [Bool.or_eq_true, List.all_eq_true, beq_iff_eq] at this
      rcases this with h | h
      · left
        intro x hx
        obtain ⟨m, hm, rfl⟩ := List.mem_map.mp hx
        exact h m hm
      · right; simpa [K] using h
    · simpa using h4 f hf
  · rw [← h3]
    simp only [mtsOf, K, List.map_map]
    rfl

/-- **exact characterisation.**  Two frame lists that both satisfy `P_C08s` for the same batch and configuration have the
    same layout: the same number of frames, frame by frame the same announced message type and the same (flag, length)
    list.  So the predicate leaves the encoder no freedom: any other way of cutting or grouping the batch is rejected. -/
theorem P_C08s_unique (c : Ctx) (batch : List (Nat × Nat)) (fs fs' : List SFrame)
    (h : P_C08s c batch fs = true) (h' : P_C08s c batch fs' = true) :
    fs.map frameKey = fs'.map frameKey := by
  obtain ⟨a1, a2, a3, a4⟩ := P_C08s_parts h
  obtain ⟨b1, b2, b3, b4⟩ := P_C08s_parts h'
  exact unique_aux c.cap fs fs' a1 b1 a2 b2 (a3.trans b3.symm) (a4.trans b4.symm)

/-- on the encoder: on the property's domain, whatever frame list `gs` an observer could write down that satisfies `P_C08s`
    for the batch has the layout of the frames the encoder put on the wire -/
theorem C08_layout_is_the_only_one (e : Enc) (batch : List Packet) (c : Ctx) (hc : c.ok = true)
    (hb : ∀ p ∈ batch, p.Enc ∧ 1 ≤ p.data.length) :
    ∃ fs, tileFrames ((e.encode batch c).2.map (EFrame.bytes c.min)) = some fs ∧
      ∀ gs, P_C08s c (batch.map fun p => (p.mt, p.data.length)) gs = true → gs.map frameKey = fs.map frameKey := by
  obtain ⟨fs, h1, _, h3, _⟩ := C08_strong_bytes e batch c hc hb
  exact ⟨fs, h1, fun gs hg => P_C08s_unique c _ gs fs hg h3⟩

/-- a frame list in which every message is a segment, no frame is empty and a segment is alone: one message per frame -/
theorem singletons_of_segments : ∀ (fs : List SFrame), (∀ f ∈ fs, K f ≠ [] ∧ ((∀ x ∈ K f, x.1 = 0) ∨ (K f).length = 1)) →
    (∀ x ∈ fs.flatMap K, x.1 ≠ 0) → fs.map K = (fs.flatMap K).map (fun x => [x]) := by
  intro fs
  induction fs with
  | nil => intro _ _; rfl
  | cons f r ih =>
    intro h hs
    have hf := h f (by simp)
    have hlen : (K f).length = 1 := by
      rcases hf.2 with h0 | h1
      · cases hk : K f with
        | nil => exact absurd hk hf.1
        | cons x xs =>
          exfalso
          exact hs x (by simp [hk]) (h0 x (by simp [hk]))
      · exact h1
    cases hk : K f with
    | nil => simp [hk] at hlen
    | cons x xs =>
      have hxs : xs = [] := by
        rw [hk] at hlen
        simp at hlen
        exact hlen
      subst hxs
      simp only [List.map_cons, List.flatMap_cons, hk, List.cons_append, List.nil_append, List.cons.injEq, true_and]
      exact ih (fun g hg => h g (by simp [hg])) (fun y hy => hs y (by simp [hy]))

theorem pieceShape_seg_ne (cap len : Nat) (h : ¬ 16 + len ≤ cap) : ∀ x ∈ pieceShape cap len, x.1 ≠ 0 := by
  intro x hx
  unfold pieceShape at hx
  by_cases h0 : len = 0
  · simp [h0] at hx
  · rw [if_neg h0, if_neg h] at hx
    simp only [List.mem_append, List.mem_map, List.mem_singleton] at hx
    rcases hx with ⟨i, _, rfl⟩ | rfl
    · simp only; split <;> omega
    · simp

/-- **the single large packet** (the use of the overload `encode(const Packet&, const DataContext&)`): a packet that does not
    fit an empty frame comes out as exactly one frame per prescribed piece — consecutive frames, each holding that one
    segment and nothing else, each announcing the packet's message type -/
theorem C08_single_large_packet (e : Enc) (p : Packet) (c : Ctx) (hc : c.ok = true) (hp : p.Enc)
    (hbig : ¬ 16 + p.data.length ≤ c.cap) :
    ∃ fs, tileFrames ((e.encode [p] c).2.map (EFrame.bytes c.min)) = some fs ∧
      fs.map frameKey = (pieceShape c.cap p.data.length).map (fun x => (p.mt, [x])) := by
  have hb : ∀ q ∈ [p], q.Enc ∧ 1 ≤ q.data.length := by
    intro q hq
    simp only [List.mem_singleton] at hq
    subst hq
    have := (Ctx.ok_cap hc).1
    exact ⟨hp, by omega⟩
  obtain ⟨fs, h1, _, h3, _⟩ := C08_strong_bytes e [p] c hc hb
  refine ⟨fs, h1, ?_⟩
  obtain ⟨a1, _, a3, a4⟩ := P_C08s_parts h3
  simp only [List.map_cons, List.map_nil, List.flatMap_cons, List.flatMap_nil, List.append_nil] at a3
  have a4' : mtsOf fs = (pieceShape c.cap p.data.length).map (fun _ => p.mt) := by
    rw [a4]; simp [pieceMts]
  have hK := singletons_of_segments fs (fun f hf => ⟨(a1 f hf).ne, (a1 f hf).alone⟩)
    (by rw [a3]; exact pieceShape_seg_ne c.cap _ hbig)
  rw [a3] at hK
  -- the message types, frame by frame
  have hmt : ∀ (gs : List SFrame) (l : List (Nat × Nat)), gs.map K = l.map (fun x => [x]) →
      mtsOf gs = l.map (fun _ => p.mt) → gs.map frameKey = l.map (fun x => (p.mt, [x])) := by
    intro gs
    induction gs with
    | nil => intro l h _; cases l with
      | nil => rfl
      | cons x l => simp at h
    | cons g gs ih =>
      intro l h hm
      cases l with
      | nil => simp at h
      | cons x l =>
        simp only [List.map_cons, List.cons.injEq] at h
        rw [mtsOf_cons, h.1] at hm
        simp only [List.map_cons, List.map_nil, List.cons_append, List.nil_append, List.cons.injEq] at hm
        simp only [List.map_cons, List.cons.injEq]
        exact ⟨by simp [frameKey, h.1, hm.1], ih l h.2 hm.2⟩
  exact hmt fs _ hK a4'

/-! ## §5  the translated C++ entry points, end to end (findings 2 and 5) -/

open AsamCmp.Src AsamCmp.SrcGen

/-- the encoder object of the model that a record of the C++ data members stands for: identity, counter, message type (the
    scratch members — frames, template, bytesLeft, min, max — are overwritten by `init` at the start of every `encode`) -/
def encOf (s : Encoder_St) : Enc :=
  { dev := s.f_deviceId, stream := s.f_streamId, seqc := s.f_sequenceCounter, curMt := s.f_messageType }

/-- `EncLL.init` overwrites every scratch member: an `encode` call from ANY member values is the call from the idle state
    with the same identity, counter and message type -/
theorem toLL_encode_eq (s : Encoder_St) (batch : List Packet) (c : Ctx) :
    (SrcEnc.toLL s).encode batch c = (encOf s).toLL.encode batch c := rfl

/-- everything §1–§3 say about one frame list, in one predicate over the BYTES an entry point returned -/
def C08Bytes (c : Ctx) (batch : List Packet) (frames : List Bytes) : Prop :=
  ∃ fs, tileFrames frames = some fs ∧
    P_C07 c (batch.map Packet.data) fs = true ∧
    P_C08s c (batch.map fun p => (p.mt, p.data.length)) fs = true ∧
    frameChainOk false fs = true ∧
    wireMsgs frames = some (batch.flatMap (wireOf c.cap))

theorem C08Bytes_model (e : Enc) (batch : List Packet) (c : Ctx) (hc : c.ok = true)
    (hb : ∀ p ∈ batch, p.Enc ∧ 1 ≤ p.data.length) :
    C08Bytes c batch ((e.encode batch c).2.map (EFrame.bytes c.min)) := by
  obtain ⟨fs, h1, h2, h3, h4⟩ := C08_strong_bytes e batch c hc hb
  exact ⟨fs, h1, h2, h3, h4, C08_wire_messages e batch c hc (fun p hp => (hb p hp).1)⟩

/-- **finding 5, closed.**  The two iterator-range overloads of `Encoder::encode` as TRANSLATED FROM THE C++ SOURCE, called on
    ANY encoder object `s` whose sequence counter is within its C type (uint16_t; nothing is asked of the scratch members:
    whatever earlier calls left there), with any configuration of the domain below 4 GiB (the C type of the DataContext
    fields) and any batch of packets with a payload of 1..65535 bytes: the call is defined, and the returned byte vectors
    tile into frames that satisfy C07, the strengthened C08, the consecutive-segment chain and the header sequence. -/
theorem C08_source_range (s : Encoder_St) (batch : List Packet) (c : Ctx) (fuel : Nat)
    (hq : s.f_sequenceCounter < 65536) (hc : c.ok = true) (hmax : c.max < 2 ^ 32)
    (hb : ∀ p ∈ batch, p.Enc ∧ 1 ≤ p.data.length) (hf : 65536 ≤ fuel) :
    ∃ s' frames,
      Encoder_encode_range_obj fuel s (batch.map SrcEnc.pktIn) c.min c.max = some (s', frames) ∧
      Encoder_encode_ptrRange_obj fuel s (batch.map SrcEnc.pktIn) c.min c.max = some (s', frames) ∧
      frames = ((encOf s).encode batch c).2.map (EFrame.bytes c.min) ∧
      C08Bytes c batch frames := by
  obtain ⟨h1, h2⟩ := SrcEnc.encodeRange_src s batch c fuel hc hmax hf
  have hr := (C07b.encodeLL_refines (encOf s) batch c hc (fun p hp => (hb p hp).1) hq).1
  rw [toLL_encode_eq] at h1 h2
  exact ⟨_, _, h1, h2, hr, hr ▸ C08Bytes_model (encOf s) batch c hc hb⟩

/-- **finding 2, closed**: the single-packet overload `encode(const Packet&, const DataContext&)`, translated as a whole, from
    ANY encoder object: defined, returns the serialised frames of the structured model for the one-packet batch -/
theorem encode1_src_struct (s : Encoder_St) (p : Packet) (c : Ctx) (fuel : Nat)
    (hq : s.f_sequenceCounter < 65536) (hc : c.ok = true) (hmax : c.max < 2 ^ 32) (hp : p.Enc) (hf : 65536 ≤ fuel) :
    ∃ s', Encoder_encode_obj fuel s (SrcEnc.pktIn p) c.min c.max
            = some (s', ((encOf s).encode [p] c).2.map (EFrame.bytes c.min)) ∧
      s'.f_sequenceCounter = ((encOf s).encode [p] c).1.seqc ∧ s'.f_messageType = ((encOf s).encode [p] c).1.curMt ∧
      s'.f_deviceId = s.f_deviceId ∧ s'.f_streamId = s.f_streamId ∧ s'.f_cmpFrames = [] ∧ s'.f_cmpFrameTemplate = [] := by
  have h := SrcEnc.encode1_src_gen s p c fuel hc hmax hf
  rw [toLL_encode_eq] at h
  have hb : ∀ q ∈ [p], q.Enc := by
    intro q hq'
    simp only [List.mem_singleton] at hq'
    subst hq'
    exact hp
  obtain ⟨r1, r2, r3, r4, r5, r6, r7⟩ := C07b.encodeLL_refines (encOf s) [p] c hc hb hq
  exact ⟨_, by rw [h, r1], r2, r3, r4, r5, r6, r7⟩

/-- … and C07 / C08 of what it returns, for a packet of the domain (payload 1..65535 bytes) -/
theorem C08_source_single (s : Encoder_St) (p : Packet) (c : Ctx) (fuel : Nat)
    (hq : s.f_sequenceCounter < 65536) (hc : c.ok = true) (hmax : c.max < 2 ^ 32)
    (hp : p.Enc ∧ 1 ≤ p.data.length) (hf : 65536 ≤ fuel) :
    ∃ s' frames, Encoder_encode_obj fuel s (SrcEnc.pktIn p) c.min c.max = some (s', frames) ∧
      C08Bytes c [p] frames ∧
      (¬ 16 + p.data.length ≤ c.cap →
        ∃ fs, tileFrames frames = some fs ∧
          fs.map frameKey = (pieceShape c.cap p.data.length).map (fun x => (p.mt, [x]))) := by
  obtain ⟨s', h, _⟩ := encode1_src_struct s p c fuel hq hc hmax hp.1 hf
  have hb : ∀ q ∈ [p], q.Enc ∧ 1 ≤ q.data.length := by
    intro q hq'
    simp only [List.mem_singleton] at hq'
    subst hq'
    exact hp
  exact ⟨s', _, h, C08Bytes_model (encOf s) [p] c hc hb,
    fun hbig => C08_single_large_packet (encOf s) p c hc hp.1 hbig⟩

/-- `C08_bytes_any_length` (payload length 0..65535) of the translated entry points -/
theorem C08_source_range_any_length (s : Encoder_St) (batch : List Packet) (c : Ctx) (fuel : Nat)
    (hq : s.f_sequenceCounter < 65536) (hc : c.ok = true) (hmax : c.max < 2 ^ 32)
    (hb : ∀ p ∈ batch, p.Enc) (hf : 65536 ≤ fuel) :
    ∃ s' frames fs,
      Encoder_encode_range_obj fuel s (batch.map SrcEnc.pktIn) c.min c.max = some (s', frames) ∧
      Encoder_encode_ptrRange_obj fuel s (batch.map SrcEnc.pktIn) c.min c.max = some (s', frames) ∧
      tileFrames frames = some fs ∧
      P_C07 c (batch.map Packet.data) fs = true ∧ noEmptyFrame fs = true ∧
      P_C08core c (batch.map fun p => (p.mt, p.data.length)) fs = true ∧
      wireMsgs frames = some (batch.flatMap (wireOf c.cap)) ∧
      (emptyFollows none (batch.map fun p => (p.mt, p.data.length)) = true →
        P_C08s c (batch.map fun p => (p.mt, p.data.length)) fs = true ∧ frameChainOk false fs = true) := by
  obtain ⟨h1, h2⟩ := SrcEnc.encodeRange_src s batch c fuel hc hmax hf
  have hr := (C07b.encodeLL_refines (encOf s) batch c hc hb hq).1
  rw [toLL_encode_eq, hr] at h1 h2
  obtain ⟨fs, a1, a2, a3, a4, a5⟩ := C08_bytes_any_length (encOf s) batch c hc hb
  exact ⟨_, _, fs, h1, h2, a1, a2, a3, a4, C08_wire_messages (encOf s) batch c hc hb, a5⟩

/-- **finding 2, second half**: what the encoder READS from a packet is consistent, and it is what the translated C++ getters
    of `Packet` return (`SrcPv.pktIn_src`).  For a packet within its C types that owns a payload: `getMessageType()` returns
    the payload's message type, byte 4 of `getRawCmpHeader()` — the type the frame header will announce — is that same value,
    and `getPayloadLength()` is the size of the payload `getPayload()` hands out (for a payload shorter than 2^16).  So a
    `getRawCmpHeader` writing a fixed type, or a `getPayloadLength` disagreeing with the payload, is excluded. -/
theorem C08_packet_getters_consistent (p : Packet) (pl : Payload) (hfit : p.Fits) (hp : p.payload = some pl) :
    ∃ mt len hdr q,
      Packet_getMessageType_pv (SrcPv.repr p) = some (SrcPv.repr p, mt) ∧
      Packet_getPayloadLength_pv (SrcPv.repr p) = some (SrcPv.repr p, len) ∧
      Packet_getRawCmpHeader_pv (SrcPv.repr p) = some (SrcPv.repr p, hdr) ∧
      Packet_getPayload_pv (SrcPv.repr p) = some (SrcPv.repr p, q) ∧
      mt = pl.mt ∧ byteAt hdr 4 = mt ∧ (pl.data.length < 65536 → len = q.f_payloadData.length) ∧
      q.f_payloadData = pl.data := by
  obtain ⟨g1, g2, ⟨q, g3, g3'⟩, g4, _⟩ := SrcPv.pktIn_src p pl hfit hp
  refine ⟨_, _, _, q, g1, g2, g4, g3, ?_, ?_, ?_, ?_⟩
  · simp [SrcEnc.pktIn, Packet.mt, hp]
  · have := frameHeader_mt (p.version % 256) p.deviceId p.mt p.streamId p.seq []
    rw [List.append_nil] at this
    simp only [SrcEnc.pktIn]
    rw [this]
    exact Nat.mod_eq_of_lt (Packet.mt_lt p)
  · intro hl
    rw [g3']
    simp only [SrcEnc.pktIn, Packet.payloadLength, Packet.data, hp]
    exact Nat.mod_eq_of_lt hl
  · rw [g3']
    simp [SrcEnc.pktIn, Packet.data, hp]

/-! ## §2b  the negative: an empty payload of a foreign message type breaks the greedy clause

  OUTSIDE the property's domain (payload length 1..65535) but inside what the header comment of Props/C07.lean calls
  "covered too".  The witness: a CAN packet of 8 bytes, a packet whose payload is what `Packet::create` makes of ZERO bytes of
  CAN data (rejected by the validator: the invalid-marked payload of the same length, i.e. empty, message type 0), and another
  CAN packet of 8 bytes, at min 64 / max 100.  `putPacket` sees a message-type change (1 → 0), closes the data frame and
  opens a frame of type 0; the empty payload adds nothing; the next packet changes the type back, the message-less frame is
  dropped — and the two 8-byte data messages sit in two frames of the same type although both fit one (40 of 92 bytes). -/

local instance : DecidablePred Packet.Enc := fun p => by unfold Packet.Enc; exact inferInstance

def pk (ty : Nat) (n : Nat) (b : UInt8) : Packet := { payload := some ⟨ty, List.replicate n b⟩ }

/-- the witness batch -/
def exBad : List Packet := [pk tyCan 8 1, { payload := some (create tyCan []) }, pk tyCan 8 3]

set_option maxRecDepth 100000 in
/-- **negative (model level).**  Every hypothesis of `C08_bytes_any_length` holds of the witness (`p.Enc` for every packet, a
    configuration of the domain, the idle encoder); the bytes tile, `P_C07` and conjuncts 1–4 of `P_C08` hold — and the greedy
    conjunct, hence `P_C08`, is FALSE: the layout is two data frames with one 8-byte message each.  (`emptyFollows` is false
    of the batch, as it must be.) -/
theorem C08_empty_foreign_payload_breaks_greedy :
    (∀ p ∈ exBad, p.Enc) ∧ (⟨64, 100⟩ : Ctx).ok = true ∧
    emptyFollows none (exBad.map fun p => (p.mt, p.data.length)) = false ∧
    (tileFrames ((({} : Enc).encode exBad ⟨64, 100⟩).2.map (EFrame.bytes 64))).map
        (fun fs => (fs.map frameKey,
          P_C07 ⟨64, 100⟩ (exBad.map Packet.data) fs,
          P_C08core ⟨64, 100⟩ (exBad.map fun p => (p.mt, p.data.length)) fs,
          greedyOk 92 fs,
          P_C08 ⟨64, 100⟩ (exBad.map fun p => (p.mt, p.data.length)) fs))
      = some ([(1, [(0, 8)]), (1, [(0, 8)])], true, true, false, false) := by
  refine ⟨by decide, rfl, by decide, by decide +kernel⟩

/-- **negative (source level).**  The translated C++ `encode` over the iterator range, called on a default-constructed encoder
    with the witness batch, is defined and returns exactly those bytes: the frames the C++ puts on the wire violate the
    greedy clause of `P_C08` -/
theorem C08_empty_foreign_payload_source (fuel : Nat) (hf : 65536 ≤ fuel) :
    ∃ s' frames, Encoder_encode_range_obj fuel Encoder_default (exBad.map SrcEnc.pktIn) 64 100 = some (s', frames) ∧
      (tileFrames frames).map (fun fs =>
        (fs.map frameKey, P_C08 ⟨64, 100⟩ (exBad.map fun p => (p.mt, p.data.length)) fs))
        = some ([(1, [(0, 8)]), (1, [(0, 8)])], false) := by
  obtain ⟨h1, _⟩ := SrcEnc.encodeRange_src Encoder_default exBad ⟨64, 100⟩ fuel rfl (by decide) hf
  rw [toLL_encode_eq] at h1
  have hr := (C07b.encodeLL_refines (encOf Encoder_default) exBad ⟨64, 100⟩ rfl
    C08_empty_foreign_payload_breaks_greedy.1 (by decide)).1
  refine ⟨_, _, h1, ?_⟩
  rw [hr]
  have := C08_empty_foreign_payload_breaks_greedy.2.2.2
  have e : encOf Encoder_default = ({} : Enc) := rfl
  rw [e]
  generalize tileFrames ((({} : Enc).encode exBad ⟨64, 100⟩).2.map (EFrame.bytes (⟨64, 100⟩ : Ctx).min)) = o at this ⊢
  cases o with
  | none => simp at this
  | some fs =>
    simp only [Option.map_some, Option.some.injEq, Prod.mk.injEq] at this ⊢
    exact ⟨this.1, this.2.2.2.2⟩

/-- the harmless cases, for contrast: the same empty payload FIRST in the batch, or an empty payload of the SAME message
    type (a data message of an unknown payload type with no bytes), leave `P_C08` true -/
example : emptyFollows none (([{ payload := some (create tyCan []) }, pk tyCan 8 1, pk tyCan 8 3] : List Packet).map
    fun p => (p.mt, p.data.length)) = true := by decide
example : emptyFollows none (([pk tyCan 8 1, pk 0x0110 0 0, pk tyCan 8 3] : List Packet).map
    fun p => (p.mt, p.data.length)) = true := by decide

set_option maxRecDepth 100000 in
/-- a batch with an empty payload that keeps the type of its predecessor (hypotheses of `C08_bytes_any_length` incl.
    `emptyFollows`): evaluated, the two data messages share one frame and `P_C08s` is true -/
example : let b : List Packet := [pk tyCan 8 1, pk 0x0110 0 0, pk tyCan 8 3]
    (∀ p ∈ b, p.Enc) ∧ emptyFollows none (b.map fun p => (p.mt, p.data.length)) = true ∧
    (tileFrames (({} : Enc).toLL.encode b ⟨64, 100⟩).2).map (fun fs =>
      (fs.map frameKey, P_C08s ⟨64, 100⟩ (b.map fun p => (p.mt, p.data.length)) fs))
      = some ([(1, [(0, 8), (0, 8)])], true) := by
  refine ⟨by decide, by decide, by decide +kernel⟩

/-! ## §6  evaluated examples (finding 6) -/

/-- the test suite's batch shape 8,8,100 | 60,8,8 at (64,100), with a message-type change (data → status → data) in it -/
def ex1 : List Packet := [pk tyCan 8 1, pk tyCan 8 2, pk tyCan 100 3, pk tyCm 60 4, pk tyCm 8 5, pk tyCan 8 6]

/-- the hypotheses of the main theorems hold of it … -/
example : ∀ p ∈ ex1, p.Enc ∧ 1 ≤ p.data.length := by decide
example := C08_strong_bytes {} ex1 ⟨64, 100⟩ rfl (by decide)
example := C08_layout_is_the_only_one {} ex1 ⟨64, 100⟩ rfl (by decide)
example := C08_wire_messages {} ex1 ⟨64, 100⟩ rfl (by decide)
example := C08_source_range Encoder_default ex1 ⟨64, 100⟩ 65536 (by decide) rfl (by decide) (by decide) (by decide)
example := C08_source_single Encoder_default (pk tyCan 100 3) ⟨64, 100⟩ 65536 (by decide) rfl (by decide) (by decide) (by decide)
example := C08_single_large_packet {} (pk tyCan 100 3) ⟨64, 100⟩ rfl (by decide) (by decide)

set_option maxRecDepth 100000 in
/-- … and the low-level model, evaluated by the kernel, gives the layout written out here: two aggregated messages; a packet of
    100 bytes as first segment (76 = 92 − 16 bytes: the frame is full) and last segment (24 bytes) in two consecutive frames of
    their own; the status packets in a frame announcing type 3 — 60 and 8 bytes do NOT fit together (76 + 24 > 92), so two
    frames; a new frame when the type changes back; frame lengths 64 (padded), 100, 64, 84, 64, 64 -/
example : (tileFrames (({} : Enc).toLL.encode ex1 ⟨64, 100⟩).2).map (fun fs =>
      (fs.map frameKey, fs.map (·.len),
       P_C07 ⟨64, 100⟩ (ex1.map Packet.data) fs, P_C08s ⟨64, 100⟩ (ex1.map fun p => (p.mt, p.data.length)) fs,
       frameChainOk false fs))
    = some ([(1, [(0, 8), (0, 8)]), (1, [(4, 76)]), (1, [(12, 24)]), (3, [(0, 60)]), (3, [(0, 8)]), (1, [(0, 8)])],
            [64, 100, 64, 84, 64, 64], true, true, true) := by decide +kernel

set_option maxRecDepth 100000 in
/-- the translated C++ itself, evaluated by the kernel (no theorem involved), returns those bytes -/
example : (Encoder_encode_range_obj 65536 Encoder_default (ex1.map SrcEnc.pktIn) 64 100).map (·.2)
    = some (({} : Enc).toLL.encode ex1 ⟨64, 100⟩).2 := by decide +kernel

/-- a packet with a timestamp, an interface id and flag bits, 3 payload bytes, at the smallest frame size (max 25: one payload
    byte per frame) -/
def exHdr : Packet :=
  { payload := some ⟨tyCan, [0xA1, 0xA2, 0xA3]⟩, ts := 0x0102030405060708, ifId := 0x0A0B0C0D, flags := 0x03 }

/-- `wireOf`, written out: three messages flagged 4, 8, 12 (byte 12: 0x03 ||| flag), EACH carrying the packet's timestamp,
    interface id and payload type 1, length 1, and the payload bytes in order -/
example : wireOf 17 exHdr =
    [([1, 2, 3, 4, 5, 6, 7, 8, 0x0A, 0x0B, 0x0C, 0x0D, 0x07, 1, 0, 1], [0xA1]),
     ([1, 2, 3, 4, 5, 6, 7, 8, 0x0A, 0x0B, 0x0C, 0x0D, 0x0B, 1, 0, 1], [0xA2]),
     ([1, 2, 3, 4, 5, 6, 7, 8, 0x0A, 0x0B, 0x0C, 0x0D, 0x0F, 1, 0, 1], [0xA3])] := by decide +kernel

set_option maxRecDepth 100000 in
/-- … and that is what the header walker finds in the three 25-byte frames of the low-level model -/
example : wireMsgs (({} : Enc).toLL.encode [exHdr] ⟨0, 25⟩).2 = some (wireOf 17 exHdr) ∧
    (({} : Enc).toLL.encode [exHdr] ⟨0, 25⟩).2.map List.length = [25, 25, 25] := by decide +kernel

example := C08_bytes_any_length {} exBad ⟨64, 100⟩ rfl (by decide)
example := C08_nonlast_segments_fill_bytes {} ex1 ⟨64, 100⟩ rfl (by decide)
example := C08_source_range_any_length Encoder_default exBad ⟨64, 100⟩ 65536 (by decide) rfl (by decide) (by decide) (by decide)
example := encode1_src_struct Encoder_default (pk tyCan 100 3) ⟨64, 100⟩ 65536 (by decide) rfl (by decide) (by decide) (by decide)
example := C08_packet_getters_consistent exHdr ⟨tyCan, [0xA1, 0xA2, 0xA3]⟩
  ⟨by decide, by decide, by decide, by decide, by decide, by decide, by decide, by decide, by decide,
    fun pl h => by cases h; exact ⟨by decide, by decide⟩⟩ rfl

/-! the prescribed pieces at the fit / no-fit boundaries of max = 100 (cap 92, 76 payload bytes per full segment), ±2 -/
example : [74, 75, 76, 77, 78].map (pieceShape 92) =
    [[(0, 74)], [(0, 75)], [(0, 76)], [(4, 76), (12, 1)], [(4, 76), (12, 2)]] := by decide
example : [150, 151, 152, 153, 154].map (pieceShape 92) =
    [[(4, 76), (12, 74)], [(4, 76), (12, 75)], [(4, 76), (12, 76)], [(4, 76), (8, 76), (12, 1)], [(4, 76), (8, 76), (12, 2)]] := by
  decide
/-- … and of the smallest frame (max 25, cap 17): every payload is cut into single bytes -/
example : [1, 2, 3].map (pieceShape 17) = [[(0, 1)], [(4, 1), (12, 1)], [(4, 1), (8, 1), (12, 1)]] := by decide

/-! ### violating layouts are rejected

  hand-made frame lists for the batch "data 8, data 8" resp. "data 100" resp. "data 8, status 8" at (64,100) -/

/-- a frame with the given announced type and (flag, length) messages -/
def mkF (mt : Nat) (ms : List (Nat × Nat)) : SFrame :=
  ⟨mt, ms.map (fun x => ⟨x.1, List.replicate x.2 0⟩), 0, 8 + (ms.map (fun x => 16 + x.2)).sum⟩

/-- the right layouts are accepted -/
example : P_C08s ⟨64, 100⟩ [(1, 8), (1, 8)] [mkF 1 [(0, 8), (0, 8)]] = true := by decide
example : P_C08s ⟨64, 100⟩ [(1, 100)] [mkF 1 [(4, 76)], mkF 1 [(12, 24)]] = true := by decide
example : P_C08s ⟨64, 100⟩ [(1, 8), (3, 8)] [mkF 1 [(0, 8)], mkF 3 [(0, 8)]] = true := by decide
/-- not aggregated although it fits -/
example : P_C08 ⟨64, 100⟩ [(1, 8), (1, 8)] [mkF 1 [(0, 8)], mkF 1 [(0, 8)]] = false := by decide
/-- the same hidden behind an interposed empty frame (announcing another type — exactly the frame the witness of §2b opens
    and drops): `P_C08` alone accepts it (the reviewer's finding 3), `P_C08s` and
    `frameChainOk` do not -/
example : P_C08 ⟨64, 100⟩ [(1, 8), (1, 8)] [mkF 1 [(0, 8)], mkF 3 [], mkF 1 [(0, 8)]] = true := by decide
example : P_C08s ⟨64, 100⟩ [(1, 8), (1, 8)] [mkF 1 [(0, 8)], mkF 3 [], mkF 1 [(0, 8)]] = false := by decide
/-- segments NOT in consecutive frames (an empty frame between first and last): `P_C08` alone accepts, `P_C08s` /
    `frameChainOk` reject -/
example : P_C08 ⟨64, 100⟩ [(1, 100)] [mkF 1 [(4, 76)], mkF 1 [], mkF 1 [(12, 24)]] = true := by decide
example : P_C08s ⟨64, 100⟩ [(1, 100)] [mkF 1 [(4, 76)], mkF 1 [], mkF 1 [(12, 24)]] = false := by decide
example : frameChainOk false [mkF 1 [(4, 76)], mkF 1 [], mkF 1 [(12, 24)]] = false := by decide
/-- a segment sharing its frame with another message -/
example : P_C08 ⟨64, 100⟩ [(1, 8), (1, 100)] [mkF 1 [(0, 8)], mkF 1 [(4, 76)], mkF 1 [(12, 24), (0, 8)]] = false := by decide
example : P_C08 ⟨64, 100⟩ [(1, 100), (1, 8)] [mkF 1 [(4, 76)], mkF 1 [(12, 24), (0, 8)]] = false := by decide
/-- first segment not filling its frame -/
example : P_C08 ⟨64, 100⟩ [(1, 100)] [mkF 1 [(4, 50)], mkF 1 [(12, 50)]] = false := by decide
/-- last segment flagged intermediary; first flagged unsegmented -/
example : P_C08 ⟨64, 100⟩ [(1, 100)] [mkF 1 [(4, 76)], mkF 1 [(8, 24)]] = false := by decide
example : P_C08 ⟨64, 100⟩ [(1, 100)] [mkF 1 [(0, 76)], mkF 1 [(12, 24)]] = false := by decide
/-- split although it fits an empty frame -/
example : P_C08 ⟨64, 100⟩ [(1, 76)] [mkF 1 [(4, 38)], mkF 1 [(12, 38)]] = false := by decide
/-- frame header announcing the wrong message type: with the frame break, and two types in one frame -/
example : P_C08 ⟨64, 100⟩ [(1, 8), (3, 8)] [mkF 1 [(0, 8)], mkF 1 [(0, 8)]] = false := by decide
example : P_C08 ⟨64, 100⟩ [(1, 8), (3, 8)] [mkF 1 [(0, 8), (0, 8)]] = false := by decide
/-- batch order not kept (lengths swapped) -/
example : P_C08 ⟨64, 100⟩ [(1, 8), (1, 9)] [mkF 1 [(0, 9), (0, 8)]] = false := by decide
/-- a frame that overflows -/
example : P_C08 ⟨64, 100⟩ [(1, 40), (1, 40)] [mkF 1 [(0, 40), (0, 40)]] = false := by decide

end AsamCmp.C08S
