/-
  Source-level tie: the functions of `GeneratedSrc.lean` are produced on every run by vlib/srctrans.py from the typed clang
  AST of /repo/src/*.cpp (C++ subset semantics: Src/Sem.lean — bit patterns, one byte array as memory, `none` = undefined
  behaviour such as a read outside the array).  The theorems below say that, for EVERY memory content and every position,
  the translated source of the validators and header readers computes exactly what the hand-written model (Packet.lean,
  Decoder.lean, EncoderLL.lean — the definitions all other theorems are about) says, and is defined — i.e. reads nothing
  outside the object it was given: `b` sits at address `pre.length` of the memory `pre ++ b ++ post`; with `post = []` any
  read past the end of `b` would make the result `none`, and the result does not depend on `pre` / `post`.
-/
import AsamCmp.GeneratedSrc
import AsamCmp.Packet
import AsamCmp.Decoder
import AsamCmp.Lemmas.SrcValid
set_option linter.unusedSimpArgs false
namespace AsamCmp.SrcTie
open AsamCmp AsamCmp.Src AsamCmp.SrcGen

/-! ### byte order helpers of the library (`swapEndian`) -/

theorem swap16_src (v : Nat) (h : v < 2 ^ 16) : swapEndian_u16 v = some (v / 256 + v % 256 * 256) := by
  rw [swap16_bytes]; congr 1; omega

/-- a 16-bit member read followed by `swapEndian` is the big-endian value of the two bytes -/
theorem rd_swap16_src (m : Bytes) (a : Nat) (h : a + 2 ≤ m.length) :
    (rd m a 2).bind swapEndian_u16 = some (beAt m a 2) := by
  exact rd_swap16 m a h

theorem rd_swap32_src (m : Bytes) (a : Nat) (h : a + 4 ≤ m.length) :
    (rd m a 4).bind swapEndian_u32 = some (beAt m a 4) := by
  exact rd_swap32 m a h

theorem rd_swap64_src (m : Bytes) (a : Nat) (h : a + 8 ≤ m.length) :
    (rd m a 8).bind swapEndian_u64 = some (beAt m a 8) := by
  exact rd_swap64 m a h

/-! ### payload validators: `X::isValidPayload(data, size)` -/

theorem can_validator_src (pre b post : Bytes) (h : (pre ++ b ++ post).length < 2 ^ 64) :
    CanPayloadBase_isValidPayload (pre ++ b ++ post) pre.length b.length = some (canValid b) := by
  have hb := mem_lt pre b post h
  unfold CanPayloadBase_isValidPayload CanPayloadBase_Header_hasError CanPayloadBase_Header_getDataLength canValid
  src_norm
  by_cases h16 : 16 ≤ b.length
  · have k1 := can_flags b 0 (by omega)
    have k2 := le_zero_iff_be b 12 (by omega)
    src_finish
  · src_finish

theorem lin_validator_src (pre b post : Bytes) (h : (pre ++ b ++ post).length < 2 ^ 64) :
    LinPayload_isValidPayload (pre ++ b ++ post) pre.length b.length = some (linValid b) := by
  have hb := mem_lt pre b post h
  unfold LinPayload_isValidPayload LinPayload_Header_getDataLength linValid
  src_norm
  src_finish

theorem eth_validator_src (pre b post : Bytes) (h : (pre ++ b ++ post).length < 2 ^ 64) :
    EthernetPayload_isValidPayload (pre ++ b ++ post) pre.length b.length = some (ethValid b) := by
  have hb := mem_lt pre b post h
  unfold EthernetPayload_isValidPayload EthernetPayload_Header_getFlags EthernetPayload_Header_getDataLength ethValid
  src_norm
  src_finish

theorem analog_validator_src (pre b post : Bytes) (h : (pre ++ b ++ post).length < 2 ^ 64) :
    AnalogPayload_isValidPayload (pre ++ b ++ post) pre.length b.length = some (analogValid b) := by
  have hb := mem_lt pre b post h
  have h3 : byteAt b 1 &&& 3 ≤ 3 := Nat.and_le_right
  unfold AnalogPayload_isValidPayload AnalogPayload_Header_getSampleDt analogValid
  src_norm
  simp only [analog_dt, Nat.zero_add]
  src_finish

theorem cm_validator_src (pre b post : Bytes) (h : (pre ++ b ++ post).length < 2 ^ 64) :
    CaptureModulePayload_isValidPayload (pre ++ b ++ post) pre.length b.length = some (cmValid b) := by
  have hb := mem_lt pre b post h
  rw [cm_unroll]
  unfold cmValid
  by_cases h26 : 26 ≤ b.length
  · have e1 : decide (b.length < 26) = false := decide_eq_false (by omega)
    have e2 : decide (26 ≤ b.length) = true := decide_eq_true h26
    rw [e1, e2, cmLoop_spec pre b post hb 5 26 h26]
    rfl
  · have e1 : decide (b.length < 26) = true := decide_eq_true (by omega)
    have e2 : decide (26 ≤ b.length) = false := decide_eq_false h26
    rw [e1, e2]
    rfl

theorem if_validator_src (pre b post : Bytes) (h : (pre ++ b ++ post).length < 2 ^ 64) :
    InterfacePayload_isValidPayload (pre ++ b ++ post) pre.length b.length = some (ifValid b) := by
  have hb := mem_lt pre b post h
  have h36 := byteAt_lt b 36
  have h37 := byteAt_lt b 37
  unfold InterfacePayload_isValidPayload InterfacePayload_Header_getInterfaceStatus ifValid
  src_norm
  by_cases h40 : 40 ≤ b.length
  · have e36 : beAt b 36 2 = byteAt b 36 * 256 + byteAt b 37 := beAt_two b 36 (by omega)
    rw [e36]
    by_cases hfit : (byteAt b 36 * 256 + byteAt b 37) + (byteAt b 36 * 256 + byteAt b 37) % 2 + 2 ≤ b.length - 38
    · rw [beAt_two b (38 + _) (by omega)]
      src_finish
    · src_finish
  · src_finish

/-! ### message level: `Packet::isValidPacket`, segment type tests, header readers of `Decoder::decode` -/

theorem isValidPacket_src (pre b post : Bytes) (h : (pre ++ b ++ post).length < 2 ^ 64) :
    Packet_isValidPacket (pre ++ b ++ post) pre.length b.length = some (msgValid b) := by
  have hb := mem_lt pre b post h
  unfold Packet_isValidPacket MessageHeader_getPayloadLength MessageHeader_getCommonFlag MessageHeader_getPayloadType
    msgValid
  src_norm
  src_finish

end AsamCmp.SrcTie
