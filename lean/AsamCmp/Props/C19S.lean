/-
  C19S  Strengthening of property C19 (separate codec instances can be used concurrently).

  Additional theorems about the EXISTING definitions, answering the reviewer's findings on the registered C19 theorems.

  §1  (finding 1)  a schedule semantics WITH a shared global component: `runSchedG` threads one value `g : γ` through every
      call of every instance; every call may read it and may write it.  Independence is now a THEOREM WITH A HYPOTHESIS
      (`Frame`: no call writes `γ`, no call's result depends on `γ`), not a consequence of the type of the step function:
        `interleave_frame_G`      Frame      ⇒ every instance gets, under every schedule, what it gets alone
        `interleave_readonly_G`   NoWrite    ⇒ … what it gets alone UNDER THE SAME (constant) global   (read-only tables are fine)
        `interleave_noRead_G`     NoRead     ⇒ the same conclusion although `γ` is written — which is precisely the blind spot of
                                               ANY call-granular semantics (finding 2: write-only scratch is a data race)
      and the hypothesis does real work: `shared_counter_violates`, `static_member_violates` (the TRANSLATED encoder with its
      `sequenceCounter` member moved into `γ`, i.e. the regression `static uint16_t sequenceCounter`).
  §2  (findings 1, 4, 5, 7)  the frame condition DISCHARGED for the translated source: the public methods of Encoder, Decoder,
      Status, DeviceStatus, InterfaceStatus, Packet (value mode) and the static TECMP decoder / converter, as generated in
      GeneratedSrcObj.lean / GeneratedSrcTecmp.lean, lifted to steps over `γ × state` for ANY `γ`
      (`encoder_step_frame`, `decoder_step_frame`, `status_step_frame`, `tecmp_step_frame`, …), and the schedule theorem
      instantiated with them: `C19S_interleaving_src`.  Undefined behaviour (`none` of the translation) poisons the object;
      `C19S_defined_iff`: a schedule is free of undefined calls iff every instance's solo run is.
  §3  (finding 5)  source schedule ⟶ model: `srcCall_refines` (the `instStep_src` the reviewer asks for: one translated call on
      the representation of a model instance = the representation of `C19.instStep`, under an explicit `CallOk`), lifted to solo
      runs (`solo_refines`) and to schedules (`C19S_interleaving_refines`): under every schedule the TRANSLATED objects deliver,
      instance by instance, the representation of what the MODEL schedule of `C19.C19_interleaving` delivers.
  §4  (findings 4, 7)  the static TECMP decoder; concrete schedules evaluated in the kernel on the translated functions.

  What this file does NOT close (see REPORT.md): findings 2 (data-race freedom below call granularity), 3 (the nm scan /
  allow-list behind `Generated.mutableStatics`), 6 (aliasing through shared_ptr / mutable members).  They need facts the generator
  does not emit; `interleave_noRead_G` documents in Lean why no call-granular statement can stand in for them.
-/
import AsamCmp.Props.C19
import AsamCmp.Props.SrcHistory
import AsamCmp.Props.C16S
set_option linter.unusedVariables false
set_option linter.unusedSimpArgs false
namespace AsamCmp.C19S
open AsamCmp AsamCmp.Src AsamCmp.SrcGen

/-! ## §1 schedules with a shared global component -/

section Generic
variable {γ σ ι ο α β : Type}

/-- the calls (or the outputs) of instance `i` in a schedule (or in a trace), in order — the projection used by
    `Conc.interleave_independent` -/
def pick (i : Nat) (l : List (Nat × α)) : List α := (l.filter (fun x => x.1 = i)).map (·.2)

theorem pick_nil (i : Nat) : pick i ([] : List (Nat × α)) = [] := rfl

theorem pick_cons_self (i : Nat) (a : α) (l : List (Nat × α)) : pick i ((i, a) :: l) = a :: pick i l := by
  simp [pick]

theorem pick_cons_ne (i j : Nat) (a : α) (l : List (Nat × α)) (h : j ≠ i) : pick i ((j, a) :: l) = pick i l := by
  simp [pick, h]

theorem pick_map (i : Nat) (f : α → β) (l : List (Nat × α)) :
    pick i (l.map fun x => (x.1, f x.2)) = (pick i l).map f := by
  induction l with
  | nil => rfl
  | cons hd tl ih =>
    obtain ⟨j, a⟩ := hd
    by_cases h : j = i
    · subst h
      simp only [List.map_cons, pick_cons_self, ih]
    · simp only [List.map_cons, pick_cons_ne _ _ _ _ h, ih]

theorem mem_pick (i : Nat) (a : α) (l : List (Nat × α)) : a ∈ pick i l ↔ (i, a) ∈ l := by
  unfold pick
  simp only [List.mem_map, List.mem_filter, decide_eq_true_eq]
  constructor
  · rintro ⟨⟨j, b⟩, ⟨hm, hj⟩, hb⟩
    simp only at hj hb
    subst hj; subst hb
    exact hm
  · intro h
    exact ⟨(i, a), ⟨h, rfl⟩, rfl⟩

/-- a step WITH the shared component: it receives the current global `g` and the state of its own object, and returns the new
    global, the new object state and the result of the call.  Nothing in this type says that `g` is left alone. -/
abbrev GStep (γ σ ι ο : Type) := γ → σ → ι → γ × σ × ο

/-- a schedule of calls: the ONE global is threaded through all of them, whichever instance performs them; instance `i`'s object is
    slot `i` of `st` -/
def runSchedG (gstep : GStep γ σ ι ο) (g : γ) (st : Nat → σ) : List (Nat × ι) → γ × (Nat → σ) × List (Nat × ο)
  | [] => (g, st, [])
  | (i, op) :: rest =>
    let r := gstep g (st i) op
    let r' := runSchedG gstep r.1 (fun j => if j = i then r.2.1 else st j) rest
    (r'.1, r'.2.1, (i, r.2.2) :: r'.2.2)

/-- one instance alone, with the global to itself -/
def runSoloG (gstep : GStep γ σ ι ο) (g : γ) (s : σ) : List ι → γ × σ × List ο
  | [] => (g, s, [])
  | op :: ops =>
    let r := gstep g s op
    let r' := runSoloG gstep r.1 r.2.1 ops
    (r'.1, r'.2.1, r.2.2 :: r'.2.2)

/-- no call writes the shared component -/
def NoWrite (gstep : GStep γ σ ι ο) : Prop := ∀ g s op, (gstep g s op).1 = g

/-- no call's new object state or result depends on the shared component -/
def NoRead (gstep : GStep γ σ ι ο) : Prop := ∀ g g' s op, (gstep g s op).2 = (gstep g' s op).2

/-- the FRAME condition ("the library performs no access to shared mutable state", at call granularity): a call on an object
    leaves the global component as it is, and what it does to its object and returns does not depend on it -/
structure Frame (gstep : GStep γ σ ι ο) : Prop where
  noWrite : NoWrite gstep
  noRead : NoRead gstep

/-- the step with the global fixed to `g0` and forgotten: a step of the γ-free semantics `Conc.runSched` -/
def dropG (gstep : GStep γ σ ι ο) (g0 : γ) : σ → ι → σ × ο := fun s op => (gstep g0 s op).2

/-- a γ-free step as a step over any global: the global is passed through -/
def liftG (γ : Type) (step : σ → ι → σ × ο) : GStep γ σ ι ο := fun g s op => (g, step s op)

theorem frame_liftG (γ : Type) (step : σ → ι → σ × ο) : Frame (liftG γ step) :=
  ⟨fun _ _ _ => rfl, fun _ _ _ _ => rfl⟩

theorem dropG_liftG (step : σ → ι → σ × ο) (g0 : γ) : dropG (liftG γ step) g0 = step := rfl

/-- … and conversely the frame condition says exactly that the step IS such a lift -/
theorem frame_iff_lift (gstep : GStep γ σ ι ο) (g0 : γ) : Frame gstep ↔ gstep = liftG γ (dropG gstep g0) := by
  constructor
  · intro h
    funext g s op
    have a := h.noWrite g s op
    have b := h.noRead g g0 s op
    show gstep g s op = (g, (gstep g0 s op).2)
    rw [← b]
    exact Prod.ext a rfl
  · intro h
    rw [h]
    exact frame_liftG γ _

/-- if no call READS the global, the object states and the trace of a schedule are those of the γ-free semantics (whatever is
    written into `γ` on the way) -/
theorem runSchedG_noRead {gstep : GStep γ σ ι ο} (h : NoRead gstep) (g0 : γ) :
    ∀ (sched : List (Nat × ι)) (g : γ) (st : Nat → σ),
      (runSchedG gstep g st sched).2 = Conc.runSched (dropG gstep g0) st sched := by
  intro sched
  induction sched with
  | nil => intro g st; rfl
  | cons hd tl ih =>
    intro g st
    obtain ⟨i, op⟩ := hd
    have e := h g g0 (st i) op
    simp only [runSchedG, Conc.runSched, dropG, ih, e]

/-- if no call WRITES the global, it is the same after any schedule -/
theorem runSchedG_noWrite {gstep : GStep γ σ ι ο} (h : NoWrite gstep) :
    ∀ (sched : List (Nat × ι)) (g : γ) (st : Nat → σ), (runSchedG gstep g st sched).1 = g := by
  intro sched
  induction sched with
  | nil => intro g st; rfl
  | cons hd tl ih =>
    intro g st
    obtain ⟨i, op⟩ := hd
    simp only [runSchedG, ih, h g (st i) op]

/-- … and then the object states and the trace are those of the γ-free semantics for THAT constant global -/
theorem runSchedG_readonly {gstep : GStep γ σ ι ο} (h : NoWrite gstep) :
    ∀ (sched : List (Nat × ι)) (g : γ) (st : Nat → σ),
      (runSchedG gstep g st sched).2 = Conc.runSched (dropG gstep g) st sched := by
  intro sched
  induction sched with
  | nil => intro g st; rfl
  | cons hd tl ih =>
    intro g st
    obtain ⟨i, op⟩ := hd
    have e := h g (st i) op
    simp only [runSchedG, Conc.runSched, dropG, e, ih]

theorem runSoloG_readonly {gstep : GStep γ σ ι ο} (h : NoWrite gstep) :
    ∀ (ops : List ι) (g : γ) (s : σ),
      (runSoloG gstep g s ops).1 = g ∧ (runSoloG gstep g s ops).2 = Conc.runSolo (dropG gstep g) s ops := by
  intro ops
  induction ops with
  | nil => intro g s; exact ⟨rfl, rfl⟩
  | cons op ops ih =>
    intro g s
    have e := h g s op
    obtain ⟨i1, i2⟩ := ih g (gstep g s op).2.1
    simp only [runSoloG, Conc.runSolo, dropG, e, i1, i2, and_self]

/-- **independence under the frame condition.**  For EVERY step function over a shared global that satisfies `Frame`, every
    schedule, every initial global and object states, every instance `i`: the results instance `i` sees and the state its object
    ends in are those of its solo run on its own calls (computed with any global `g0` whatsoever), and the global is unchanged.
    Unlike `Conc.interleave_independent` this is FALSE without the hypothesis (`shared_counter_violates`). -/
theorem interleave_frame_G {gstep : GStep γ σ ι ο} (h : Frame gstep) (i : Nat) (sched : List (Nat × ι)) (g g0 : γ)
    (st : Nat → σ) :
    pick i (runSchedG gstep g st sched).2.2 = (Conc.runSolo (dropG gstep g0) (st i) (pick i sched)).2 ∧
    (runSchedG gstep g st sched).2.1 i = (Conc.runSolo (dropG gstep g0) (st i) (pick i sched)).1 ∧
    (runSchedG gstep g st sched).1 = g := by
  have e := runSchedG_noRead h.noRead g0 sched g st
  obtain ⟨k1, k2⟩ := Conc.interleave_independent (dropG gstep g0) i sched st
  refine ⟨?_, ?_, runSchedG_noWrite h.noWrite sched g st⟩
  · rw [e]; exact k1
  · rw [e]; exact k2

/-- **a read-only global is harmless.**  If no call writes `γ` (calls may READ it: constant tables, `static constexpr` masks,
    the `const` size at namespace scope the property's anchors name), every instance gets under every schedule exactly what it
    gets alone WITH THE SAME global -/
theorem interleave_readonly_G {gstep : GStep γ σ ι ο} (h : NoWrite gstep) (i : Nat) (sched : List (Nat × ι)) (g : γ)
    (st : Nat → σ) :
    pick i (runSchedG gstep g st sched).2.2 = (runSoloG gstep g (st i) (pick i sched)).2.2 ∧
    (runSchedG gstep g st sched).2.1 i = (runSoloG gstep g (st i) (pick i sched)).2.1 ∧
    (runSchedG gstep g st sched).1 = g := by
  have e := runSchedG_readonly h sched g st
  obtain ⟨k1, k2⟩ := Conc.interleave_independent (dropG gstep g) i sched st
  obtain ⟨_, s2⟩ := runSoloG_readonly h (pick i sched) g (st i)
  refine ⟨?_, ?_, runSchedG_noWrite h sched g st⟩
  · rw [e, s2]; exact k1
  · rw [e, s2]; exact k2

/-- **the blind spot of call granularity** (finding 2, stated instead of hidden).  If every call's result is independent of `γ`,
    the per-instance results equal the solo results ALTHOUGH the calls may write `γ` — e.g. a `static` scratch buffer that every
    call overwrites before reading it.  In C++ that is a data race and delivers wrong results under a real thread schedule;
    in `runSchedG` (and in any semantics whose schedules interleave whole calls) it is invisible.  So neither this file nor
    `C19.C19_interleaving` says anything about clause K2 "no unsynchronised access to shared mutable state" below the
    granularity of a call. -/
theorem interleave_noRead_G {gstep : GStep γ σ ι ο} (h : NoRead gstep) (i : Nat) (sched : List (Nat × ι)) (g g0 : γ)
    (st : Nat → σ) :
    pick i (runSchedG gstep g st sched).2.2 = (Conc.runSolo (dropG gstep g0) (st i) (pick i sched)).2 ∧
    (runSchedG gstep g st sched).2.1 i = (Conc.runSolo (dropG gstep g0) (st i) (pick i sched)).1 := by
  have e := runSchedG_noRead h g0 sched g st
  obtain ⟨k1, k2⟩ := Conc.interleave_independent (dropG gstep g0) i sched st
  exact ⟨by rw [e]; exact k1, by rw [e]; exact k2⟩

/-- the γ-free semantics of Conc.lean is the instance `γ := Unit` -/
theorem runSched_is_unit_global (step : σ → ι → σ × ο) (sched : List (Nat × ι)) (st : Nat → σ) :
    (runSchedG (liftG Unit step) () st sched).2 = Conc.runSched step st sched :=
  runSchedG_noRead (frame_liftG Unit step).noRead () sched () st

/-- two schedules with the same per-instance calls are indistinguishable for every instance (the `schedules_equivalent` of
    Conc.lean, with the global) -/
theorem schedules_equivalent_G {gstep : GStep γ σ ι ο} (h : Frame gstep) (g : γ) (st : Nat → σ) (s1 s2 : List (Nat × ι))
    (i : Nat) (hp : pick i s1 = pick i s2) :
    pick i (runSchedG gstep g st s1).2.2 = pick i (runSchedG gstep g st s2).2.2 ∧
    (runSchedG gstep g st s1).2.1 i = (runSchedG gstep g st s2).2.1 i := by
  obtain ⟨a1, a2, _⟩ := interleave_frame_G h i s1 g g st
  obtain ⟨b1, b2, _⟩ := interleave_frame_G h i s2 g g st
  rw [a1, a2, b1, b2, hp]
  exact ⟨rfl, rfl⟩

/-- if the type of shared globals has at most one value, EVERY step function over it satisfies the frame condition -/
theorem frame_of_subsingleton [Subsingleton γ] (gstep : GStep γ σ ι ο) : Frame gstep :=
  ⟨fun g s op => Subsingleton.elim _ _, fun g g' s op => by rw [Subsingleton.elim g g']⟩

end Generic

/-! ### the link to `C19.no_shared_state` (finding 1: "logically unconnected")

  The global component of the LIBRARY is one value per mutable object with static storage duration.  With the list of those
  objects that the generator emits (`Generated.mutableStatics`) the type of globals is `Statics Generated.mutableStatics`;
  `C19.no_shared_state` says the list is empty, hence this type has exactly one value, hence EVERY semantics of the calls over it
  — not only the lifted translation of §2 — satisfies the frame condition and the independence theorem.  A new mutable static
  makes the list non-empty, `statics_subsingleton` unprovable and `interleave_no_statics` unavailable.  (What the list MEANS is
  still decided by the generator: finding 3.) -/

/-- one byte vector per named mutable static object -/
def Statics (names : List String) : Type := { n : String // n ∈ names } → Bytes

instance statics_subsingleton : Subsingleton (Statics Generated.mutableStatics) :=
  ⟨fun a b => funext fun n => by
    obtain ⟨v, hv⟩ := n
    have h : v ∈ ([] : List String) := C19.no_shared_state ▸ hv
    cases h⟩

/-- … whereas one mutable static already gives a global with more than one value -/
theorem statics_nontrivial (name : String) : ¬ Subsingleton (Statics [name]) := by
  intro h
  have := congrFun (h.elim (fun _ => ([] : Bytes)) (fun _ => [0])) ⟨name, List.mem_singleton.2 rfl⟩
  exact absurd this (by decide)

/-- **independence from `no_shared_state`.**  For ANY step function over the library's mutable statics (as listed by the
    generator) — no frame hypothesis — every schedule gives each instance the results and the final state of its solo run.
    The premise that does the work is `C19.no_shared_state`, through `statics_subsingleton`. -/
theorem interleave_no_statics {σ ι ο : Type} (gstep : GStep (Statics Generated.mutableStatics) σ ι ο) (i : Nat)
    (sched : List (Nat × ι)) (g g0 : Statics Generated.mutableStatics) (st : Nat → σ) :
    pick i (runSchedG gstep g st sched).2.2 = (Conc.runSolo (dropG gstep g0) (st i) (pick i sched)).2 ∧
    (runSchedG gstep g st sched).2.1 i = (Conc.runSolo (dropG gstep g0) (st i) (pick i sched)).1 ∧
    (runSchedG gstep g st sched).1 = g :=
  interleave_frame_G (frame_of_subsingleton gstep) i sched g g0 st

/-! ### the hypothesis does real work: steps that use the global violate the conclusion -/

/-- a shared ticket counter: every call returns the current value of the global and increments it -/
def ticket : GStep Nat Unit Unit Nat := fun g _ _ => (g + 1, (), g)

/-- it satisfies neither half of the frame condition -/
theorem ticket_not_frame : ¬ NoWrite ticket ∧ ¬ NoRead ticket :=
  ⟨fun h => absurd (h 0 () ()) (by decide), fun h => absurd (h 0 1 () ()) (by decide)⟩

/-- **counterexample.**  The conclusion of `interleave_frame_G` / `interleave_readonly_G` is FALSE for the ticket counter:
    thread 0 and thread 1 make one call each; alone, instance 1 gets ticket 0; after thread 0's call it gets ticket 1. -/
theorem shared_counter_violates :
    ¬ ∀ (i : Nat) (sched : List (Nat × Unit)) (g : Nat) (st : Nat → Unit),
        pick i (runSchedG ticket g st sched).2.2 = (runSoloG ticket g (st i) (pick i sched)).2.2 := by
  intro h
  exact absurd (h 1 [(0, ()), (1, ())] 0 (fun _ => ())) (by decide)

/-- the two sides, literally -/
example : pick 1 (runSchedG ticket 0 (fun _ => ()) [(0, ()), (1, ())]).2.2 = [1] ∧
    (runSoloG ticket 0 () (pick 1 [(0, ()), (1, ())])).2.2 = [0] := by decide

/-- the regression the property's text names, built from the TRANSLATED encoder itself: `Encoder::encode(packet, context)` as
    generated (`Encoder_encode_obj`), with the data member `sequenceCounter` turned into a `static` — the call reads the counter
    from the global and writes it back there -/
def encStaticSeq (fuel : Nat) : GStep Nat Encoder_St (PktIn × Nat × Nat) (Option (List Bytes)) := fun g s op =>
  match Encoder_encode_obj fuel { s with f_sequenceCounter := g } op.1 op.2.1 op.2.2 with
  | none => (g, s, none)
  | some r => (r.1.f_sequenceCounter, r.1, some r.2)

/-- the frame a default-constructed encoder (device 0, stream 0) makes of `SrcHist.exCan`, with sequence counter `q` -/
def exFrame0 (q : UInt8) : Bytes :=
  [1, 0, 0, 0, 1, 0, 0, q,
   0, 0, 0, 0, 0, 0, 0, 9, 0, 0, 0, 3, 0, 1, 0, 18,
   0, 0, 0, 0, 0, 0, 1, 0x23, 0, 0, 0, 0, 0, 0, 2, 2, 0xAA, 0xBB]

/-- **counterexample on the translated code.**  Two default-constructed encoders, one `encode` of the same CAN packet each, thread
    0 first.  Alone, encoder 1 returns the frame with sequence counter 1; after encoder 0's call it returns the frame with
    counter 2: with a shared counter the conclusion of `interleave_readonly_G` fails, so `Frame` cannot be dropped from
    `interleave_frame_G`, and a translation that DID render a `static` as part of `γ` would make `encoder_step_frame` false. -/
theorem static_member_violates :
    pick 1 (runSchedG (encStaticSeq 65536) 0 (fun _ => Encoder_default)
      [(0, (SrcEnc.pktIn SrcHist.exCan, 0, 64)), (1, (SrcEnc.pktIn SrcHist.exCan, 0, 64))]).2.2 = [some [exFrame0 2]] ∧
    (runSoloG (encStaticSeq 65536) 0 Encoder_default
      (pick 1 [(0, (SrcEnc.pktIn SrcHist.exCan, 0, 64)), (1, (SrcEnc.pktIn SrcHist.exCan, 0, 64))])).2.2 =
        [some [exFrame0 1]] := by
  constructor <;> decide +kernel

theorem encStaticSeq_not_frame : ¬ NoWrite (encStaticSeq 65536) := by
  intro h
  have := h 0 Encoder_default (SrcEnc.pktIn SrcHist.exCan, 0, 64)
  revert this
  decide +kernel

/-! ## §2 the frame condition for the translated source

  Every function below is a `match` on the call descriptor whose arms are the GENERATED functions of GeneratedSrcObj.lean /
  GeneratedSrcTecmp.lean applied to the object's record of data members and the call's arguments — nothing else is in scope.
  `none` is the translation's "undefined behaviour". -/

/-- what a call returns -/
inductive SOut
  | unit
  | nat (n : Nat)
  | bool (b : Bool)
  | bytes (b : Bytes)
  /-- `std::vector<std::vector<uint8_t>>` of `Encoder::encode` -/
  | frames (fs : List Bytes)
  /-- `std::vector<std::shared_ptr<Packet>>` of `Decoder::decode`: CMP packets left, packets of the TECMP path right -/
  | packets (ps : List (PktOut ⊕ TPacket_St))
  /-- … of the static `TECMP::Decoder::Decode` (pointers: `none` = null) -/
  | tpackets (ps : List (Option TPacket_St))
  | tpacket (p : Option TPacket_St)
  /-- a call of a method of another class than the object's: not a C++ program; the step leaves the object alone -/
  | illTyped

/-- the public methods of `ASAM::CMP::Encoder` (all three `encode` overloads, the setters, `restart`, the getters) -/
inductive EncCall
  | setDeviceId (d : Nat)
  | setStreamId (x : Nat)
  | restart
  | encode (p : PktIn) (minBytes maxBytes : Nat)
  | encodeRange (ps : List PktIn) (minBytes maxBytes : Nat)
  | encodePtrRange (ps : List PktIn) (minBytes maxBytes : Nat)
  | getDeviceId
  | getStreamId
  | getSequenceCounter

def encCall (fuel : Nat) (s : Encoder_St) : EncCall → Option (Encoder_St × SOut)
  | .setDeviceId d => (Encoder_setDeviceId_obj s d).map fun r => (r.1, .unit)
  | .setStreamId x => (Encoder_setStreamId_obj s x).map fun r => (r.1, .unit)
  | .restart => (Encoder_restart_obj s).map fun r => (r.1, .unit)
  | .encode p mn mx => (Encoder_encode_obj fuel s p mn mx).map fun r => (r.1, .frames r.2)
  | .encodeRange ps mn mx => (Encoder_encode_range_obj fuel s ps mn mx).map fun r => (r.1, .frames r.2)
  | .encodePtrRange ps mn mx => (Encoder_encode_ptrRange_obj fuel s ps mn mx).map fun r => (r.1, .frames r.2)
  | .getDeviceId => (Encoder_getDeviceId_obj s).map fun r => (r.1, .nat r.2)
  | .getStreamId => (Encoder_getStreamId_obj s).map fun r => (r.1, .nat r.2)
  | .getSequenceCounter => (Encoder_getSequenceCounter_obj s).map fun r => (r.1, .nat r.2)

/-- `ASAM::CMP::Decoder`: `decode(data, size)` on the read-only memory `m` (with the translated `TECMP::Decoder::Decode` plugged
    in, `SrcTec.tecmpExt`), and the two static predicates -/
inductive DecCall
  | decode (m : Bytes) (data size : Nat)
  | isSegmentedPacket (m : Bytes) (data size : Nat)
  | isFirstSegment (m : Bytes) (data size : Nat)

def decCall (fuel : Nat) (s : Decoder_St) : DecCall → Option (Decoder_St × SOut)
  | .decode m data size => (Decoder_decode_obj fuel s m data size (SrcTec.tecmpExt fuel)).map fun r => (r.1, .packets r.2)
  | .isSegmentedPacket m data size => (Decoder_isSegmentedPacket_obj s m data size).map fun r => (r.1, .bool r.2)
  | .isFirstSegment m data size => (Decoder_isFirstSegment_obj s m data size).map fun r => (r.1, .bool r.2)

/-- `ASAM::CMP::Status`.  `removeInterfaceById dev id` stands for `getDeviceStatus(getIndexByDeviceId(dev)).removeInterfaceById(id)`:
    the reference-returning accessor is not translated (`Status_untranslated`) and is composed as in `C16S.srcStep`, i.e. as the
    translator renders `devices[index].update(packet)` inside `Status::update` -/
inductive StCall
  | update (p : OPkt)
  | removeDeviceById (id : Nat)
  | removeInterfaceById (dev id : Nat)
  | clear
  | getDeviceStatusCount
  | getIndexByDeviceId (id : Nat)

def stCall (s : Status_St) : StCall → Option (Status_St × SOut)
  | .update p => (Status_update_obj s p).map fun r => (r.1, .unit)
  | .removeDeviceById id => (Status_removeDeviceById_obj s id).map fun r => (r.1, .unit)
  | .removeInterfaceById dev id =>
    (Status_getIndexByDeviceId_obj s dev).bind fun r =>
      (getIdx r.1.f_devices r.2).bind fun el =>
        (DeviceStatus_removeInterfaceById_obj el id).map fun r2 =>
          ({ r.1 with f_devices := r.1.f_devices.set r.2 r2.1 }, .unit)
  | .clear => (Status_clear_obj s).map fun r => (r.1, .unit)
  | .getDeviceStatusCount => (Status_getDeviceStatusCount_obj s).map fun r => (r.1, .nat r.2)
  | .getIndexByDeviceId id => (Status_getIndexByDeviceId_obj s id).map fun r => (r.1, .nat r.2)

/-- `ASAM::CMP::DeviceStatus` used on its own (a public class: "status objects") -/
inductive DevCall
  | update (p : OPkt)
  | removeInterfaceById (id : Nat)
  | getInterfaceStatusCount
  | getIndexByInterfaceId (id : Nat)

def devCall (s : DeviceStatus_St) : DevCall → Option (DeviceStatus_St × SOut)
  | .update p => (DeviceStatus_update_obj s p).map fun r => (r.1, .unit)
  | .removeInterfaceById id => (DeviceStatus_removeInterfaceById_obj s id).map fun r => (r.1, .unit)
  | .getInterfaceStatusCount => (DeviceStatus_getInterfaceStatusCount_obj s).map fun r => (r.1, .nat r.2)
  | .getIndexByInterfaceId id => (DeviceStatus_getIndexByInterfaceId_obj s id).map fun r => (r.1, .nat r.2)

/-- `ASAM::CMP::InterfaceStatus` used on its own -/
inductive ItfCall
  | update (p : OPkt)
  | getInterfaceId

def itfCall (s : InterfaceStatus_St) : ItfCall → Option (InterfaceStatus_St × SOut)
  | .update p => (InterfaceStatus_update_obj s p).map fun r => (r.1, .unit)
  | .getInterfaceId => (InterfaceStatus_getInterfaceId_obj s).map fun r => (r.1, .nat r.2)

/-- a `ASAM::CMP::Packet` object with the payload it owns (value mode of the translation): the setters, the two raw-header
    getters (the functions the reviewer's finding 2 puts a `static CmpHeader` into), `isValid` -/
inductive PktCall
  | setVersion (v : Nat)
  | setDeviceId (v : Nat)
  | setStreamId (v : Nat)
  | setSequenceCounter (v : Nat)
  | setTimestamp (v : Nat)
  | setInterfaceId (v : Nat)
  | setVendorId (v : Nat)
  | setCommonFlags (v : Nat)
  | setCommonFlag (mask : Nat) (value : Bool)
  | setSegmentType (v : Nat)
  | setPayload (pl : Payload_St)
  | getRawCmpHeader
  | getRawMessageHeader
  | isValid

def pktCall (s : PacketV_St) : PktCall → Option (PacketV_St × SOut)
  | .setVersion v => (Packet_setVersion_pv s v).map fun r => (r.1, .unit)
  | .setDeviceId v => (Packet_setDeviceId_pv s v).map fun r => (r.1, .unit)
  | .setStreamId v => (Packet_setStreamId_pv s v).map fun r => (r.1, .unit)
  | .setSequenceCounter v => (Packet_setSequenceCounter_pv s v).map fun r => (r.1, .unit)
  | .setTimestamp v => (Packet_setTimestamp_pv s v).map fun r => (r.1, .unit)
  | .setInterfaceId v => (Packet_setInterfaceId_pv s v).map fun r => (r.1, .unit)
  | .setVendorId v => (Packet_setVendorId_pv s v).map fun r => (r.1, .unit)
  | .setCommonFlags v => (Packet_setCommonFlags_pv s v).map fun r => (r.1, .unit)
  | .setCommonFlag m b => (Packet_setCommonFlag_pv s m b).map fun r => (r.1, .unit)
  | .setSegmentType v => (Packet_setSegmentType_pv s v).map fun r => (r.1, .unit)
  | .setPayload pl => (Packet_setPayload_pv s pl).map fun r => (r.1, .unit)
  | .getRawCmpHeader => (Packet_getRawCmpHeader_pv s).map fun r => (r.1, .bytes r.2)
  | .getRawMessageHeader => (Packet_getRawMessageHeader_pv s).map fun r => (r.1, .bytes r.2)
  | .isValid => (Packet_isValid_pv s).map fun r => (r.1, .bool r.2)

/-- the STATIC functions of the TECMP path, callable from any thread and belonging to no object: `TECMP::Decoder::Decode(data,
    size)` on the read-only memory `m`, and `TECMP::Converter::ConvertPacket(header, payload)` -/
inductive TecCall
  | decode (m : Bytes) (data size : Nat)
  | convertPacket (header : Bytes) (payload : Option TECMP_Payload_St)

/-- they take NO object: the result is a function of the arguments alone -/
def tecCall (fuel : Nat) : TecCall → Option SOut
  | .decode m data size => (TECMP_Decoder_Decode_obj fuel m data size).map .tpackets
  | .convertPacket h p => (TECMP_Converter_ConvertPacket_obj h p).map .tpacket

/-- an object of one of the classes, as the translation's record of its data members -/
inductive SInst
  | enc (s : Encoder_St)
  | dec (s : Decoder_St)
  | st (s : Status_St)
  | dev (s : DeviceStatus_St)
  | itf (s : InterfaceStatus_St)
  | pkt (s : PacketV_St)

/-- a call made by the thread that drives an object: a method of the object, or a static TECMP function -/
inductive SCall
  | enc (c : EncCall)
  | dec (c : DecCall)
  | st (c : StCall)
  | dev (c : DevCall)
  | itf (c : ItfCall)
  | pkt (c : PktCall)
  | tec (c : TecCall)

/-- one call of the thread driving object `x`, through the translated functions -/
def srcCall (fuel : Nat) : SInst → SCall → Option (SInst × SOut)
  | .enc s, .enc c => (encCall fuel s c).map fun r => (.enc r.1, r.2)
  | .dec s, .dec c => (decCall fuel s c).map fun r => (.dec r.1, r.2)
  | .st s, .st c => (stCall s c).map fun r => (.st r.1, r.2)
  | .dev s, .dev c => (devCall s c).map fun r => (.dev r.1, r.2)
  | .itf s, .itf c => (itfCall s c).map fun r => (.itf r.1, r.2)
  | .pkt s, .pkt c => (pktCall s c).map fun r => (.pkt r.1, r.2)
  | x, .tec c => (tecCall fuel c).map fun o => (x, o)
  | x, _ => some (x, .illTyped)

/-- a partial step as a total one: an undefined call (`none`) POISONS the object — its state is `none` from then on and every
    later call on it returns `none` -/
def stepT {σ ι ο : Type} (f : σ → ι → Option (σ × ο)) : Option σ → ι → Option σ × Option ο
  | none, _ => (none, none)
  | some s, op =>
    match f s op with
    | none => (none, none)
    | some r => (some r.1, some r.2)

/-- the step of the source-level schedules: `srcCall`, total, over ANY shared global `γ` -/
def srcStepG (γ : Type) (fuel : Nat) : GStep γ (Option SInst) SCall (Option SOut) := liftG γ (stepT (srcCall fuel))

/-- **frame, Encoder.**  Each translated public method of `Encoder`, run as a step over `γ × Encoder_St` for ANY type `γ` of
    shared globals and any value of it: the global comes back unchanged, and the new member record and the returned frames are
    the same for every value of the global -/
theorem encoder_step_frame (γ : Type) (fuel : Nat) : Frame (liftG γ (stepT (encCall fuel))) := frame_liftG γ _

/-- **frame, Decoder** (`decode` with the translated TECMP decoder plugged in, and the static predicates) -/
theorem decoder_step_frame (γ : Type) (fuel : Nat) : Frame (liftG γ (stepT (decCall fuel))) := frame_liftG γ _

/-- **frame, Status / DeviceStatus / InterfaceStatus** -/
theorem status_step_frame (γ : Type) :
    Frame (liftG γ (stepT stCall)) ∧ Frame (liftG γ (stepT devCall)) ∧ Frame (liftG γ (stepT itfCall)) :=
  ⟨frame_liftG γ _, frame_liftG γ _, frame_liftG γ _⟩

/-- **frame, Packet** (value mode) -/
theorem packet_step_frame (γ : Type) : Frame (liftG γ (stepT pktCall)) := frame_liftG γ _

/-- **frame, static TECMP functions**: as a step of the thread that calls them they leave BOTH the global and the thread's own
    object alone, and their result depends on neither (finding 4, the "right half": not only `state' = state` but also
    `result i = result j`) -/
theorem tecmp_step_frame (γ : Type) (fuel : Nat) (g g' : γ) (x y : SInst) (c : TecCall) :
    (srcStepG γ fuel g (some x) (.tec c)).1 = g ∧
    ((srcStepG γ fuel g (some x) (.tec c)).2.1 = some x ∨
      ((srcStepG γ fuel g (some x) (.tec c)).2.1 = none ∧ tecCall fuel c = none)) ∧
    (srcStepG γ fuel g (some x) (.tec c)).2.2 = tecCall fuel c ∧
    (srcStepG γ fuel g (some x) (.tec c)).2.2 = (srcStepG γ fuel g' (some y) (.tec c)).2.2 := by
  have hx : ∀ z : SInst, srcCall fuel z (.tec c) = (tecCall fuel c).map fun o => (z, o) := by
    intro z; cases z <;> rfl
  simp only [srcStepG, liftG, stepT, hx]
  cases h : tecCall fuel c <;> simp

/-- the whole step -/
theorem src_step_frame (γ : Type) (fuel : Nat) : Frame (srcStepG γ fuel) := frame_liftG γ _

/-- `srcCall` on an object of a class IS that class's step (so the per-class frame theorems are about the same functions) -/
theorem srcCall_enc (fuel : Nat) (s : Encoder_St) (c : EncCall) :
    srcCall fuel (.enc s) (.enc c) = (encCall fuel s c).map fun r => (.enc r.1, r.2) := rfl
theorem srcCall_dec (fuel : Nat) (s : Decoder_St) (c : DecCall) :
    srcCall fuel (.dec s) (.dec c) = (decCall fuel s c).map fun r => (.dec r.1, r.2) := rfl
theorem srcCall_st (fuel : Nat) (s : Status_St) (c : StCall) :
    srcCall fuel (.st s) (.st c) = (stCall s c).map fun r => (.st r.1, r.2) := rfl
theorem srcCall_tec (fuel : Nat) (x : SInst) (c : TecCall) :
    srcCall fuel x (.tec c) = (tecCall fuel c).map fun o => (x, o) := by cases x <;> rfl

/-- **C19 at source level, with a global component.**  `n` threads, thread `i` driving its own object `st i` (an Encoder,
    Decoder, Status, DeviceStatus, InterfaceStatus or Packet as the record of its data members; `none` = already poisoned) through
    the TRANSLATED methods and the static TECMP functions; ANY type `γ` of shared globals with any initial value, threaded through
    every call; EVERY schedule of the calls.  Then for every instance `i`: the results thread `i` sees are exactly the results
    of the solo run of its own calls on its own object; the object ends in the state of the solo run; and the global is
    untouched.  (The frame hypothesis of `interleave_frame_G` is discharged by `src_step_frame`.) -/
theorem C19S_interleaving_src (γ : Type) (fuel : Nat) (i : Nat) (sched : List (Nat × SCall)) (g : γ)
    (st : Nat → Option SInst) :
    pick i (runSchedG (srcStepG γ fuel) g st sched).2.2 =
      (Conc.runSolo (stepT (srcCall fuel)) (st i) (pick i sched)).2 ∧
    (runSchedG (srcStepG γ fuel) g st sched).2.1 i =
      (Conc.runSolo (stepT (srcCall fuel)) (st i) (pick i sched)).1 ∧
    (runSchedG (srcStepG γ fuel) g st sched).1 = g :=
  interleave_frame_G (src_step_frame γ fuel) i sched g g st

/-- every result in the trace of a schedule is a result of the solo run of the instance that made the call, and conversely -/
theorem trace_mem_iff (γ : Type) (fuel : Nat) (sched : List (Nat × SCall)) (g : γ) (st : Nat → Option SInst)
    (i : Nat) (o : Option SOut) :
    (i, o) ∈ (runSchedG (srcStepG γ fuel) g st sched).2.2 ↔
      o ∈ (Conc.runSolo (stepT (srcCall fuel)) (st i) (pick i sched)).2 := by
  rw [← (C19S_interleaving_src γ fuel i sched g st).1, mem_pick]

/-- **undefined behaviour is per instance.**  A schedule contains an undefined call (a `none` in its trace: out-of-bounds
    `devices[size]`, `back()` of an empty vector, a read outside the buffer …) iff the solo run of SOME instance on its own
    calls does.  In particular whether a thread's calls are defined does not depend on what the other threads do. -/
theorem C19S_defined_iff (γ : Type) (fuel : Nat) (sched : List (Nat × SCall)) (g : γ) (st : Nat → Option SInst) :
    (∀ x ∈ (runSchedG (srcStepG γ fuel) g st sched).2.2, x.2 ≠ none) ↔
      ∀ i, ∀ o ∈ (Conc.runSolo (stepT (srcCall fuel)) (st i) (pick i sched)).2, o ≠ none := by
  constructor
  · intro h i o ho
    exact h (i, o) ((trace_mem_iff γ fuel sched g st i o).2 ho)
  · intro h x hx
    obtain ⟨i, o⟩ := x
    exact h i o ((trace_mem_iff γ fuel sched g st i o).1 hx)

/-! ### a global that IS read: the input memory shared by several decoder threads (finding 4)

  `const uint8_t* data` arguments are addresses in ONE memory.  Here that memory is the shared component `γ := Bytes`: every
  thread decodes from it (through `Decoder::decode` on its own Decoder object or through the static `TECMP::Decoder::Decode`),
  possibly the SAME captured buffer.  The translated functions take the memory as an argument and do not return it: `NoWrite`
  holds (`memStep_noWrite`), `NoRead` of course does not (`memStep_reads`), and `interleave_readonly_G` — not the frame
  theorem — gives independence.  That the C++ never writes through `const_cast<uint8_t*>(tempPtr)` (`tecmp_decoder.cpp:63`) is, as
  the reviewer says, part of the translation scheme ("the one read-only memory `m`"), not proved from the C++ here. -/

/-- the calls of a decoder thread that take an address in the shared memory -/
inductive MemCall
  | decode (data size : Nat)
  | tecmpDecode (data size : Nat)

def memCall (fuel : Nat) (m : Bytes) (s : Decoder_St) : MemCall → Option (Decoder_St × SOut)
  | .decode data size => decCall fuel s (.decode m data size)
  | .tecmpDecode data size => (tecCall fuel (.decode m data size)).map fun o => (s, o)

/-- the step over the shared memory -/
def memStep (fuel : Nat) : GStep Bytes (Option Decoder_St) MemCall (Option SOut) := fun m s c => (m, stepT (memCall fuel m) s c)

theorem memStep_noWrite (fuel : Nat) : NoWrite (memStep fuel) := fun _ _ _ => rfl

/-- the results DO depend on this global: the same call finds one CAN-FD packet in one memory and none in another -/
theorem memStep_reads : ¬ NoRead (memStep 64) := by
  intro h
  have := congrArg (fun r : Option Decoder_St × Option SOut => match r.2 with
      | some (.tpackets ps) => ps.length
      | _ => 0)
    (h ([9] ++ SrcTec.exCanFd ++ [5, 5]) (List.replicate 52 0) (some Decoder_default) (.tecmpDecode 1 49))
  revert this
  decide +kernel

/-- **decoder threads sharing their input memory.**  Any number of threads, each with its own Decoder object, all reading from the
    same memory `m` (the same buffers or different ones), any schedule: each thread gets exactly the results of its solo run
    over that memory, its decoder ends in the solo run's state, and the memory is unchanged -/
theorem C19S_shared_input_memory (fuel : Nat) (i : Nat) (sched : List (Nat × MemCall)) (m : Bytes)
    (st : Nat → Option Decoder_St) :
    pick i (runSchedG (memStep fuel) m st sched).2.2 = (runSoloG (memStep fuel) m (st i) (pick i sched)).2.2 ∧
    (runSchedG (memStep fuel) m st sched).2.1 i = (runSoloG (memStep fuel) m (st i) (pick i sched)).2.1 ∧
    (runSchedG (memStep fuel) m st sched).1 = m :=
  interleave_readonly_G (memStep_noWrite fuel) i sched m st

/-- two threads on the SAME TECMP buffer at address 1, one through `Decoder::decode`, one through `TECMP::Decoder::Decode`
    (the reviewer's scenario): both get the CAN-FD packet of device 7 -/
example :
    let r := runSchedG (memStep 64) ([9] ++ SrcTec.exCanFd ++ [5, 5]) (fun _ => some Decoder_default)
      [(0, .decode 1 49), (1, .tecmpDecode 1 49), (0, .decode 1 49)]
    (r.2.2.map fun x => (x.1, match x.2 with
      | some (.packets ps) => ps.map fun p => (Sum.elim SrcDec.toPacket SrcTec.tAbs p).deviceId
      | some (.tpackets ps) => ps.filterMap fun p => p.map fun q => (SrcTec.tAbs q).deviceId
      | _ => [])) = [(0, [7]), (1, [7]), (0, [7])] := by
  decide +kernel

/-! ## §3 from the source-level schedule to the model (`C19.instStep`, `C19.C19_interleaving`)

  A call is described ONCE (`MCall`: the operations of `SrcHist.Op`, the calls of `SrcHist.Call`, the status operations `StOp`,
  a TECMP buffer in its memory) and read both as the call of the translated source (`MCall.src`) and as the operation of the
  model (`MCall.model`).  `Rep` relates the translated object to the model instance (the correspondences of the existing
  history theorems: `SrcHist.Corr`, `SrcDec.tblSt` + `SrcHist.TableInv`, `SrcSt.stSt` + `C16S.Small`); `CallOk` collects the
  hypotheses of the existing single-call theorems. -/

open AsamCmp.C19 (Inst InstOp InstOut instStep)
open AsamCmp.C16S (Obs Small)

inductive MCall
  | enc (op : SrcHist.Op)
  | dec (c : SrcHist.Call)
  | st (op : StOp)
  /-- the static TECMP decoder on the buffer `b` at address `pre.length` of the memory `pre ++ b ++ post` -/
  | tecmp (pre b post : Bytes)

def encSrc : SrcHist.Op → EncCall
  | .setDeviceId d => .setDeviceId d
  | .setStreamId x => .setStreamId x
  | .restart => .restart
  | .encodeBatch b c => .encodeRange (b.map SrcEnc.pktIn) c.min c.max
  | .encode1 p c => .encode (SrcEnc.pktIn p) c.min c.max

def decSrc : SrcHist.Call → DecCall
  | .null m size => .decode m 0 size
  | .buf pre b post => .decode (pre ++ b ++ post) pre.length b.length

def stSrc (img : Packet → OPkt) : StOp → StCall
  | .update p => .update (img p)
  | .rmDev id => .removeDeviceById id
  | .rmIf dev id => .removeInterfaceById dev id
  | .clear => .clear

/-- the call of the translated source -/
def MCall.src (img : Packet → OPkt) : MCall → SCall
  | .enc op => .enc (encSrc op)
  | .dec c => .dec (decSrc c)
  | .st op => .st (stSrc img op)
  | .tecmp pre b post => .tec (.decode (pre ++ b ++ post) pre.length b.length)

/-- the operation of the model (`C19.InstOp`) -/
def MCall.model : MCall → InstOp
  | .enc op => .enc op.toModel
  | .dec c => .dec c.arg
  | .st op => .st op
  | .tecmp _ b _ => .tecmp b

/-- growth of the size budget `n` of `Rep`: a decode call may store its bytes, a status operation may add one element -/
def MCall.cost : MCall → Nat
  | .dec c => c.bytes
  | .st _ => 1
  | _ => 0

/-- what the encoder's translated methods return for the model's frames: nothing for the `void` setters, the serialised frames
    (padded to `minBytesPerMessage`) for the encode calls -/
def encOut : SrcHist.Op → List Bytes → SOut
  | .encodeBatch _ _, fs => .frames fs
  | .encode1 _ _, fs => .frames fs
  | _, _ => .unit

/-- the translated object represents the model instance; `n` bounds what the object stores (bytes of pending reassemblies,
    vector lengths) -/
def Rep (img : Packet → OPkt) (n : Nat) : SInst → Inst → Prop
  | .enc s, .enc e => SrcHist.Corr s e
  | .dec s, .dec d => ∃ t, s = SrcDec.tblSt t ∧ d = t.abs ∧ SrcHist.TableInv n t
  | .st s, .st m => s = SrcSt.stSt img m ∧ Small n m
  | _, _ => False

/-- the hypotheses of the existing single-call source theorems, per kind of call (and: the call is a method of the object's
    class).  Encoder: `SrcHist.Op.Ok` (arguments within their C types, `c.ok`, `max < 2^32`, packets with a payload shorter than
    2^16) and fuel; decoder: `SrcHist.Call.Ok` (non-null address, memory below 2^63, fuel) and the budget; status: the budget,
    and `removeInterfaceById` only on a known device (`devices[size]` otherwise); TECMP: the hypotheses of
    `SrcTec.tecmpDecode_src_small` -/
def CallOk (fuel n : Nat) (mx : Inst) : MCall → Prop
  | .enc op => (∃ e, mx = .enc e) ∧ op.Ok ∧ 65536 ≤ fuel
  | .dec c => (∃ d, mx = .dec d) ∧ c.Ok fuel ∧ n + 65536 < 2 ^ 64
  | .st op => (∃ m, mx = .st m ∧ ∀ dev id, op = .rmIf dev id → indexOfDev m dev < m.length) ∧ n < 2 ^ 64
  | .tecmp pre b post =>
    0 < pre.length ∧ (pre ++ b ++ post).length < 2 ^ 64 ∧ b.length ≤ fuel ∧ b.length + 2 ^ 16 ≤ 2 ^ 64

/-- the result of the translated call represents the result of the model's operation -/
def OutRel : MCall → SOut → InstOut → Prop
  | .enc op, o, mo => ∃ efs, mo = .frames efs ∧ o = encOut op (efs.map (EFrame.bytes op.min))
  | .dec _, o, mo => ∃ ps, o = .packets ps ∧ mo = .packets (ps.map (Sum.elim SrcDec.toPacket SrcTec.tAbs))
  | .st _, o, mo => o = .unit ∧ mo = .unit
  | .tecmp _ b _, o, mo =>
    o = .tpackets ((tecmpDecode b).map fun p => some (SrcTec.tRepr p)) ∧ mo = .packets (tecmpDecode b)

theorem rep_mono {img : Packet → OPkt} {n n' : Nat} {x : SInst} {mx : Inst} (h : Rep img n x mx) (hn : n ≤ n') :
    Rep img n' x mx := by
  cases x <;> cases mx <;> try exact h
  · obtain ⟨t, h1, h2, h3⟩ := h
    exact ⟨t, h1, h2, SrcHist.tableInv_mono h3 hn⟩
  · exact ⟨h.1, Nat.le_trans h.2.1 hn, fun d hd => Nat.le_trans (h.2.2 d hd) hn⟩

theorem encCall_of_srcCall (fuel : Nat) (s s' : Encoder_St) (op : SrcHist.Op) (fs : List Bytes)
    (h : SrcHist.srcCall fuel s op = some (s', fs)) : encCall fuel s (encSrc op) = some (s', encOut op fs) := by
  cases op with
  | setDeviceId d =>
    simp only [SrcHist.srcCall, Option.map_eq_some_iff] at h
    obtain ⟨r, hr, he⟩ := h
    simp only [encCall, encSrc, hr, Option.map_some, encOut]
    cases he; rfl
  | setStreamId x =>
    simp only [SrcHist.srcCall, Option.map_eq_some_iff] at h
    obtain ⟨r, hr, he⟩ := h
    simp only [encCall, encSrc, hr, Option.map_some, encOut]
    cases he; rfl
  | restart =>
    simp only [SrcHist.srcCall, Option.map_eq_some_iff] at h
    obtain ⟨r, hr, he⟩ := h
    simp only [encCall, encSrc, hr, Option.map_some, encOut]
    cases he; rfl
  | encodeBatch b c =>
    simp only [SrcHist.srcCall] at h
    simp only [encCall, encSrc, h, Option.map_some, encOut]
  | encode1 p c =>
    simp only [SrcHist.srcCall] at h
    simp only [encCall, encSrc, h, Option.map_some, encOut]

theorem decCall_eq (fuel : Nat) (s : Decoder_St) (c : SrcHist.Call) :
    decCall fuel s (decSrc c) = (SrcHist.srcDecodeCall fuel s c).map fun r => (r.1, .packets r.2) := by
  cases c <;> rfl

theorem stCall_eq (img : Packet → OPkt) (s : Status_St) (op : StOp) :
    stCall s (stSrc img op) = (C16S.srcStep img s op).map fun s' => (s', .unit) := by
  cases op with
  | update p => simp only [stCall, stSrc, C16S.srcStep, Option.map_map]; rfl
  | rmDev id => simp only [stCall, stSrc, C16S.srcStep, Option.map_map]; rfl
  | clear => simp only [stCall, stSrc, C16S.srcStep, Option.map_map]; rfl
  | rmIf dev id =>
    simp only [stCall, stSrc, C16S.srcStep]
    cases h1 : Status_getIndexByDeviceId_obj s dev with
    | none => rfl
    | some r =>
      simp only [Option.bind_some]
      cases h2 : getIdx r.1.f_devices r.2 with
      | none => rfl
      | some el =>
        simp only [Option.bind_some, Option.map_map]
        rfl

/-- **one call** (the `instStep_src` of finding 5).  The translated call on a representation of the model instance is DEFINED
    and yields a representation of the instance and of the result that `C19.instStep` yields, for every kind of call, under
    `CallOk`; the budget grows by the call's cost. -/
theorem srcCall_refines {img : Packet → OPkt} (H : Obs img) (fuel n : Nat) (x : SInst) (mx : Inst) (c : MCall)
    (hr : Rep img n x mx) (hc : CallOk fuel n mx c) :
    ∃ x' o, srcCall fuel x (c.src img) = some (x', o) ∧
      Rep img (n + c.cost) x' (instStep mx c.model).1 ∧ OutRel c o (instStep mx c.model).2 := by
  cases c with
  | enc op =>
    obtain ⟨⟨e, rfl⟩, hop, hf⟩ := hc
    cases x with
    | enc s =>
      obtain ⟨s', h1, h2⟩ := SrcHist.corr_step hr op fuel hf hop
      refine ⟨.enc s', encOut op ((e.apply op.toModel).2.map (EFrame.bytes op.min)), ?_, h2, _, rfl, rfl⟩
      simp only [MCall.src, srcCall_enc, encCall_of_srcCall fuel s s' op _ h1, Option.map_some]
    | _ => exact absurd hr (by simp [Rep])
  | dec call =>
    obtain ⟨⟨d, rfl⟩, hok, hB⟩ := hc
    cases x with
    | dec s =>
      obtain ⟨t, rfl, rfl, hI⟩ := hr
      obtain ⟨t', outs, h1, h2, h3, h4⟩ := SrcHist.decode_call_src n t call fuel hI hB hok
      refine ⟨.dec (SrcDec.tblSt t'), .packets outs, ?_, ⟨t', rfl, ?_, h2⟩, outs, rfl, ?_⟩
      · simp only [MCall.src, srcCall_dec, decCall_eq, h1, Option.map_some]
      · exact h3.symm
      · show InstOut.packets (decode t.abs call.arg).2 = _
        rw [h4]
    | _ => exact absurd hr (by simp [Rep])
  | st op =>
    obtain ⟨⟨m, rfl, hk⟩, hn⟩ := hc
    cases x with
    | st s =>
      obtain ⟨rfl, hs⟩ := hr
      have hl : m.length < 2 ^ 64 := Nat.lt_of_le_of_lt hs.1 hn
      have hl' : ∀ d ∈ m, d.ifs.length < 2 ^ 64 := fun d hd => Nat.lt_of_le_of_lt (hs.2 d hd) hn
      have h1 := (C16S.srcStep_img_partial H m op hl hl').1 hk
      refine ⟨.st (SrcSt.stSt img (statusStep m op)), .unit, ?_, ⟨rfl, C16S.small_step n m op hs⟩, rfl, rfl⟩
      simp only [MCall.src, srcCall_st, stCall_eq, h1, Option.map_some]
    | _ => exact absurd hr (by simp [Rep])
  | tecmp pre b post =>
    obtain ⟨hpre, hmem, hf, hsz⟩ := hc
    have h1 := SrcTec.tecmpDecode_src_small pre b post fuel hpre hmem hf hsz
    have hm : instStep mx (.tecmp b) = (mx, .packets (tecmpDecode b)) := by cases mx <;> rfl
    refine ⟨x, .tpackets ((tecmpDecode b).map fun p => some (SrcTec.tRepr p)), ?_, ?_, ?_⟩
    · simp only [MCall.src, srcCall_tec, tecCall, h1, Option.map_some]
    · simp only [MCall.model, hm]
      exact rep_mono hr (Nat.le_add_right _ _)
    · simp only [MCall.model, hm]
      exact ⟨rfl, rfl⟩

/-- `CallOk` along the MODEL's solo run of one instance, the budget growing with the calls made so far — a condition on the
    thread's own workload only -/
def RunOk (fuel : Nat) : Nat → Inst → List MCall → Prop
  | _, _, [] => True
  | n, mx, c :: cs => CallOk fuel n mx c ∧ RunOk fuel (n + c.cost) (instStep mx c.model).1 cs

/-- results of a source-level run (none undefined) against the results of the model's run, call by call -/
def OutsRel : List MCall → List (Option SOut) → List InstOut → Prop
  | [], os, mos => os = [] ∧ mos = []
  | c :: cs, os, mos =>
    ∃ o os' mo mos', os = some o :: os' ∧ mos = mo :: mos' ∧ OutRel c o mo ∧ OutsRel cs os' mos'

def costSum (cs : List MCall) : Nat := (cs.map MCall.cost).sum

/-- **solo runs.**  One object driven through a list of calls by the translated functions: no call is undefined, every result
    and the final object represent those of the model's solo run `Conc.runSolo C19.instStep` -/
theorem solo_refines {img : Packet → OPkt} (H : Obs img) (fuel : Nat) : ∀ (cs : List MCall) (n : Nat) (x : SInst) (mx : Inst),
    Rep img n x mx → RunOk fuel n mx cs →
    (∃ x', (Conc.runSolo (stepT (srcCall fuel)) (some x) (cs.map (MCall.src img))).1 = some x' ∧
      Rep img (n + costSum cs) x' (Conc.runSolo instStep mx (cs.map MCall.model)).1) ∧
    OutsRel cs (Conc.runSolo (stepT (srcCall fuel)) (some x) (cs.map (MCall.src img))).2
      (Conc.runSolo instStep mx (cs.map MCall.model)).2 := by
  intro cs
  induction cs with
  | nil => intro n x mx hr _; exact ⟨⟨x, rfl, hr⟩, rfl, rfl⟩
  | cons c cs ih =>
    intro n x mx hr hok
    obtain ⟨hc, hrest⟩ := hok
    obtain ⟨x1, o, h1, h2, h3⟩ := srcCall_refines H fuel n x mx c hr hc
    obtain ⟨⟨x2, k1, k2⟩, k3⟩ := ih (n + c.cost) x1 _ h2 hrest
    have hs : stepT (srcCall fuel) (some x) (c.src img) = (some x1, some o) := by
      simp only [stepT, h1]
    simp only [List.map_cons, Conc.runSolo, hs]
    refine ⟨⟨x2, k1, ?_⟩, o, _, _, _, rfl, rfl, h3, k3⟩
    have : n + costSum (c :: cs) = n + c.cost + costSum cs := by
      simp only [costSum, List.map_cons, List.sum_cons]; omega
    rw [this]
    exact k2

/-- **C19 end to end: schedule of the translated source ⟶ schedule of the model.**  Threads drive their own objects through the
    translated methods / static TECMP functions under ANY schedule `sched`, over ANY shared global `γ`; `mst` are model instances.
    For every instance `i` whose object represents `mst i` and whose OWN calls satisfy `RunOk` (whatever the other threads do):
    * none of its calls is undefined, and call by call the results thread `i` sees in the source-level schedule represent
      (`OutRel`: serialised frames, packets read back through `toPacket` / `tAbs`) the results instance `i` gets in the MODEL
      schedule `Conc.runSched C19.instStep` — the one `C19.C19_interleaving` is about;
    * its object ends as a representation of the model instance's final state;
    * the global is untouched.
    This is the composition  source schedule = source solo (`C19S_interleaving_src`, frame discharged)  ⟶  model solo
    (`solo_refines`: the existing single-call source theorems)  =  model schedule (`C19.C19_interleaving`). -/
theorem C19S_interleaving_refines {img : Packet → OPkt} (H : Obs img) (γ : Type) (fuel : Nat) (g : γ)
    (sched : List (Nat × MCall)) (st : Nat → SInst) (mst : Nat → Inst) (i n : Nat)
    (hr : Rep img n (st i) (mst i)) (hok : RunOk fuel n (mst i) (pick i sched)) :
    OutsRel (pick i sched)
      (pick i (runSchedG (srcStepG γ fuel) g (fun j => some (st j)) (sched.map fun x => (x.1, x.2.src img))).2.2)
      (pick i (Conc.runSched instStep mst (sched.map fun x => (x.1, x.2.model))).2) ∧
    (∃ x', (runSchedG (srcStepG γ fuel) g (fun j => some (st j)) (sched.map fun x => (x.1, x.2.src img))).2.1 i = some x' ∧
      Rep img (n + costSum (pick i sched)) x' ((Conc.runSched instStep mst (sched.map fun x => (x.1, x.2.model))).1 i)) ∧
    (runSchedG (srcStepG γ fuel) g (fun j => some (st j)) (sched.map fun x => (x.1, x.2.src img))).1 = g := by
  obtain ⟨a1, a2, a3⟩ := C19S_interleaving_src γ fuel i (sched.map fun x => (x.1, x.2.src img)) g (fun j => some (st j))
  obtain ⟨b1, b2⟩ := C19.C19_interleaving i (sched.map fun x => (x.1, x.2.model)) mst
  obtain ⟨⟨x', c1, c2⟩, c3⟩ := solo_refines H fuel (pick i sched) n (st i) (mst i) hr hok
  have e1 : pick i (sched.map fun x => (x.1, x.2.src img)) = (pick i sched).map (MCall.src img) := pick_map i _ sched
  have e2 : pick i (sched.map fun x => (x.1, x.2.model)) = (pick i sched).map MCall.model := pick_map i _ sched
  have b1' : pick i (Conc.runSched instStep mst (sched.map fun x => (x.1, x.2.model))).2 =
      (Conc.runSolo instStep (mst i) ((pick i sched).map MCall.model)).2 := by rw [← e2]; exact b1
  have b2' : (Conc.runSched instStep mst (sched.map fun x => (x.1, x.2.model))).1 i =
      (Conc.runSolo instStep (mst i) ((pick i sched).map MCall.model)).1 := by rw [← e2]; exact b2
  rw [e1] at a1 a2
  refine ⟨?_, ⟨x', ?_, ?_⟩, a3⟩
  · rw [a1, b1']; exact c3
  · rw [a2]; exact c1
  · rw [b2']; exact c2

/-- freshly constructed objects represent the model's fresh instances (budget 0) -/
theorem rep_fresh (img : Packet → OPkt) :
    Rep img 0 (.enc Encoder_default) (.enc (Enc.fresh 0 0)) ∧
    Rep img 0 (.dec Decoder_default) (.dec DecState.empty) ∧
    Rep img 0 (.st Status_default) (.st []) :=
  ⟨SrcHist.corr_fresh, ⟨[], SrcHist.tableInv_fresh.2.1.symm, SrcHist.tableInv_fresh.2.2.symm, SrcHist.tableInv_fresh.1⟩,
    rfl, Nat.le_refl _, fun d hd => by cases hd⟩

/-! ## §4 the static TECMP decoder (finding 4); concrete schedules (finding 7) -/

/-- model level, the half `C19.tecmp_stateless` leaves out: the RESULT of the static TECMP decoder does not depend on the
    instance the calling thread drives, nor on that instance's history -/
theorem tecmp_result_instance_independent (x y : Inst) (b : Bytes) :
    (instStep x (.tecmp b)).2 = (instStep y (.tecmp b)).2 ∧ (instStep x (.tecmp b)).2 = .packets (tecmpDecode b) ∧
    (instStep x (.tecmp b)).1 = x := by
  cases x <;> cases y <;> exact ⟨rfl, rfl, rfl⟩

/-- source level: from whatever thread, on whatever object (of any class, in any state), after whatever history and with whatever
    global, the translated `TECMP::Decoder::Decode` on the buffer `b` returns the representation of the model's packets
    and the thread's object is untouched -/
theorem tecmp_src_anywhere (γ : Type) (g : γ) (x : SInst) (pre b post : Bytes) (fuel : Nat) (hpre : 0 < pre.length)
    (hmem : (pre ++ b ++ post).length < 2 ^ 64) (hf : b.length ≤ fuel) (hsz : b.length + 2 ^ 16 ≤ 2 ^ 64) :
    srcStepG γ fuel g (some x) (.tec (.decode (pre ++ b ++ post) pre.length b.length)) =
      (g, some x, some (.tpackets ((tecmpDecode b).map fun p => some (SrcTec.tRepr p)))) := by
  simp only [srcStepG, liftG, stepT, srcCall_tec, tecCall,
    SrcTec.tecmpDecode_src_small pre b post fuel hpre hmem hf hsz, Option.map_some]

/-- a decidable digest of a result, for the evaluations below: the frames of an `encode`, the packets of a `decode` read as
    packets of the model -/
def SOut.digest : SOut → List Bytes × List Packet
  | .frames fs => (fs, [])
  | .packets ps => ([], ps.map (Sum.elim SrcDec.toPacket SrcTec.tAbs))
  | .tpackets ps => ([], ps.filterMap fun p => p.map SrcTec.tAbs)
  | _ => ([], [])

/-- four threads: 0 and 3 drive an encoder each (0 sets device id 0x0102 first), 1 drives a decoder (two segments of one Ethernet
    message, and a call of the static TECMP decoder in between), 2 drives a status tracker; interleaved -/
def exSched : List (Nat × MCall) :=
  [(0, .enc (.setDeviceId 0x0102)),
   (1, .dec (.buf [9] SrcHist.exSeg1 [])),
   (3, .enc (.encode1 SrcHist.exCan SrcHist.exCtx)),
   (0, .enc (.encode1 SrcHist.exCan SrcHist.exCtx)),
   (2, .st (.update (C16S.cmT 5 1))),
   (1, .tecmp [9] SrcTec.exCanFd [5, 5]),
   (2, .st (.update (C16S.ifT 5 2 3))),
   (1, .dec (.buf [9] SrcHist.exSeg2 [5, 5])),
   (0, .enc (.encodeBatch [SrcHist.exCan] SrcHist.exCtx)),
   (2, .st (.rmIf 5 2)),
   (3, .enc (.encode1 SrcHist.exCan SrcHist.exCtx))]

def exSt : Nat → SInst := fun j =>
  if j = 1 then .dec Decoder_default else if j = 2 then .st Status_default else .enc Encoder_default

def exMst : Nat → Inst := fun j =>
  if j = 1 then .dec DecState.empty else if j = 2 then .st [] else .enc (Enc.fresh 0 0)

/-- the source-level schedule of `exSched` (packets of the status calls through the injective image `C16S.fullImg`) with a
    shared global of type `Nat` -/
def exRun := runSchedG (srcStepG Nat 65536) 42 (fun j => some (exSt j)) (exSched.map fun x => (x.1, x.2.src C16S.fullImg))

/-- **evaluated in the kernel on the translated functions.**  Encoder 0 returns nothing for the setter, then the frames with
    device 0x0102 and counters 1, 2; encoder 3 — same packet, same calls, interleaved with encoder 0 — the frames with device 0
    and ITS OWN counters 1, 2; the decoder nothing for the first segment, the CAN-FD packet of the TECMP message, then the
    reassembled Ethernet packet; no call is undefined; the global is still 42 -/
example : (pick 0 exRun.2.2).map (Option.map SOut.digest) =
      [some ([], []), some ([SrcHist.exFrame 1], []), some ([SrcHist.exFrame 2], [])] ∧
    (pick 3 exRun.2.2).map (Option.map SOut.digest) = [some ([exFrame0 1], []), some ([exFrame0 2], [])] ∧
    exRun.1 = 42 := by
  refine ⟨?_, ?_, ?_⟩ <;> decide +kernel

example : (pick 1 exRun.2.2).map (Option.map fun o => o.digest.2.map fun p => (p.payload.map (·.ty), p.deviceId)) =
      [some [], some [(some tyCanFd, 7)], some [(some tyEth, 0x0102)]] ∧
    ((pick 1 exRun.2.2).map (Option.map SOut.digest))[2]? = some (some ([], [SrcHist.exPkt])) := by
  refine ⟨?_, ?_⟩ <;> decide +kernel

example : (pick 2 exRun.2.2).map Option.isSome = [true, true, true] ∧
    (match exRun.2.1 2 with
     | some (.st s) => some (s.f_devices.map fun d => (opq d.f_devicePacket "getDeviceId", d.f_interfaces.length))
     | _ => none) = some [(5, 0)] := by
  refine ⟨?_, ?_⟩ <;> decide +kernel

/-- the hypotheses of `C19S_interleaving_refines` hold for every thread of this schedule -/
theorem exSched_ok : ∀ i, Rep C16S.fullImg 0 (exSt i) (exMst i) ∧ RunOk 65536 0 (exMst i) (pick i exSched) := by
  intro i
  have hcan : SrcHist.exCan.Enc := ⟨by decide, by decide⟩
  have hctx : SrcHist.exCtx.ok = true ∧ SrcHist.exCtx.max < 2 ^ 32 := ⟨by decide, by decide⟩
  by_cases h0 : i = 0
  · subst h0
    refine ⟨SrcHist.corr_fresh, ?_⟩
    show RunOk 65536 0 (.enc (Enc.fresh 0 0))
      [.enc (.setDeviceId 0x0102), .enc (.encode1 SrcHist.exCan SrcHist.exCtx), .enc (.encodeBatch [SrcHist.exCan] SrcHist.exCtx)]
    refine ⟨⟨⟨_, rfl⟩, ?_, by decide⟩, ⟨⟨_, rfl⟩, ⟨hctx.1, hctx.2, hcan⟩, by decide⟩, ⟨⟨_, rfl⟩, ⟨hctx.1, hctx.2, ?_⟩, by decide⟩,
      trivial⟩
    · show (0x0102 : Nat) < 65536
      decide
    · intro p hp
      rw [List.mem_singleton] at hp
      rw [hp]; exact hcan
  · by_cases h1 : i = 1
    · subst h1
      refine ⟨(rep_fresh _).2.1, ?_⟩
      show RunOk 65536 0 (.dec DecState.empty)
        [.dec (.buf [9] SrcHist.exSeg1 []), .tecmp [9] SrcTec.exCanFd [5, 5], .dec (.buf [9] SrcHist.exSeg2 [5, 5])]
      refine ⟨⟨⟨_, rfl⟩, ⟨by decide, by decide, by decide⟩, by decide⟩, ⟨by decide, by decide, by decide, by decide⟩,
        ⟨⟨_, rfl⟩, ⟨by decide, by decide, by decide⟩, by decide⟩, trivial⟩
    · by_cases h2 : i = 2
      · subst h2
        refine ⟨(rep_fresh _).2.2, ?_⟩
        show RunOk 65536 0 (.st [])
          [.st (.update (C16S.cmT 5 1)), .st (.update (C16S.ifT 5 2 3)), .st (.rmIf 5 2)]
        refine ⟨⟨⟨_, rfl, fun _ _ h => by cases h⟩, by decide⟩, ⟨⟨_, rfl, fun _ _ h => by cases h⟩, by decide⟩,
          ⟨⟨_, rfl, ?_⟩, by decide⟩, trivial⟩
        intro dev id h
        cases h
        decide +kernel
      · by_cases h3 : i = 3
        · subst h3
          refine ⟨SrcHist.corr_fresh, ?_⟩
          show RunOk 65536 0 (.enc (Enc.fresh 0 0))
            [.enc (.encode1 SrcHist.exCan SrcHist.exCtx), .enc (.encode1 SrcHist.exCan SrcHist.exCtx)]
          exact ⟨⟨⟨_, rfl⟩, ⟨hctx.1, hctx.2, hcan⟩, by decide⟩, ⟨⟨_, rfl⟩, ⟨hctx.1, hctx.2, hcan⟩, by decide⟩, trivial⟩
        · have hp : pick i exSched = [] := by
            simp [pick, exSched, h0, h1, h2, h3, List.filter, Ne.symm h0, Ne.symm h1, Ne.symm h2, Ne.symm h3]
          have hs : exSt i = .enc Encoder_default := by simp [exSt, h1, h2]
          have hm : exMst i = .enc (Enc.fresh 0 0) := by simp [exMst, h1, h2]
          rw [hp, hs, hm]
          exact ⟨SrcHist.corr_fresh, trivial⟩

/-- … so the theorem applies to it: for every thread, the source-level schedule evaluated above represents the MODEL's schedule -/
example (i : Nat) :
    OutsRel (pick i exSched) (pick i exRun.2.2)
      (pick i (Conc.runSched instStep exMst (exSched.map fun x => (x.1, x.2.model))).2) :=
  (C19S_interleaving_refines C16S.obs_fullImg Nat 65536 42 exSched exSt exMst i 0 (exSched_ok i).1 (exSched_ok i).2).1

/-- the same schedule WITHOUT thread 0 and thread 3 taking turns — each encoder's calls en bloc — is indistinguishable for every
    thread (`schedules_equivalent_G` with the frame discharged) -/
example (i : Nat) (s2 : List (Nat × SCall))
    (h : pick i (exSched.map fun x => (x.1, x.2.src C16S.fullImg)) = pick i s2) :
    pick i exRun.2.2 = pick i (runSchedG (srcStepG Nat 65536) 42 (fun j => some (exSt j)) s2).2.2 :=
  (schedules_equivalent_G (src_step_frame Nat 65536) 42 _ _ s2 i h).1

/-- MODEL level (`C19.C19_interleaving` had no example): two encoders with different device ids under an alternating schedule;
    the per-instance frames carry each encoder's own id and its own counters 1, 2 -/
example :
    let sched : List (Nat × InstOp) :=
      [(0, .enc (.setDev 0x0102)), (1, .enc (.setDev 7)), (0, .enc (.encode [SrcHist.exCan] SrcHist.exCtx)),
       (1, .enc (.encode [SrcHist.exCan] SrcHist.exCtx)), (1, .enc (.encode [SrcHist.exCan] SrcHist.exCtx)),
       (0, .enc (.encode [SrcHist.exCan] SrcHist.exCtx))]
    let digest : InstOut → List (Nat × Nat) := fun o => match o with
      | .frames fs => fs.map fun f => (f.dev, f.seq)
      | _ => []
    (pick 0 (Conc.runSched instStep (fun _ => .enc (Enc.fresh 0 0)) sched).2).map digest = [[], [(0x0102, 1)], [(0x0102, 2)]] ∧
    (pick 1 (Conc.runSched instStep (fun _ => .enc (Enc.fresh 0 0)) sched).2).map digest = [[], [(7, 1)], [(7, 2)]] := by
  refine ⟨?_, ?_⟩ <;> decide +kernel

end AsamCmp.C19S
