/-
  C14S  Packets and payloads behave as values — strengthening of Props/C14.lean after the statement review
  (/tmp/audit/out_C14.md).  Only ADDITIONAL theorems about the existing definitions (Values.lean, Packet.lean, the translated
  source of GeneratedSrcObj.lean, the signature table of GeneratedSrcSig.lean); nothing existing is changed.

  §1  equality, exact (finding 4, K9; finding 8): one non-empty operand is enough for `==  ⇔  field-by-field`; the complete
      characterisation of `==` on ALL pairs (fixes the zero-length branch as well); the mixed case (non-empty against empty /
      default-constructed / moved-from) is `false`; `!=` exactly `≠`; `==` is an equivalence relation.
  §2  the same for the TRANSLATED `operator==` / `!=` of `Packet` and `Payload` (end-to-end: C++ answer = `decide (a = b)`),
      reflexivity / symmetry / "a copy compares equal" at source level.
  §3  observation through ALL GETTERS (finding 6, K11): `observe` runs every translated getter of `Packet`; equal observations ⇔ equal
      objects; after every translated special member (copy / move construction, copy / move assignment onto ANY target, onto
      itself, `swap`, `setPayload`) every getter of the target answers what it answered on the source before.
  §4  payloads (finding 1, K4 — as far as translated functions exist): `Payload(const Payload&)` on every state with every payload
      getter; a payload overwriting whatever payload a packet held (`setPayload`); wire bytes → packet → copy, end to end.
  §5  kernel checks on the generated signature table (findings 3 and 5, partial): the packet owns its payload through a
      `std::unique_ptr`; no payload class declares a listed data member besides `Payload::type`.
  §6  `TECMP::Payload` (finding 2, partial): only the type comparison inside its `operator==` is translated.

  Hypotheses: `0 < a.fullLength ∨ 0 < b.fullLength` is the property's "packets with non-empty payloads" (at least one of the two);
  `hg`, `h64`, `hf` are the hypotheses of the existing `SrcPv.packetEq_src` (the property's "special case for identical data
  pointers", `size_t`, loop fuel).  `p.Fits`: the members are within their C types.
-/
import AsamCmp.Props.C14
import AsamCmp.Props.SrcPacketValue
import AsamCmp.Props.SrcSignatures
import AsamCmp.Lemmas.SrcTecmpPayload
set_option linter.unusedVariables false
set_option linter.unusedSimpArgs false
namespace AsamCmp.C14S
open AsamCmp AsamCmp.C14 AsamCmp.Src AsamCmp.SrcGen AsamCmp.SrcPv

/-! ## 1. `operator==(Packet, Packet)` of the model, exactly -/

/-- the header of a packet: everything but the owned payload -/
abbrev hdr (p : Packet) : Packet := { p with payload := none }

theorem fullLength_none (p : Packet) (h : p.payload = none) : p.fullLength = 0 := by
  simp [Packet.fullLength, h]

theorem fullLength_some (p : Packet) (x : Payload) (h : p.payload = some x) : p.fullLength = x.data.length := by
  simp [Packet.fullLength, h]

/-- K9 at full strength: as soon as ONE of the two packets has a non-empty payload ("packets with non-empty payloads"), `==`
    is equality of values, i.e. of every field, the payload type and every payload byte.  The other packet may have an empty
    payload or none at all (default-constructed, moved-from). -/
theorem packetEq_fieldwise_any (a b : Packet) (h : 0 < a.fullLength ∨ 0 < b.fullLength) :
    packetEq a b = true ↔ a = b := by
  constructor
  · intro he
    have he' := he
    simp only [packetEq, Bool.and_eq_true, beq_iff_eq] at he
    obtain ⟨⟨⟨⟨⟨⟨⟨⟨⟨h1, h2⟩, h3⟩, h4⟩, h5⟩, h6⟩, h7⟩, h8⟩, h9⟩, h10⟩ := he
    have hl : a.fullLength = b.fullLength := by
      by_cases hl : a.fullLength = b.fullLength
      · exact hl
      · rw [if_neg (fun z => hl z.1)] at h10; simpa using h10
    have h0 : 0 < a.fullLength := by omega
    cases hpa : a.payload with
    | none => simp [Packet.fullLength, hpa] at h0
    | some x =>
      cases hpb : b.payload with
      | none =>
        have : b.fullLength = 0 := fullLength_none b hpb
        omega
      | some y =>
        have hx : 0 < x.data.length := by simpa [Packet.fullLength, hpa] using h0
        have hy : 0 < y.data.length := by
          have : b.fullLength = y.data.length := fullLength_some b y hpb
          omega
        exact (C14.packetEq_fieldwise a b x y hpa hpb hx hy).mp he'
  · intro e; subst e; exact C14.packetEq_refl a

/-- complete characterisation of `==` on ALL pairs of packets: the nine header fields agree, and the payloads are equal (type
    and bytes; or both absent) or both packets carry no payload byte.  In particular the zero-length shortcut never skips a
    header comparison. -/
theorem packetEq_char (a b : Packet) :
    packetEq a b = true ↔
      hdr a = hdr b ∧ (a.payload = b.payload ∨ (a.fullLength = 0 ∧ b.fullLength = 0)) := by
  by_cases h : 0 < a.fullLength ∨ 0 < b.fullLength
  · rw [packetEq_fieldwise_any a b h]
    constructor
    · intro e; subst e; exact ⟨rfl, Or.inl rfl⟩
    · intro ⟨e1, e2⟩
      cases e2 with
      | inl e2 => cases a; cases b; simp_all
      | inr e2 => omega
  · have ha : a.fullLength = 0 := by omega
    have hb : b.fullLength = 0 := by omega
    simp only [packetEq, ha, hb, Nat.lt_irrefl, and_false, if_false, beq_self_eq_true, Bool.and_true,
      Bool.and_eq_true, beq_iff_eq]
    cases a; cases b
    simp only [and_assoc, Packet.mk.injEq, true_and, and_self, or_true, and_true]

/-- K9 spelled out getter by getter ("agrees with field-by-field comparison"): with one non-empty payload, `==` holds exactly when
    the nine scalar getters agree and both packets own a payload with the same type and the same bytes -/
theorem packetEq_getterwise (a b : Packet) (h : 0 < a.fullLength ∨ 0 < b.fullLength) :
    packetEq a b = true ↔
      a.version = b.version ∧ a.deviceId = b.deviceId ∧ a.streamId = b.streamId ∧ a.seq = b.seq ∧ a.ts = b.ts ∧
      a.ifId = b.ifId ∧ a.vendorId = b.vendorId ∧ a.flags = b.flags ∧ a.segType = b.segType ∧
      ∃ x y, a.payload = some x ∧ b.payload = some y ∧ x.ty = y.ty ∧ x.data = y.data := by
  rw [packetEq_fieldwise_any a b h]
  constructor
  · intro e; subst e
    cases hp : a.payload with
    | none => simp [fullLength_none a hp] at h
    | some x => exact ⟨rfl, rfl, rfl, rfl, rfl, rfl, rfl, rfl, rfl, x, x, rfl, rfl, rfl, rfl⟩
  · intro ⟨h1, h2, h3, h4, h5, h6, h7, h8, h9, x, y, hx, hy, ht, hd⟩
    cases a; cases b; cases x; cases y
    simp_all

/-- the mixed case the review asks for: a packet that carries payload bytes is NOT equal to one that carries none (empty
    payload, default-constructed, moved-from), whatever the headers — in both argument orders -/
theorem packetEq_mixed_false (a b : Packet) (ha : 0 < a.fullLength) (hb : b.fullLength = 0) :
    packetEq a b = false ∧ packetEq b a = false := by
  have hne : a ≠ b := by intro e; subst e; omega
  have h1 : packetEq a b = false := by
    cases h : packetEq a b with
    | false => rfl
    | true => exact absurd ((packetEq_fieldwise_any a b (Or.inl ha)).mp h) hne
  exact ⟨h1, by rw [← C14.packetEq_symm]; exact h1⟩

/-- `!=` is exactly "some field or payload byte differs" -/
theorem packetNe_iff (a b : Packet) (h : 0 < a.fullLength ∨ 0 < b.fullLength) :
    packetNe a b = true ↔ a ≠ b := by
  have := packetEq_fieldwise_any a b h
  rw [C14.packetNe_not]
  cases hh : packetEq a b <;> simp_all

/-- `==` / `!=` as decision procedures of value equality -/
theorem packetEq_decide (a b : Packet) (h : 0 < a.fullLength ∨ 0 < b.fullLength) :
    packetEq a b = decide (a = b) ∧ packetNe a b = decide (a ≠ b) := by
  have h1 : packetEq a b = decide (a = b) := by
    rw [Bool.eq_iff_iff, packetEq_fieldwise_any a b h, decide_eq_true_iff]
  refine ⟨h1, ?_⟩
  rw [C14.packetNe_not, h1]
  by_cases e : a = b <;> simp [e]

/-- beyond reflexivity and symmetry: `==` is transitive on all packets (so an equivalence relation), empty ones included -/
theorem packetEq_trans (a b c : Packet) (h1 : packetEq a b = true) (h2 : packetEq b c = true) :
    packetEq a c = true := by
  rw [packetEq_char] at *
  obtain ⟨e1, p1⟩ := h1
  obtain ⟨e2, p2⟩ := h2
  refine ⟨e1.trans e2, ?_⟩
  cases p1 with
  | inl p1 =>
    cases p2 with
    | inl p2 => exact Or.inl (p1.trans p2)
    | inr p2 =>
      refine Or.inr ⟨?_, p2.2⟩
      have : a.fullLength = b.fullLength := by simp only [Packet.fullLength, p1]
      omega
  | inr p1 =>
    cases p2 with
    | inl p2 =>
      refine Or.inr ⟨p1.1, ?_⟩
      have : b.fullLength = c.fullLength := by simp only [Packet.fullLength, p2]
      omega
    | inr p2 => exact Or.inr ⟨p1.1, p2.2⟩

/-- BOUNDARY of the property (its text exempts it: "for packets with non-empty payloads"), stated so that it is not overlooked:
    when neither packet carries a payload byte, `==` looks at the nine header fields ONLY — it does not see whether a payload
    object is there, nor its type -/
theorem packetEq_zero_length_blind (a b : Packet) (ha : a.fullLength = 0) (hb : b.fullLength = 0) :
    packetEq a b = true ↔ hdr a = hdr b := by
  rw [packetEq_char]
  exact ⟨fun h => h.1, fun h => ⟨h, Or.inr ⟨ha, hb⟩⟩⟩

/-- … witness: an empty CAN payload, an empty LIN payload and no payload at all compare equal although `getPayload().getType()`
    differs (0x0101 / 0x0103) resp. is undefined; `==` is therefore coarser than value equality exactly on zero-length payloads -/
theorem zero_length_witness :
    packetEq { payload := some ⟨tyCan, []⟩ } { payload := some ⟨tyLin, []⟩ } = true ∧
    packetEq { payload := some ⟨tyCan, []⟩ } Packet.dflt = true ∧
    ({ payload := some ⟨tyCan, []⟩ } : Packet) ≠ { payload := some ⟨tyLin, []⟩ } := by decide

/-- a moved-from packet is not equal to the packet that took over a non-empty payload (move construction and move assignment
    onto a target without payload bytes) -/
theorem moved_from_ne (dst src : Packet) (h : 0 < src.fullLength) (hd : dst.fullLength = 0) :
    packetEq (moveCtor src).1 (moveCtor src).2 = false ∧
    packetEq (moveAssign dst src).1 (moveAssign dst src).2 = false :=
  ⟨(packetEq_mixed_false src Packet.dflt h rfl).1, (packetEq_mixed_false src dst h hd).1⟩

/-! ### non-vacuity and literal values (finding 8) -/

/-- the `→` direction on concrete UNEQUAL packets: one payload byte differs -/
example : packetEq exPkt { exPkt with payload := some ⟨tyCan, exCan.set 17 0⟩ } = false := by decide
example : packetNe exPkt { exPkt with payload := some ⟨tyCan, exCan.set 17 0⟩ } = true := by decide
/-- same bytes, other payload type; same payload, other header field -/
example : packetEq exPkt { exPkt with payload := some ⟨tyCanFd, exCan⟩ } = false := by decide
example : packetEq exPkt { exPkt with seq := 6 } = false := by decide
example : packetEq exPkt (copyAssign { exPkt with seq := 6 } exPkt) = true := by decide
/-- hypotheses of `C14.packetEq_fieldwise` and of `packetEq_fieldwise_any` on a literal -/
example : packetEq exPkt exPkt = true ↔ exPkt = exPkt :=
  C14.packetEq_fieldwise exPkt exPkt ⟨tyCan, exCan⟩ ⟨tyCan, exCan⟩ rfl rfl (by decide) (by decide)
example : packetEq exPkt Packet.dflt = true ↔ exPkt = Packet.dflt :=
  packetEq_fieldwise_any exPkt Packet.dflt (Or.inl (by decide))
/-- the mixed case on literals: three payload bytes against a default-constructed packet / an empty payload -/
example : packetEq { payload := some ⟨tyCan, [1, 2, 3]⟩ } Packet.dflt = false ∧
    packetEq Packet.dflt { payload := some ⟨tyCan, [1, 2, 3]⟩ } = false ∧
    packetEq { payload := some ⟨tyCan, [1, 2, 3]⟩ } { payload := some ⟨tyCan, []⟩ } = false := by decide
example : packetEq (moveCtor exPkt).1 (moveCtor exPkt).2 = false := (moved_from_ne Packet.dflt exPkt (by decide) rfl).1

/-- the repaired wrap-around: payload sizes that differ by exactly 65536 (equal 16-bit wire lengths) are unequal -/
def big (n : Nat) : Packet := { payload := some ⟨tyEth, List.replicate n 0⟩ }
theorem big_len (n : Nat) : (big n).fullLength = n := by simp [big, Packet.fullLength]
theorem wrap_pair_ne : packetEq (big 65537) (big 1) = false ∧ (big 65537).payloadLength = (big 1).payloadLength := by
  refine ⟨?_, by simp only [big, Packet.payloadLength, List.length_replicate]⟩
  cases h : packetEq (big 65537) (big 1) with
  | false => rfl
  | true =>
    have e := (packetEq_fieldwise_any _ _ (Or.inl (by rw [big_len]; decide))).mp h
    have := congrArg Packet.fullLength e
    rw [big_len, big_len] at this
    omega

/-! ## 2. the TRANSLATED `operator==` / `operator!=`, end to end

  `SrcPv.packetEq_src` (C++ = model) composed with §1 (model = equality of values): the C++ answer is `decide (a = b)`.
  Every object state is a `repr p` (`SrcPv.repr_bijective`), so these are statements about all pairs of objects. -/

/-- `operator==(const Payload&, const Payload&)` decides equality of (type, bytes) — all payloads, empty ones included -/
theorem opEq_Payload_decides (a b : Payload) (g : Bool) (fuel : Nat) (hg : g = true → a.data = b.data)
    (h64 : a.data.length < 2 ^ 64) (hf : a.data.length < fuel) :
    opEq_Payload_pv fuel g (plRepr a) (plRepr b) = some (decide (a = b)) := by
  rw [payloadEq_src a b g fuel hg h64 hf]
  congr 1
  rw [Bool.eq_iff_iff, C14.payloadEq_iff, decide_eq_true_iff]

/-- … on the generated records themselves: for ALL states `s t` of two `Payload` objects -/
theorem opEq_Payload_decides_st (s t : Payload_St) (g : Bool) (fuel : Nat)
    (hg : g = true → s.f_payloadData = t.f_payloadData)
    (h64 : s.f_payloadData.length < 2 ^ 64) (hf : s.f_payloadData.length < fuel) :
    opEq_Payload_pv fuel g s t = some (decide (s = t)) := by
  have h := opEq_Payload_decides (plAbs s) (plAbs t) g fuel hg h64 hf
  rw [plRepr_plAbs, plRepr_plAbs] at h
  rw [h]
  congr 1
  rw [decide_eq_decide]
  constructor
  · intro e; have := congrArg plRepr e; rwa [plRepr_plAbs, plRepr_plAbs] at this
  · intro e; rw [e]

/-- `operator==` / `operator!=` on packets, one of them with a non-empty payload: the C++ answers are `a = b` / `a ≠ b` -/
theorem opEq_Packet_decides (a b : Packet) (g : Bool) (fuel : Nat) (h : 0 < a.fullLength ∨ 0 < b.fullLength)
    (hg : ∀ x y, a.payload = some x → b.payload = some y → g = true → x.data = y.data)
    (h64 : a.fullLength < 2 ^ 64) (hf : a.fullLength < fuel) :
    opEq_Packet_pv fuel g (SrcPv.repr a) (SrcPv.repr b) = some (decide (a = b)) ∧
    opNe_Packet_pv fuel g (SrcPv.repr a) (SrcPv.repr b) = some (decide (a ≠ b)) := by
  rw [packetEq_src a b g fuel hg h64 hf, packetNe_src a b g fuel hg h64 hf, (packetEq_decide a b h).1,
    (packetEq_decide a b h).2]
  exact ⟨rfl, rfl⟩

/-- … on ALL pairs (zero-length included): header equality and (payload equality or no payload byte on either side) -/
theorem opEq_Packet_char_src (a b : Packet) (g : Bool) (fuel : Nat)
    (hg : ∀ x y, a.payload = some x → b.payload = some y → g = true → x.data = y.data)
    (h64 : a.fullLength < 2 ^ 64) (hf : a.fullLength < fuel) :
    opEq_Packet_pv fuel g (SrcPv.repr a) (SrcPv.repr b) =
      some (decide (hdr a = hdr b ∧ (a.payload = b.payload ∨ (a.fullLength = 0 ∧ b.fullLength = 0)))) := by
  rw [packetEq_src a b g fuel hg h64 hf]
  congr 1
  rw [Bool.eq_iff_iff, packetEq_char, decide_eq_true_iff]

/-- reflexivity at source level: `x == x` is `true` and `x != x` is `false` for EVERY packet and either answer of the pointer
    comparison (with itself the answer is `true` in fact) -/
theorem opEq_Packet_refl_src (p : Packet) (g : Bool) (fuel : Nat) (h64 : p.fullLength < 2 ^ 64) (hf : p.fullLength < fuel) :
    opEq_Packet_pv fuel g (SrcPv.repr p) (SrcPv.repr p) = some true ∧ opNe_Packet_pv fuel g (SrcPv.repr p) (SrcPv.repr p) = some false := by
  have hg : ∀ x y, p.payload = some x → p.payload = some y → g = true → x.data = y.data := by
    intro x y hx hy _; rw [hx] at hy; cases hy; rfl
  rw [packetEq_src p p g fuel hg h64 hf, packetNe_src p p g fuel hg h64 hf, C14.packetNe_not, C14.packetEq_refl]
  exact ⟨rfl, rfl⟩

/-- symmetry at source level -/
theorem opEq_Packet_symm_src (a b : Packet) (g : Bool) (fuel : Nat)
    (hg : ∀ x y, a.payload = some x → b.payload = some y → g = true → x.data = y.data)
    (ha : a.fullLength < 2 ^ 64) (hb : b.fullLength < 2 ^ 64) (hfa : a.fullLength < fuel) (hfb : b.fullLength < fuel) :
    opEq_Packet_pv fuel g (SrcPv.repr a) (SrcPv.repr b) = opEq_Packet_pv fuel g (SrcPv.repr b) (SrcPv.repr a) ∧
    opNe_Packet_pv fuel g (SrcPv.repr a) (SrcPv.repr b) = opNe_Packet_pv fuel g (SrcPv.repr b) (SrcPv.repr a) := by
  have hg' : ∀ y x, b.payload = some y → a.payload = some x → g = true → y.data = x.data :=
    fun y x hy hx hgt => (hg x y hx hy hgt).symm
  rw [packetEq_src a b g fuel hg ha hfa, packetEq_src b a g fuel hg' hb hfb, packetNe_src a b g fuel hg ha hfa,
    packetNe_src b a g fuel hg' hb hfb, C14.packetNe_not, C14.packetNe_not, C14.packetEq_symm a b]
  exact ⟨rfl, rfl⟩

/-- a copy compares equal to its original and an assigned target — whatever it held — to its source: the translated copy
    constructor / copy assignment followed by the translated `operator==` -/
theorem copy_compares_equal_src (dst src : Packet) (g : Bool) (fuel : Nat) (h64 : src.fullLength < 2 ^ 64)
    (hf : src.fullLength < fuel) :
    (Packet_ctor_copy_pv (SrcPv.repr src)).bind (fun c => opEq_Packet_pv fuel g c (SrcPv.repr src)) = some true ∧
    (Packet_opAssign_copy_pv (SrcPv.repr dst) (SrcPv.repr src)).bind (fun r => opEq_Packet_pv fuel g r.1 (SrcPv.repr src)) = some true := by
  rw [copy_src, (copyAssign_src dst src).1]
  exact ⟨(opEq_Packet_refl_src src g fuel h64 hf).1, (opEq_Packet_refl_src src g fuel h64 hf).1⟩

/-- after a move of a packet with payload bytes, target and moved-from source are unequal at source level too -/
theorem moved_from_ne_src (src : Packet) (g : Bool) (fuel : Nat) (h : 0 < src.fullLength) (h64 : src.fullLength < 2 ^ 64)
    (hf : src.fullLength < fuel) :
    (Packet_ctor_move_pv (SrcPv.repr src)).bind (fun r => opEq_Packet_pv fuel g r.1 r.2) = some false := by
  rw [moveCtor_src]
  have hg : ∀ x y, src.payload = some x → Packet.dflt.payload = some y → g = true → x.data = y.data := by
    intro x y _ hy; cases hy
  show opEq_Packet_pv fuel g (SrcPv.repr src) (SrcPv.repr Packet.dflt) = some false
  rw [packetEq_src src Packet.dflt g fuel hg h64 hf, (packetEq_mixed_false src Packet.dflt h rfl).1]

/-! literal instances: hypotheses satisfiable, conclusions are the expected literal -/
example : opEq_Packet_pv 20 false (SrcPv.repr exPkt) (SrcPv.repr { exPkt with payload := some ⟨tyCan, exCan.set 17 0⟩ }) = some false := by
  rw [(opEq_Packet_decides exPkt _ false 20 (Or.inl (by decide)) (fun _ _ _ _ h => by cases h) (by decide) (by decide)).1]
  decide
example : opNe_Packet_pv 20 false (SrcPv.repr exPkt) (SrcPv.repr Packet.dflt) = some true := by
  rw [(opEq_Packet_decides exPkt _ false 20 (Or.inl (by decide)) (fun _ _ _ _ h => by cases h) (by decide) (by decide)).2]
  decide
example : opEq_Packet_pv 20 true (SrcPv.repr exPkt) (SrcPv.repr exPkt) = some true :=
  (opEq_Packet_refl_src exPkt true 20 (by decide) (by decide)).1
/-- the translation itself evaluated by the kernel (no theorem involved) -/
example : opEq_Packet_pv 20 false (SrcPv.repr exPkt) (SrcPv.repr Packet.dflt) = some false ∧
    opEq_Packet_pv 20 false (SrcPv.repr Packet.dflt) (SrcPv.repr exPkt) = some false ∧
    opEq_Packet_pv 1 true (SrcPv.repr { payload := some ⟨tyCan, []⟩ }) (SrcPv.repr { payload := some ⟨tyLin, []⟩ }) = some true := by
  decide +kernel
example : (Packet_ctor_move_pv (SrcPv.repr exPkt)).bind (fun r => opEq_Packet_pv 20 false r.1 r.2) = some false :=
  moved_from_ne_src exPkt false 20 (by decide) (by decide) (by decide)

/-! ## 3. observation through all getters (K11)

  `observe s` is the answer of EVERY translated getter of `Packet` on the object state `s` (`none`: the call is undefined, which
  is the case for `getMessageType()`, `getPayloadType()`, `getPayload()` and the two serialisers on a packet without payload).
  `getCommonFlag(mask)` is `(getCommonFlags() & mask) != 0` (`getCommonFlag_of_flags`). -/

structure Obs where
  version : Option Nat
  deviceId : Option Nat
  streamId : Option Nat
  sequenceCounter : Option Nat
  timestamp : Option Nat
  interfaceId : Option Nat
  vendorId : Option Nat
  commonFlags : Option Nat
  segmentType : Option Nat
  payloadLength : Option Nat
  isValid : Option Bool
  messageType : Option Nat
  payloadType : Option Nat
  /-- `getPayload()`: the payload's members, i.e. `getType()` and the bytes behind `getRawPayload()` / `getLength()` -/
  payload : Option Payload_St
  rawCmpHeader : Option Bytes
  rawMessageHeader : Option Bytes
deriving DecidableEq

def observe (s : PacketV_St) : Obs :=
  { version := (Packet_getVersion_pv s).map (·.2)
    deviceId := (Packet_getDeviceId_pv s).map (·.2)
    streamId := (Packet_getStreamId_pv s).map (·.2)
    sequenceCounter := (Packet_getSequenceCounter_pv s).map (·.2)
    timestamp := (Packet_getTimestamp_pv s).map (·.2)
    interfaceId := (Packet_getInterfaceId_pv s).map (·.2)
    vendorId := (Packet_getVendorId_pv s).map (·.2)
    commonFlags := (Packet_getCommonFlags_pv s).map (·.2)
    segmentType := (Packet_getSegmentType_pv s).map (·.2)
    payloadLength := (Packet_getPayloadLength_pv s).map (·.2)
    isValid := (Packet_isValid_pv s).map (·.2)
    messageType := (Packet_getMessageType_pv s).map (·.2)
    payloadType := (Packet_getPayloadType_pv s).map (·.2)
    payload := (Packet_getPayload_pv s).map (·.2)
    rawCmpHeader := (Packet_getRawCmpHeader_pv s).map (·.2)
    rawMessageHeader := (Packet_getRawMessageHeader_pv s).map (·.2) }

theorem getCommonFlag_of_flags (s : PacketV_St) (mask : Nat) :
    Packet_getCommonFlag_pv s mask = some (s, (s.f_commonFlags &&& mask) != 0) := rfl

/-- what the getters answer on a packet WITH payload, in model terms (composition of `scalar_accessors_src`, `getters_src`,
    `pktIn_src`, which the review found unregistered for C14) -/
theorem observe_repr_some (p : Packet) (pl : Payload) (hf : p.Fits) (hp : p.payload = some pl) :
    observe (SrcPv.repr p) =
      { version := some p.version, deviceId := some p.deviceId, streamId := some p.streamId,
        sequenceCounter := some p.seq, timestamp := some p.ts, interfaceId := some p.ifId, vendorId := some p.vendorId,
        commonFlags := some p.flags, segmentType := some p.segType,
        payloadLength := some (pl.data.length % 65536), isValid := some pl.isValid,
        messageType := some pl.mt, payloadType := some pl.raw, payload := some ⟨pl.data, pl.ty⟩,
        rawCmpHeader := some (frameHeader p.version p.deviceId pl.mt p.streamId p.seq),
        rawMessageHeader := some (msgHeader p (p.flags &&& 0x0C) (pl.data.length % 65536)) } := by
  obtain ⟨g1, g2, g3⟩ := getters_src p
  obtain ⟨i1, i2, ⟨q, i3, i3'⟩, i4, i5⟩ := pktIn_src p pl hf hp
  have hv : p.version % 256 = p.version := Nat.mod_eq_of_lt hf.1
  have hfl : p.flags % 256 = p.flags := Nat.mod_eq_of_lt hf.2.2.2.2.2.2.2.1
  have hq : Packet_getPayload_pv (SrcPv.repr p) = some (SrcPv.repr p, plRepr pl) := pk_getPayload p pl hp
  simp only [observe, pk_getVersion, pk_getDeviceId, pk_getStreamId, pk_getSeq, pk_getTs, pk_getIf, pk_getVendor,
    pk_getFlags, pk_getSeg, g1, g2, g3 pl hp, i1, i4, i5, hq, Option.map_some]
  simp only [SrcPv.repr, SrcEnc.pktIn, Packet.payloadLength, Packet.isValid, Packet.mt, Packet.rawType, hp, hv, hfl, plRepr]

/-- … and on a packet WITHOUT payload (default-constructed, moved-from): nine scalars, length 0, invalid, the rest undefined -/
theorem observe_repr_none (p : Packet) (hp : p.payload = none) :
    observe (SrcPv.repr p) =
      { version := some p.version, deviceId := some p.deviceId, streamId := some p.streamId,
        sequenceCounter := some p.seq, timestamp := some p.ts, interfaceId := some p.ifId, vendorId := some p.vendorId,
        commonFlags := some p.flags, segmentType := some p.segType,
        payloadLength := some 0, isValid := some false,
        messageType := none, payloadType := none, payload := none, rawCmpHeader := none, rawMessageHeader := none } := by
  obtain ⟨n1, n2, n3, n4, n5, n6, n7⟩ := no_payload_src p hp
  simp only [observe, pk_getVersion, pk_getDeviceId, pk_getStreamId, pk_getSeq, pk_getTs, pk_getIf, pk_getVendor,
    pk_getFlags, pk_getSeg, n1, n2, n3, n4, n5, n6, n7, Option.map_some, Option.map_none]
  simp only [SrcPv.repr]

/-- the getters are a COMPLETE observation: two objects on which every getter answers the same are the same value (and
    conversely).  "Equal as model values" (C14.lean) and "all getters of source and target agree" (the property) coincide. -/
theorem observe_inj (s t : PacketV_St) : observe s = observe t ↔ s = t := by
  constructor
  · intro h
    have e := Obs.mk.inj h
    obtain ⟨e1, e2, e3, e4, e5, e6, e7, e8, e9, _, _, _, _, e14, _, _⟩ := e
    simp only [pk_getVersion, pk_getDeviceId, pk_getStreamId, pk_getSeq, pk_getTs, pk_getIf, pk_getVendor,
      pk_getFlags, pk_getSeg, Option.map_some, Option.some.injEq] at e1 e2 e3 e4 e5 e6 e7 e8 e9
    have hp : s.f_payload = t.f_payload := by
      unfold Packet_getPayload_pv at e14
      cases hs : s.f_payload <;> cases ht : t.f_payload <;>
        simp only [hs, ht, bind, SrcTie.some_bind, SrcTie.none_bind, pure, Option.map_some, Option.map_none,
          Option.some.injEq, reduceCtorEq] at e14 ⊢
      exact e14
    cases s; cases t
    simp_all
  · intro h; rw [h]

/-- K1–K3 / K11 in getter form, for ALL object states `src` (source) and `dst` (what the target held before):
    after each translated special member, every getter of the target answers what it answered on the source BEFORE the call;
    for the moves the source afterwards answers like a default-constructed packet resp. like the old target;
    self-assignment (copy and move) and `swap(p, p)` leave every getter's answer unchanged. -/
theorem special_members_observe (dst src : PacketV_St) :
    (∃ c, Packet_ctor_copy_pv src = some c ∧ observe c = observe src) ∧
    (∃ c, Packet_opAssign_copy_pv dst src = some (c, ()) ∧ observe c = observe src) ∧
    (∃ c, Packet_opAssign_copy_self_pv src = some (c, ()) ∧ observe c = observe src) ∧
    (∃ c o, Packet_ctor_move_pv src = some (c, o) ∧ observe c = observe src ∧ observe o = observe (SrcPv.repr Packet.dflt)) ∧
    (∃ c o, Packet_opAssign_move_pv dst src = some (c, (), o) ∧ observe c = observe src ∧ observe o = observe dst) ∧
    (∃ c, Packet_opAssign_move_self_pv src = some (c, ()) ∧ observe c = observe src) ∧
    (∃ c o, swap_Packet_pv dst src = some (c, o) ∧ observe c = observe src ∧ observe o = observe dst) ∧
    (∃ c, swap_Packet_same_pv src = some c ∧ observe c = observe src) := by
  obtain ⟨d, rfl⟩ := st_cases dst
  obtain ⟨p, rfl⟩ := st_cases src
  exact ⟨⟨_, copy_src p, rfl⟩, ⟨_, (copyAssign_src d p).1, rfl⟩, ⟨_, (copyAssign_src d p).2, rfl⟩,
    ⟨_, _, moveCtor_src p, rfl, rfl⟩, ⟨_, _, moveAssign_src d p, rfl, rfl⟩, ⟨_, moveAssign_self_src p, rfl⟩,
    ⟨_, _, swap_src d p, rfl, rfl⟩, ⟨_, swap_same_src p, rfl⟩⟩

/-- the same as equalities of states (by `observe_inj` the two forms are equivalent): the target IS the source's former
    state, for every prior target state -/
theorem special_members_state (dst src : PacketV_St) :
    Packet_ctor_copy_pv src = some src ∧
    Packet_opAssign_copy_pv dst src = some (src, ()) ∧
    Packet_opAssign_copy_self_pv src = some (src, ()) ∧
    Packet_ctor_move_pv src = some (src, SrcPv.repr Packet.dflt) ∧
    Packet_opAssign_move_pv dst src = some (src, (), dst) ∧
    Packet_opAssign_move_self_pv src = some (src, ()) := by
  obtain ⟨d, rfl⟩ := st_cases dst
  obtain ⟨p, rfl⟩ := st_cases src
  exact ⟨copy_src p, (copyAssign_src d p).1, (copyAssign_src d p).2, moveCtor_src p, moveAssign_src d p,
    moveAssign_self_src p⟩

/-! literal instance: every getter of a copy-assigned target that held an equal-looking, different packet before -/
def exObs : Obs :=
  { version := some 1, deviceId := some 7, streamId := some 2, sequenceCounter := some 5, timestamp := some 1000,
    interfaceId := some 3, vendorId := some 0, commonFlags := some 0, segmentType := some 0, payloadLength := some 19,
    isValid := some true, messageType := some 1, payloadType := some 1, payload := some ⟨exCan, 0x0101⟩,
    rawCmpHeader := some [1, 0, 0, 7, 1, 2, 0, 5],
    rawMessageHeader := some [0, 0, 0, 0, 0, 0, 3, 0xE8, 0, 0, 0, 3, 0, 1, 0, 19] }

example : observe (SrcPv.repr exPkt) = exObs := by decide +kernel
example : (Packet_opAssign_copy_pv (SrcPv.repr { exPkt with payload := some ⟨tyCan, exCan.set 17 0⟩ }) (SrcPv.repr exPkt)).map
    (fun r => observe r.1) = some exObs := by decide +kernel
example : (Packet_ctor_move_pv (SrcPv.repr exPkt)).map (fun r => (observe r.1, observe r.2)) =
    some (exObs, observe (SrcPv.repr Packet.dflt)) := by decide +kernel
example : (observe (SrcPv.repr Packet.dflt)).payload = none ∧ (observe (SrcPv.repr Packet.dflt)).payloadLength = some 0 ∧
    (observe (SrcPv.repr Packet.dflt)).version = some 1 := by decide +kernel
example := observe_repr_some exPkt ⟨tyCan, exCan⟩
  ⟨by decide, by decide, by decide, by decide, by decide, by decide, by decide, by decide, by decide,
    fun pl h => by cases h; exact ⟨by decide, by decide⟩⟩ rfl

/-! ## 4. payloads as values (K4, as far as translated functions exist)

  Of `Payload`'s special members only the copy constructor is used by the library itself (`Packet(const Packet&)`,
  `setPayload`) and translated; `Payload(Payload&&)` and the two `operator=` (all `= default`) have no translation — for them
  nothing can be stated here (REPORT.md, finding 1: left open). -/

/-- every getter of a `Payload` (`getType`, `getMessageType`, `getRawPayloadType`, `isValid`, `getLength`; the bytes) -/
structure PlObs where
  type : Option Nat
  messageType : Option Nat
  rawPayloadType : Option Nat
  isValid : Option Bool
  length : Option Nat
  bytes : Bytes
deriving DecidableEq

def plObserve (s : Payload_St) : PlObs :=
  ⟨(Payload_getType_pv s).map (·.2), (Payload_getMessageType_pv s).map (·.2), (Payload_getRawPayloadType_pv s).map (·.2),
   (Payload_isValid_pv s).map (·.2), (Payload_getLength_pv s).map (·.2), s.f_payloadData⟩

/-- `Payload(const Payload&)` on EVERY state (any type code — all payload kinds, also invalid —, any bytes, also none): the
    copy has the source's type and bytes, every getter answers the same, and the translated `operator==` says `true` -/
theorem payload_copy_st (s : Payload_St) (g : Bool) (fuel : Nat) (h64 : s.f_payloadData.length < 2 ^ 64)
    (hf : s.f_payloadData.length < fuel) :
    ∃ c, Payload_ctor_copy_pv s = some c ∧ c.f_type = s.f_type ∧ c.f_payloadData = s.f_payloadData ∧
      plObserve c = plObserve s ∧ opEq_Payload_pv fuel g c s = some true := by
  refine ⟨s, rfl, rfl, rfl, rfl, ?_⟩
  rw [opEq_Payload_decides_st s s g fuel (fun _ => rfl) h64 hf]
  simp

/-- the payload getters in model terms -/
theorem plObserve_repr (p : Payload) :
    plObserve (plRepr p) = ⟨some p.ty, some p.mt, some p.raw, some p.isValid, some p.data.length, p.data⟩ := by
  obtain ⟨h1, h2, h3, h4, h5, _⟩ := payload_getters_src p
  simp only [plObserve, h1, h2, h3, h4, h5, Option.map_some]
  rfl

/-- a payload value put into a packet replaces WHATEVER payload the packet held (none, an equal one, another kind, another
    size) and nothing else; `getPayload()` then answers the new payload's type and bytes -/
theorem setPayload_any_target (s : PacketV_St) (pl : Payload_St) :
    Packet_setPayload_pv s pl = some ({ s with f_payload := some pl }, ()) ∧
    Packet_getPayload_pv { s with f_payload := some pl } = some ({ s with f_payload := some pl }, pl) :=
  ⟨rfl, rfl⟩

/-- the payload — of any kind — travels unchanged through every packet special member: `getPayload()` of the target answers
    the source's payload (type and every byte) -/
theorem payload_through_packet (dst src : PacketV_St) (pl : Payload_St) (h : src.f_payload = some pl) :
    (Packet_ctor_copy_pv src).bind (fun c => (Packet_getPayload_pv c).map (·.2)) = some pl ∧
    (Packet_opAssign_copy_pv dst src).bind (fun r => (Packet_getPayload_pv r.1).map (·.2)) = some pl ∧
    (Packet_ctor_move_pv src).bind (fun r => (Packet_getPayload_pv r.1).map (·.2)) = some pl ∧
    (Packet_opAssign_move_pv dst src).bind (fun r => (Packet_getPayload_pv r.1).map (·.2)) = some pl := by
  obtain ⟨h1, h2, _, h4, h5, _⟩ := special_members_state dst src
  have hq : (Packet_getPayload_pv src).map (·.2) = some pl := by
    unfold Packet_getPayload_pv; rw [h]; rfl
  rw [h1, h2, h4, h5]
  exact ⟨hq, hq, hq, hq⟩

/-- end to end from wire bytes: the packet built from a message (any message type, any payload kind — `create` chooses the
    class) and then copied is `Packet.ofMsg mt m`, the value the decoder theorems speak about.  Hypotheses as in
    `SrcPv.wire_ctor_src`. -/
theorem wire_copy_src (mt : Nat) (pre m post : Bytes) (size : Nat) (hmt : mt < 256) (h16 : 16 ≤ m.length)
    (hlen : 16 + beAt m 14 2 ≤ m.length) (hmem : (pre ++ m ++ post).length < 2 ^ 64) :
    (Packet_ctor_u8_ptr_u64_pv (pre ++ m ++ post) mt pre.length size).bind Packet_ctor_copy_pv =
      some (SrcPv.repr (Packet.ofMsg mt m)) := by
  rw [wire_ctor_src mt pre m post size hmt h16 hlen hmem]
  exact copy_src (Packet.ofMsg mt m)

/-! literal instances: a LIN payload, an empty payload, an invalid-marked payload -/
def exLin : Bytes := [0, 0, 0, 0, 0x11, 0, 0, 2, 0xDE, 0xAD]
example : linValid exLin = true ∧ create tyLin exLin = ⟨tyLin, exLin⟩ := by decide
example : (Payload_ctor_copy_pv (plRepr ⟨tyLin, exLin⟩)).map plObserve =
    some ⟨some 0x0103, some 1, some 3, some true, some 10, exLin⟩ := by decide +kernel
example : (Payload_ctor_copy_pv (plRepr ⟨tyEth, []⟩)).map plObserve =
    some ⟨some 0x0108, some 1, some 8, some true, some 0, []⟩ := by decide +kernel
example : (Payload_ctor_copy_pv (plRepr (create tyCan [1, 2, 3]))).map plObserve =
    some ⟨some 0, some 0, some 0, some false, some 3, [0, 0, 0]⟩ := by decide +kernel
example := payload_copy_st (plRepr ⟨tyLin, exLin⟩) false 11 (by decide) (by decide)
/-- a CAN packet is given a LIN payload: type and bytes are the LIN payload's, the header is untouched -/
example : (Packet_setPayload_pv (SrcPv.repr exPkt) (plRepr ⟨tyLin, exLin⟩)).map (fun r => observe r.1) =
    some { exObs with payloadLength := some 10, payloadType := some 3, payload := some ⟨exLin, 0x0103⟩,
                      rawMessageHeader := some [0, 0, 0, 0, 0, 0, 3, 0xE8, 0, 0, 0, 3, 0, 3, 0, 10] } := by decide +kernel
example : (Packet_ctor_u8_ptr_u64_pv ([0xFF] ++ exMsg ++ [0xEE]) 1 1 35).bind Packet_ctor_copy_pv =
    some (SrcPv.repr (Packet.ofMsg 1 exMsg)) :=
  wire_copy_src 1 [0xFF] exMsg [0xEE] 35 (by decide) (by decide) (by decide) (by decide)

/-! ## 5. kernel checks on the generated declarations (findings 3 and 5, PARTIAL)

  `apiSig` (GeneratedSrcSig.lean) is regenerated from the clang AST on every run. -/

/-- K6, the part a declaration can carry: `Packet` owns its payload through a `std::unique_ptr<Payload>` — two packets cannot
    both own one `Payload` object (a `shared_ptr` member, the reviewer's mutant, fails this check).  Already an entry of
    `SrcSig.expectedSig`; singled out here so that C14 names it. -/
theorem packet_owns_payload_uniquely_sig :
    SrcSig.sigHolds "ASAM::CMP::Packet" "field payload" "std::unique_ptr<ASAM::CMP::Payload>" = true := by decide +kernel

/-- the `field …` entries the table lists for a class -/
def listedFields (cls : String) : Option (List String) :=
  (apiSig.lookup cls).map fun fs => (fs.map (·.1)).filter (fun n => n.startsWith "field ")

/-- the payload classes: the two bases and everything derived from them -/
def payloadClasses : List String :=
  ["ASAM::CMP::CanPayloadBase", "ASAM::CMP::CanPayload", "ASAM::CMP::CanFdPayload", "ASAM::CMP::LinPayload",
   "ASAM::CMP::AnalogPayload", "ASAM::CMP::EthernetPayload", "ASAM::CMP::CaptureModulePayload",
   "ASAM::CMP::InterfacePayload", "TECMP::CanPayload", "TECMP::LinPayload", "TECMP::CaptureModulePayload",
   "TECMP::InterfacePayload"]

/-- K5 (two-sided for the LISTED members): the derived payload classes declare no listed data member at all, the two base
    classes exactly `type`, `Packet` exactly its nine scalars and `payload` — "a payload is its type and bytes", on which
    `payloadEq_iff` and `copy_src` rest.
    PARTIAL: the generator lists scalar / enum / `unique_ptr` members only — `std::vector<uint8_t> payloadData` itself is not
    listed, so a cache member of a container or view type (the reviewer's `std::string_view`) might not be listed either.
    Missing for the full statement: `apiSig` must list every non-static data member. -/
theorem payload_classes_fields_partial :
    payloadClasses.all (fun c => listedFields c == some []) = true ∧
    listedFields "ASAM::CMP::Payload" = some ["field type"] ∧
    listedFields "TECMP::Payload" = some ["field type"] ∧
    listedFields "ASAM::CMP::Packet" = some ["field commonFlags", "field deviceId", "field interfaceId", "field payload",
      "field segmentType", "field sequenceCounter", "field streamId", "field timestamp", "field vendorId",
      "field version"] := by decide +kernel

/-- the generated record of `Payload`'s members has exactly the two components bytes and type (a third data member of the base
    class would add a field to `Payload_St` and break this, `plRepr`, and with it every `SrcPv` theorem) -/
theorem payload_state_is_type_and_bytes (s : Payload_St) : s = ⟨s.f_payloadData, s.f_type⟩ ∧ plRepr (plAbs s) = s :=
  ⟨rfl, rfl⟩

/-! ## 6. `TECMP::Payload` (finding 2, PARTIAL)

  `TECMP::operator==(const Payload&, const Payload&)` (src/tecmp_payload.cpp:17-36) has no translation
  (`tecmp_untranslated`: "pointer into a payload object used as a value") and no hand model; nothing can be proved about its
  length test, its pointer shortcut or its byte loop here.  What IS translated is its first test,
  `lhs.getType() != rhs.getType()`, i.e. `TECMP::operator!=` / `==` on `PayloadType`. -/

/-- the type comparison inside TECMP payload equality: on `uint32_t` type codes `==` decides equality, `!=` is its negation,
    both are symmetric and `t == t` holds.
    PARTIAL — missing: the translation of the payload-level `operator==` (length, pointer shortcut, byte loop) and of the
    `TECMP::Payload` special members. -/
theorem tecmp_payloadType_eq_partial (a b : Nat) (ha : a < 2 ^ 32) (hb : b < 2 ^ 32) :
    TECMP_operator_eq_rec_rec_obj a b = some (decide (a = b)) ∧
    TECMP_operator_ne_obj a b = some (decide (a ≠ b)) ∧
    TECMP_operator_eq_rec_rec_obj a b = TECMP_operator_eq_rec_rec_obj b a ∧
    TECMP_operator_ne_obj a b = TECMP_operator_ne_obj b a ∧
    TECMP_operator_eq_rec_rec_obj a a = some true ∧ TECMP_operator_ne_obj a a = some false := by
  have ea : a % 4294967296 = a := Nat.mod_eq_of_lt ha
  have eb : b % 4294967296 = b := Nat.mod_eq_of_lt hb
  simp only [SrcTec.ptype_eq_src, SrcTec.ptype_ne_src, ea, eb, beq_self_eq_true, Bool.not_true, Option.some.injEq]
  refine ⟨?_, ?_, Bool.beq_comm, by rw [Bool.beq_comm], trivial, trivial⟩
  · rw [Bool.eq_iff_iff]; simp
  · by_cases e : a = b <;> simp [e]

/-- a `TECMP::Payload` value is its type and its bytes, and the translated getters read exactly these (the record derived
    classes share: "derived classes add none", checked for the listed members by `payload_classes_fields_partial`) -/
theorem tecmp_payload_value_partial (s : TECMP_Payload_St) :
    s = ⟨s.f_payloadData, s.f_type⟩ ∧ TECMP_Payload_getType_obj s = some s.f_type ∧
    TECMP_Payload_isValid_obj s = some (s.f_type % 4294967296 != 65535) :=
  ⟨rfl, rfl, SrcTec.payload_isValid_src s.f_payloadData s.f_type⟩

example : TECMP_operator_eq_rec_rec_obj 770 772 = some false ∧ TECMP_operator_ne_obj 770 772 = some true := by
  have h := tecmp_payloadType_eq_partial 770 772 (by decide) (by decide)
  exact ⟨h.1, h.2.1⟩

end AsamCmp.C14S
