/-
  What the status tracker reads from a packet, closed at source level (C16).  The translated tracker (Props/SrcStatus.lean) sees a
  packet as the opaque table `OPkt` of three getter-chain values, and `SrcSt.oPkt p` says what they are for a packet `p` of the
  model.  With `Packet` / `Payload` translated as values (Props/SrcPacketValue.lean) and the payload accessors translated over the
  payload bytes (GeneratedSrc.lean), the three chains are themselves translated source, and `oPkt` is a theorem:
    `packet.getDeviceId()`, `packet.getPayload().getType()`,
    `static_cast<const InterfacePayload&>(packet.getPayload()).getInterfaceId()`.
-/
import AsamCmp.Props.SrcStatus
import AsamCmp.Props.SrcPacketValue
import AsamCmp.Lemmas.SrcAccess
namespace AsamCmp.SrcSt
open AsamCmp AsamCmp.Src AsamCmp.SrcGen AsamCmp.SrcPv AsamCmp.SrcTie

/-- for every packet of the model that has a payload: the device id and the payload type the translated getters return are the
    entries of `oPkt p`; and if the payload holds at least the four bytes of the interface id (`h4`; `DeviceStatus::update` reads it
    only from interface status messages, whose payload `Packet::create` has validated to at least 40 bytes — a shorter hand-made
    one would be read out of bounds: `none`), the translated `InterfacePayload::getInterfaceId`, run on the payload bytes wherever
    they lie in memory (`pre`, `post`, `this` arbitrary), returns the third entry -/
theorem oPkt_src (p : Packet) (pl : Payload) (hp : p.payload = some pl) (pre post : Bytes) (this : Nat)
    (hmem : (pre ++ pl.data ++ post).length < 2 ^ 64) (h4 : 4 ≤ pl.data.length) :
    Packet_getDeviceId_pv (SrcPv.repr p) = some (SrcPv.repr p, opq (oPkt p) "getDeviceId") ∧
    (∃ q, Packet_getPayload_pv (SrcPv.repr p) = some (SrcPv.repr p, q) ∧ q = plRepr pl ∧
      Payload_getType_pv q = some (q, opq (oPkt p) "getPayload.getType") ∧
      InterfacePayload_getInterfaceId (pre ++ q.f_payloadData ++ post) pre.length q.f_payloadData.length this =
        some (opq (oPkt p) "getPayload.as_InterfacePayload.getInterfaceId")) := by
  refine ⟨?_, plRepr pl, (pk_getPayload p pl hp), rfl, ?_, ?_⟩
  · rw [opq_dev]; exact (scalar_accessors_src p 0).2.2.2.2.2.2.2.2.2.2.1
  · rw [opq_ty, (payload_getters_src pl).1]; simp only [Packet.pty, hp]
  · rw [opq_if]
    have hb := mem_lt pre pl.data post hmem
    simp only [plRepr, Packet.payloadIfId, Packet.data, hp, InterfacePayload_getInterfaceId, InterfacePayload_getHeader_v,
      InterfacePayload_Header_getInterfaceId]
    src_calls []
/-- the hypotheses are satisfiable (a packet with a 19-byte payload somewhere in memory) -/
example := oPkt_src exPkt ⟨tyCan, exCan⟩ rfl [1] [2] 0 (by decide) (by decide)

end AsamCmp.SrcSt
