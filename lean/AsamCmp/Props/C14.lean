/-
  C14  Packets and payloads behave as values.

  Copying, moving or assigning a packet or payload yields an object whose every observable field and
  payload byte equals the source's (for moves: the source's former state), whatever the target held
  before, and a copy shares no state with its original.  Equality is reflexive and symmetric, agrees
  with field-by-field comparison for packets with non-empty payloads, and inequality is its negation.

  Partial: "shares no state" is a statement about aliasing; model values cannot alias.  The harness
  observes it (mutate / destroy the copy, re-read the original).
-/
import AsamCmp.Values
namespace AsamCmp.C14
open AsamCmp

/-- after copy construction / copy assignment the target IS the source's value, whatever it held
    (empty packets, zero-length payloads, equal-looking targets, self-assignment included) -/
theorem copy_obs (src : Packet) : copyCtor src = src := rfl
theorem assign_obs (dst src : Packet) : copyAssign dst src = src := rfl
theorem self_assign (p : Packet) : copyAssign p p = p := rfl
/-- moves deliver the source's former state -/
theorem move_obs (src : Packet) : (moveCtor src).1 = src ∧ (moveCtor src).2 = Packet.dflt := ⟨rfl, rfl⟩
theorem move_assign_obs (dst src : Packet) : (moveAssign dst src).1 = src ∧ (moveAssign dst src).2 = dst := ⟨rfl, rfl⟩

theorem payloadEq_refl (a : Payload) : payloadEq a a = true := by
  simp [payloadEq]

theorem payloadEq_symm (a b : Payload) : payloadEq a b = payloadEq b a := by
  simp only [payloadEq]
  rw [Bool.eq_iff_iff]
  simp only [Bool.and_eq_true, beq_iff_eq]
  constructor <;> (intro ⟨⟨h1, h2⟩, h3⟩; exact ⟨⟨h1.symm, h2.symm⟩, h3.symm⟩)

/-- payload equality is exactly equality of type and bytes -/
theorem payloadEq_iff (a b : Payload) : payloadEq a b = true ↔ a = b := by
  cases a; cases b
  simp only [payloadEq, Bool.and_eq_true, beq_iff_eq, Payload.mk.injEq]
  constructor
  · intro ⟨⟨h1, _⟩, h3⟩; exact ⟨h1, h3⟩
  · intro ⟨h1, h3⟩; exact ⟨⟨h1, by rw [h3]⟩, h3⟩

/-- equality is reflexive: `p == p` for every packet, with or without payload -/
theorem packetEq_refl (p : Packet) : packetEq p p = true := by
  simp only [packetEq, beq_self_eq_true, Bool.true_and]
  split
  · rename_i h
    cases hp : p.payload with
    | none => simp [Packet.fullLength, hp] at h
    | some x => simp [payloadEq_refl]
  · simp

/-- equality is symmetric -/
theorem packetEq_symm (a b : Packet) : packetEq a b = packetEq b a := by
  simp only [packetEq]
  have e1 : (a.version == b.version) = (b.version == a.version) := Bool.beq_comm ..
  have e2 : (a.deviceId == b.deviceId) = (b.deviceId == a.deviceId) := Bool.beq_comm ..
  have e3 : (a.streamId == b.streamId) = (b.streamId == a.streamId) := Bool.beq_comm ..
  have e4 : (a.seq == b.seq) = (b.seq == a.seq) := Bool.beq_comm ..
  have e5 : (a.ts == b.ts) = (b.ts == a.ts) := Bool.beq_comm ..
  have e6 : (a.ifId == b.ifId) = (b.ifId == a.ifId) := Bool.beq_comm ..
  have e7 : (a.vendorId == b.vendorId) = (b.vendorId == a.vendorId) := Bool.beq_comm ..
  have e8 : (a.flags == b.flags) = (b.flags == a.flags) := Bool.beq_comm ..
  have e9 : (a.segType == b.segType) = (b.segType == a.segType) := Bool.beq_comm ..
  rw [e1, e2, e3, e4, e5, e6, e7, e8, e9]
  congr 1
  by_cases h : a.fullLength = b.fullLength
  · by_cases h0 : 0 < a.fullLength
    · have h0' : 0 < b.fullLength := h ▸ h0
      rw [if_pos ⟨h, h0⟩, if_pos ⟨h.symm, h0'⟩]
      cases a.payload <;> cases b.payload <;> simp [payloadEq_symm]
    · have h0' : ¬ 0 < b.fullLength := h ▸ h0
      rw [if_neg (fun x => h0 x.2), if_neg (fun x => h0' x.2)]
      exact Bool.beq_comm ..
  · rw [if_neg (fun x => h x.1), if_neg (fun x => h x.1.symm)]
    exact Bool.beq_comm ..

/-- inequality is the negation of equality -/
theorem packetNe_not (a b : Packet) : packetNe a b = !packetEq a b := rfl

/-- for packets whose payloads are non-empty — of ANY size, also 65536 bytes and more since the
    repair of operator== — equality agrees with field-by-field comparison, i.e. with equality of values -/
theorem packetEq_fieldwise (a b : Packet) (x y : Payload) (ha : a.payload = some x) (hb : b.payload = some y)
    (hx : 0 < x.data.length) (hy : 0 < y.data.length) :
    packetEq a b = true ↔ a = b := by
  have la : a.fullLength = x.data.length := by simp [Packet.fullLength, ha]
  have lb : b.fullLength = y.data.length := by simp [Packet.fullLength, hb]
  constructor
  · intro h
    simp only [packetEq, Bool.and_eq_true, beq_iff_eq] at h
    obtain ⟨⟨⟨⟨⟨⟨⟨⟨⟨h1, h2⟩, h3⟩, h4⟩, h5⟩, h6⟩, h7⟩, h8⟩, h9⟩, h10⟩ := h
    have hpl : x = y := by
      by_cases hl : a.fullLength = b.fullLength
      · rw [if_pos ⟨hl, by omega⟩, ha, hb] at h10
        exact (payloadEq_iff x y).mp h10
      · rw [if_neg (fun z => hl z.1)] at h10
        simp at h10; exact absurd h10 hl
    cases a; cases b
    simp_all
  · intro h; subst h; exact packetEq_refl a

/-- a copy compares equal to its original, an assigned target to its source -/
theorem copy_eq (src : Packet) : packetEq (copyCtor src) src = true := packetEq_refl src
theorem assign_eq (dst src : Packet) : packetEq (copyAssign dst src) src = true := packetEq_refl src

/-- non-vacuity / regression: a default packet and a packet with an empty payload compare equal,
    yet assignment must still copy (this is what the identity guard in operator= is about) -/
example : packetEq Packet.dflt { payload := some ⟨0x0104, []⟩ } = true ∧
    copyAssign Packet.dflt { payload := some ⟨0x0104, []⟩ } ≠ Packet.dflt := by decide

end AsamCmp.C14
