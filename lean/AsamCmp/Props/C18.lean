/-
  C18  Endpoints are isolated from each other.

  For any history of frames, the packets delivered for one (device id, stream id) endpoint are
  the same, in the same order, as if only that endpoint's frames had been fed to the decoder.
  TECMP frames and buffers too short to be a frame never change what is delivered for
  capture-module endpoints.
-/
import AsamCmp.Decoder
import AsamCmp.Lemmas.LayerB
namespace AsamCmp

/-- outputs tagged with the endpoint of the frame that produced them -/
def runT (s : DecState) : List PFrame → DecState × List (Ep × Packet)
  | [] => (s, [])
  | f :: fs =>
    let r := step s f
    let r' := runT r.1 fs
    (r'.1, r.2.map (fun p => (f.ep, p)) ++ r'.2)

theorem runT_untag (s : DecState) (fs : List PFrame) :
    (runT s fs).1 = (run s fs).1 ∧ (runT s fs).2.map (·.2) = (run s fs).2 := by
  induction fs generalizing s with
  | nil => simp [runT, run]
  | cons f fs ih =>
    obtain ⟨h1, h2⟩ := ih (step s f).1
    simp only [runT, run]
    refine ⟨h1, ?_⟩
    rw [List.map_append, h2, List.map_map]
    congr 1
    exact List.map_id _

/-- every packet a capture-module frame delivers carries that frame's endpoint -/
theorem delivered_tagged (s : DecState) (b : Bytes) :
    ∀ p ∈ (step s (parseFrame b)).2, (p.deviceId, p.streamId) = (parseFrame b).ep := by
  intro p hp
  rw [step_snd] at hp
  rcases localStep_out _ _ p hp with h | h
  · exact walk_tagged _ _ _ _ p h
  · exact h

/-- C18 on Layer B, for arbitrary parsed frames: the outputs and the state at endpoint `e` of any
    history are those of the history projected to `e`, from any two states agreeing at `e` -/
theorem run_filter (e : Ep) : ∀ (fs : List PFrame) (s s' : DecState), s e = s' e →
    (runT s fs).2.filter (fun x => x.1 = e) = (runT s' (fs.filter (fun f => f.ep = e))).2 ∧
    (runT s fs).1 e = (runT s' (fs.filter (fun f => f.ep = e))).1 e := by
  intro fs
  induction fs with
  | nil => intro s s' h; simp [runT, h]
  | cons f fs ih =>
    intro s s' h
    by_cases hf : f.ep = e
    · have hfilt : (f :: fs).filter (fun f => f.ep = e) = f :: fs.filter (fun f => f.ep = e) := by
        simp [hf]
      rw [hfilt]
      simp only [runT]
      have hstep : (step s f).2 = (step s' f).2 := by simp [step, hf, h]
      have hst : (step s f).1 e = (step s' f).1 e := by simp [step, DecState.set, hf, h]
      obtain ⟨h1, h2⟩ := ih _ _ hst
      refine ⟨?_, h2⟩
      rw [List.filter_append, h1, hstep]
      congr 1
      rw [List.filter_eq_self]
      intro x hx
      simp only [List.mem_map] at hx
      obtain ⟨p, _, rfl⟩ := hx
      simp [hf]
    · have hfilt : (f :: fs).filter (fun f => f.ep = e) = fs.filter (fun f => f.ep = e) := by
        simp [hf]
      rw [hfilt]
      simp only [runT]
      have hst : (step s f).1 e = s' e := by rw [step_fst_other _ _ _ hf, h]
      obtain ⟨h1, h2⟩ := ih _ _ hst
      refine ⟨?_, h2⟩
      rw [List.filter_append, h1]
      have : (List.map (fun p => (f.ep, p)) (step s f).2).filter (fun x => x.1 = e) = [] := by
        rw [List.filter_eq_nil_iff]
        intro x hx
        simp only [List.mem_map] at hx
        obtain ⟨p, _, rfl⟩ := hx
        simp [hf]
      rw [this, List.nil_append]

/-- a capture-module frame changes the state of its own endpoint only (auxiliary form used by
    `C18_isolation`; restated as `decode_other_endpoint` below) -/
theorem decodeWith_other (tecmp : Bytes → List Packet) (s : DecState) (buf : Option Bytes) (e : Ep)
    (h : bufEp buf ≠ some e) : (decodeWith tecmp s buf).1 e = s e := by
  unfold bufEp at h
  unfold decodeWith
  split
  · rfl
  · dsimp only at h
    split
    · rfl
    · split
      · rfl
      · rename_i h1 h2
        simp only [h1, h2, if_false] at h
        apply step_fst_other
        intro hc
        exact h (by rw [hc])

/-- a buffer that addresses `e` is decoded by `step` on its parsed frame -/
theorem decodeWith_of_bufEp (tecmp : Bytes → List Packet) (buf : Option Bytes) (e : Ep)
    (h : bufEp buf = some e) :
    ∃ b, buf = some b ∧ (parseFrame b).ep = e ∧
      ∀ s : DecState, decodeWith tecmp s buf = step s (parseFrame b) := by
  unfold bufEp at h
  split at h
  · cases h
  · rename_i b
    refine ⟨b, rfl, ?_⟩
    split at h
    · cases h
    · split at h
      · cases h
      · rename_i h1 h2
        refine ⟨Option.some.inj h, ?_⟩
        intro s
        simp only [decodeWith, h1, h2, if_false]

theorem C18_isolation_aux (tecmp : Bytes → List Packet) (e : Ep) :
    ∀ (bufs : List (Option Bytes)) (s s' : DecState) (acc : List Packet), s e = s' e →
    ((bufs.filter (fun (b : Option Bytes) => bufEp b = some e)).foldl
        (fun (acc : DecState × List Packet) b =>
          let r := decodeWith tecmp acc.1 b; (r.1, acc.2 ++ r.2)) (s', acc)).2 =
    (bufs.foldl (fun (acc : DecState × List Packet) b =>
        let r := decodeWith tecmp acc.1 b
        (r.1, acc.2 ++ (if (fun (b : Option Bytes) => bufEp b = some e) b then r.2 else []))) (s, acc)).2 := by
  intro bufs
  induction bufs with
  | nil => intro s s' acc _; rfl
  | cons b bufs ih =>
    intro s s' acc h
    by_cases hb : bufEp b = some e
    · obtain ⟨bb, rfl, hep, hdec⟩ := decodeWith_of_bufEp tecmp b e hb
      have hfilt : (some bb :: bufs).filter (fun (b : Option Bytes) => bufEp b = some e)
          = some bb :: bufs.filter (fun (b : Option Bytes) => bufEp b = some e) := by
        simp [hb]
      rw [hfilt]
      simp only [List.foldl_cons, hb, if_true, hdec]
      have hout : (step s' (parseFrame bb)).2 = (step s (parseFrame bb)).2 := by
        simp [step, hep, h]
      rw [hout]
      apply ih
      simp [step, DecState.set, hep, h]
    · have hfilt : (b :: bufs).filter (fun (b : Option Bytes) => bufEp b = some e)
          = bufs.filter (fun (b : Option Bytes) => bufEp b = some e) := by
        simp [hb]
      rw [hfilt]
      simp only [List.foldl_cons, hb, if_false, List.append_nil]
      apply ih
      rw [decodeWith_other tecmp s b e hb, h]

/-- byte level: packets of endpoint `e` delivered over a history of arbitrary buffers equal the
    packets delivered for the sub-history of buffers that address `e` -/
theorem C18_isolation (tecmp : Bytes → List Packet) (e : Ep) :
    ∀ (bufs : List (Option Bytes)) (s s' : DecState), s e = s' e →
    let isE := fun (b : Option Bytes) => bufEp b = some e
    ((bufs.filter isE).foldl (fun (acc : DecState × List Packet) b =>
        let r := decodeWith tecmp acc.1 b; (r.1, acc.2 ++ r.2)) (s', [])).2 =
    (bufs.foldl (fun (acc : DecState × List Packet) b =>
        let r := decodeWith tecmp acc.1 b; (r.1, acc.2 ++ (if isE b then r.2 else []))) (s, [])).2 := by
  intro bufs s s' h
  exact C18_isolation_aux tecmp e bufs s s' [] h

/-- null pointers, buffers shorter than a frame header and TECMP buffers leave the reassembly
    state untouched -/
theorem decode_foreign_state (tecmp : Bytes → List Packet) (s : DecState) (buf : Option Bytes)
    (h : bufEp buf = none) : (decodeWith tecmp s buf).1 = s := by
  unfold bufEp at h
  unfold decodeWith
  split
  · rfl
  · dsimp only at h
    split
    · rfl
    · split
      · rfl
      · rename_i h1 h2
        simp [h1, h2] at h

/-- a capture-module frame changes the state of its own endpoint only -/
theorem decode_other_endpoint (tecmp : Bytes → List Packet) (s : DecState) (buf : Option Bytes) (e : Ep)
    (h : bufEp buf ≠ some e) : (decodeWith tecmp s buf).1 e = s e :=
  decodeWith_other tecmp s buf e h

end AsamCmp
