/-
  C11  Setting a field changes that field and nothing else.
  C12  Headers and payload fields use the ASAM CMP / TECMP wire layout.

  The model of every header / payload class is a byte string plus the protocol layout table
  (`Layout.lean`); `getField` / `setField` (Fields.lean) are generic.  The generic theorems below
  are instantiated for every class by the kernel-checked table facts `tables_wf` / `tables_words_ok`.
-/
import AsamCmp.Layout
import AsamCmp.Lemmas.FieldArith
namespace AsamCmp.C11
open AsamCmp

/-- the field lies inside its word and the word inside the buffer -/
def FitsIn (f : Field) (b : Bytes) : Prop := f.shift + f.bits ≤ 8 * f.w ∧ f.off + f.w ≤ b.length

/-- two fields use the same word or words that share no byte -/
def WordsOk (f g : Field) : Prop := (f.off = g.off ∧ f.w = g.w) ∨ f.off + f.w ≤ g.off ∨ g.off + g.w ≤ f.off

theorem setField_length (f : Field) (v : Nat) (b : Bytes) (h : FitsIn f b) :
    (setField f v b).length = b.length := by
  exact setField_length' v h.2

/-- writing an in-range value and reading it back returns that value, from any prior state -/
theorem get_set_same (f : Field) (v : Nat) (b : Bytes) (h : FitsIn f b) (hv : v < 2 ^ f.bits) :
    getField f (setField f v b) = v := by
  exact get_set_same' h.1 h.2 hv

/-- no other field changes: any bit range `g` disjoint from `f` (a table field, a flag, or a
    reserved range — `g` need not be in any table) reads the same before and after -/
theorem get_set_other (f g : Field) (v : Nat) (b : Bytes) (hf : FitsIn f b) (hg : FitsIn g b)
    (hv : v < 2 ^ f.bits) (hd : f.disjoint g = true) (hw : WordsOk f g) :
    getField g (setField f v b) = getField g b := by
  exact get_set_other' hf.1 hf.2 hg.1 hv hd hw

/-- no data byte changes: bytes outside the field's word are untouched -/
theorem set_frame (f : Field) (v : Nat) (b : Bytes) (hf : FitsIn f b) (i : Nat)
    (hi : i < f.off ∨ f.off + f.w ≤ i) : (setField f v b)[i]? = b[i]? := by
  exact set_frame' v hf.2 hi

/-- writes to disjoint fields commute (flags can be set and cleared in any order) -/
theorem set_set_comm (f g : Field) (u v : Nat) (b : Bytes) (hf : FitsIn f b) (hg : FitsIn g b)
    (hu : u < 2 ^ g.bits) (hv : v < 2 ^ f.bits) (hd : f.disjoint g = true) (hw : WordsOk f g) :
    setField f v (setField g u b) = setField g u (setField f v b) := by
  exact set_set_comm' hf.1 hf.2 hg.1 hg.2 hu hv hd hw

/-- the last write wins -/
theorem set_set_same (f : Field) (u v : Nat) (b : Bytes) (hf : FitsIn f b) (hu : u < 2 ^ f.bits) (hv : v < 2 ^ f.bits) :
    setField f v (setField f u b) = setField f v b := by
  exact set_set_same' hf.1 hf.2 hu hv

/-- writing back what is there changes nothing -/
theorem set_get_id (f : Field) (b : Bytes) (hf : FitsIn f b) : setField f (getField f b) b = b := by
  exact set_get_id' hf.2

/-- C12: a full-width field written through the model appears big-endian at its offset -/
theorem set_is_be (f : Field) (v : Nat) (b : Bytes) (hf : FitsIn f b) (hfull : f.shift = 0 ∧ f.bits = 8 * f.w)
    (hv : v < 2 ^ f.bits) : slice (setField f v b) f.off f.w = beEnc f.w v := by
  exact set_is_be' hf.2 hfull.1 hfull.2 hv

/-- C12: reading is the big-endian value of the word at the table's offset, shifted and masked -/
theorem get_is_be (f : Field) (b : Bytes) :
    getField f b = beDec (slice b f.off f.w) / 2 ^ f.shift % 2 ^ f.bits := rfl

/-- two fields of a class either use the same word or byte-disjoint words, unless they are aliases
    or one contains the other -/
def ClassLayout.wordsOk (c : ClassLayout) : Bool :=
  c.fields.all fun f => c.fields.all fun g =>
    (f.off == g.off && f.w == g.w) || decide (f.off + f.w ≤ g.off) || decide (g.off + g.w ≤ f.off) ||
    (f.alias != "" && f.alias == g.alias)

/-- kernel-checked facts about every table: fields fit into the header, overlap only as aliases or
    by containment, and share words properly -/
theorem tables_wf : Layout.all.all ClassLayout.wf = true := by decide
theorem tables_words_ok : Layout.all.all ClassLayout.wordsOk = true := by decide

/-- extra table fact: the members of one alias group overlap (so a pair of disjoint table fields is
    never excused by the alias disjunct of `wordsOk`) -/
theorem tables_alias_overlap :
    Layout.all.all (fun c => c.fields.all fun f => c.fields.all fun g =>
      !(f.alias != "" && f.alias == g.alias) || !(f.disjoint g)) = true := by decide

/-- C11 for every class of the library: for every table field `f`, every in-range value, every
    prior object state `b` (header + any data bytes): `f` reads the value, every other table field
    that does not overlap `f` is unchanged, the length and every byte behind the header are unchanged -/
theorem C11_all_classes (c : ClassLayout) (hc : c ∈ Layout.all) (f : Field) (hf : f ∈ c.fields)
    (b : Bytes) (hb : c.size ≤ b.length) (v : Nat) (hv : v < 2 ^ f.bits) :
    getField f (setField f v b) = v ∧
    (∀ g ∈ c.fields, f.disjoint g = true → getField g (setField f v b) = getField g b) ∧
    (setField f v b).length = b.length ∧
    (∀ i, c.size ≤ i → (setField f v b)[i]? = b[i]?) := by
  have hwf := List.all_eq_true.mp tables_wf c hc
  have hwo := List.all_eq_true.mp tables_words_ok c hc
  have hal := List.all_eq_true.mp tables_alias_overlap c hc
  unfold ClassLayout.wf at hwf
  rw [Bool.and_eq_true] at hwf
  unfold ClassLayout.wordsOk at hwo
  have hfits : ∀ g ∈ c.fields, FitsIn g b := by
    intro g hg
    have := List.all_eq_true.mp hwf.1 g hg
    simp only [Field.fits, Bool.and_eq_true, decide_eq_true_eq] at this
    exact ⟨this.1.1, Nat.le_trans this.1.2 hb⟩
  have hsize : f.off + f.w ≤ c.size := by
    have := List.all_eq_true.mp hwf.1 f hf
    simp only [Field.fits, Bool.and_eq_true, decide_eq_true_eq] at this
    exact this.1.2
  have hF := hfits f hf
  refine ⟨get_set_same f v b hF hv, ?_, setField_length f v b hF, ?_⟩
  · intro g hg hd
    apply get_set_other f g v b hF (hfits g hg) hv hd
    have h1 := List.all_eq_true.mp (List.all_eq_true.mp hwo f hf) g hg
    have h2 := List.all_eq_true.mp (List.all_eq_true.mp hal f hf) g hg
    rw [hd] at h2
    generalize (f.alias != "" && f.alias == g.alias) = a at h1 h2
    cases a with
    | true => simp at h2
    | false =>
      simp only [Bool.or_false, Bool.or_eq_true, Bool.and_eq_true, beq_iff_eq,
        decide_eq_true_eq] at h1
      unfold WordsOk
      omega
  · intro i hi
    exact set_frame f v b hF i (Or.inr (by omega))

/-- default-constructed objects: all-zero apart from the protocol's defaults (CMP version 1; TECMP
    message type 0xFF and data type bytes FF 00), so every reserved byte and bit is zero -/
theorem defaults_ok :
    Layout.all.all (fun c =>
      match ofHexChars c.dflt.toList with
      | none => false
      | some d =>
        decide (c.size ≤ d.length) &&
        (if c.name == "cmphdr" then d == [1,0,0,0,0,0,0,0]
         else if c.name == "packet" then d == 1 :: zeros 21
         else if c.name == "tecmphdr" then d == [0,0,0,0,0,0xFF,0xFF,0] ++ zeros 20
         else d == zeros d.length)) = true := by
  decide

/-- non-vacuity: the CAN identifier on an all-ones header -/
example : getField ⟨"id", 4, 4, 0, 29, ""⟩ (setField ⟨"id", 4, 4, 0, 29, ""⟩ 0x123 (List.replicate 16 0xFF)) = 0x123 := by decide

end AsamCmp.C11
