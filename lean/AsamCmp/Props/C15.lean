/-
  C15  TECMP messages convert to equivalent ASAM CMP packets.

  For every well-formed TECMP message of a supported kind (CAN, CAN-FD and LIN data, capture-module
  status, bus status), decoding yields packets whose device id, timestamp, interface id, arbitration
  or LIN id, data bytes and data length, LIN checksum, serial-number and version strings and
  per-interface counters equal the big-endian TECMP wire fields, with one interface-status packet per
  bus-status entry.  Messages of unsupported kinds, or whose inner lengths do not fit the buffer,
  yield no packet.
-/
import AsamCmp.Tecmp
import AsamCmp.Access
import AsamCmp.Fields
import AsamCmp.Lemmas.TecmpWire
namespace AsamCmp.C15
open AsamCmp

/-- the 28-byte TECMP header as the protocol lays it out: 0x00 @0 (routes the buffer to the TECMP
    decoder), device id u8 @1, counter u16 @2, version u8 @4, message type u8 @5, data type u16 @6,
    reserved u16 @8, device flags u16 @10, interface id u32 @12, timestamp u64 @16,
    payload length u16 @24, data flags u16 @26 -/
structure THdr where
  dev : Nat
  counter : Nat
  version : Nat
  mt : Nat
  dt : Nat
  reserved : Nat
  devFlags : Nat
  ifId : Nat
  ts : Nat
  plen : Nat
  dataFlags : Nat

def THdr.bytes (h : THdr) : Bytes :=
  [0, UInt8.ofNat h.dev] ++ beEnc 2 h.counter ++ [UInt8.ofNat h.version, UInt8.ofNat h.mt] ++ beEnc 2 h.dt ++
  beEnc 2 h.reserved ++ beEnc 2 h.devFlags ++ beEnc 4 h.ifId ++ beEnc 8 h.ts ++ beEnc 2 h.plen ++ beEnc 2 h.dataFlags

def THdr.WF (h : THdr) : Prop :=
  h.dev < 256 ∧ h.counter < 65536 ∧ h.version < 256 ∧ h.mt < 256 ∧ h.dt < 65536 ∧ h.reserved < 65536 ∧
  h.devFlags < 65536 ∧ h.ifId < 2 ^ 32 ∧ h.ts < 2 ^ 64 ∧ h.plen < 65536 ∧ h.dataFlags < 65536

/-- a message the decoder looks at: header valid (`mt ≠ 0xFF`, data type bytes ≠ FF 00), payload
    length non-zero and inside the buffer -/
def Accepts (h : THdr) (payload : Bytes) : Prop :=
  h.WF ∧ h.mt ≠ 0xFF ∧ h.dt ≠ 0xFF00 ∧ 1 ≤ h.plen ∧ h.plen ≤ payload.length

theorem hdr_length (h : THdr) : h.bytes.length = 28 := by
  simp [THdr.bytes]

/-- common part: every converted packet carries the header's device id, timestamp, version 1 and
    stream 0 -/
def FromHdr (h : THdr) (p : Packet) : Prop :=
  p.deviceId = h.dev ∧ p.ts = h.ts ∧ p.version = 1 ∧ p.streamId = 0 ∧ p.seq = 0 ∧ p.vendorId = 0 ∧ p.flags = 0 ∧ p.segType = 0

/-! CAN / CAN-FD data: arbitration id u32 @0, data length u8 @4, data @5, then 3 crc bytes -/
theorem C15_can (h : THdr) (arb : Nat) (data crc : Bytes) (hdt : h.dt = 2 ∨ h.dt = 3) (hmt : h.mt = 3)
    (harb : arb < 2 ^ 32) (hn : data.length < 256)
    (hacc : Accepts h (beEnc 4 arb ++ [UInt8.ofNat data.length] ++ data ++ crc)) :
    ∃ p pl, tecmpDecode (h.bytes ++ (beEnc 4 arb ++ [UInt8.ofNat data.length] ++ data ++ crc)) = [p] ∧
      FromHdr h p ∧ p.ifId = h.ifId ∧ p.payload = some pl ∧
      pl.ty = (if data.length > 8 then tyCanFd else tyCan) ∧
      -- arbitration id: the 29 identifier bits of the CAN id word
      getField ⟨"id", 4, 4, 0, 29, ""⟩ pl.data = arb % 2 ^ 29 ∧
      byteAt pl.data 15 = data.length ∧ byteAt pl.data 14 = dlcOf data.length ∧ pl.data.drop 16 = data ∧
      beAt pl.data 0 2 = 0 ∧ beAt pl.data 12 2 = 0 := by
  obtain ⟨hwf, hmt255, hdt', hp1, hp2⟩ := hacc
  obtain ⟨hdev, _, _, hmtlt, hdtlt, _, _, hif, hts, hpl, _⟩ := hwf
  have hf : HdrFacts h.bytes h.dev h.mt h.dt h.ifId h.ts h.plen :=
    hdrBytes_facts h.dev h.counter h.version h.mt h.dt h.reserved h.devFlags h.ifId h.ts h.plen h.dataFlags
      hdev hmtlt hdtlt hif hts hpl
  obtain ⟨c, hc⟩ := can_conv (h.bytes ++ (beEnc 4 arb ++ [UInt8.ofNat data.length] ++ data ++ crc))
    arb data crc harb hn
  obtain ⟨_, hid, h15, h14, hdrop, h0, h12, _⟩ := canObj_facts arb c data hn
  refine ⟨{ payload := some ⟨if data.length > 8 then tyCanFd else tyCan, canObj arb c data⟩, version := 1,
            deviceId := h.dev, ts := h.ts, ifId := h.ifId },
    ⟨if data.length > 8 then tyCanFd else tyCan, canObj arb c data⟩,
    ?_, ?_, rfl, rfl, rfl, ?_, h15, h14, hdrop, h0, h12⟩
  · rw [decode_accept h.bytes _ hf hmt255 hdt' hp1 hp2, hmt, if_neg (by decide), if_pos rfl, if_pos hdt, hc,
      packet_hdr _ _ hf, ifId_hdr _ _ hf]
  · exact ⟨rfl, rfl, rfl, rfl, rfl, rfl, rfl, rfl⟩
  · show beAt (canObj arb c data) 4 4 / 2 ^ 0 % 2 ^ 29 = arb % 2 ^ 29
    rw [hid, Nat.mod_eq_of_lt (by omega : arb < 256 ^ 4), Nat.pow_zero, Nat.div_one]

/-! LIN data: pid u8 @0, data length u8 @1, data @2, then the checksum byte -/
theorem C15_lin (h : THdr) (pid : Nat) (data : Bytes) (cks : Nat) (hdt : h.dt = 4) (hmt : h.mt = 3)
    (hpid : pid < 256) (hn : data.length < 256) (hc : cks < 256)
    (hacc : Accepts h ([UInt8.ofNat pid, UInt8.ofNat data.length] ++ data ++ [UInt8.ofNat cks])) :
    ∃ p pl, tecmpDecode (h.bytes ++ ([UInt8.ofNat pid, UInt8.ofNat data.length] ++ data ++ [UInt8.ofNat cks])) = [p] ∧
      FromHdr h p ∧ p.ifId = h.ifId ∧ p.payload = some pl ∧ pl.ty = tyLin ∧
      byteAt pl.data 4 = pid % 64 ∧ byteAt pl.data 6 = cks ∧ byteAt pl.data 7 = data.length ∧ pl.data.drop 8 = data ∧
      pl.data.length = 8 + data.length := by
  obtain ⟨hwf, hmt255, hdt', hp1, hp2⟩ := hacc
  obtain ⟨hdev, _, _, hmtlt, hdtlt, _, _, hif, hts, hpl, _⟩ := hwf
  have hf : HdrFacts h.bytes h.dev h.mt h.dt h.ifId h.ts h.plen :=
    hdrBytes_facts h.dev h.counter h.version h.mt h.dt h.reserved h.devFlags h.ifId h.ts h.plen h.dataFlags
      hdev hmtlt hdtlt hif hts hpl
  obtain ⟨hlen, h4, h6, h7, hdrop, _⟩ := linObj_facts (UInt8.ofNat (pid % 64)) (UInt8.ofNat cks) data hn
  refine ⟨{ payload := some ⟨tyLin, linObj (UInt8.ofNat (pid % 64)) (UInt8.ofNat cks) data⟩, version := 1,
            deviceId := h.dev, ts := h.ts, ifId := h.ifId },
    ⟨tyLin, linObj (UInt8.ofNat (pid % 64)) (UInt8.ofNat cks) data⟩,
    ?_, ?_, rfl, rfl, rfl, ?_, ?_, h7, hdrop, hlen⟩
  · rw [decode_accept h.bytes _ hf hmt255 hdt' hp1 hp2, hmt, if_neg (by decide), if_pos rfl, hdt,
      if_neg (by decide), if_pos rfl, lin_conv _ pid data cks hpid hn hc, packet_hdr _ _ hf, ifId_hdr _ _ hf]
  · exact ⟨rfl, rfl, rfl, rfl, rfl, rfl, rfl, rfl⟩
  · rw [h4]; simp; omega
  · rw [h6]; simp; omega

/-! capture-module status: vendor data length u16 @4 (the vendor data starts behind the 12 generic bytes and must lie inside
    the payload), serial number u32 @8, sw version @13..15, hw version @16..17 -/
theorem C15_cm (h : THdr) (pay : Bytes) (hmt : h.mt = 1) (hlen : 18 ≤ pay.length) (hvd : beAt pay 4 2 ≤ pay.length - 12)
    (hacc : Accepts h pay) :
    ∃ p, tecmpDecode (h.bytes ++ pay) = [p] ∧ FromHdr h p ∧ p.ifId = h.ifId ∧
      p.payload = some ⟨tyCm, cmSetData cmDefault []
        (decimal (beAt pay 8 4))
        ([chr 'v'] ++ decimal (byteAt pay 16) ++ [chr '.'] ++ decimal (byteAt pay 17))
        ([chr 'v'] ++ decimal (byteAt pay 13) ++ [chr '.'] ++ decimal (byteAt pay 14) ++ [chr '.'] ++ decimal (byteAt pay 15))
        []⟩ := by
  obtain ⟨hwf, hmt255, hdt', hp1, hp2⟩ := hacc
  obtain ⟨hdev, _, _, hmtlt, hdtlt, _, _, hif, hts, hpl, _⟩ := hwf
  have hf : HdrFacts h.bytes h.dev h.mt h.dt h.ifId h.ts h.plen :=
    hdrBytes_facts h.dev h.counter h.version h.mt h.dt h.reserved h.devFlags h.ifId h.ts h.plen h.dataFlags
      hdev hmtlt hdtlt hif hts hpl
  refine ⟨{ payload := some ⟨tyCm, cmSetData cmDefault []
        (decimal (beAt pay 8 4))
        ([chr 'v'] ++ decimal (byteAt pay 16) ++ [chr '.'] ++ decimal (byteAt pay 17))
        ([chr 'v'] ++ decimal (byteAt pay 13) ++ [chr '.'] ++ decimal (byteAt pay 14) ++ [chr '.'] ++ decimal (byteAt pay 15))
        []⟩, version := 1, deviceId := h.dev, ts := h.ts, ifId := h.ifId }, ?_, ?_, rfl, rfl⟩
  · rw [decode_accept h.bytes _ hf hmt255 hdt' hp1 hp2, hmt, if_pos rfl]
    unfold tecmpCm
    rw [if_neg (by omega), if_neg (by omega)]
    dsimp only
    rw [packet_hdr _ _ hf, ifId_hdr _ _ hf]
  · exact ⟨rfl, rfl, rfl, rfl, rfl, rfl, rfl, rfl⟩

/-! bus status: 12 generic bytes (vendor data length `v`: u16 @4), then entries of `12 + v` bytes (interface id u32,
    messages total u32, errors total u32, `v` bytes of vendor data): one interface-status packet per complete entry -/
structure BusEntry where
  ifId : Nat
  msgs : Nat
  errs : Nat

def BusEntry.bytes (e : BusEntry) : Bytes := beEnc 4 e.ifId ++ beEnc 4 e.msgs ++ beEnc 4 e.errs
def BusEntry.WF (e : BusEntry) : Prop := e.ifId < 2 ^ 32 ∧ e.msgs < 2 ^ 32 ∧ e.errs < 2 ^ 32

/-- the interface-status packet of one entry: interface id, msg-total-rx and errors-total-rx set on a
    default interface payload; the packet's interface id is the entry's -/
def busPacket (h : THdr) (e : BusEntry) : Packet :=
  { payload := some ⟨tyIf, writeAt (writeAt (writeAt ifDefault 0 (beEnc 4 e.ifId)) 4 (beEnc 4 e.msgs)) 20 (beEnc 4 e.errs)⟩,
    version := 1, deviceId := h.dev, ts := h.ts, ifId := e.ifId }

/-- a bus-status entry on the wire: the 12 counter bytes followed by its vendor data -/
def vendorEntry (e : BusEntry) (vendor : Bytes) : Bytes := e.bytes ++ vendor

/-- bus status, EVERY declared vendor data length `v`: `es.length` entries, each the 12 counter bytes followed by `v` vendor
    bytes (any content), then fewer than `12 + v` trailing bytes (nothing, or an incomplete entry): exactly one packet per
    entry, in order, interface id and counters from the entry's first 12 bytes -/
theorem C15_bus (h : THdr) (generic : Bytes) (v : Nat) (es : List (BusEntry × Bytes)) (trail : Bytes) (hmt : h.mt = 2)
    (hg : generic.length = 12) (hv : beAt generic 4 2 = v) (hes : ∀ e ∈ es, e.1.WF ∧ e.2.length = v)
    (ht : trail.length < 12 + v)
    (hacc : Accepts h (generic ++ es.flatMap (fun e => vendorEntry e.1 e.2) ++ trail)) :
    tecmpDecode (h.bytes ++ (generic ++ es.flatMap (fun e => vendorEntry e.1 e.2) ++ trail)) =
      es.map (fun e => busPacket h e.1) := by
  have hfm : es.flatMap (fun e => vendorEntry e.1 e.2) =
      (es.map fun e => ((e.1.ifId, e.1.msgs, e.1.errs), e.2)).flatMap ventryBytes := by
    rw [List.flatMap_map]; rfl
  rw [hfm] at hacc ⊢
  obtain ⟨hwf, hmt255, hdt', hp1, hp2⟩ := hacc
  obtain ⟨hdev, _, _, hmtlt, hdtlt, _, _, hif, hts, hpl, _⟩ := hwf
  have hf : HdrFacts h.bytes h.dev h.mt h.dt h.ifId h.ts h.plen :=
    hdrBytes_facts h.dev h.counter h.version h.mt h.dt h.reserved h.devFlags h.ifId h.ts h.plen h.dataFlags
      hdev hmtlt hdtlt hif hts hpl
  rw [decode_accept h.bytes _ hf hmt255 hdt' hp1 hp2, hmt, if_neg (by decide), if_neg (by decide), if_pos rfl,
    bus_conv _ generic trail v _ hg hv ht, List.map_map]
  · apply List.map_congr_left
    intro e _
    simp only [Function.comp, packet_hdr _ _ hf, busPacket, busObj]
  · intro t ht'
    simp only [List.mem_map] at ht'
    obtain ⟨e, he, rfl⟩ := ht'
    exact hes e he

/-- unsupported message types (all 256 values) and data types (all 65536 values) yield no packet -/
theorem C15_unsupported (b : Bytes) (h : ¬ (byteAt b 5 = 1 ∨ byteAt b 5 = 2 ∨ (byteAt b 5 = 3 ∧ (beAt b 6 2 = 2 ∨ beAt b 6 2 = 3 ∨ beAt b 6 2 = 4)))) :
    tecmpDecode b = [] := by
  unfold tecmpDecode
  dsimp only
  repeat' split
  all_goals first
    | rfl
    | (exfalso; omega)

/-- inner lengths that do not fit the buffer yield no packet -/
theorem C15_misfit_can (b : Bytes) (hmt : byteAt b 5 = 3) (hdt : beAt b 6 2 = 2 ∨ beAt b 6 2 = 3)
    (h : b.length < 28 + 5 ∨ b.length - 33 < byteAt b 32) : tecmpDecode b = [] := by
  by_cases h28 : b.length < 28
  · simp [tecmpDecode, h28]
  · have hlen : (b.drop 28).length = b.length - 28 := by simp
    have h4 : byteAt (b.drop 28) 4 = byteAt b 32 := byteAt_drop b 28 4
    have hcan : tecmpCan b (b.drop 28) = [] := by
      unfold tecmpCan
      by_cases h5 : (b.drop 28).length < 5
      · rw [if_pos h5]
      · rw [if_neg h5]
        dsimp only
        rw [if_pos (by rw [hlen, h4]; omega)]
    unfold tecmpDecode
    dsimp only
    rw [hmt, hcan]
    simp [hdt]
theorem C15_misfit_lin (b : Bytes) (hmt : byteAt b 5 = 3) (hdt : beAt b 6 2 = 4)
    (h : b.length < 28 + 2 ∨ b.length - 30 < byteAt b 29) : tecmpDecode b = [] := by
  by_cases h28 : b.length < 28
  · simp [tecmpDecode, h28]
  · have hlen : (b.drop 28).length = b.length - 28 := by simp
    have h1 : byteAt (b.drop 28) 1 = byteAt b 29 := byteAt_drop b 28 1
    have hlin : tecmpLin b (b.drop 28) = [] := by
      unfold tecmpLin
      by_cases h2 : (b.drop 28).length < 2
      · rw [if_pos h2]
      · rw [if_neg h2]
        dsimp only
        rw [if_pos (by rw [hlen, h1]; omega)]
    unfold tecmpDecode
    dsimp only
    rw [hmt, hlin]
    simp [hdt]
theorem beAt_drop (b : Bytes) (k off w : Nat) : beAt (b.drop k) off w = beAt b (k + off) w := by
  unfold beAt slice
  rw [List.drop_drop]

/-- capture-module status: fewer than 18 payload bytes, or a declared vendor data length (u16 @4 of the payload = @32 of the
    buffer) exceeding the bytes behind the 12 generic bytes (buffer length − 40) -/
theorem C15_misfit_cm (b : Bytes) (hmt : byteAt b 5 = 1) (h : b.length < 28 + 18 ∨ b.length - 40 < beAt b 32 2) :
    tecmpDecode b = [] := by
  have hcm : tecmpCm b (b.drop 28) = [] := by
    unfold tecmpCm
    by_cases h18 : (b.drop 28).length < 18
    · rw [if_pos h18]
    · rw [if_neg h18, if_pos (by rw [beAt_drop]; simp at h18 ⊢; omega)]
  unfold tecmpDecode
  dsimp only
  rw [hmt, hcm]
  simp
/-- bus status: not even one complete entry (12 generic bytes, 12 counter bytes and the declared vendor data: u16 @4 of the
    payload = @32 of the buffer) -/
theorem C15_misfit_bus (b : Bytes) (hmt : byteAt b 5 = 2) (h : b.length < 28 + 24 + beAt b 32 2) : tecmpDecode b = [] := by
  have hbus : tecmpBus b (b.drop 28) = [] := by
    unfold tecmpBus
    split
    · rfl
    · unfold tecmpBusEntries
      rw [if_neg (by rw [beAt_drop]; simp; omega)]
  unfold tecmpDecode
  dsimp only
  rw [hmt, hbus]
  simp
/-- a declared payload length of zero, or one exceeding the buffer, yields no packet -/
theorem C15_misfit_header (b : Bytes) (h : b.length < 28 ∨ beAt b 24 2 = 0 ∨ b.length < 28 + beAt b 24 2) :
    tecmpDecode b = [] := by
  unfold tecmpDecode
  dsimp only
  repeat' split
  all_goals first
    | rfl
    | (exfalso; omega)

/-- every packet the TECMP path returns holds a payload its own class validator accepts (so C03's
    accessor theorem applies to TECMP-converted packets too) -/
theorem C15_valid_payloads (b : Bytes) :
    ∀ p ∈ tecmpDecode b, ∃ pl v, p.payload = some pl ∧ validatorOf pl.ty = some v ∧ v pl.data = true := by
  exact valid_payloads b

end AsamCmp.C15
