/-
  C15S  strengthening of C15 (TECMP messages convert to equivalent ASAM CMP packets).

  Additional theorems about the EXISTING definitions (`tecmpDecode`, `decode`, `decodeAll`, `THdr`,
  `Accepts`, `BusEntry`): nothing in the model is changed.  They close the findings of the statement
  review of C15:

   1. LIN with ANY number of bytes behind the data (none, the checksum, checksum + padding); the
      whole ASAM LIN payload is written out byte by byte; "packet ∪ misfit" is exhaustive.
   2. the declared vendor-data length (capture-module status, bus status).  The review found that the
      decoder did not look at it (theorems C15S_cm_vendor_length_ignored, C15S_cm_vendor_misfit_still_packet,
      C15S_bus_generic_ignored, C15S_bus_vendor_count, C15S_bus_vendor_data_violation of the earlier
      version of this file: two genuine defects).  The library was repaired; the theorems here are the
      POSITIVE counterparts: a bus-status entry is 12 + v bytes, one packet per complete entry for EVERY
      v (C15S_bus_vendor_entries, C15S_bus_vendor_entry_count, C15S_bus_vendor_data_witness,
      C15S_bus_generic_only_vendor_length, C15S_bus_empty_iff); a capture-module status message whose
      declared vendor data does not fit yields no packet (C15S_cm_vendor_misfit_rejected,
      C15S_cm_empty_iff, C15S_cm_vendor_length_only_gates).
   3. the declared TECMP payload length is only a gate: named theorem + witnesses.
   4. CAN / CAN-FD kind follows the data length, not the header's data type: named theorems.
   5. the complete 16-byte ASAM CAN header (id word incl. bits 29..31, CRC word, all reserved bytes).
   6. invalid header (`mt = 0xFF`, data type `0xFF00`) for ALL message types; exact characterisation
      of "yields a packet" over the whole header space.
   7. the statements are lifted from `tecmpDecode` to the entry point `decode` and to arbitrary
      interleaved traffic (`decodeAll`).
   8. non-vacuity: literal instances of every positive theorem, conclusions computed by `decide`.
-/
import AsamCmp.Props.C15
import AsamCmp.Lemmas.SrcTecmpDecode
namespace AsamCmp.C15S
open AsamCmp AsamCmp.C15

/-! ## helpers -/

instance (h : THdr) : Decidable h.WF := by unfold THdr.WF; infer_instance
instance (h : THdr) (p : Bytes) : Decidable (Accepts h p) := by unfold Accepts; infer_instance
instance (e : BusEntry) : Decidable e.WF := by unfold BusEntry.WF; infer_instance

/-- what the converter reads from a well-formed `THdr` -/
theorem hfOf (h : THdr) (hwf : h.WF) : HdrFacts h.bytes h.dev h.mt h.dt h.ifId h.ts h.plen := by
  obtain ⟨hdev, _, _, hmtlt, hdtlt, _, _, hif, hts, hpl, _⟩ := hwf
  exact hdrBytes_facts h.dev h.counter h.version h.mt h.dt h.reserved h.devFlags h.ifId h.ts h.plen h.dataFlags
    hdev hmtlt hdtlt hif hts hpl

theorem byteAt_append_right (a b : Bytes) (i : Nat) : byteAt (a ++ b) (a.length + i) = byteAt b i := by
  rw [← byteAt_drop, List.drop_left' rfl]

/-- the ASAM LIN payload object, byte by byte -/
theorem linObj_bytes (x y : UInt8) (data : Bytes) :
    linObj x y data = [0, 0, 0, 0, x, 0, y, UInt8.ofNat data.length] ++ data := by
  simp [linObj, linSetData, setTail, writeAt, linDefault, zeros, resize, List.replicate]

theorem beEnc4_bytes (a : Nat) : beEnc 4 a =
    [UInt8.ofNat (a / 256 / 256 / 256 % 256), UInt8.ofNat (a / 256 / 256 % 256),
     UInt8.ofNat (a / 256 % 256), UInt8.ofNat (a % 256)] := by
  simp [beEnc]

/-- the ASAM CAN / CAN-FD payload object, byte by byte: flags u16 = 0, reserved u16 = 0, id word,
    crc word, error position u16 = 0, dlc, data length, data -/
theorem canObj_bytes (a c : Nat) (data : Bytes) (hn : data.length < 256) :
    canObj a c data = [0, 0, 0, 0] ++ beEnc 4 a ++ beEnc 4 c ++
      [0, 0, UInt8.ofNat (dlcOf data.length), UInt8.ofNat data.length] ++ data := by
  rw [beEnc4_bytes a, beEnc4_bytes c]
  simp [canObj, canSetData, setTail, writeAt, canDefault, zeros, resize, List.replicate, beEnc,
    Nat.mod_eq_of_lt hn]

/-- the converters use the buffer `b` only through device id, timestamp and interface id -/
theorem busEntries_congr (b b' p : Bytes) (v : Nat) (hp : tecmpPacket b = tecmpPacket b') :
    ∀ fuel off, tecmpBusEntries b p v fuel off = tecmpBusEntries b' p v fuel off := by
  intro fuel
  induction fuel with
  | zero => intro off; rfl
  | succ fuel ih =>
    intro off
    unfold tecmpBusEntries
    rw [hp, ih]

theorem kind_congr (b b' p : Bytes) (h1 : byteAt b 1 = byteAt b' 1) (h2 : beAt b 16 8 = beAt b' 16 8)
    (h3 : beAt b 12 4 = beAt b' 12 4) :
    tecmpCm b p = tecmpCm b' p ∧ tecmpCan b p = tecmpCan b' p ∧ tecmpLin b p = tecmpLin b' p ∧
    tecmpBus b p = tecmpBus b' p := by
  have hp : tecmpPacket b = tecmpPacket b' := by
    funext i pl
    unfold tecmpPacket
    rw [h1, h2]
  refine ⟨?_, ?_, ?_, ?_⟩
  · unfold tecmpCm; rw [hp, h3]
  · unfold tecmpCan; rw [hp, h3]
  · unfold tecmpLin; rw [hp, h3]
  · unfold tecmpBus; rw [busEntries_congr b b' p _ hp]

/-! when does a converter return a packet at all -/

theorem cm_ne_nil (b p : Bytes) : tecmpCm b p ≠ [] ↔ 18 ≤ p.length ∧ beAt p 4 2 ≤ p.length - 12 := by
  unfold tecmpCm
  by_cases h18 : p.length < 18
  · simp [h18]; omega
  · by_cases hv : p.length - 12 < beAt p 4 2
    · simp [h18, hv]
    · simp [h18, hv]; omega

theorem can_ne_nil (b p : Bytes) : tecmpCan b p ≠ [] ↔ 5 ≤ p.length ∧ byteAt p 4 ≤ p.length - 5 := by
  by_cases h5 : p.length < 5
  · simp [tecmpCan, h5]; omega
  · by_cases hd : p.length - 5 < byteAt p 4
    · simp [tecmpCan, h5, hd]
    · rw [tecmpCan_eq b p (by omega) (by omega)]
      simp; omega

theorem lin_ne_nil (b p : Bytes) : tecmpLin b p ≠ [] ↔ 2 ≤ p.length ∧ byteAt p 1 ≤ p.length - 2 := by
  by_cases h2 : p.length < 2
  · simp [tecmpLin, h2]; omega
  · by_cases hd : p.length - 2 < byteAt p 1
    · simp [tecmpLin, h2, hd]
    · rw [tecmpLin_eq b p (by omega) (by omega)]
      simp; omega

theorem bus_ne_nil (b p : Bytes) : tecmpBus b p ≠ [] ↔ 24 + beAt p 4 2 ≤ p.length := by
  unfold tecmpBus
  split
  · simp; omega
  · unfold tecmpBusEntries
    split <;> simp <;> omega

/-! ## finding 5 (and 3, 4): CAN / CAN-FD, the complete packet -/

/-- the CRC word of the ASAM payload as a function of the bytes behind the data: the first three
    bytes little-endian (0 when fewer than three are present); truncated to 16 bits for classic CAN
    (`static_cast<uint16_t>` in `ConvertCanPayload`) -/
def crcWord (crc : Bytes) (n : Nat) : Nat :=
  if n > 8 then (if crc.length < 3 then 0 else byteAt crc 0 + 256 * byteAt crc 1 + 65536 * byteAt crc 2)
  else (if crc.length < 3 then 0 else byteAt crc 0 + 256 * byteAt crc 1 + 65536 * byteAt crc 2) % 65536

theorem canCrc_wire (arb : Nat) (data crc : Bytes) :
    tecmpCanCrc (beEnc 4 arb ++ [UInt8.ofNat data.length] ++ data ++ crc) data.length =
      if crc.length < 3 then 0 else byteAt crc 0 + 256 * byteAt crc 1 + 65536 * byteAt crc 2 := by
  have hpre : (beEnc 4 arb ++ [UInt8.ofNat data.length] ++ data).length = 5 + data.length := by simp; omega
  unfold tecmpCanCrc
  have hlen : (beEnc 4 arb ++ [UInt8.ofNat data.length] ++ data ++ crc).length = 5 + data.length + crc.length := by
    simp; omega
  have e0 := byteAt_append_right (beEnc 4 arb ++ [UInt8.ofNat data.length] ++ data) crc 0
  have e1 := byteAt_append_right (beEnc 4 arb ++ [UInt8.ofNat data.length] ++ data) crc 1
  have e2 := byteAt_append_right (beEnc 4 arb ++ [UInt8.ofNat data.length] ++ data) crc 2
  rw [hpre] at e0 e1 e2
  rw [hlen]
  by_cases h3 : crc.length < 3
  · rw [if_pos (by omega), if_pos h3]
  · rw [if_neg (by omega), if_neg h3, show 5 + data.length = 5 + data.length + 0 from rfl, e0, e1, e2]

/-- CAN / CAN-FD: the ONE packet, all ten packet fields and ALL payload bytes written out.
    Hypotheses (all named by the property): the header is well-formed and accepted, the message is
    a data message of data type CAN or CAN-FD, arbitration id a 32-bit wire field, data length a
    one-byte wire field.  `crc` is whatever follows the data (any length, also empty).
    Pins, beyond `C15_can`: the complete id word (bits 29..31 — the extended-id flag of the TECMP
    arbitration id — included), the CRC word, flags / reserved / error-position bytes = 0, and the
    payload length `16 + data.length`. -/
theorem C15S_can (h : THdr) (arb : Nat) (data crc : Bytes) (hdt : h.dt = 2 ∨ h.dt = 3) (hmt : h.mt = 3)
    (harb : arb < 2 ^ 32) (hn : data.length < 256)
    (hacc : Accepts h (beEnc 4 arb ++ [UInt8.ofNat data.length] ++ data ++ crc)) :
    tecmpDecode (h.bytes ++ (beEnc 4 arb ++ [UInt8.ofNat data.length] ++ data ++ crc)) =
      [{ payload := some ⟨if data.length > 8 then tyCanFd else tyCan,
            [0, 0, 0, 0] ++ beEnc 4 arb ++ beEnc 4 (crcWord crc data.length) ++
            [0, 0, UInt8.ofNat (dlcOf data.length), UInt8.ofNat data.length] ++ data⟩,
         version := 1, deviceId := h.dev, ts := h.ts, ifId := h.ifId }] := by
  obtain ⟨hwf, hmt255, hdt', hp1, hp2⟩ := hacc
  have hf := hfOf h hwf
  have hlen : (beEnc 4 arb ++ [UInt8.ofNat data.length] ++ data ++ crc).length = 5 + data.length + crc.length := by
    simp; omega
  have h4 : byteAt (beEnc 4 arb ++ [UInt8.ofNat data.length] ++ data ++ crc) 4 = data.length := by
    rw [show beEnc 4 arb ++ [UInt8.ofNat data.length] ++ data ++ crc =
      beEnc 4 arb ++ (UInt8.ofNat data.length :: (data ++ crc)) by simp, C13.byteAt_at _ _ _ 4 (by simp)]
    simp; omega
  have h0 : beAt (beEnc 4 arb ++ [UInt8.ofNat data.length] ++ data ++ crc) 0 4 = arb := by
    rw [show beEnc 4 arb ++ [UInt8.ofNat data.length] ++ data ++ crc =
      [] ++ (beEnc 4 arb ++ ([UInt8.ofNat data.length] ++ data ++ crc)) by simp,
      C13.beAt_at _ _ 0 4 arb rfl]
    exact Nat.mod_eq_of_lt harb
  have hs : slice (beEnc 4 arb ++ [UInt8.ofNat data.length] ++ data ++ crc) 5 data.length = data := by
    rw [List.append_assoc]
    exact C13.slice_at _ _ _ 5 _ (by simp) rfl
  rw [decode_accept h.bytes _ hf hmt255 hdt' hp1 hp2, hmt, if_neg (by decide), if_pos rfl, if_pos hdt,
    tecmpCan_eq _ _ (by omega) (by omega), h4, h0, hs, canCrc_wire, packet_hdr _ _ hf, ifId_hdr _ _ hf,
    canObj_bytes _ _ _ hn]
  unfold crcWord
  by_cases h8 : data.length > 8
  · simp only [h8, if_true]
  · simp only [h8, if_false]

/-- the fields the property names, read back from the packet of `C15S_can` at their ASAM offsets:
    the WHOLE id word equals the arbitration id (no masking), the CRC word, data length, DLC code,
    data bytes, payload size -/
theorem C15S_can_fields (h : THdr) (arb : Nat) (data crc : Bytes) (hdt : h.dt = 2 ∨ h.dt = 3) (hmt : h.mt = 3)
    (harb : arb < 2 ^ 32) (hn : data.length < 256)
    (hacc : Accepts h (beEnc 4 arb ++ [UInt8.ofNat data.length] ++ data ++ crc)) :
    ∃ p pl, tecmpDecode (h.bytes ++ (beEnc 4 arb ++ [UInt8.ofNat data.length] ++ data ++ crc)) = [p] ∧
      FromHdr h p ∧ p.ifId = h.ifId ∧ p.payload = some pl ∧
      pl.data.length = 16 + data.length ∧ beAt pl.data 0 4 = 0 ∧ beAt pl.data 4 4 = arb ∧
      beAt pl.data 8 4 = crcWord crc data.length % 2 ^ 32 ∧ beAt pl.data 12 2 = 0 ∧
      byteAt pl.data 14 = dlcOf data.length ∧ byteAt pl.data 15 = data.length ∧ pl.data.drop 16 = data := by
  refine ⟨_, _, C15S_can h arb data crc hdt hmt harb hn hacc, ⟨rfl, rfl, rfl, rfl, rfl, rfl, rfl, rfl⟩, rfl, rfl,
    ?_, ?_, ?_, ?_, ?_, ?_, ?_, ?_⟩
  · simp; omega
  · rfl
  · rw [show [0, 0, 0, 0] ++ beEnc 4 arb ++ beEnc 4 (crcWord crc data.length) ++
        [0, 0, UInt8.ofNat (dlcOf data.length), UInt8.ofNat data.length] ++ data =
        [0, 0, 0, 0] ++ (beEnc 4 arb ++ (beEnc 4 (crcWord crc data.length) ++
        [0, 0, UInt8.ofNat (dlcOf data.length), UInt8.ofNat data.length] ++ data)) by simp,
      C13.beAt_at _ _ 4 4 arb rfl]
    exact Nat.mod_eq_of_lt harb
  · rw [show [0, 0, 0, 0] ++ beEnc 4 arb ++ beEnc 4 (crcWord crc data.length) ++
        [0, 0, UInt8.ofNat (dlcOf data.length), UInt8.ofNat data.length] ++ data =
        ([0, 0, 0, 0] ++ beEnc 4 arb) ++ (beEnc 4 (crcWord crc data.length) ++
        ([0, 0, UInt8.ofNat (dlcOf data.length), UInt8.ofNat data.length] ++ data)) by simp,
      C13.beAt_at _ _ 8 4 _ (by simp)]
  · rw [beEnc4_bytes, beEnc4_bytes]; rfl
  · rw [beEnc4_bytes, beEnc4_bytes]
    have : dlcOf data.length < 256 := by
      unfold dlcOf
      repeat' split
      all_goals omega
    simp [byteAt]; omega
  · rw [beEnc4_bytes, beEnc4_bytes]
    simp [byteAt]; omega
  · rw [beEnc4_bytes, beEnc4_bytes]; rfl

/-! ## finding 1: LIN with ANY bytes behind the data -/

/-- LIN: the ONE packet, all packet fields and ALL eight header bytes of the ASAM LIN payload.
    `tail` is whatever follows the data in the buffer: nothing, the checksum byte, or the checksum
    followed by padding / a further TECMP message.  The checksum reported is the FIRST byte behind
    the data (`tail.headD 0`: 0 when there is none) — not the last byte of the buffer.
    flags (bytes 0-1), reserved (2-3), byte 5 are 0: no error flag is ever set.
    Hypotheses (property's words): header well-formed and accepted, data message of data type LIN,
    pid and data length one-byte wire fields. -/
theorem C15S_lin (h : THdr) (pid : Nat) (data tail : Bytes) (hdt : h.dt = 4) (hmt : h.mt = 3)
    (hpid : pid < 256) (hn : data.length < 256)
    (hacc : Accepts h ([UInt8.ofNat pid, UInt8.ofNat data.length] ++ data ++ tail)) :
    tecmpDecode (h.bytes ++ ([UInt8.ofNat pid, UInt8.ofNat data.length] ++ data ++ tail)) =
      [{ payload := some ⟨tyLin,
            [0, 0, 0, 0, UInt8.ofNat (pid % 64), 0, tail.headD 0, UInt8.ofNat data.length] ++ data⟩,
         version := 1, deviceId := h.dev, ts := h.ts, ifId := h.ifId }] := by
  obtain ⟨hwf, hmt255, hdt', hp1, hp2⟩ := hacc
  have hf := hfOf h hwf
  have hlen : ([UInt8.ofNat pid, UInt8.ofNat data.length] ++ data ++ tail).length =
      2 + data.length + tail.length := by simp; omega
  have h0 : byteAt ([UInt8.ofNat pid, UInt8.ofNat data.length] ++ data ++ tail) 0 = pid := by
    simp [byteAt]; omega
  have h1 : byteAt ([UInt8.ofNat pid, UInt8.ofNat data.length] ++ data ++ tail) 1 = data.length := by
    simp [byteAt]; omega
  have hs : slice ([UInt8.ofNat pid, UInt8.ofNat data.length] ++ data ++ tail) 2 data.length = data := by
    rw [List.append_assoc]
    exact C13.slice_at _ _ _ 2 _ rfl rfl
  have hand : pid &&& 0x3F = pid % 64 := Nat.and_two_pow_sub_one_eq_mod pid 6
  have hck : UInt8.ofNat (if ([UInt8.ofNat pid, UInt8.ofNat data.length] ++ data ++ tail).length ≤ 2 + data.length
      then 0 else byteAt ([UInt8.ofNat pid, UInt8.ofNat data.length] ++ data ++ tail) (2 + data.length)) =
      tail.headD 0 := by
    rw [hlen]
    cases tail with
    | nil => rw [if_pos (by simp)]; rfl
    | cons t ts =>
      rw [if_neg (by simp), C13.byteAt_at _ _ t (2 + data.length) (by simp; omega)]
      simp
  rw [decode_accept h.bytes _ hf hmt255 hdt' hp1 hp2, hmt, if_neg (by decide), if_pos rfl, hdt,
    if_neg (by decide), if_pos rfl, tecmpLin_eq _ _ (by omega) (by omega), h0, h1, hs, hck, hand,
    packet_hdr _ _ hf, ifId_hdr _ _ hf, linObj_bytes]

/-- the property's fields read back at their ASAM offsets (strengthens `C15_lin` to any tail) -/
theorem C15S_lin_fields (h : THdr) (pid : Nat) (data tail : Bytes) (hdt : h.dt = 4) (hmt : h.mt = 3)
    (hpid : pid < 256) (hn : data.length < 256)
    (hacc : Accepts h ([UInt8.ofNat pid, UInt8.ofNat data.length] ++ data ++ tail)) :
    ∃ p pl, tecmpDecode (h.bytes ++ ([UInt8.ofNat pid, UInt8.ofNat data.length] ++ data ++ tail)) = [p] ∧
      FromHdr h p ∧ p.ifId = h.ifId ∧ p.payload = some pl ∧ pl.ty = tyLin ∧
      beAt pl.data 0 4 = 0 ∧ byteAt pl.data 4 = pid % 64 ∧ byteAt pl.data 5 = 0 ∧
      byteAt pl.data 6 = (tail.head?.map UInt8.toNat).getD 0 ∧
      byteAt pl.data 7 = data.length ∧ pl.data.drop 8 = data ∧ pl.data.length = 8 + data.length := by
  refine ⟨_, _, C15S_lin h pid data tail hdt hmt hpid hn hacc, ⟨rfl, rfl, rfl, rfl, rfl, rfl, rfl, rfl⟩, rfl, rfl,
    rfl, rfl, ?_, rfl, ?_, ?_, rfl, ?_⟩
  · simp [byteAt]; omega
  · cases tail <;> simp [byteAt]
  · simp [byteAt]; omega
  · simp; omega

/-- every payload that passes the LIN length checks IS of the shape of `C15S_lin` (so the positive
    theorem and the misfit theorem together cover all buffers) -/
theorem lin_shape (pay : Bytes) (h2 : 2 ≤ pay.length) (hn : byteAt pay 1 ≤ pay.length - 2) :
    ∃ (pid : Nat) (data tail : Bytes), pid < 256 ∧ data.length < 256 ∧
      pay = [UInt8.ofNat pid, UInt8.ofNat data.length] ++ data ++ tail := by
  match pay, h2, hn with
  | a :: l :: rest, _, hn =>
    have hl : byteAt (a :: l :: rest) 1 = l.toNat := rfl
    rw [hl] at hn
    have hr : l.toNat ≤ rest.length := by simpa using hn
    refine ⟨a.toNat, rest.take l.toNat, rest.drop l.toNat, a.toNat_lt, ?_, ?_⟩
    · rw [List.length_take]; have := l.toNat_lt; omega
    · rw [List.length_take, Nat.min_eq_left hr]
      simp

/-- LIN, exact: an accepted LIN message yields NO packet iff the data length byte does not fit
    the bytes behind it (otherwise exactly the packet of `C15S_lin`, by `lin_shape`) -/
theorem C15S_lin_empty_iff (h : THdr) (pay : Bytes) (hdt : h.dt = 4) (hmt : h.mt = 3) (hacc : Accepts h pay) :
    tecmpDecode (h.bytes ++ pay) = [] ↔ (pay.length < 2 ∨ pay.length - 2 < byteAt pay 1) := by
  obtain ⟨hwf, hmt255, hdt', hp1, hp2⟩ := hacc
  have hf := hfOf h hwf
  rw [decode_accept h.bytes _ hf hmt255 hdt' hp1 hp2, hmt, if_neg (by decide), if_pos rfl, hdt,
    if_neg (by decide), if_pos rfl]
  have := lin_ne_nil (h.bytes ++ pay) pay
  constructor
  · intro he
    false_or_by_contra
    exact (this.mpr (by omega)) he
  · intro hm
    false_or_by_contra
    rename_i hne
    have := this.mp hne
    omega

/-- LIN, exhaustive: EVERY accepted LIN message is either a misfit (no packet) or has the wire
    shape `[pid, len] ++ data ++ tail` of `C15S_lin` and yields its packet -/
theorem C15S_lin_exhaustive (h : THdr) (pay : Bytes) (hdt : h.dt = 4) (hmt : h.mt = 3) (hacc : Accepts h pay) :
    ((pay.length < 2 ∨ pay.length - 2 < byteAt pay 1) ∧ tecmpDecode (h.bytes ++ pay) = []) ∨
    (∃ (pid : Nat) (data tail : Bytes), pid < 256 ∧ data.length < 256 ∧
      pay = [UInt8.ofNat pid, UInt8.ofNat data.length] ++ data ++ tail ∧
      tecmpDecode (h.bytes ++ pay) =
        [{ payload := some ⟨tyLin,
            [0, 0, 0, 0, UInt8.ofNat (pid % 64), 0, tail.headD 0, UInt8.ofNat data.length] ++ data⟩,
           version := 1, deviceId := h.dev, ts := h.ts, ifId := h.ifId }]) := by
  by_cases hm : pay.length < 2 ∨ pay.length - 2 < byteAt pay 1
  · exact Or.inl ⟨hm, (C15S_lin_empty_iff h pay hdt hmt hacc).mpr hm⟩
  · obtain ⟨pid, data, tail, hpid, hn, rfl⟩ := lin_shape pay (by omega) (by omega)
    exact Or.inr ⟨pid, data, tail, hpid, hn, rfl, C15S_lin h pid data tail hdt hmt hpid hn hacc⟩

/-! ## finding 2: the declared vendor-data length (repaired behaviour) -/

/-- capture-module status, as an equation (the packet of `C15_cm`, all fields).  `hvd`: the vendor data the generic part
    declares (u16 @4) lies inside the payload, behind the 12 generic bytes -/
theorem C15S_cm (h : THdr) (pay : Bytes) (hmt : h.mt = 1) (hlen : 18 ≤ pay.length)
    (hvd : beAt pay 4 2 ≤ pay.length - 12) (hacc : Accepts h pay) :
    tecmpDecode (h.bytes ++ pay) =
      [{ payload := some ⟨tyCm, cmSetData cmDefault []
            (decimal (beAt pay 8 4))
            ([chr 'v'] ++ decimal (byteAt pay 16) ++ [chr '.'] ++ decimal (byteAt pay 17))
            ([chr 'v'] ++ decimal (byteAt pay 13) ++ [chr '.'] ++ decimal (byteAt pay 14) ++ [chr '.'] ++
              decimal (byteAt pay 15))
            []⟩,
         version := 1, deviceId := h.dev, ts := h.ts, ifId := h.ifId }] := by
  obtain ⟨hwf, hmt255, hdt', hp1, hp2⟩ := hacc
  have hf := hfOf h hwf
  rw [decode_accept h.bytes _ hf hmt255 hdt' hp1 hp2, hmt, if_pos rfl]
  unfold tecmpCm
  rw [if_neg (by omega), if_neg (by omega)]
  dsimp only
  rw [packet_hdr _ _ hf, ifId_hdr _ _ hf]

/-- capture-module status, exact: an accepted message yields NO packet iff it is shorter than the fields read from it (18
    bytes) or its declared vendor data (u16 @4) does not fit the bytes behind the 12 generic bytes; otherwise exactly the
    packet of `C15S_cm` -/
theorem C15S_cm_empty_iff (h : THdr) (pay : Bytes) (hmt : h.mt = 1) (hacc : Accepts h pay) :
    tecmpDecode (h.bytes ++ pay) = [] ↔ (pay.length < 18 ∨ pay.length - 12 < beAt pay 4 2) := by
  obtain ⟨hwf, hmt255, hdt', hp1, hp2⟩ := hacc
  have hf := hfOf h hwf
  rw [decode_accept h.bytes _ hf hmt255 hdt' hp1 hp2, hmt, if_pos rfl]
  have := cm_ne_nil (h.bytes ++ pay) pay
  constructor
  · intro he
    false_or_by_contra
    exact (this.mpr (by omega)) he
  · intro hm
    false_or_by_contra
    rename_i hne
    have := this.mp hne
    omega

/-- (replaces `C15S_cm_vendor_length_ignored`) the declared vendor-data length of a capture-module status message takes part
    in the length check and in NOTHING else: overwriting it with ANY value `v` that fits the payload (`v ≤ size − 12`) does
    not change the packet — the converter does not copy vendor data -/
theorem C15S_cm_vendor_length_only_gates (h : THdr) (pay : Bytes) (v : Nat) (hmt : h.mt = 1)
    (hlen : 18 ≤ pay.length) (hvd : beAt pay 4 2 ≤ pay.length - 12) (hv : v ≤ pay.length - 12) (hv16 : v < 65536)
    (hacc : Accepts h pay) :
    tecmpDecode (h.bytes ++ writeAt pay 4 (beEnc 2 v)) = tecmpDecode (h.bytes ++ pay) := by
  have hw : 4 + (beEnc 2 v).length ≤ pay.length := by simp; omega
  have hl : (writeAt pay 4 (beEnc 2 v)).length = pay.length := C11.writeAt_length hw
  have hacc' : Accepts h (writeAt pay 4 (beEnc 2 v)) := by
    obtain ⟨a, b, c, d, e⟩ := hacc
    exact ⟨a, b, c, d, by rw [hl]; exact e⟩
  have hv' : beAt (writeAt pay 4 (beEnc 2 v)) 4 2 = v := by
    rw [beAt_writeAt_enc v (by omega)]
    exact Nat.mod_eq_of_lt hv16
  rw [C15S_cm h _ hmt (by omega) (by rw [hv', hl]; exact hv) hacc', C15S_cm h pay hmt hlen hvd hacc,
    C11.beAt_writeAt_other hw (Or.inr (by simp)),
    byteAt_writeAt_other hw (Or.inr (by simp)), byteAt_writeAt_other hw (Or.inr (by simp)),
    byteAt_writeAt_other hw (Or.inr (by simp)), byteAt_writeAt_other hw (Or.inr (by simp)),
    byteAt_writeAt_other hw (Or.inr (by simp))]

/-- (replaces `C15S_cm_vendor_misfit_still_packet`) the property's last clause for `vendorDataLength`: for EVERY accepted
    capture-module status message of at least 18 payload bytes and EVERY declared vendor-data length `v` that exceeds the
    bytes behind the 12 generic bytes, NO packet is returned -/
theorem C15S_cm_vendor_misfit_rejected (h : THdr) (pay : Bytes) (v : Nat) (hmt : h.mt = 1)
    (hlen : 18 ≤ pay.length) (hacc : Accepts h pay) (hv : v < 65536) (hmis : pay.length - 12 < v) :
    beAt (writeAt pay 4 (beEnc 2 v)) 4 2 = v ∧
    tecmpDecode (h.bytes ++ writeAt pay 4 (beEnc 2 v)) = [] := by
  have hw : 4 + (beEnc 2 v).length ≤ pay.length := by simp; omega
  have hl : (writeAt pay 4 (beEnc 2 v)).length = pay.length := C11.writeAt_length hw
  have hacc' : Accepts h (writeAt pay 4 (beEnc 2 v)) := by
    obtain ⟨a, b, c, d, e⟩ := hacc
    exact ⟨a, b, c, d, by rw [hl]; exact e⟩
  have hv' : beAt (writeAt pay 4 (beEnc 2 v)) 4 2 = v := by
    rw [beAt_writeAt_enc v (by omega)]
    exact Nat.mod_eq_of_lt hv
  exact ⟨hv', (C15S_cm_empty_iff h _ hmt hacc').mpr (Or.inr (by rw [hv', hl]; exact hmis))⟩

/-- bus status in the form of the earlier `C15_bus`: the generic part declares vendor-data length 0, so an entry is 12 bytes;
    fewer than 12 trailing bytes are ignored -/
theorem C15S_bus_plain (h : THdr) (generic : Bytes) (es : List BusEntry) (trail : Bytes) (hmt : h.mt = 2)
    (hg : generic.length = 12) (hv : beAt generic 4 2 = 0) (hes : ∀ e ∈ es, e.WF) (ht : trail.length < 12)
    (hacc : Accepts h (generic ++ es.flatMap BusEntry.bytes ++ trail)) :
    tecmpDecode (h.bytes ++ (generic ++ es.flatMap BusEntry.bytes ++ trail)) = es.map (busPacket h) := by
  have hfm : es.flatMap BusEntry.bytes =
      (es.map fun e => (e, ([] : Bytes))).flatMap (fun e => vendorEntry e.1 e.2) := by
    rw [List.flatMap_map]
    simp [vendorEntry]
  have := C15_bus h generic 0 (es.map fun e => (e, ([] : Bytes))) trail hmt hg hv
    (by intro e he
        simp only [List.mem_map] at he
        obtain ⟨a, ha, rfl⟩ := he
        exact ⟨hes a ha, rfl⟩)
    (by simpa using ht) (by rw [← hfm]; exact hacc)
  rw [← hfm, List.map_map] at this
  rw [this]
  rfl

/-- the case "vendor-data length 0, no trailing bytes": one packet per 12-byte entry -/
theorem C15S_bus_no_vendor_data (h : THdr) (generic : Bytes) (es : List BusEntry) (hmt : h.mt = 2)
    (hg : generic.length = 12) (hv : beAt generic 4 2 = 0) (hes : ∀ e ∈ es, e.WF)
    (hacc : Accepts h (generic ++ es.flatMap BusEntry.bytes)) :
    tecmpDecode (h.bytes ++ (generic ++ es.flatMap BusEntry.bytes)) = es.map (busPacket h) ∧
    (tecmpDecode (h.bytes ++ (generic ++ es.flatMap BusEntry.bytes))).length = es.length := by
  have := C15S_bus_plain h generic es [] hmt hg hv hes (by decide) (by simpa using hacc)
  rw [List.append_nil] at this
  rw [this]
  exact ⟨rfl, List.length_map _⟩

/-- (replaces `C15S_bus_generic_ignored`) of the 12 generic bytes the bus-status converter uses the declared
    `vendorDataLength` (u16 @4) — it fixes the entry size — and NOTHING else: any two generic parts that declare the same
    length give the same packets -/
theorem C15S_bus_generic_only_vendor_length (h : THdr) (generic generic' : Bytes) (v : Nat) (es : List (BusEntry × Bytes))
    (trail : Bytes) (hmt : h.mt = 2) (hg : generic.length = 12) (hg' : generic'.length = 12)
    (hv : beAt generic 4 2 = v) (hv' : beAt generic' 4 2 = v) (hes : ∀ e ∈ es, e.1.WF ∧ e.2.length = v)
    (ht : trail.length < 12 + v) (hacc : Accepts h (generic ++ es.flatMap (fun e => vendorEntry e.1 e.2) ++ trail)) :
    tecmpDecode (h.bytes ++ (generic' ++ es.flatMap (fun e => vendorEntry e.1 e.2) ++ trail)) =
      tecmpDecode (h.bytes ++ (generic ++ es.flatMap (fun e => vendorEntry e.1 e.2) ++ trail)) := by
  have hacc' : Accepts h (generic' ++ es.flatMap (fun e => vendorEntry e.1 e.2) ++ trail) := by
    obtain ⟨a, b, c, d, e⟩ := hacc
    refine ⟨a, b, c, d, ?_⟩
    simp only [List.length_append, hg, hg'] at e ⊢
    exact e
  rw [C15_bus h generic v es trail hmt hg hv hes ht hacc, C15_bus h generic' v es trail hmt hg' hv' hes ht hacc']

theorem busEntries_length (b p : Bytes) (v : Nat) : ∀ fuel off, (p.length - off) / (12 + v) ≤ fuel →
    (tecmpBusEntries b p v fuel off).length = (p.length - off) / (12 + v) := by
  intro fuel
  induction fuel with
  | zero => intro off h; simp only [tecmpBusEntries, List.length_nil]; exact (Nat.le_zero.mp h).symm
  | succ fuel ih =>
    intro off h
    unfold tecmpBusEntries
    split
    · rename_i hc
      have e : (p.length - off) / (12 + v) = (p.length - (off + (12 + v))) / (12 + v) + 1 := by
        have : p.length - off = (p.length - (off + (12 + v))) + (12 + v) := by omega
        rw [this, Nat.add_div_right _ (by omega)]
      rw [List.length_cons, ih (off + (12 + v)) (by omega), e]
    · rename_i hc
      simp only [List.length_nil]
      exact (Nat.div_eq_of_lt (by omega)).symm

/-- the NUMBER of interface-status packets of ANY accepted bus-status message (no hypothesis on its content): the number of
    complete entries of `12 + v` bytes behind the 12 generic bytes, `v` the vendor-data length the generic part declares -/
theorem C15S_bus_count (h : THdr) (pay : Bytes) (hmt : h.mt = 2) (hacc : Accepts h pay) :
    (tecmpDecode (h.bytes ++ pay)).length = (pay.length - 12) / (12 + beAt pay 4 2) := by
  obtain ⟨hwf, hmt255, hdt', hp1, hp2⟩ := hacc
  have hf := hfOf h hwf
  rw [decode_accept h.bytes _ hf hmt255 hdt' hp1 hp2, hmt, if_neg (by decide), if_neg (by decide), if_pos rfl]
  unfold tecmpBus
  split
  · simp only [List.length_nil]
    exact (Nat.div_eq_of_lt (by omega)).symm
  · have h1 : (pay.length - 12) / (12 + beAt pay 4 2) ≤ (pay.length - 12) / 12 :=
      Nat.div_le_div_left (by omega) (by decide)
    rw [busEntries_length _ _ _ _ _ (by omega)]

/-- bus status, exact: an accepted message yields NO packet iff not even one complete entry (12 + declared vendor-data
    length bytes) follows the 12 generic bytes — in particular whenever the declared length exceeds what is there -/
theorem C15S_bus_empty_iff (h : THdr) (pay : Bytes) (hmt : h.mt = 2) (hacc : Accepts h pay) :
    tecmpDecode (h.bytes ++ pay) = [] ↔ pay.length < 24 + beAt pay 4 2 := by
  obtain ⟨hwf, hmt255, hdt', hp1, hp2⟩ := hacc
  have hf := hfOf h hwf
  rw [decode_accept h.bytes _ hf hmt255 hdt' hp1 hp2, hmt, if_neg (by decide), if_neg (by decide), if_pos rfl]
  have := bus_ne_nil (h.bytes ++ pay) pay
  constructor
  · intro he
    false_or_by_contra
    exact (this.mpr (by omega)) he
  · intro hm
    false_or_by_contra
    rename_i hne
    have := this.mp hne
    omega

theorem vendorEntries_length (v : Nat) (ves : List (BusEntry × Bytes)) (hv : ∀ e ∈ ves, e.2.length = v) :
    (ves.flatMap fun e => vendorEntry e.1 e.2).length = ves.length * (12 + v) := by
  induction ves with
  | nil => simp
  | cons e es ih =>
    have he := hv e (List.mem_cons_self ..)
    have := ih (fun x hx => hv x (List.mem_cons_of_mem _ hx))
    have h1 : (vendorEntry e.1 e.2).length = 12 + v := by
      simp only [vendorEntry, BusEntry.bytes, List.length_append, beEnc_length, he]
    rw [List.flatMap_cons, List.length_append, this, h1, List.length_cons, Nat.add_mul]
    omega

/-- (replaces `C15S_bus_vendor_count`, count only — no hypothesis on the entries' content) a bus-status message with `n`
    entries of `12 + v` bytes each, the generic part declaring `vendorDataLength = v`, yields exactly `n` packets -/
theorem C15S_bus_vendor_entry_count (h : THdr) (generic : Bytes) (v : Nat) (ves : List (BusEntry × Bytes))
    (hmt : h.mt = 2) (hg : generic.length = 12) (hvd : beAt generic 4 2 = v) (hv : ∀ e ∈ ves, e.2.length = v)
    (hacc : Accepts h (generic ++ ves.flatMap fun e => vendorEntry e.1 e.2)) :
    (tecmpDecode (h.bytes ++ (generic ++ ves.flatMap fun e => vendorEntry e.1 e.2))).length = ves.length := by
  rw [C15S_bus_count h _ hmt hacc, List.length_append, hg, vendorEntries_length v ves hv,
    beAt_append_left _ _ _ _ (by omega), hvd, Nat.add_sub_cancel_left, Nat.mul_div_cancel _ (by omega)]

/-- (replaces the general violation theorem) "one interface-status packet per bus-status entry", on the TECMP wire format
    with per-entry vendor data, for EVERY vendor-data length `v`: `n` entries of `12 + v` bytes → exactly `n` packets, the
    i-th packet built from the i-th entry's first 12 bytes (interface id, counters), whatever the vendor bytes are -/
theorem C15S_bus_vendor_entries (h : THdr) (generic : Bytes) (v : Nat) (ves : List (BusEntry × Bytes))
    (hmt : h.mt = 2) (hg : generic.length = 12) (hvd : beAt generic 4 2 = v)
    (hv : ∀ e ∈ ves, e.1.WF ∧ e.2.length = v)
    (hacc : Accepts h (generic ++ ves.flatMap fun e => vendorEntry e.1 e.2)) :
    tecmpDecode (h.bytes ++ (generic ++ ves.flatMap fun e => vendorEntry e.1 e.2)) = ves.map (fun e => busPacket h e.1) ∧
    (tecmpDecode (h.bytes ++ (generic ++ ves.flatMap fun e => vendorEntry e.1 e.2))).length = ves.length ∧
    (tecmpDecode (h.bytes ++ (generic ++ ves.flatMap fun e => vendorEntry e.1 e.2))).map (·.ifId) =
      ves.map (·.1.ifId) := by
  have := C15_bus h generic v ves [] hmt hg hvd hv (by simp; omega) (by simpa using hacc)
  rw [List.append_nil] at this
  rw [this]
  refine ⟨rfl, List.length_map _, ?_⟩
  rw [List.map_map]
  rfl

/-- the witness frame: device 7, bus status, generic part declaring 4 vendor bytes per entry
    (link status, link quality, link-up time — the library's own `InterfacePayload::Header::VendorData`),
    three entries for interfaces 0x0A, 0x0B, 0x0C -/
def exVendorHdr : THdr :=
  { dev := 7, counter := 1, version := 3, mt := 2, dt := 0, reserved := 0, devFlags := 0, ifId := 0,
    ts := 0x0102030405060708, plen := 60, dataFlags := 0 }
def exVendorGeneric : Bytes := [0x0C, 1, 2, 0, 0, 4, 0, 7, 0, 0, 0, 99]
def exVendorEntries : List (BusEntry × Bytes) :=
  [(⟨0x0A, 100, 1⟩, [1, 200, 0, 5]), (⟨0x0B, 200, 2⟩, [1, 201, 0, 6]), (⟨0x0C, 300, 3⟩, [1, 202, 0, 7])]

/-- (replaces `C15S_bus_vendor_data_violation`; same frame) "one interface-status packet per bus-status entry" and
    "per-interface counters equal the wire fields" on the TECMP wire format with per-entry vendor data: a well-formed,
    accepted bus-status message that declares 4 vendor bytes per entry and carries THREE entries (interfaces 0x0A, 0x0B,
    0x0C; 3 · 16 = 48 bytes) yields exactly THREE packets, each with its entry's interface id and counters (before the
    repair: four packets, three of them 12-byte windows cut across entry boundaries) -/
theorem C15S_bus_vendor_data_witness :
    exVendorHdr.WF ∧ exVendorHdr.mt = 2 ∧ exVendorGeneric.length = 12 ∧ beAt exVendorGeneric 4 2 = 4 ∧
    (∀ e ∈ exVendorEntries, e.1.WF ∧ e.2.length = 4) ∧ exVendorEntries.length = 3 ∧
    Accepts exVendorHdr (exVendorGeneric ++ exVendorEntries.flatMap fun e => vendorEntry e.1 e.2) ∧
    (tecmpDecode (exVendorHdr.bytes ++ (exVendorGeneric ++ exVendorEntries.flatMap fun e => vendorEntry e.1 e.2))).map
        (fun p => (p.ifId, p.payload.map fun pl => (beAt pl.data 0 4, beAt pl.data 4 4, beAt pl.data 20 4))) =
      [(0x0A, some (0x0A, 100, 1)),
       (0x0B, some (0x0B, 200, 2)),
       (0x0C, some (0x0C, 300, 3))] := by
  refine ⟨by decide, rfl, rfl, by decide, by decide, rfl, by decide, by decide⟩

/-! ## finding 3: the declared TECMP payload length only gates -/

/-- DEVIATION (named on purpose): the header's declared payload length takes part in the header
    check (non-zero, not beyond the buffer) and in NOTHING else: two accepted headers that differ
    only in `plen` give the same packets for the same bytes behind the header — the converters read
    "everything behind the header" (`size - sizeof(header)`), not `plen` bytes. -/
theorem C15S_plen_only_gates (h : THdr) (q : Nat) (pay : Bytes) (hacc : Accepts h pay)
    (hq1 : 1 ≤ q) (hq2 : q ≤ pay.length) (hq : q < 65536) :
    tecmpDecode (({ h with plen := q } : THdr).bytes ++ pay) = tecmpDecode (h.bytes ++ pay) := by
  obtain ⟨hwf, hmt255, hdt', hp1, hp2⟩ := hacc
  have hwf' : ({ h with plen := q } : THdr).WF := by
    obtain ⟨a1, a2, a3, a4, a5, a6, a7, a8, a9, _, a11⟩ := hwf
    exact ⟨a1, a2, a3, a4, a5, a6, a7, a8, a9, hq, a11⟩
  have hf := hfOf h hwf
  have hf' := hfOf _ hwf'
  have e1 : byteAt (({ h with plen := q } : THdr).bytes ++ pay) 1 = byteAt (h.bytes ++ pay) 1 := by
    rw [byteAt_append_left _ _ _ (by rw [hf'.len]; omega), byteAt_append_left _ _ _ (by rw [hf.len]; omega),
      hf'.dev, hf.dev]
  have e2 : beAt (({ h with plen := q } : THdr).bytes ++ pay) 16 8 = beAt (h.bytes ++ pay) 16 8 := by
    rw [beAt_append_left _ _ _ _ (by rw [hf'.len]; omega), beAt_append_left _ _ _ _ (by rw [hf.len]; omega),
      hf'.ts, hf.ts]
  have e3 : beAt (({ h with plen := q } : THdr).bytes ++ pay) 12 4 = beAt (h.bytes ++ pay) 12 4 := by
    rw [ifId_hdr _ _ hf', ifId_hdr _ _ hf]
  obtain ⟨c1, c2, c3, c4⟩ := kind_congr _ _ pay e1 e2 e3
  rw [decode_accept _ _ hf' hmt255 hdt' hq1 hq2, decode_accept _ _ hf hmt255 hdt' hp1 hp2, c1, c2, c3, c4]

/-- … so a CAN message whose declared payload ends INSIDE (or before) its data bytes still delivers
    all `data.length` data bytes: bytes outside the declared payload are reported as data.
    (Instance of `C15S_can`; stated separately so that the over-read is a visible design decision:
    "fits the buffer" means "fits everything behind the header".) -/
theorem C15S_can_reads_past_declared_payload (h : THdr) (arb : Nat) (data crc : Bytes)
    (hdt : h.dt = 2 ∨ h.dt = 3) (hmt : h.mt = 3) (harb : arb < 2 ^ 32) (hn : data.length < 256)
    (hacc : Accepts h (beEnc 4 arb ++ [UInt8.ofNat data.length] ++ data ++ crc))
    (_hshort : h.plen < 5 + data.length) :
    ∃ p pl, tecmpDecode (h.bytes ++ (beEnc 4 arb ++ [UInt8.ofNat data.length] ++ data ++ crc)) = [p] ∧
      p.payload = some pl ∧ byteAt pl.data 15 = data.length ∧ pl.data.drop 16 = data := by
  obtain ⟨p, pl, hd, _, _, hpl, _, _, _, _, _, _, h15, hdrop⟩ :=
    C15S_can_fields h arb data crc hdt hmt harb hn hacc
  exact ⟨p, pl, hd, hpl, h15, hdrop⟩

/-- the consistent case, for comparison: declared payload length = the bytes behind the header -/
theorem C15S_can_consistent (h : THdr) (arb : Nat) (data crc : Bytes) (hdt : h.dt = 2 ∨ h.dt = 3) (hmt : h.mt = 3)
    (harb : arb < 2 ^ 32) (hn : data.length < 256) (hwf : h.WF) (hv : h.mt ≠ 0xFF ∧ h.dt ≠ 0xFF00)
    (hpl : h.plen = 5 + data.length + crc.length) :
    tecmpDecode (h.bytes ++ (beEnc 4 arb ++ [UInt8.ofNat data.length] ++ data ++ crc)) =
      [{ payload := some ⟨if data.length > 8 then tyCanFd else tyCan,
            [0, 0, 0, 0] ++ beEnc 4 arb ++ beEnc 4 (crcWord crc data.length) ++
            [0, 0, UInt8.ofNat (dlcOf data.length), UInt8.ofNat data.length] ++ data⟩,
         version := 1, deviceId := h.dev, ts := h.ts, ifId := h.ifId }] := by
  apply C15S_can h arb data crc hdt hmt harb hn
  refine ⟨hwf, hv.1, hv.2, by omega, ?_⟩
  simp; omega

/-! ## finding 4: CAN vs CAN-FD follows the data length, not the header's data type -/

/-- DEVIATION (named on purpose): the header's data type (2 = CAN, 3 = CAN-FD) has NO influence on
    the packet: switching it leaves the result unchanged -/
theorem C15S_can_kind_ignores_dt (h : THdr) (arb : Nat) (data crc : Bytes) (hdt : h.dt = 2) (hmt : h.mt = 3)
    (harb : arb < 2 ^ 32) (hn : data.length < 256)
    (hacc : Accepts h (beEnc 4 arb ++ [UInt8.ofNat data.length] ++ data ++ crc)) :
    tecmpDecode (({ h with dt := 3 } : THdr).bytes ++ (beEnc 4 arb ++ [UInt8.ofNat data.length] ++ data ++ crc)) =
      tecmpDecode (h.bytes ++ (beEnc 4 arb ++ [UInt8.ofNat data.length] ++ data ++ crc)) := by
  have hacc' : Accepts ({ h with dt := 3 } : THdr) (beEnc 4 arb ++ [UInt8.ofNat data.length] ++ data ++ crc) := by
    obtain ⟨⟨a1, a2, a3, a4, _, a6, a7, a8, a9, a10, a11⟩, b, _, d, e⟩ := hacc
    exact ⟨⟨a1, a2, a3, a4, (by show (3 : Nat) < 65536; decide), a6, a7, a8, a9, a10, a11⟩, b,
      (by show (3 : Nat) ≠ 0xFF00; decide), d, e⟩
  rw [C15S_can h arb data crc (Or.inl hdt) hmt harb hn hacc,
    C15S_can ({ h with dt := 3 } : THdr) arb data crc (Or.inr rfl) hmt harb hn hacc']

/-- a CAN-FD message (data type 3) with at most 8 data bytes becomes a CLASSIC CAN payload
    (and its CRC is truncated to 16 bits) -/
theorem C15S_canfd_short_becomes_can (h : THdr) (arb : Nat) (data crc : Bytes) (hdt : h.dt = 3) (hmt : h.mt = 3)
    (harb : arb < 2 ^ 32) (h8 : data.length ≤ 8)
    (hacc : Accepts h (beEnc 4 arb ++ [UInt8.ofNat data.length] ++ data ++ crc)) :
    ∃ p pl, tecmpDecode (h.bytes ++ (beEnc 4 arb ++ [UInt8.ofNat data.length] ++ data ++ crc)) = [p] ∧
      p.payload = some pl ∧ pl.ty = tyCan := by
  refine ⟨_, _, C15S_can h arb data crc (Or.inr hdt) hmt harb (by omega) hacc, rfl, ?_⟩
  show (if data.length > 8 then tyCanFd else tyCan) = tyCan
  rw [if_neg (by omega)]

/-- a classic CAN message (data type 2) that declares more than 8 data bytes becomes a CAN-FD payload -/
theorem C15S_can_long_becomes_canfd (h : THdr) (arb : Nat) (data crc : Bytes) (hdt : h.dt = 2) (hmt : h.mt = 3)
    (harb : arb < 2 ^ 32) (h8 : 8 < data.length) (hn : data.length < 256)
    (hacc : Accepts h (beEnc 4 arb ++ [UInt8.ofNat data.length] ++ data ++ crc)) :
    ∃ p pl, tecmpDecode (h.bytes ++ (beEnc 4 arb ++ [UInt8.ofNat data.length] ++ data ++ crc)) = [p] ∧
      p.payload = some pl ∧ pl.ty = tyCanFd := by
  refine ⟨_, _, C15S_can h arb data crc (Or.inl hdt) hmt harb hn hacc, rfl, ?_⟩
  show (if data.length > 8 then tyCanFd else tyCan) = tyCanFd
  rw [if_pos h8]

/-! ## finding 6: invalid headers, and the exact set of messages that yield a packet -/

/-- message type 0xFF or data type 0xFF00 (wire bytes `FF 00`): no packet, for EVERY message type
    (closes the gap between `Accepts` and `C15_unsupported` for `mt ∈ {1, 2}`) -/
theorem C15S_invalid_header (h : THdr) (pay : Bytes) (hwf : h.WF) (hinv : h.mt = 0xFF ∨ h.dt = 0xFF00) :
    tecmpDecode (h.bytes ++ pay) = [] := by
  have hf := hfOf h hwf
  have h5 : byteAt (h.bytes ++ pay) 5 = h.mt := by
    rw [byteAt_append_left _ _ _ (by rw [hf.len]; omega)]; exact hf.mt
  have h6 : byteAt (h.bytes ++ pay) 6 * 256 + byteAt (h.bytes ++ pay) 7 = h.dt := by
    rw [← beAt_two _ 6 (by simp [hf.len]; omega), beAt_append_left _ _ _ _ (by rw [hf.len]; omega)]; exact hf.dt
  have l6 := byteAt_lt (h.bytes ++ pay) 6
  have l7 := byteAt_lt (h.bytes ++ pay) 7
  apply SrcTec.tecmpDecode_invalid
  omega

/-- the library's validity test compares the RAW (little-endian read) data-type word with 0xFF: the
    TECMP "invalid" data type 0x00FF is NOT rejected (e.g. a capture-module status message with it
    yields its packet), while 0xFF00 is -/
theorem C15S_dt_00FF_not_rejected (h : THdr) (pay : Bytes) (hwf : h.WF) (hdt : h.dt = 0x00FF) (hmt : h.mt = 1)
    (hp : 1 ≤ h.plen ∧ h.plen ≤ pay.length) (hlen : 18 ≤ pay.length) (hvd : beAt pay 4 2 ≤ pay.length - 12) :
    (tecmpDecode (h.bytes ++ pay)).length = 1 := by
  rw [C15S_cm h pay hmt hlen hvd ⟨hwf, by omega, by omega, hp.1, hp.2⟩]
  rfl

/-- "inner lengths fit the buffer", per supported kind (what the decoder actually tests): capture-module status — the fields
    read (18 bytes) and the declared vendor data behind the 12 generic bytes; bus status — the generic part and at least one
    complete entry of 12 + declared vendor data length bytes; CAN / LIN — header and declared data bytes -/
def Fits (h : THdr) (pay : Bytes) : Prop :=
  (h.mt = 1 ∧ 18 ≤ pay.length ∧ beAt pay 4 2 ≤ pay.length - 12) ∨ (h.mt = 2 ∧ 24 + beAt pay 4 2 ≤ pay.length) ∨
  (h.mt = 3 ∧ (h.dt = 2 ∨ h.dt = 3) ∧ 5 ≤ pay.length ∧ byteAt pay 4 ≤ pay.length - 5) ∨
  (h.mt = 3 ∧ h.dt = 4 ∧ 2 ≤ pay.length ∧ byteAt pay 1 ≤ pay.length - 2)

/-- EXACT characterisation over the whole space of well-formed headers (all 256 message types, all
    65536 data types, any declared length) and all payloads: a packet comes out IFF the header is
    accepted, the kind is supported and its inner lengths fit the bytes behind the header.
    (Both directions: `C15_unsupported` / `C15_misfit_*` / `C15S_invalid_header` are the "only if" half.) -/
theorem C15S_packet_iff (h : THdr) (pay : Bytes) (hwf : h.WF) :
    tecmpDecode (h.bytes ++ pay) ≠ [] ↔ Accepts h pay ∧ Fits h pay := by
  have hf := hfOf h hwf
  by_cases hacc : h.mt ≠ 0xFF ∧ h.dt ≠ 0xFF00 ∧ 1 ≤ h.plen ∧ h.plen ≤ pay.length
  · obtain ⟨a, b, c, d⟩ := hacc
    have hA : Accepts h pay := ⟨hwf, a, b, c, d⟩
    rw [decode_accept h.bytes _ hf a b c d]
    have k1 := cm_ne_nil (h.bytes ++ pay) pay
    have k2 := can_ne_nil (h.bytes ++ pay) pay
    have k3 := lin_ne_nil (h.bytes ++ pay) pay
    have k4 := bus_ne_nil (h.bytes ++ pay) pay
    unfold Fits
    by_cases m1 : h.mt = 1
    · rw [if_pos m1, k1]; constructor
      · intro x; exact ⟨hA, Or.inl ⟨m1, x⟩⟩
      · intro ⟨_, x⟩; omega
    · rw [if_neg m1]
      by_cases m3 : h.mt = 3
      · rw [if_pos m3]
        by_cases d23 : h.dt = 2 ∨ h.dt = 3
        · rw [if_pos d23, k2]; constructor
          · intro x; exact ⟨hA, Or.inr (Or.inr (Or.inl ⟨m3, d23, x⟩))⟩
          · intro ⟨_, x⟩; omega
        · rw [if_neg d23]
          by_cases d4 : h.dt = 4
          · rw [if_pos d4, k3]; constructor
            · intro x; exact ⟨hA, Or.inr (Or.inr (Or.inr ⟨m3, d4, x⟩))⟩
            · intro ⟨_, x⟩; omega
          · rw [if_neg d4]; constructor
            · intro x; exact absurd rfl x
            · intro ⟨_, x⟩; omega
      · rw [if_neg m3]
        by_cases m2 : h.mt = 2
        · rw [if_pos m2, k4]; constructor
          · intro x; exact ⟨hA, Or.inr (Or.inl ⟨m2, x⟩)⟩
          · intro ⟨_, x⟩; omega
        · rw [if_neg m2]; constructor
          · intro x; exact absurd rfl x
          · intro ⟨_, x⟩; omega
  · constructor
    · intro hne
      exfalso
      apply hne
      by_cases hv : h.mt = 0xFF ∨ h.dt = 0xFF00
      · exact C15S_invalid_header h pay hwf hv
      · apply C15_misfit_header
        have hpl : beAt (h.bytes ++ pay) 24 2 = h.plen := by
          rw [beAt_append_left _ _ _ _ (by rw [hf.len]; omega)]; exact hf.plen
        have hl : (h.bytes ++ pay).length = 28 + pay.length := by simp [hf.len]
        rw [hpl, hl]
        omega
    · intro ⟨⟨_, a, b, c, d⟩, _⟩
      exact absurd ⟨a, b, c, d⟩ hacc

/-! ## finding 7: the entry point `decode`, and arbitrary interleaved traffic -/

/-- the routing anchor on the property side: a buffer that starts with a `THdr` (first byte 0x00,
    28 ≥ 8 bytes) is handed to the TECMP path by `Decoder::decode`, and the reassembly state of the
    CMP path is untouched.  No hypothesis at all. -/
theorem C15S_decode_routes (s : DecState) (h : THdr) (pay : Bytes) :
    decode s (some (h.bytes ++ pay)) = (s, tecmpDecode (h.bytes ++ pay)) := by
  have hl : (h.bytes ++ pay).length = 28 + pay.length := by simp [hdr_length]
  have h0 : byteAt (h.bytes ++ pay) 0 = 0 := by simp [THdr.bytes, byteAt]
  unfold decode decodeWith
  dsimp only
  rw [hl, h0, if_neg (by omega), if_pos rfl]

/-- conversely: a buffer whose first byte is not 0 (in particular a TECMP message whose 16-bit device
    id has a non-zero high byte) never reaches the TECMP converter -/
theorem C15S_nonzero_first_byte_not_tecmp (s : DecState) (b : Bytes) (h0 : byteAt b 0 ≠ 0) :
    decode s (some b) = if b.length < 8 then (s, []) else step s (parseFrame b) := by
  unfold decode decodeWith
  simp only [h0, if_false]

/-- every packet of the TECMP path, on EVERY buffer, carries byte 1 of the buffer as device id
    (so always < 256), the 8 bytes @16 as timestamp, version 1, and zero in all other header fields -/
theorem C15S_all_from_header (b : Bytes) :
    ∀ p ∈ tecmpDecode b, p.deviceId = byteAt b 1 ∧ p.deviceId < 256 ∧ p.ts = beAt b 16 8 ∧ p.version = 1 ∧
      p.streamId = 0 ∧ p.seq = 0 ∧ p.vendorId = 0 ∧ p.flags = 0 ∧ p.segType = 0 := by
  have hP : ∀ i pl, (tecmpPacket b i pl).deviceId = byteAt b 1 ∧ (tecmpPacket b i pl).deviceId < 256 ∧
      (tecmpPacket b i pl).ts = beAt b 16 8 ∧ (tecmpPacket b i pl).version = 1 ∧
      (tecmpPacket b i pl).streamId = 0 ∧ (tecmpPacket b i pl).seq = 0 ∧ (tecmpPacket b i pl).vendorId = 0 ∧
      (tecmpPacket b i pl).flags = 0 ∧ (tecmpPacket b i pl).segType = 0 :=
    fun i pl => ⟨rfl, byteAt_lt b 1, rfl, rfl, rfl, rfl, rfl, rfl, rfl⟩
  have hcm : ∀ p, ∀ x ∈ tecmpCm b p, x.deviceId = byteAt b 1 ∧ x.deviceId < 256 ∧ x.ts = beAt b 16 8 ∧
      x.version = 1 ∧ x.streamId = 0 ∧ x.seq = 0 ∧ x.vendorId = 0 ∧ x.flags = 0 ∧ x.segType = 0 := by
    intro p x hx
    unfold tecmpCm at hx
    split at hx
    · simp at hx
    · split at hx
      · simp at hx
      · simp only [List.mem_singleton] at hx; subst hx; exact hP _ _
  have hcan : ∀ p, ∀ x ∈ tecmpCan b p, x.deviceId = byteAt b 1 ∧ x.deviceId < 256 ∧ x.ts = beAt b 16 8 ∧
      x.version = 1 ∧ x.streamId = 0 ∧ x.seq = 0 ∧ x.vendorId = 0 ∧ x.flags = 0 ∧ x.segType = 0 := by
    intro p x hx
    by_cases h5 : p.length < 5
    · simp [tecmpCan, h5] at hx
    · by_cases hd : p.length - 5 < byteAt p 4
      · simp [tecmpCan, h5, hd] at hx
      · rw [tecmpCan_eq b p (by omega) (by omega)] at hx
        simp only [List.mem_singleton] at hx; subst hx; exact hP _ _
  have hlin : ∀ p, ∀ x ∈ tecmpLin b p, x.deviceId = byteAt b 1 ∧ x.deviceId < 256 ∧ x.ts = beAt b 16 8 ∧
      x.version = 1 ∧ x.streamId = 0 ∧ x.seq = 0 ∧ x.vendorId = 0 ∧ x.flags = 0 ∧ x.segType = 0 := by
    intro p x hx
    by_cases h2 : p.length < 2
    · simp [tecmpLin, h2] at hx
    · by_cases hd : p.length - 2 < byteAt p 1
      · simp [tecmpLin, h2, hd] at hx
      · rw [tecmpLin_eq b p (by omega) (by omega)] at hx
        simp only [List.mem_singleton] at hx; subst hx; exact hP _ _
  have hbe : ∀ p v fuel off, ∀ x ∈ tecmpBusEntries b p v fuel off, x.deviceId = byteAt b 1 ∧ x.deviceId < 256 ∧
      x.ts = beAt b 16 8 ∧ x.version = 1 ∧ x.streamId = 0 ∧ x.seq = 0 ∧ x.vendorId = 0 ∧ x.flags = 0 ∧
      x.segType = 0 := by
    intro p v fuel
    induction fuel with
    | zero => intro off x hx; simp [tecmpBusEntries] at hx
    | succ fuel ih =>
      intro off x hx
      unfold tecmpBusEntries at hx
      split at hx
      · simp only [List.mem_cons] at hx
        rcases hx with hx | hx
        · subst hx; exact hP _ _
        · exact ih _ x hx
      · simp at hx
  have hbus : ∀ p, ∀ x ∈ tecmpBus b p, x.deviceId = byteAt b 1 ∧ x.deviceId < 256 ∧ x.ts = beAt b 16 8 ∧
      x.version = 1 ∧ x.streamId = 0 ∧ x.seq = 0 ∧ x.vendorId = 0 ∧ x.flags = 0 ∧ x.segType = 0 := by
    intro p
    unfold tecmpBus
    split
    · intro x hx; simp at hx
    · exact hbe p _ _ _
  unfold tecmpDecode
  dsimp only
  repeat' split
  all_goals first
    | (intro x hx; simp at hx; done)
    | exact hcm _
    | exact hcan _
    | exact hlin _
    | exact hbus _

theorem decodeAll_append (t : Bytes → List Packet) (xs ys : List (Option Bytes)) : ∀ (s : DecState),
    decodeAll t s (xs ++ ys) =
      ((decodeAll t (decodeAll t s xs).1 ys).1, (decodeAll t s xs).2 ++ (decodeAll t (decodeAll t s xs).1 ys).2) := by
  induction xs with
  | nil => intro s; simp [decodeAll]
  | cons x xs ih =>
    intro s
    simp only [List.cons_append, decodeAll, ih, List.append_assoc]

/-- interleaved traffic: a TECMP message placed ANYWHERE in an arbitrary history of buffers (CMP
    frames of any endpoints with reassemblies in progress, null pointers, short buffers, other TECMP
    messages) contributes exactly `tecmpDecode` of itself at its position; the packets of the
    buffers before and after it and the final reassembly state are those of the history without it.
    Together with the theorems above (which describe `tecmpDecode (h.bytes ++ pay)`) every C15
    statement holds at `Decoder::decode` under arbitrary interleaving. -/
theorem C15S_interleaved (s : DecState) (pre post : List (Option Bytes)) (h : THdr) (pay : Bytes) :
    decodeAll tecmpDecode s (pre ++ some (h.bytes ++ pay) :: post) =
      ((decodeAll tecmpDecode s (pre ++ post)).1,
       (decodeAll tecmpDecode s pre).2 ++ tecmpDecode (h.bytes ++ pay) ++
         (decodeAll tecmpDecode (decodeAll tecmpDecode s pre).1 post).2) ∧
    (decodeAll tecmpDecode s (pre ++ post)).2 =
       (decodeAll tecmpDecode s pre).2 ++ (decodeAll tecmpDecode (decodeAll tecmpDecode s pre).1 post).2 := by
  have hr := C15S_decode_routes
  unfold decode at hr
  constructor
  · rw [decodeAll_append, decodeAll_append]
    simp only [decodeAll, hr, List.append_assoc]
  · rw [decodeAll_append]

/-! ## finding 8: non-vacuity — literal instances; conclusions computed by `decide` -/

def exHdr : THdr :=
  { dev := 7, counter := 9, version := 3, mt := 3, dt := 2, reserved := 0, devFlags := 0, ifId := 0x11223344,
    ts := 0x0102030405060708, plen := 12, dataFlags := 0 }

/-- classic CAN, extended-id flag (bit 31) set, 4 data bytes, 3 CRC bytes: consistent lengths -/
def exCanPay : Bytes := beEnc 4 0x80000321 ++ [UInt8.ofNat 4] ++ [0xDE, 0xAD, 0xBE, 0xEF] ++ [0x11, 0x22, 0x33]
example : Accepts exHdr exCanPay := by decide
example : tecmpDecode (exHdr.bytes ++ exCanPay) =
    [{ payload := some ⟨0x0101, [0, 0, 0, 0, 0x80, 0, 3, 0x21, 0, 0, 0x22, 0x11, 0, 0, 4, 4, 0xDE, 0xAD, 0xBE, 0xEF]⟩,
       version := 1, deviceId := 7, ts := 0x0102030405060708, ifId := 0x11223344 }] := by decide
/-- … and this literal is what `C15S_can` says (id word 80 00 03 21 unmasked, CRC word 0x2211 =
    little-endian 0x332211 truncated to 16 bits) -/
example : tecmpDecode (exHdr.bytes ++ exCanPay) =
    [{ payload := some ⟨tyCan, [0, 0, 0, 0] ++ beEnc 4 0x80000321 ++ beEnc 4 0x2211 ++ [0, 0, 4, 4] ++ [0xDE, 0xAD, 0xBE, 0xEF]⟩,
       version := 1, deviceId := 7, ts := 0x0102030405060708, ifId := 0x11223344 }] :=
  C15S_can exHdr 0x80000321 [0xDE, 0xAD, 0xBE, 0xEF] [0x11, 0x22, 0x33] (Or.inl rfl) rfl (by decide) (by decide) (by decide)
example : crcWord [0x11, 0x22, 0x33] 4 = 0x2211 := by decide
example : crcWord [0x11, 0x22, 0x33, 0x44] 12 = 0x332211 := by decide
example : crcWord [0x11, 0x22] 12 = 0 := by decide

/-- CAN-FD, 12 data bytes, declared payload length ONE byte (finding 3): still a 12-byte CAN-FD packet -/
def exFdHdr : THdr := { exHdr with dt := 3, plen := 1 }
def exFdPay : Bytes := beEnc 4 0x1ABCDEF0 ++ [UInt8.ofNat 12] ++ [1, 2, 3, 4, 5, 6, 7, 8, 9, 10, 11, 12] ++ [0x11, 0x22, 0x33, 0x44]
example : Accepts exFdHdr exFdPay ∧ exFdHdr.plen < 5 + 12 := by decide
example : tecmpDecode (exFdHdr.bytes ++ exFdPay) =
    [{ payload := some ⟨0x0102, [0, 0, 0, 0, 0x1A, 0xBC, 0xDE, 0xF0, 0, 0x33, 0x22, 0x11, 0, 0, 9, 12,
                                 1, 2, 3, 4, 5, 6, 7, 8, 9, 10, 11, 12]⟩,
       version := 1, deviceId := 7, ts := 0x0102030405060708, ifId := 0x11223344 }] := by decide
example : ∃ p pl, tecmpDecode (exFdHdr.bytes ++ exFdPay) = [p] ∧ p.payload = some pl ∧ byteAt pl.data 15 = 12 ∧
    pl.data.drop 16 = [1, 2, 3, 4, 5, 6, 7, 8, 9, 10, 11, 12] :=
  C15S_can_reads_past_declared_payload exFdHdr 0x1ABCDEF0 [1, 2, 3, 4, 5, 6, 7, 8, 9, 10, 11, 12] [0x11, 0x22, 0x33, 0x44]
    (Or.inr rfl) rfl (by decide) (by decide) (by decide) (by decide)
example : tecmpDecode (({ exFdHdr with plen := 21 } : THdr).bytes ++ exFdPay) = tecmpDecode (exFdHdr.bytes ++ exFdPay) :=
  C15S_plen_only_gates exFdHdr 21 exFdPay (by decide) (by decide) (by decide) (by decide)

/-- finding 3, the two-message frame: a CAN message with consistent declared length 7 (id, length,
    2 data bytes, no CRC) followed in the same buffer by a second TECMP message.  The CRC word of
    the first message's packet is 0x0700: bytes 0..2 (`00 07 00` — routing byte, device id, counter)
    of the NEXT message's header. -/
def exTwoHdr : THdr := { exHdr with plen := 7 }
example : Accepts exTwoHdr (beEnc 4 0x123 ++ [UInt8.ofNat 2] ++ [0xAA, 0xBB] ++ (exHdr.bytes ++ exCanPay)) := by decide
example : (tecmpDecode (exTwoHdr.bytes ++ (beEnc 4 0x123 ++ [UInt8.ofNat 2] ++ [0xAA, 0xBB] ++ (exHdr.bytes ++ exCanPay)))).map
      (fun p => p.payload.map fun pl => (pl.ty, beAt pl.data 4 4, beAt pl.data 8 4, pl.data.drop 16)) =
    [some (0x0101, 0x123, 0x0700, [0xAA, 0xBB])] := by decide

/-- finding 4: data type CAN-FD with 4 data bytes → classic CAN payload; data type CAN with 12 → CAN-FD -/
example : ∃ p pl, tecmpDecode (({ exHdr with dt := 3 } : THdr).bytes ++ exCanPay) = [p] ∧ p.payload = some pl ∧ pl.ty = tyCan :=
  C15S_canfd_short_becomes_can { exHdr with dt := 3 } 0x80000321 [0xDE, 0xAD, 0xBE, 0xEF] [0x11, 0x22, 0x33] rfl rfl
    (by decide) (by decide) (by decide)
example : ∃ p pl, tecmpDecode (({ exFdHdr with dt := 2 } : THdr).bytes ++ exFdPay) = [p] ∧ p.payload = some pl ∧ pl.ty = tyCanFd :=
  C15S_can_long_becomes_canfd { exFdHdr with dt := 2 } 0x1ABCDEF0 [1, 2, 3, 4, 5, 6, 7, 8, 9, 10, 11, 12] [0x11, 0x22, 0x33, 0x44]
    rfl rfl (by decide) (by decide) (by decide) (by decide)

/-- LIN (there was no LIN instance anywhere): pid 0xC1 (parity bits set; id 1), 3 data bytes,
    checksum 0x5A followed by two padding bytes 0xEE — the checksum is 0x5A, not the last byte -/
def exLinHdr : THdr := { exHdr with dt := 4, plen := 5 }
example : Accepts exLinHdr ([UInt8.ofNat 0xC1, UInt8.ofNat 3] ++ [1, 2, 3] ++ [0x5A, 0xEE, 0xEE]) := by decide
example : tecmpDecode (exLinHdr.bytes ++ ([UInt8.ofNat 0xC1, UInt8.ofNat 3] ++ [1, 2, 3] ++ [0x5A, 0xEE, 0xEE])) =
    [{ payload := some ⟨0x0103, [0, 0, 0, 0, 1, 0, 0x5A, 3, 1, 2, 3]⟩,
       version := 1, deviceId := 7, ts := 0x0102030405060708, ifId := 0x11223344 }] := by decide
example : tecmpDecode (exLinHdr.bytes ++ ([UInt8.ofNat 0xC1, UInt8.ofNat 3] ++ [1, 2, 3] ++ [0x5A, 0xEE, 0xEE])) =
    [{ payload := some ⟨tyLin, [0, 0, 0, 0, UInt8.ofNat (0xC1 % 64), 0, [0x5A, 0xEE, 0xEE].headD 0, UInt8.ofNat 3] ++ [1, 2, 3]⟩,
       version := 1, deviceId := 7, ts := 0x0102030405060708, ifId := 0x11223344 }] :=
  C15S_lin exLinHdr 0xC1 [1, 2, 3] [0x5A, 0xEE, 0xEE] rfl rfl (by decide) (by decide) (by decide)
/-- LIN with NO byte behind the data: checksum 0 -/
example : Accepts exLinHdr ([UInt8.ofNat 0xC1, UInt8.ofNat 3] ++ [1, 2, 3] ++ []) := by decide
example : tecmpDecode (exLinHdr.bytes ++ ([UInt8.ofNat 0xC1, UInt8.ofNat 3] ++ [1, 2, 3] ++ [])) =
    [{ payload := some ⟨0x0103, [0, 0, 0, 0, 1, 0, 0, 3, 1, 2, 3]⟩,
       version := 1, deviceId := 7, ts := 0x0102030405060708, ifId := 0x11223344 }] := by decide
/-- LIN misfit: declares 4 data bytes, 3 present -/
example : tecmpDecode (exLinHdr.bytes ++ [0xC1, 4, 1, 2, 3]) = [] :=
  (C15S_lin_empty_iff exLinHdr [0xC1, 4, 1, 2, 3] rfl rfl (by decide)).mpr (by decide)

/-- capture-module status: 18 payload bytes declaring 6 vendor bytes (18 − 12: exactly what is there) — one packet:
    serial "12345678", hardware "v4.5", software "v1.2.3" -/
def exCmHdr : THdr := { exHdr with mt := 1, dt := 0, plen := 18 }
def exCmPay : Bytes := [0x0C, 1, 2, 0, 0, 6, 0, 7, 0x00, 0xBC, 0x61, 0x4E, 0, 1, 2, 3, 4, 5]
example : Accepts exCmHdr exCmPay ∧ beAt exCmPay 4 2 = 6 ∧ beAt exCmPay 4 2 ≤ exCmPay.length - 12 := by decide
example : tecmpDecode (exCmHdr.bytes ++ exCmPay) =
    [{ payload := some ⟨0x0301,
         [0, 0, 0, 0, 0, 0, 0, 0, 0, 0, 0, 0, 0, 0, 0, 0, 0, 0, 0, 0, 0, 0, 0, 0, 0, 0,
          0, 2, 0, 0,                                               -- description ""
          0, 10, 0x31, 0x32, 0x33, 0x34, 0x35, 0x36, 0x37, 0x38, 0, 0,    -- serial number "12345678"
          0, 6, 0x76, 0x34, 0x2E, 0x35, 0, 0,                             -- hardware version "v4.5"
          0, 8, 0x76, 0x31, 0x2E, 0x32, 0x2E, 0x33, 0, 0,                 -- software version "v1.2.3"
          0, 0]⟩,                                                          -- vendor data length 0
       version := 1, deviceId := 7, ts := 0x0102030405060708, ifId := 0x11223344 }] := by decide
example : (tecmpDecode (exCmHdr.bytes ++ exCmPay)).length = 1 := by
  rw [C15S_cm exCmHdr exCmPay rfl (by decide) (by decide) (by decide)]; rfl
/-- the same 18 bytes DECLARING 7 vendor bytes (one more than there is), or 65535: no packet (finding 2, repaired) -/
example : tecmpDecode (exCmHdr.bytes ++ writeAt exCmPay 4 (beEnc 2 7)) = [] := by decide
example : tecmpDecode (exCmHdr.bytes ++ [0x0C, 1, 2, 0, 0xFF, 0xFF, 0, 7, 0x00, 0xBC, 0x61, 0x4E, 0, 1, 2, 3, 4, 5]) = [] := by decide
example : beAt (writeAt exCmPay 4 (beEnc 2 65535)) 4 2 = 65535 ∧
    tecmpDecode (exCmHdr.bytes ++ writeAt exCmPay 4 (beEnc 2 65535)) = [] :=
  C15S_cm_vendor_misfit_rejected exCmHdr exCmPay 65535 rfl (by decide) (by decide) (by decide) (by decide)
/-- … while declaring 0 ("no vendor data") leaves the packet as it is -/
example : tecmpDecode (exCmHdr.bytes ++ writeAt exCmPay 4 (beEnc 2 0)) = tecmpDecode (exCmHdr.bytes ++ exCmPay) :=
  C15S_cm_vendor_length_only_gates exCmHdr exCmPay 0 rfl (by decide) (by decide) (by decide) (by decide) (by decide)
example : (tecmpDecode (exCmHdr.bytes ++ writeAt exCmPay 4 (beEnc 2 0))).length = 1 := by decide
/-- invalid data type 0xFF00 on a capture-module status message (the case no C15 theorem covered) -/
example : tecmpDecode (({ exCmHdr with dt := 0xFF00 } : THdr).bytes ++ exCmPay) = [] :=
  C15S_invalid_header _ _ (by decide) (Or.inr rfl)
example : tecmpDecode (({ exCmHdr with dt := 0xFF00 } : THdr).bytes ++ exCmPay) = [] := by decide
/-- … whereas 0x00FF passes -/
example : (tecmpDecode (({ exCmHdr with dt := 0x00FF } : THdr).bytes ++ exCmPay)).length = 1 :=
  C15S_dt_00FF_not_rejected _ _ (by decide) rfl rfl (by decide) (by decide) (by decide)

/-- bus status, vendor-data length 0, two entries and three stray bytes -/
def exBusHdr : THdr := { exHdr with mt := 2, dt := 0, plen := 39 }
def exBusGeneric : Bytes := [0x0C, 1, 2, 0, 0, 0, 0, 7, 0, 0, 0, 99]
def exBusEntries : List BusEntry := [⟨0x0A, 100, 1⟩, ⟨0x0B, 70000, 2⟩]
example : Accepts exBusHdr (exBusGeneric ++ exBusEntries.flatMap BusEntry.bytes ++ [9, 9, 9]) ∧
    (∀ e ∈ exBusEntries, e.WF) ∧ beAt exBusGeneric 4 2 = 0 := by decide
example : tecmpDecode (exBusHdr.bytes ++ (exBusGeneric ++ exBusEntries.flatMap BusEntry.bytes ++ [9, 9, 9])) =
    [{ payload := some ⟨0x0302, [0, 0, 0, 0x0A, 0, 0, 0, 100, 0, 0, 0, 0, 0, 0, 0, 0, 0, 0, 0, 0, 0, 0, 0, 1,
                                 0, 0, 0, 0, 0, 0, 0, 0, 0, 0, 0, 0, 0, 0, 0, 0]⟩,
       version := 1, deviceId := 7, ts := 0x0102030405060708, ifId := 0x0A },
     { payload := some ⟨0x0302, [0, 0, 0, 0x0B, 0, 1, 0x11, 0x70, 0, 0, 0, 0, 0, 0, 0, 0, 0, 0, 0, 0, 0, 0, 0, 2,
                                 0, 0, 0, 0, 0, 0, 0, 0, 0, 0, 0, 0, 0, 0, 0, 0]⟩,
       version := 1, deviceId := 7, ts := 0x0102030405060708, ifId := 0x0B }] := by decide
example : tecmpDecode (exBusHdr.bytes ++ (exBusGeneric ++ exBusEntries.flatMap BusEntry.bytes ++ [9, 9, 9])) =
    exBusEntries.map (busPacket exBusHdr) :=
  C15S_bus_plain exBusHdr exBusGeneric exBusEntries [9, 9, 9] rfl rfl (by decide) (by decide) (by decide) (by decide)
/-- the same 27 bytes behind a generic part that declares 4 vendor bytes per entry are ONE entry of 16 bytes and 11 stray
    bytes: one packet (the declared vendor-data length is what fixes the entry size) -/
example : (tecmpDecode (exBusHdr.bytes ++ (exVendorGeneric ++ exBusEntries.flatMap BusEntry.bytes ++ [9, 9, 9]))).map (·.ifId) =
    [0x0A] := by decide

/-- bus status with v = 4 vendor bytes per entry and THREE entries: exactly three packets, interface ids 0x0A, 0x0B, 0x0C
    and counters (100, 1), (200, 2), (300 = 0x012C, 3) written out — all payload bytes -/
example : tecmpDecode (exVendorHdr.bytes ++ (exVendorGeneric ++ exVendorEntries.flatMap fun e => vendorEntry e.1 e.2)) =
    [{ payload := some ⟨0x0302, [0, 0, 0, 0x0A, 0, 0, 0, 100, 0, 0, 0, 0, 0, 0, 0, 0, 0, 0, 0, 0, 0, 0, 0, 1,
                                 0, 0, 0, 0, 0, 0, 0, 0, 0, 0, 0, 0, 0, 0, 0, 0]⟩,
       version := 1, deviceId := 7, ts := 0x0102030405060708, ifId := 0x0A },
     { payload := some ⟨0x0302, [0, 0, 0, 0x0B, 0, 0, 0, 200, 0, 0, 0, 0, 0, 0, 0, 0, 0, 0, 0, 0, 0, 0, 0, 2,
                                 0, 0, 0, 0, 0, 0, 0, 0, 0, 0, 0, 0, 0, 0, 0, 0]⟩,
       version := 1, deviceId := 7, ts := 0x0102030405060708, ifId := 0x0B },
     { payload := some ⟨0x0302, [0, 0, 0, 0x0C, 0, 0, 0x01, 0x2C, 0, 0, 0, 0, 0, 0, 0, 0, 0, 0, 0, 0, 0, 0, 0, 3,
                                 0, 0, 0, 0, 0, 0, 0, 0, 0, 0, 0, 0, 0, 0, 0, 0]⟩,
       version := 1, deviceId := 7, ts := 0x0102030405060708, ifId := 0x0C }] := by decide
/-- … which is what the general theorems say -/
example : tecmpDecode (exVendorHdr.bytes ++ (exVendorGeneric ++ exVendorEntries.flatMap fun e => vendorEntry e.1 e.2)) =
    exVendorEntries.map (fun e => busPacket exVendorHdr e.1) :=
  (C15S_bus_vendor_entries exVendorHdr exVendorGeneric 4 exVendorEntries rfl rfl (by decide) (by decide) (by decide)).1
example : (tecmpDecode (exVendorHdr.bytes ++ (exVendorGeneric ++ exVendorEntries.flatMap fun e => vendorEntry e.1 e.2))).length = 3 :=
  C15S_bus_vendor_entry_count exVendorHdr exVendorGeneric 4 exVendorEntries rfl rfl (by decide) (by decide) (by decide)
/-- the three entries followed by the first 15 bytes of a fourth (truncated last entry): still three packets -/
example : tecmpDecode (exVendorHdr.bytes ++ (exVendorGeneric ++ (exVendorEntries.flatMap fun e => vendorEntry e.1 e.2) ++
      [0, 0, 0, 0x0D, 0, 0, 0, 9, 0, 0, 0, 4, 1, 203, 0])) = exVendorEntries.map (fun e => busPacket exVendorHdr e.1) :=
  C15_bus exVendorHdr exVendorGeneric 4 exVendorEntries [0, 0, 0, 0x0D, 0, 0, 0, 9, 0, 0, 0, 4, 1, 203, 0] rfl rfl (by decide)
    (by decide) (by decide) (by decide)
/-- the same 48 entry bytes behind a generic part that declares 100 vendor bytes per entry (more than what is there): no
    packet -/
example : tecmpDecode (exVendorHdr.bytes ++ ([0x0C, 1, 2, 0, 0, 100, 0, 7, 0, 0, 0, 99] ++
      exVendorEntries.flatMap fun e => vendorEntry e.1 e.2)) = [] :=
  (C15S_bus_empty_iff exVendorHdr _ rfl (by decide)).mpr (by decide)

/-- `C15S_packet_iff` on literals: accepted + fits ↔ packet -/
example : Accepts exLinHdr [0xC1, 3, 1, 2, 3] ∧ Fits exLinHdr [0xC1, 3, 1, 2, 3] :=
  ⟨by decide, Or.inr (Or.inr (Or.inr (by decide)))⟩
example : ¬ Fits exLinHdr [0xC1, 4, 1, 2, 3] := by unfold Fits; decide
example : tecmpDecode (exLinHdr.bytes ++ [0xC1, 3, 1, 2, 3]) ≠ [] :=
  (C15S_packet_iff exLinHdr _ (by decide)).mpr ⟨by decide, Or.inr (Or.inr (Or.inr (by decide)))⟩

/-- the entry point, and a TECMP message between two halves of a segmented CMP message -/
example (s : DecState) : decode s (some (exLinHdr.bytes ++ [0xC1, 3, 1, 2, 3])) =
    (s, [{ payload := some ⟨0x0103, [0, 0, 0, 0, 1, 0, 0, 3, 1, 2, 3]⟩,
           version := 1, deviceId := 7, ts := 0x0102030405060708, ifId := 0x11223344 }]) := by
  rw [C15S_decode_routes]
  exact congrArg (Prod.mk s) (by decide)

end AsamCmp.C15S
