/-
  C02 (completion): the payload validators that `Packet::create` runs on the decode path, with
  checked reads.  `create` hands the validator the payload's `d.length` bytes; each validator reads
  header fields only behind its own size guard (C++ short-circuit `&&`) and the length-prefixed blocks
  of the status payloads only after comparing with the bytes that remain.
  Also: builders preserve every header field (C13, in terms of the field tables of C11).
-/
import AsamCmp.DecodeM
import AsamCmp.Access
import AsamCmp.Layout
import AsamCmp.Builders
import AsamCmp.Lemmas.ValidM
namespace AsamCmp.C02b
open AsamCmp

def canValidM (b : Bytes) : Option Bool :=
  if b.length < 16 then some false
  else do
    let fl ← rdN b 0 2
    let ep ← rdN b 12 2
    if (fl &&& 0x03FF) != 0 || ep != 0 then pure false
    else
      let n ← rdN b 15 1
      pure (decide (n ≤ b.length - 16))

def linValidM (b : Bytes) : Option Bool :=
  if b.length < 8 then some false
  else do
    let n ← rdN b 7 1
    pure (decide (n ≤ b.length - 8))

def ethValidM (b : Bytes) : Option Bool :=
  if b.length < 6 then some false
  else do
    let fl ← rdN b 0 2
    if (fl &&& 0x003B) != 0 then pure false
    else
      let n ← rdN b 4 2
      pure (decide (n ≤ b.length - 6))

def analogValidM (b : Bytes) : Option Bool :=
  if b.length < 16 then some false
  else do
    let f ← rdN b 1 1
    pure (decide ((f &&& 3) ≤ 1))

/-- the five length-prefixed blocks of a capture-module status payload, walked as the C++ loop does:
    `pos` is the read position, every read is checked -/
def blocksOkM (b : Bytes) : Nat → Nat → Option Bool
  | 0, _ => some true
  | n+1, pos =>
    if b.length - pos < 2 then some false
    else do
      let l ← rdN b pos 2
      if b.length - (pos + 2) < l then pure false
      else blocksOkM b n (pos + 2 + l)

def cmValidM (b : Bytes) : Option Bool :=
  if b.length < 26 then some false else blocksOkM b 5 26

def ifValidM (b : Bytes) : Option Bool :=
  if b.length < 40 then some false
  else do
    let st ← rdN b 29 1
    if ¬ st ≤ 2 then pure false
    else
      let c ← rdN b 36 2
      let c := c + c % 2
      if b.length - 38 < c + 2 then pure false
      else
        let vl ← rdN b (38 + c) 2
        pure (decide (vl ≤ b.length - (38 + c) - 2))

/-- the checked block walk at read position `pos` computes the plain walk on `b.drop pos`
    (glue for `validators_inbounds`) -/
theorem blocksOkM_eq (b : Bytes) : ∀ (n pos : Nat), blocksOkM b n pos = some (blocksOk n (b.drop pos)) := by
  intro n
  induction n with
  | zero => intro pos; rfl
  | succ n ih =>
    intro pos
    rw [blocksOk_succ_drop]
    unfold blocksOkM
    by_cases h1 : b.length - pos < 2
    · simp only [h1, if_true]
    · simp only [h1, if_false]
      rw [C02.rdN_some b pos 2 (by omega)]
      simp only [bind, Option.bind, pure]
      by_cases h2 : b.length - (pos + 2) < beAt b pos 2
      · simp only [h2, if_true]
      · simp only [h2, if_false]
        exact ih _

/-- no validator ever reads outside the bytes it was given, and each computes the plain model's verdict -/
theorem validators_inbounds (b : Bytes) :
    canValidM b = some (canValid b) ∧ linValidM b = some (linValid b) ∧ ethValidM b = some (ethValid b) ∧
    analogValidM b = some (analogValid b) ∧ cmValidM b = some (cmValid b) ∧ ifValidM b = some (ifValid b) := by
  refine ⟨?_, ?_, ?_, ?_, ?_, ?_⟩
  · unfold canValidM canValid
    by_cases h : b.length < 16
    · simp [h, Nat.not_le.mpr h]
    · rw [if_neg h, C02.rdN_some b 0 2 (by omega), C02.rdN_some b 12 2 (by omega),
        C02.rdN1_some b 15 (by omega)]
      have h16 : 16 ≤ b.length := by omega
      by_cases h1 : (beAt b 0 2 &&& 0x03FF) = 0 <;> by_cases h2 : beAt b 12 2 = 0 <;>
        simp [h16, h1, h2]
  · unfold linValidM linValid
    by_cases h : b.length < 8
    · simp [h, Nat.not_le.mpr h]
    · rw [if_neg h, C02.rdN1_some b 7 (by omega)]
      have h8 : 8 ≤ b.length := by omega
      simp [h8]
  · unfold ethValidM ethValid
    by_cases h : b.length < 6
    · simp [h, Nat.not_le.mpr h]
    · rw [if_neg h, C02.rdN_some b 0 2 (by omega), C02.rdN_some b 4 2 (by omega)]
      have h6 : 6 ≤ b.length := by omega
      by_cases h1 : (beAt b 0 2 &&& 0x003B) = 0 <;> simp [h6, h1]
  · unfold analogValidM analogValid
    by_cases h : b.length < 16
    · simp [h, Nat.not_le.mpr h]
    · rw [if_neg h, C02.rdN1_some b 1 (by omega)]
      have h16 : 16 ≤ b.length := by omega
      simp [h16]
  · unfold cmValidM cmValid
    by_cases h : b.length < 26
    · simp [h, Nat.not_le.mpr h]
    · rw [if_neg h, blocksOkM_eq]
      have h26 : 26 ≤ b.length := by omega
      simp [h26]
  · unfold ifValidM ifValid
    by_cases h : b.length < 40
    · simp [h, Nat.not_le.mpr h]
    · rw [if_neg h, C02.rdN1_some b 29 (by omega), C02.rdN_some b 36 2 (by omega)]
      have h40 : 40 ≤ b.length := by omega
      simp only [bind, Option.bind, pure]
      by_cases h1 : byteAt b 29 ≤ 2
      · by_cases h2 : b.length - 38 < beAt b 36 2 + beAt b 36 2 % 2 + 2
        · simp [h40, h1, h2, Nat.not_le.mpr h2]
        · rw [if_neg (by simpa using h1), if_neg h2,
            C02.rdN_some b (38 + (beAt b 36 2 + beAt b 36 2 % 2)) 2 (by omega)]
          simp [h40, h1, Nat.le_of_not_lt h2]
      · simp [h40, h1]

/-! ### builders preserve header fields (C13, stated with the field tables of C11/C12) -/

/-- a field read depends only on the bytes of its word -/
theorem getField_congr (f : Field) (b₁ b₂ : Bytes) (k : Nat) (hk : f.off + f.w ≤ k) (h : b₁.take k = b₂.take k)
    (h1 : k ≤ b₁.length) (h2 : k ≤ b₂.length) : getField f b₁ = getField f b₂ := by
  have _ := h1
  have _ := h2
  exact getField_of_take f b₁ b₂ k hk h

/-- header fields set earlier are preserved by every builder: every table field that lies in the
    part of the header the builder does not own (CAN: bytes 0..13, LIN: 0..6, Ethernet: 0..3,
    analog: 0..15, capture-module: 0..25, interface: 0..35) reads the same before and after -/
theorem builders_preserve_fields :
    (∀ f ∈ Layout.c_can.fields, f.off + f.w ≤ 14 → ∀ b d : Bytes, 16 ≤ b.length → getField f (canSetData b d) = getField f b) ∧
    (∀ f ∈ Layout.c_canfd.fields, f.off + f.w ≤ 14 → ∀ b d : Bytes, 16 ≤ b.length → getField f (canSetData b d) = getField f b) ∧
    (∀ f ∈ Layout.c_lin.fields, f.off + f.w ≤ 7 → ∀ b d : Bytes, 8 ≤ b.length → getField f (linSetData b d) = getField f b) ∧
    (∀ f ∈ Layout.c_eth.fields, f.off + f.w ≤ 4 → ∀ b d : Bytes, 6 ≤ b.length → getField f (ethSetData b d) = getField f b) ∧
    (∀ f ∈ Layout.c_analog.fields, ∀ b d : Bytes, 16 ≤ b.length → getField f (analogSetData b d) = getField f b) ∧
    (∀ f ∈ Layout.c_cm.fields, ∀ b s1 s2 s3 s4 v : Bytes, 26 ≤ b.length → getField f (cmSetData b s1 s2 s3 s4 v) = getField f b) ∧
    (∀ f ∈ Layout.c_if.fields, ∀ b ids v : Bytes, 36 ≤ b.length → getField f (ifSetData b ids v) = getField f b) := by
  refine ⟨?_, ?_, ?_, ?_, ?_, ?_, ?_⟩
  · intro f _ hle b d hb
    exact getField_of_take f _ b 14 hle (can_take b d hb)
  · intro f _ hle b d hb
    exact getField_of_take f _ b 14 hle (can_take b d hb)
  · intro f _ hle b d hb
    exact getField_of_take f _ b 7 hle (lin_take b d hb)
  · intro f _ hle b d hb
    exact getField_of_take f _ b 4 hle (eth_take b d hb)
  · intro f hf b d hb
    exact getField_of_take f _ b 16 (analog_bound f hf) (analog_take b d hb)
  · intro f hf b s1 s2 s3 s4 v hb
    exact getField_of_take f _ b 26 (cm_bound f hf) (cm_take b s1 s2 s3 s4 v hb)
  · intro f hf b ids v hb
    exact getField_of_take f _ b 36 (if_bound f hf) (if_take b ids v hb)

end AsamCmp.C02b
