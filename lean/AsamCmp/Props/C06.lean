/-
  C06  Loss, duplication or reordering never yields a corrupted packet.

  When frames of one encoder stream are dropped, duplicated or reordered, or a segment arrives
  with a different version or message type, every packet the decoder still delivers is
  byte-identical to one that was sent — never a mix of fragments of different messages, and
  never a message with a hole or a repeated part.  The decoder recovers on its own: any later
  message whose frames arrive complete, in order and uninterrupted on its endpoint is delivered.

  Fault model.  `S : SStream` is what one encoder stream sent on one endpoint: `N < 65536` frames
  with consecutive counters `s0 + i` (mod 2^16), each either a frame of unsegmented messages or one
  segment (ghost coordinates: message `uid`, segment `k` of `n`).  What arrives is ANY list whose
  elements are copies of sent frames (so drops, duplicates and every reordering are one
  quantifier); a copy of a segment frame may carry a different (version, message type).
  Side condition forced by the statement itself: if every segment of a message were corrupted to
  the same wrong pair no decoder could tell, so two arrived copies of *different* segments of one
  message that agree on their pair carry the original pair (`Side`).

  The definitions of the fault model (`SStream`, `Copy`, `Side`, `Good`, `PInv`, `cleanRun`) are in
  `AsamCmp/Lemmas/FaultModel.lean`, the step lemmas in `AsamCmp/Lemmas/Fault.lean`.
-/
import AsamCmp.Decoder
import AsamCmp.Props.C05
import AsamCmp.Lemmas.Fault
namespace AsamCmp

theorem runLocal_cons (p : Option Pending) (f : PFrame) (fs : List PFrame) :
    runLocal p (f :: fs) =
      ((runLocal (localStep p f).1 fs).1, (localStep p f).2 ++ (runLocal (localStep p f).1 fs).2) := rfl

/-- C06 safety: whatever subset, order or duplication of sent frames arrives, and whichever
    segment copies carry a wrong (version, type) — as long as two different segments of one
    message are never corrupted to the same pair — every delivered packet is one the sender sent. -/
theorem fault_safe (S : SStream) (all : List PFrame) (hside : Side S all)
    (hcopy : ∀ g ∈ all, ∃ i, Copy S g i) :
    ∀ (gs : List PFrame), (∀ g ∈ gs, g ∈ all) → ∀ p, PInv S all p →
      (∀ o ∈ (runLocal p gs).2, Good S o) ∧ PInv S all (runLocal p gs).1 := by
  intro gs
  induction gs with
  | nil => intro _ p hp; exact ⟨(by intro o ho; cases ho), hp⟩
  | cons g gs ih =>
    intro hall p hp
    have hg : g ∈ all := hall g (List.mem_cons_self ..)
    obtain ⟨i, hc⟩ := hcopy g hg
    obtain ⟨hout, hinv⟩ := step_inv S all hside p hp g hg i hc
    obtain ⟨hout', hinv'⟩ := ih (fun g' h => hall g' (List.mem_cons_of_mem _ h)) _ hinv
    rw [runLocal_cons]
    refine ⟨?_, hinv'⟩
    intro o ho
    rcases List.mem_append.1 ho with ho | ho
    · exact hout o ho
    · exact hout' o ho

/-- from the empty decoder in particular -/
theorem C06_no_corruption (S : SStream) (arrived : List PFrame) (hside : Side S arrived)
    (hcopy : ∀ g ∈ arrived, ∃ i, Copy S g i) :
    ∀ o ∈ (runLocal none arrived).2, Good S o := by
  exact (fault_safe S arrived hside hcopy arrived (fun _ h => h) none trivial).1

/-- the tail of a clean run: the entry holds segments `0..j`, segments `j+1 .. n-1` follow -/
theorem recover_tail (S : SStream) (i0 : Nat) (f0 : SF) (h0 : S.at_ i0 = some (.segF f0)) (hk : f0.k = 0)
    (F : Nat → Option PFrame)
    (hF : ∀ j f, S.at_ (i0 + j) = some (.segF f) →
      F j = some ⟨S.ep, f.ver, f.mt, S.seq (i0 + j), [], .seg (f.hdr ++ f.body)⟩) :
    ∀ (len j : Nat) (q : Pending) (w : Bytes), j + len + 2 = f0.n →
      w.length = 16 → w.take 14 = f0.hdr.take 14 → q.buf = w ++ S.acc i0 j →
      q.seq = S.seq (i0 + j) → q.last = segCode j f0.n → q.ver = f0.ver → q.mt = f0.mt →
      runLocal (some q) ((List.range' (j + 1) (len + 1)).filterMap F) = (none, [S.expected i0 f0]) := by
  intro len
  induction len with
  | zero =>
    intro j q w hn hw hw14 hbuf hseq hlast hver hmt
    obtain ⟨f, hf, _, hfk, hfn, hfv, hfm⟩ := seg_at S i0 f0 h0 hk (j + 1) (by omega)
    obtain ⟨w', _, _, heq⟩ := step_clean S i0 j f0 f q f.ver f.mt w h0 hf hfk hfn (by omega) hw hw14
      hbuf hseq hlast (hver.trans hfv.symm) (hmt.trans hfm.symm)
    rw [List.range'_succ, List.filterMap_cons_some (hF (j + 1) f hf), runLocal_cons,
      ← Nat.add_assoc i0 j 1, heq, if_pos (by omega)]
    simp [runLocal, SStream.expected, hver, hmt]
  | succ len ih =>
    intro j q w hn hw hw14 hbuf hseq hlast hver hmt
    obtain ⟨f, hf, _, hfk, hfn, hfv, hfm⟩ := seg_at S i0 f0 h0 hk (j + 1) (by omega)
    obtain ⟨w', hw', hw'14, heq⟩ := step_clean S i0 j f0 f q f.ver f.mt w h0 hf hfk hfn (by omega) hw hw14
      hbuf hseq hlast (hver.trans hfv.symm) (hmt.trans hfm.symm)
    rw [List.range'_succ, List.filterMap_cons_some (hF (j + 1) f hf), runLocal_cons,
      ← Nat.add_assoc i0 j 1, heq, if_neg (by omega)]
    simp only [List.nil_append]
    exact ih (j + 1) _ w' (by omega) hw' hw'14 rfl rfl rfl hver hmt

/-- C06 recovery: whatever state the faults left behind (`p` is arbitrary, not even required to
    satisfy the invariant), a message whose frames arrive complete, in order, uncorrupted and
    uninterrupted is delivered, exactly once, and nothing stays pending -/
theorem fault_recovery (S : SStream) (i0 : Nat) (f0 : SF) (h0 : S.at_ i0 = some (.segF f0)) (hk : f0.k = 0)
    (hlen : (S.acc i0 (f0.n - 1)).length ≤ 65535) (p : Option Pending) :
    runLocal p (S.cleanRun i0 f0) = (none, [S.expected i0 f0]) := by
  have _ := hlen  -- not needed: `expected` truncates the length exactly as the decoder does
  have hkn := S.kn i0 f0 h0
  have hh := S.hdrOk i0 f0 h0
  obtain ⟨len, hlen'⟩ : ∃ len, f0.n = len + 2 := ⟨f0.n - 2, by omega⟩
  unfold SStream.cleanRun
  generalize hFdef : (fun j => match S.at_ (i0 + j) with
    | some (.segF f) => some (⟨S.ep, f.ver, f.mt, S.seq (i0 + j), [], .seg (f.hdr ++ f.body)⟩ : PFrame)
    | _ => none) = F
  have hF : ∀ j f, S.at_ (i0 + j) = some (.segF f) →
      F j = some ⟨S.ep, f.ver, f.mt, S.seq (i0 + j), [], .seg (f.hdr ++ f.body)⟩ := by
    intro j f h
    rw [← hFdef]
    simp only [h]
  rw [List.range_eq_range', hlen', List.range'_succ,
    List.filterMap_cons_some (hF 0 f0 h0), runLocal_cons,
    localStep_first p _ (f0.hdr ++ f0.body) rfl
      (by rw [segTypeOf_appendF _ _ hh.1, hh.2, hk, segCode_zero])]
  simp only [List.nil_append]
  exact recover_tail S i0 f0 h0 hk F hF len 0 _ f0.hdr (by omega) hh.1 rfl
    (by rw [acc_zero S i0 f0 h0]) rfl (segCode_zero _).symm rfl rfl

/-- … and an unsegmented frame is delivered whatever is pending -/
theorem fault_recovery_unseg (p : Option Pending) (f : PFrame) (h : ∀ m, f.term ≠ .seg m) :
    localStep p f = (none, f.unseg) := by
  exact localStep_unseg p f h

theorem runT_cons (s : DecState) (f : PFrame) (fs : List PFrame) :
    runT s (f :: fs) =
      ((runT (step s f).1 fs).1, (step s f).2.map (fun p => (f.ep, p)) ++ (runT (step s f).1 fs).2) := rfl

/-- safety for a decoder that serves several endpoints, from any state whose `S.ep` entry satisfies
    the invariant -/
theorem fault_safe_interleaved (S : SStream) (all : List PFrame) (hside : Side S all)
    (hcopy : ∀ g ∈ all, ∃ i, Copy S g i) :
    ∀ (fs : List PFrame), (∀ f ∈ fs, f.ep = S.ep → f ∈ all) → ∀ s : DecState, PInv S all (s S.ep) →
      ∀ x ∈ (runT s fs).2, x.1 = S.ep → Good S x.2 := by
  intro fs
  induction fs with
  | nil => intro _ s _ x hx; cases hx
  | cons f fs ih =>
    intro hall s hs x hx hxe
    rw [runT_cons] at hx
    have hrest := ih (fun f' h => hall f' (List.mem_cons_of_mem _ h))
    rcases List.mem_append.1 hx with hx | hx
    · obtain ⟨o, ho, rfl⟩ := List.mem_map.1 hx
      have hfe : f.ep = S.ep := hxe
      have hf : f ∈ all := hall f (List.mem_cons_self ..) hfe
      obtain ⟨i, hc⟩ := hcopy f hf
      have := (step_inv S all hside (s f.ep) (by rw [hfe]; exact hs) f hf i hc).1
      exact this o ho
    · refine hrest (step s f).1 ?_ x hx hxe
      show PInv S all ((s.set f.ep (localStep (s f.ep) f).1) S.ep)
      unfold DecState.set
      by_cases hfe : S.ep = f.ep
      · rw [if_pos hfe]
        have hf : f ∈ all := hall f (List.mem_cons_self ..) hfe.symm
        obtain ⟨i, hc⟩ := hcopy f hf
        exact (step_inv S all hside (s f.ep) (by rw [← hfe]; exact hs) f hf i hc).2
      · rw [if_neg hfe]; exact hs

/-- lifting to a decoder that also serves other endpoints: the packets delivered for `S.ep` in an
    arbitrary history whose `S.ep`-frames are the arrived copies are all `Good` -/
theorem C06_no_corruption_interleaved (S : SStream) (arrived : List PFrame) (hside : Side S arrived)
    (hcopy : ∀ g ∈ arrived, ∃ i, Copy S g i) (fs : List PFrame)
    (hproj : fs.filter (fun f => f.ep = S.ep) = arrived) :
    ∀ x ∈ (runT DecState.empty fs).2, x.1 = S.ep → Good S x.2 := by
  refine fault_safe_interleaved S arrived hside hcopy fs ?_ DecState.empty trivial
  intro f hf hfe
  rw [← hproj]
  exact List.mem_filter.2 ⟨hf, by simp [hfe]⟩

/-! ### a concrete stream: the fault model and the hypotheses are satisfiable -/

namespace C06Example

def hdr0 : Bytes := [0,0,0,0,0,0,0,0, 0,0,0,0, 4, 1, 0, 2]
def hdr1 : Bytes := [0,0,0,0,0,0,0,0, 0,0,0,0, 12, 1, 0, 1]
def sf0 : SF := ⟨1, 2, 7, 0, 2, hdr0, [0xAA, 0xBB]⟩
def sf1 : SF := ⟨1, 2, 7, 1, 2, hdr1, [0xCC]⟩
def pkt : Packet := { payload := some ⟨tyLin, [0,0,0,0,0,0,0,0]⟩, version := 1, deviceId := 3, streamId := 5 }

/-- three sent frames: one frame with an unsegmented message, then a 2-segment message -/
def exAt : Nat → Option Sent
  | 0 => some (.unsegF [pkt] .done)
  | 1 => some (.segF sf0)
  | 2 => some (.segF sf1)
  | _ + 3 => none

theorem exAt_seg {i : Nat} {f : SF} (h : exAt i = some (.segF f)) :
    (i = 1 ∧ f = sf0) ∨ (i = 2 ∧ f = sf1) := by
  match i with
  | 0 => simp [exAt] at h
  | 1 => simp only [exAt, Option.some.injEq, Sent.segF.injEq] at h; exact Or.inl ⟨rfl, h.symm⟩
  | 2 => simp only [exAt, Option.some.injEq, Sent.segF.injEq] at h; exact Or.inr ⟨rfl, h.symm⟩
  | _ + 3 => simp [exAt] at h

def exS : SStream where
  ep := (3, 5)
  N := 3
  s0 := 65534
  at_ := exAt
  hN := by decide
  dom := by
    intro i
    match i with
    | 0 => simp [exAt]
    | 1 => simp [exAt]
    | 2 => simp [exAt]
    | _ + 3 => simp [exAt]
  unsegT := by
    intro i pkts t h
    match i with
    | 0 =>
      simp only [exAt, Option.some.injEq, Sent.unsegF.injEq] at h
      intro m; rw [← h.2]; simp
    | 1 => simp [exAt] at h
    | 2 => simp [exAt] at h
    | _ + 3 => simp [exAt] at h
  next := by
    intro i f h hk
    rcases exAt_seg h with ⟨rfl, rfl⟩ | ⟨rfl, rfl⟩
    · exact ⟨sf1, rfl, rfl, rfl, rfl, rfl, rfl⟩
    · simp [sf1] at hk
  kn := by
    intro i f h
    rcases exAt_seg h with ⟨rfl, rfl⟩ | ⟨rfl, rfl⟩ <;> decide
  hdrOk := by
    intro i f h
    rcases exAt_seg h with ⟨rfl, rfl⟩ | ⟨rfl, rfl⟩ <;> decide

/-- arrived copies: the frame of unsegmented messages, clean copies of both segments, and a copy
    of the second segment whose version was corrupted to 9 -/
def u0 : PFrame := ⟨exS.ep, 1, 2, exS.seq 0, [pkt], .done⟩
def a1 : PFrame := ⟨exS.ep, 1, 2, exS.seq 1, [], .seg (sf0.hdr ++ sf0.body)⟩
def a2 : PFrame := ⟨exS.ep, 1, 2, exS.seq 2, [], .seg (sf1.hdr ++ sf1.body)⟩
def c2 : PFrame := ⟨exS.ep, 9, 2, exS.seq 2, [], .seg (sf1.hdr ++ sf1.body)⟩

/-- out of order, with loss (no first segment before the first `a2`), duplicates and a corrupted copy -/
def arrived : List PFrame := [a2, a1, c2, u0, a1, a1, a2, a2]

theorem arrived_copy : ∀ g ∈ arrived, ∃ i, Copy exS g i := by
  intro g hg
  simp only [arrived, List.mem_cons, List.not_mem_nil, or_false] at hg
  rcases hg with rfl | rfl | rfl | rfl | rfl | rfl | rfl | rfl
  · exact ⟨2, Copy.seg 2 sf1 1 2 rfl⟩
  · exact ⟨1, Copy.seg 1 sf0 1 2 rfl⟩
  · exact ⟨2, Copy.seg 2 sf1 9 2 rfl⟩
  · exact ⟨0, Copy.unseg 0 [pkt] .done 1 2 rfl⟩
  · exact ⟨1, Copy.seg 1 sf0 1 2 rfl⟩
  · exact ⟨1, Copy.seg 1 sf0 1 2 rfl⟩
  · exact ⟨2, Copy.seg 2 sf1 1 2 rfl⟩
  · exact ⟨2, Copy.seg 2 sf1 1 2 rfl⟩

theorem arrived_side : Side exS arrived := by
  intro g hg g' hg' i i' f f' hc hc' hf hf' _ hne hv _
  have hs := Copy.seq_eq hc
  have hs' := Copy.seq_eq hc'
  simp only [arrived, List.mem_cons, List.not_mem_nil, or_false] at hg hg'
  rcases exAt_seg hf with ⟨rfl, rfl⟩ | ⟨rfl, rfl⟩ <;>
    rcases exAt_seg hf' with ⟨rfl, rfl⟩ | ⟨rfl, rfl⟩
  · exact absurd rfl hne
  · -- `g` is a copy of the first segment: only `a1` has its counter
    rcases hg with rfl | rfl | rfl | rfl | rfl | rfl | rfl | rfl <;>
      first
        | exact ⟨rfl, rfl⟩
        | (exfalso; revert hs; decide)
  · -- `g` is a copy of the second segment: `a2` is clean, `c2` agrees with no copy of the first
    rcases hg with rfl | rfl | rfl | rfl | rfl | rfl | rfl | rfl <;>
      first
        | exact ⟨rfl, rfl⟩
        | (exfalso; revert hs; decide)
        | (rcases hg' with rfl | rfl | rfl | rfl | rfl | rfl | rfl | rfl <;>
            first
              | (exfalso; revert hs'; decide)
              | (exfalso; revert hv; decide))
  · exact absurd rfl hne

/-- non-vacuity: the hypotheses of `C06_no_corruption` hold for this history (loss, reordering,
    duplicates, one corrupted version, counters wrapping 65534, 65535, 0), and the decoder delivers
    exactly the unsegmented packet and the reassembled message -/
theorem nonvacuous : Side exS arrived ∧ (∀ g ∈ arrived, ∃ i, Copy exS g i) ∧
    (runLocal none arrived).2 = [pkt, exS.expected 1 sf0] :=
  ⟨arrived_side, arrived_copy, by decide⟩

/-- the expected packet is the concatenation of the two bodies under the first segment's header -/
example : (exS.expected 1 sf0).payload = some ⟨0x0201, [0xAA, 0xBB, 0xCC]⟩ := by decide

/-- the instance of `fault_recovery` for the example stream -/
example (p : Option Pending) : runLocal p (exS.cleanRun 1 sf0) = (none, [exS.expected 1 sf0]) :=
  fault_recovery exS 1 sf0 rfl rfl (by decide) p

end C06Example

end AsamCmp
