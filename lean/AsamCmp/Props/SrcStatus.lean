/-
  Source-level status tracker (C16): every method of `Status`, `DeviceStatus` and `InterfaceStatus` that changes or queries the
  tracked set (src/status.cpp, device_status.cpp, interface_status.cpp) is translated from the typed clang AST on every run into a
  state transformer over the record of its members (GeneratedSrcObj.lean: vectors of objects as lists, `std::find_if` with its lambda
  + `std::distance` as `findIdxD`, `std::swap` + `pop_back`, stored packets as opaque tables `OPkt`).  The theorems say the
  translation is DEFINED (no `v[i]` / `swap` / `pop_back` outside a vector) and computes exactly the status model `Status.lean`
  (`statusUpdate`, `statusRemoveDev`, `DevSt.removeIf`, `indexOfDev` …) that `C16.status_refines` is about.
-/
import AsamCmp.GeneratedSrcObj
import AsamCmp.Status
import AsamCmp.Lemmas.SrcStatus
set_option linter.unusedSimpArgs false
namespace AsamCmp.SrcSt
open AsamCmp AsamCmp.Src AsamCmp.SrcGen

/-- what the tracker observes of a packet of the model -/
def oPkt (p : Packet) : OPkt :=
  [("getDeviceId", p.deviceId), ("getPayload.getType", p.pty), ("getPayload.as_InterfacePayload.getInterfaceId", p.payloadIfId)]

/-- the model's state as the translated member records; `img` is how a stored packet is represented (any injective-enough image
    that keeps the observed values: the theorems need only `opq (img p) "getDeviceId" = p.deviceId`) -/
def ifSt (img : Packet → OPkt) (i : IfSt) : InterfaceStatus_St := { f_interfacePacket := img i.pkt, f_interfaceId := i.id }
def devSt (img : Packet → OPkt) (d : DevSt) : DeviceStatus_St := { f_interfaces := d.ifs.map (ifSt img), f_devicePacket := img d.pkt }
def stSt (img : Packet → OPkt) (s : StatusSt) : Status_St := { f_devices := s.map (devSt img) }

/-! ### what the translated methods read -/

theorem opq_dev (p : Packet) : opq (oPkt p) "getDeviceId" = p.deviceId := by simp [opq, oPkt, List.lookup]
theorem opq_ty (p : Packet) : opq (oPkt p) "getPayload.getType" = p.pty := by simp [opq, oPkt, List.lookup]
theorem opq_if (p : Packet) : opq (oPkt p) "getPayload.as_InterfacePayload.getInterfaceId" = p.payloadIfId := by
  simp [opq, oPkt, List.lookup]

theorem devSt_ifs (d : DevSt) : (devSt oPkt d).f_interfaces = d.ifs.map (ifSt oPkt) := rfl
theorem devSt_pkt (d : DevSt) : (devSt oPkt d).f_devicePacket = oPkt d.pkt := rfl
theorem stSt_devs (s : StatusSt) : (stSt oPkt s).f_devices = s.map (devSt oPkt) := rfl
theorem ifSt_id (i : IfSt) : (ifSt oPkt i).f_interfaceId = i.id := rfl

/-- normal form of a translated method body on `stSt oPkt s` / `devSt oPkt d`: member reads, `Option` steps, the values read from
    the packet; extra rewrite rules in brackets -/
macro "ss_norm" " [" ls:Lean.Parser.Tactic.simpLemma,* "]" : tactic =>
  `(tactic| simp only [devSt_ifs, devSt_pkt, stSt_devs, ifSt_id, opq_dev, opq_ty, opq_if, bind, pure, some_bind, findIdxD_map,
      List.length_map, beq_iff_eq, bne_iff_ne, ne_eq, decide_eq_true_eq, if_true, if_false, ite_true, ite_false,
      Bool.false_eq_true, not_true_eq_false, not_false_eq_true, $ls,*])

/-! ### queries -/

theorem indexOfIf_src (d : DevSt) (iid : Nat) :
    DeviceStatus_getIndexByInterfaceId_obj (devSt oPkt d) iid = some (devSt oPkt d, d.indexOfIf iid) := by
  unfold DeviceStatus_getIndexByInterfaceId_obj DevSt.indexOfIf
  ss_norm []

theorem indexOfDev_src (s : StatusSt) (id : Nat) :
    Status_getIndexByDeviceId_obj (stSt oPkt s) id = some (stSt oPkt s, indexOfDev s id) := by
  unfold Status_getIndexByDeviceId_obj indexOfDev
  ss_norm []

theorem ifCount_src (d : DevSt) :
    DeviceStatus_getInterfaceStatusCount_obj (devSt oPkt d) = some (devSt oPkt d, d.ifs.length) := by
  unfold DeviceStatus_getInterfaceStatusCount_obj
  ss_norm []

theorem devCount_src (s : StatusSt) :
    Status_getDeviceStatusCount_obj (stSt oPkt s) = some (stSt oPkt s, s.length) := by
  unfold Status_getDeviceStatusCount_obj
  ss_norm []

/-! ### `InterfaceStatus::update`, `DeviceStatus::updateInterfaces`, `DeviceStatus::update` -/

theorem ifUpdate_src (i : InterfaceStatus_St) (p : Packet) :
    InterfaceStatus_update_obj i (oPkt p) = some (ifSt oPkt ⟨p.payloadIfId, p⟩, ()) := by
  unfold InterfaceStatus_update_obj
  ss_norm []
  rfl

theorem updateIfs_src (d : DevSt) (p : Packet) :
    DeviceStatus_updateInterfaces_obj (devSt oPkt d) (oPkt p) = some (devSt oPkt (d.updateIfs p), ()) := by
  have hle := findIdx_le (fun i : IfSt => i.id == p.payloadIfId) d.ifs
  unfold DeviceStatus_updateInterfaces_obj DevSt.updateIfs
  ss_norm [indexOfIf_src, ifCount_src]
  by_cases h : d.indexOfIf p.payloadIfId = d.ifs.length
  · ss_norm [h, ifUpdate_src]
    simp only [devSt, List.map_append, List.map_cons, List.map_nil]
  · have hlt : d.indexOfIf p.payloadIfId < d.ifs.length := by unfold DevSt.indexOfIf at h ⊢; omega
    ss_norm [h, getIdx_map _ _ _ hlt, ifUpdate_src, set_map_eq]
    rfl

/-- `DeviceStatus::update(packet)` -/
theorem devUpdate_src (d : DevSt) (p : Packet) :
    DeviceStatus_update_obj (devSt oPkt d) (oPkt p) = some (devSt oPkt (d.update p), ()) := by
  unfold DeviceStatus_update_obj DevSt.update tyIf tyCm
  ss_norm []
  by_cases h1 : p.pty = 770 <;> by_cases h2 : p.pty = 769
  · omega
  · ss_norm [h1, h2, updateIfs_src, Nat.reduceEqDiff]
  · ss_norm [h1, h2, Nat.reduceEqDiff]
    rfl
  · ss_norm [h1, h2]

/-- the unknown-device branch: the default-constructed entry updated with a capture-module status message is the model's fresh
    entry (whose placeholder packet `update` overwrites at once) -/
theorem defaultDev_src (p : Packet) (h : p.pty = 769) :
    DeviceStatus_update_obj DeviceStatus_default (oPkt p) =
      some (devSt oPkt (({ pkt := Packet.mk none 1 0 0 0 0 0 0 0 0, ifs := [] } : DevSt).update p), ()) := by
  unfold DeviceStatus_update_obj DevSt.update DeviceStatus_default tyIf tyCm
  ss_norm [h, Nat.reduceEqDiff]
  rfl

/-- `Status::update(packet)`: a known device is updated in place, an unknown one is added only for a capture-module status message
    (the default-constructed entry's packet is overwritten at once), anything else is ignored -/
theorem update_src (s : StatusSt) (p : Packet) :
    Status_update_obj (stSt oPkt s) (oPkt p) = some (stSt oPkt (statusUpdate s p), ()) := by
  have hle := findIdx_le (fun d : DevSt => d.pkt.deviceId == p.deviceId) s
  unfold Status_update_obj statusUpdate tyCm
  ss_norm [indexOfDev_src, devCount_src]
  by_cases h : indexOfDev s p.deviceId < s.length
  · ss_norm [h, getIdx_map _ _ _ h, devUpdate_src, set_map_eq, modify_eq_set_getElem _ _ _ h]
    rfl
  · by_cases h2 : p.pty = 769
    · ss_norm [h, h2, defaultDev_src p h2]
      simp only [stSt, List.map_append, List.map_cons, List.map_nil]
    · ss_norm [h, h2]

/-- `Status::removeDeviceById`.  ADDED HYPOTHESIS `h64` (a `std::vector`'s size fits `size_t`; the list model does not carry that):
    the translated index of the last element is `usub 64 size 1 = (size - 1) mod 2^64`, which is the last index only for
    `size ≤ 2^64` (e.g. `usub 64 (2^64 + 5) 1 = 4`).  Original statement:
    `theorem removeDev_src (s : StatusSt) (id : Nat) : Status_removeDeviceById_obj (stSt oPkt s) id = some (stSt oPkt (statusRemoveDev s id), ())` -/
theorem removeDev_src (s : StatusSt) (id : Nat) (h64 : s.length < 2 ^ 64) :
    Status_removeDeviceById_obj (stSt oPkt s) id = some (stSt oPkt (statusRemoveDev s id), ()) := by
  have hle := findIdx_le (fun d : DevSt => d.pkt.deviceId == id) s
  unfold Status_removeDeviceById_obj statusRemoveDev
  ss_norm [indexOfDev_src, devCount_src]
  by_cases h : indexOfDev s id = s.length
  · ss_norm [h]
  · have hlt : indexOfDev s id < s.length := by unfold indexOfDev at h ⊢; omega
    obtain ⟨t, e1, e2, e3⟩ := swapPop_map (devSt oPkt) s _ hlt h64
    ss_norm [h, e1, e2, e3]
    rfl

/-- `DeviceStatus::removeInterfaceById`.  ADDED HYPOTHESIS `h64`, for the same reason.  Original statement:
    `theorem removeIf_src (d : DevSt) (id : Nat) : DeviceStatus_removeInterfaceById_obj (devSt oPkt d) id = some (devSt oPkt (d.removeIf id), ())` -/
theorem removeIf_src (d : DevSt) (id : Nat) (h64 : d.ifs.length < 2 ^ 64) :
    DeviceStatus_removeInterfaceById_obj (devSt oPkt d) id = some (devSt oPkt (d.removeIf id), ()) := by
  have hle := findIdx_le (fun i : IfSt => i.id == id) d.ifs
  unfold DeviceStatus_removeInterfaceById_obj DevSt.removeIf
  ss_norm [indexOfIf_src, ifCount_src]
  by_cases h : d.indexOfIf id = d.ifs.length
  · ss_norm [h]
  · have hlt : d.indexOfIf id < d.ifs.length := by unfold DevSt.indexOfIf at h ⊢; omega
    obtain ⟨t, e1, e2, e3⟩ := swapPop_map (ifSt oPkt) d.ifs _ hlt h64
    ss_norm [h, e1, e2, e3]
    rfl

/-- the queries and `clear` -/
theorem index_src (s : StatusSt) (id : Nat) (d : DevSt) (iid : Nat) :
    Status_getIndexByDeviceId_obj (stSt oPkt s) id = some (stSt oPkt s, indexOfDev s id) ∧
    DeviceStatus_getIndexByInterfaceId_obj (devSt oPkt d) iid = some (devSt oPkt d, d.indexOfIf iid) ∧
    Status_getDeviceStatusCount_obj (stSt oPkt s) = some (stSt oPkt s, s.length) ∧
    Status_clear_obj (stSt oPkt s) = some (stSt oPkt [], ()) :=
  ⟨indexOfDev_src s id, indexOfIf_src d iid, devCount_src s, rfl⟩

end AsamCmp.SrcSt
