/-
  C07, strengthened statements (closing the reviewer's findings of /tmp/audit/out_C07.md).

  Nothing here changes a definition; every theorem is about the existing encoder models (`Enc`, `EncLL`), the existing tiler
  (`tileFrame`, `P_C07`, `P_C08`) and the translated source (`Encoder_encode_range_obj`, …).  New definitions are only
  OBSERVATION functions on bytes (`tileFrameH`: the same walker as `tileFrame`, but it keeps the raw 8 / 16 header bytes it steps
  over — proved to be the same walker by `tileFrameH_forget`) and decidable checkers used in the examples.

  Finding 1  (header bytes unobserved)            → §1, §2, §3: `C07_wire_headers`
  Finding 2a (no end-to-end theorem on the source) → §5: `C07_src_end_to_end`, `C07_src_single`, `C07_src_empty`
  Finding 2b (only from `e.toLL`)                  → §5: `encodeLL_state_indep`, `src_stale_state_irrelevant`
  Finding 2  (`frame_length` says nothing about the encoder) → §4: `C07_frame_lengths`
  Finding 3  (zero-length messages, packet boundaries)        → §4: `C07_per_packet`, `P_C07_alone_accepts_*`
  Finding 4  (unused hypotheses)                   → every theorem here is free of `seqc < 65536`, `Reg s`, `p.mt < 256`
  Finding 5  (empty batch)                         → `C07_src_empty`
  Finding 7  (non-vacuity)                         → §6: examples computed by the kernel
-/
import AsamCmp.Props.C07
import AsamCmp.Props.C07b
import AsamCmp.Props.C09
import AsamCmp.Props.C10
import AsamCmp.Props.SrcEncoderE2E
namespace AsamCmp.C07S
open AsamCmp AsamCmp.Src AsamCmp.SrcGen

/-! ## §1  the tiler that keeps the header bytes -/

/-- a message as found on the wire: its 16 raw header bytes and its body -/
structure HMsg where
  hdr : Bytes
  body : Bytes
deriving Repr, DecidableEq, Inhabited

/-- a frame as found on the wire: its 8 raw header bytes, the messages, the number of zero bytes behind the last message, the
    total length -/
structure HFrame where
  hdr : Bytes
  msgs : List HMsg
  pad : Nat
  len : Nat
deriving Repr, DecidableEq, Inhabited

/-- `tileMsgs` (Tile.lean) with the same control flow, keeping the 16 header bytes of every message -/
def tileMsgsH : Nat → Bytes → Option (List HMsg × Nat)
  | 0, _ => none
  | fuel+1, r =>
    if allZero r then some ([], r.length)
    else if r.length < 16 then none
    else
      let len := beAt r 14 2
      if r.length < 16 + len then none
      else
        match tileMsgsH fuel (r.drop (16 + len)) with
        | none => none
        | some (ms, pad) => some (⟨r.take 16, slice r 16 len⟩ :: ms, pad)

/-- `tileFrame` keeping the 8 header bytes -/
def tileFrameH (b : Bytes) : Option HFrame :=
  if b.length < 8 then none
  else
    match tileMsgsH (b.length + 1) (b.drop 8) with
    | none => none
    | some (ms, pad) => some ⟨b.take 8, ms, pad, b.length⟩

def tileFramesH : List Bytes → Option (List HFrame)
  | [] => some []
  | b :: bs =>
    match tileFrameH b, tileFramesH bs with
    | some f, some fs => some (f :: fs)
    | _, _ => none

/-- what `tileMsgs` keeps of a message: bits 2–3 of byte 12, and the body -/
def HMsg.forget (m : HMsg) : SMsg := ⟨byteAt m.hdr 12 &&& 0x0C, m.body⟩
/-- what `tileFrame` keeps of a frame: byte 4 -/
def HFrame.forget (f : HFrame) : SFrame := ⟨byteAt f.hdr 4, f.msgs.map HMsg.forget, f.pad, f.len⟩

theorem byteAt_take (r : Bytes) (n i : Nat) (h : i < n) : byteAt (r.take n) i = byteAt r i := by
  unfold byteAt
  rw [List.getD_eq_getElem?_getD, List.getD_eq_getElem?_getD, List.getElem?_take, if_pos h]

/-- the header-keeping walker IS the registered walker: on EVERY byte string, forgetting the kept header bytes gives exactly what
    `tileMsgs` returns (and it fails exactly when `tileMsgs` fails) -/
theorem tileMsgsH_forget : ∀ (fuel : Nat) (r : Bytes),
    (tileMsgsH fuel r).map (fun x => (x.1.map HMsg.forget, x.2)) = tileMsgs fuel r := by
  intro fuel
  induction fuel with
  | zero => intro r; rfl
  | succ fuel ih =>
    intro r
    unfold tileMsgsH tileMsgs
    by_cases hz : allZero r = true
    · simp [hz]
    · simp only [hz, Bool.false_eq_true, if_false]
      by_cases h16 : r.length < 16
      · simp [h16]
      · simp only [h16, if_false]
        by_cases hl : r.length < 16 + beAt r 14 2
        · simp [hl]
        · simp only [hl, if_false]
          rw [← ih (r.drop (16 + beAt r 14 2))]
          cases tileMsgsH fuel (r.drop (16 + beAt r 14 2)) with
          | none => rfl
          | some x =>
            obtain ⟨ms, pad⟩ := x
            simp [HMsg.forget, byteAt_take r 16 12 (by decide)]

theorem tileFrameH_forget (b : Bytes) : (tileFrameH b).map HFrame.forget = tileFrame b := by
  unfold tileFrameH tileFrame
  by_cases h8 : b.length < 8
  · simp [h8]
  · simp only [h8, if_false]
    rw [← tileMsgsH_forget]
    cases tileMsgsH (b.length + 1) (b.drop 8) with
    | none => rfl
    | some x =>
      obtain ⟨ms, pad⟩ := x
      simp [HFrame.forget, byteAt_take b 8 4 (by decide)]

theorem tileFramesH_forget (bs : List Bytes) :
    (tileFramesH bs).map (fun fs => fs.map HFrame.forget) = tileFrames bs := by
  induction bs with
  | nil => rfl
  | cons b bs ih =>
    unfold tileFramesH tileFrames
    rw [← ih, ← tileFrameH_forget]
    cases tileFrameH b <;> cases tileFramesH bs <;> rfl

/-- in particular: whenever the header-keeping walker succeeds, the registered walker succeeds with the forgetful image -/
theorem tileFrames_of_H {bs : List Bytes} {hfs : List HFrame} (h : tileFramesH bs = some hfs) :
    tileFrames bs = some (hfs.map HFrame.forget) := by
  rw [← tileFramesH_forget, h]; rfl

/-! ## §2  the header-keeping tiler on the frames the encoder model serialises -/

/-- a message of the model as the header-keeping walker must find it -/
def toH (m : EMsg) : HMsg := ⟨msgHeader m.pkt m.seg m.body.length, m.body⟩

/-- a structured frame of the model as the header-keeping walker must find it -/
def shapeH (min : Nat) (f : EFrame) : HFrame :=
  ⟨frameHeader f.ver f.dev f.mt f.stream f.seq, f.msgs.map toH, min - (8 + f.used), max (8 + f.used) min⟩

theorem tileMsgsH_bytes (msgs : List EMsg) (k : Nat)
    (hmsgs : ∀ m ∈ msgs, 1 ≤ m.body.length ∧ m.body.length < 65536 ∧
      (m.seg = 0 ∨ m.seg = 4 ∨ m.seg = 8 ∨ m.seg = 12)) :
    ∀ fuel, msgs.length < fuel →
      tileMsgsH fuel (msgs.flatMap EMsg.bytes ++ zeros k) = some (msgs.map toH, k) := by
  induction msgs with
  | nil =>
    intro fuel hf
    cases fuel with
    | zero => omega
    | succ fuel => simp [tileMsgsH, allZero_zeros]
  | cons m ms ih =>
    intro fuel hf
    cases fuel with
    | zero => omega
    | succ fuel =>
      have hm := hmsgs m (by simp)
      obtain ⟨h1, h2, h3, h4, h5⟩ := msg_fields m (ms.flatMap EMsg.bytes ++ zeros k) hm.2.1 hm.2.2
      have ih' := ih (fun x hx => hmsgs x (by simp [hx])) fuel (by simp at hf; omega)
      have h6 : (m.bytes ++ (ms.flatMap EMsg.bytes ++ zeros k)).take 16 = msgHeader m.pkt m.seg m.body.length := by
        unfold EMsg.bytes
        rw [List.append_assoc]
        exact List.take_left' (msgHeader_length ..)
      simp only [List.flatMap_cons, List.append_assoc]
      generalize hr : m.bytes ++ (ms.flatMap EMsg.bytes ++ zeros k) = r at *
      unfold tileMsgsH
      have hz : allZero r = false := by
        cases hz : allZero r with
        | false => rfl
        | true =>
          have := beAt_of_allZero r 14 2 hz
          omega
      simp only [hz, Bool.false_eq_true, if_false, h1]
      rw [if_neg (by omega), if_neg (by omega), h4, ih', h6, h3]
      simp [toH]

theorem tileFrameH_bytes (min : Nat) (f : EFrame)
    (hmsgs : ∀ m ∈ f.msgs, 1 ≤ m.body.length ∧ m.body.length < 65536 ∧ (m.seg = 0 ∨ m.seg = 4 ∨ m.seg = 8 ∨ m.seg = 12)) :
    tileFrameH (EFrame.bytes min f) = some (shapeH min f) := by
  have hl := bytes_length min f
  unfold tileFrameH
  rw [if_neg (by omega)]
  have hd : (EFrame.bytes min f).drop 8 = f.msgs.flatMap EMsg.bytes ++ zeros (min - (8 + f.used)) := by
    simp only [EFrame.bytes]
    rw [raw_length, List.append_assoc, List.drop_left' (frameHeader_length ..)]
  have hfuel : f.msgs.length < (EFrame.bytes min f).length + 1 := by
    have : f.msgs.length ≤ f.used := by
      unfold EFrame.used
      generalize f.msgs = l
      induction l with
      | nil => simp
      | cons m ms ih => simp [EMsg.size]; omega
    omega
  rw [hd, tileMsgsH_bytes f.msgs _ hmsgs _ hfuel]
  simp only [hl, shapeH, C09_header_bytes]

theorem tileFramesH_bytes (min : Nat) (fs : List EFrame)
    (hmsgs : ∀ f ∈ fs, ∀ m ∈ f.msgs,
      1 ≤ m.body.length ∧ m.body.length < 65536 ∧ (m.seg = 0 ∨ m.seg = 4 ∨ m.seg = 8 ∨ m.seg = 12)) :
    tileFramesH (fs.map (EFrame.bytes min)) = some (fs.map (shapeH min)) := by
  induction fs with
  | nil => rfl
  | cons f fs ih =>
    simp only [List.map_cons, tileFramesH]
    rw [tileFrameH_bytes min f (hmsgs f (by simp)), ih (fun g hg => hmsgs g (by simp [hg]))]

/-- bits 2–3 of byte 12 of a message header are the segment flag it was built with -/
theorem msgHeader_seg (p : Packet) (seg len : Nat) (hs : seg = 0 ∨ seg = 4 ∨ seg = 8 ∨ seg = 12) :
    byteAt (msgHeader p seg len) 12 &&& 0x0C = seg := by
  rw [msgHeader_eq, byteAt_mid _ _ _ 12 (hdrPre_length _)]
  exact flagbits' _ _ hs

/-- bytes 14–15 of a message header are the length it was built with -/
theorem msgHeader_len (p : Packet) (seg len : Nat) (hl : len < 65536) :
    beAt (msgHeader p seg len) 14 2 = len := by
  unfold beAt
  have := slice_mid (hdrPre p ++ [UInt8.ofNat ((p.flags % 256 &&& 0xF3) ||| seg), UInt8.ofNat p.rawType])
    (beEnc 2 len) [] 14 2 (by simp [hdrPre_length]) (by simp)
  rw [List.append_nil] at this
  rw [msgHeader_eq', this, beDec_beEnc]
  exact Nat.mod_eq_of_lt hl

theorem forget_toH (m : EMsg) (hs : m.seg = 0 ∨ m.seg = 4 ∨ m.seg = 8 ∨ m.seg = 12) :
    (toH m).forget = ⟨m.seg, m.body⟩ := by
  simp only [toH, HMsg.forget, msgHeader_seg _ _ _ hs]

/-! ## §3  Finding 1: the 8-byte capture-module header and the 16-byte message headers, on bytes -/

/-- the header fields of the structured frames of ONE `encode` call, for EVERY encoder state (no `Idle`, no bound on the counter):
    counter `(seqc + i + 1) mod 2^16`, the encoder's ids, the version of a packet of the batch, the message type of its messages -/
theorem frames_fields (e : Enc) (batch : List Packet) (c : Ctx) :
    ∀ i (h : i < (e.encode batch c).2.length),
      (e.encode batch c).2[i].seq = (e.seqc + i + 1) % 65536 ∧
      (e.encode batch c).2[i].dev = e.dev ∧ (e.encode batch c).2[i].stream = e.stream ∧
      (∃ p ∈ batch, (e.encode batch c).2[i].ver = p.version % 256) ∧
      (∀ m ∈ (e.encode batch c).2[i].msgs, m.pkt.mt = (e.encode batch c).2[i].mt) := by
  have hsh := C10_encode_any_state e batch c
  have hinv := encState_inv (Enc.fresh e.dev e.stream) batch c (by simp [Enc.fresh])
  have heq : ((Enc.fresh e.dev e.stream).encode batch c).2 = ((Enc.fresh e.dev e.stream).encState batch c).closed := by
    rw [encode_eq]
  generalize ((Enc.fresh e.dev e.stream).encState batch c) = s at hinv heq
  intro i h
  have hlen : (e.encode batch c).2.length = s.closed.length := by
    rw [hsh, shiftSeq, List.length_map, heq]
  have hi : i < s.closed.length := hlen ▸ h
  have hget : (e.encode batch c).2[i] = { s.closed[i] with seq := (s.closed[i].seq + e.seqc) % 65536 } := by
    have : (e.encode batch c).2 = s.closed.map (fun f => { f with seq := (f.seq + e.seqc) % 65536 }) := by
      rw [hsh, heq]; rfl
    rw [List.getElem_of_eq this h, List.getElem_map]
  have hf := hinv.cfr _ (List.getElem_mem hi)
  have hq := hinv.cseq i hi
  rw [hget]
  refine ⟨?_, hf.hdev, hf.hstream, ?_, hf.hmt⟩
  · show (s.closed[i].seq + e.seqc) % 65536 = _
    rw [hq]
    simp only [Enc.fresh]
    omega
  · obtain ⟨p, hp, hv⟩ := hf.hver
    exact ⟨p, hp, hv⟩

/-- every message of the frames of an `encode` call belongs to a packet of the batch -/
theorem encode_msgs_pkt (e : Enc) (batch : List Packet) (c : Ctx) (hc : c.ok = true) :
    ∀ f ∈ (e.encode batch c).2, ∀ m ∈ f.msgs, m.pkt ∈ batch := by
  intro f hf m hm
  have hcap := (Ctx.ok_cap hc).1
  have hall := (encode_spec e batch c hcap).2.1
  have : m ∈ (e.encode batch c).2.flatMap (·.msgs) := List.mem_flatMap.mpr ⟨f, hf, hm⟩
  rw [hall] at this
  obtain ⟨ip, hip, hm'⟩ := List.mem_flatMap.mp this
  rw [(pieces_mem c hcap _ _ m hm').1]
  exact (List.of_mem_zip hip).2

/-- the messages one packet puts on the wire, header bytes included -/
theorem pieces_hdrs (c : Ctx) (hcap : 17 ≤ c.cap) (i : Nat) (p : Packet) (hp : p.data.length < 65536) :
    ((pieces c i p).map toH).map (·.hdr) =
      (pieceShape c.cap p.data.length).map (fun sl => msgHeader p sl.1 sl.2) := by
  rw [← pieces_shape c hcap i p hp, List.map_map, List.map_map]
  apply List.map_congr_left
  intro m hm
  simp only [toH, Function.comp, (pieces_mem c hcap i p m hm).1]

theorem shapeH_flatMap {β : Type} (min : Nat) (g : HMsg → β) (fs : List EFrame) :
    (fs.map (shapeH min)).flatMap (fun f => f.msgs.map g) = (fs.flatMap (·.msgs)).map (fun m => g (toH m)) := by
  induction fs with
  | nil => rfl
  | cons f fs ih =>
    simp only [List.map_cons, List.flatMap_cons, List.map_append, ih]
    simp [shapeH]

/-- the frames of an `encode` call, re-parsed by the header-keeping walker: forgetting the headers gives the `EFrame.shape`s that
    `P_C07` / `P_C08` are proved of -/
theorem shapeH_forget (min : Nat) (f : EFrame)
    (hmsgs : ∀ m ∈ f.msgs, (m.seg = 0 ∨ m.seg = 4 ∨ m.seg = 8 ∨ m.seg = 12)) :
    (shapeH min f).forget = EFrame.shape min f := by
  have h4 : byteAt (frameHeader f.ver f.dev f.mt f.stream f.seq) 4 = f.mt % 256 := by
    have := frameHeader_mt f.ver f.dev f.mt f.stream f.seq []
    rwa [List.append_nil] at this
  simp only [shapeH, HFrame.forget, EFrame.shape, h4, List.map_map]
  congr 1
  apply List.map_congr_left
  intro m hm
  exact forget_toH m (hmsgs m hm)

/-- FINDING 1, closed on bytes.  For every encoder state `e` (any history), every batch of packets with a payload of 1..65535
    bytes and every configuration with 25 ≤ max, min ≤ max (the property's quantifier; no other hypothesis):

    the frames `encode` returns, walked by the header-keeping tiler (the SAME walker as `tileFrames`: second conjunct), satisfy
    `P_C07` and `P_C08` and moreover
    * the 8 header bytes of frame `i` are EXACTLY the capture-module header `frameHeader` (Packet.lean: version, reserved 0,
      device id big-endian, message type, stream id, sequence counter big-endian) of the version of a packet of the batch, the
      ENCODER's device id and stream id, the message type `mt`, and the counter `(seqc + i + 1) mod 2^16`;
    * frame `i` holds at least one message, and every message of it has as its 16 header bytes EXACTLY `msgHeader q seg len`
      (timestamp, interface id / vendor id, flags with the segment bits replaced, payload type, length) of a packet `q` of the
      batch whose message type is the frame's `mt`, with `len` the length of the message's body and a legal segment flag;
    * the message headers of all frames, in wire order, are for every packet of the batch, in batch order, the packet's own
      `msgHeader` with the (segment flag, length) pairs the protocol rules prescribe (`pieceShape`). -/
theorem C07_wire_headers (e : Enc) (batch : List Packet) (c : Ctx) (hc : c.ok = true)
    (hb : ∀ p ∈ batch, p.Enc ∧ 1 ≤ p.data.length) :
    ∃ hfs, tileFramesH ((e.encode batch c).2.map (EFrame.bytes c.min)) = some hfs ∧
      tileFrames ((e.encode batch c).2.map (EFrame.bytes c.min)) = some (hfs.map HFrame.forget) ∧
      P_C07 c (batch.map Packet.data) (hfs.map HFrame.forget) = true ∧
      P_C08 c (batch.map fun p => (p.mt, p.data.length)) (hfs.map HFrame.forget) = true ∧
      (∀ i (h : i < hfs.length), ∃ p ∈ batch, ∃ mt,
        hfs[i].hdr = frameHeader (p.version % 256) e.dev mt e.stream ((e.seqc + i + 1) % 65536) ∧
        hfs[i].msgs ≠ [] ∧
        ∀ hm ∈ hfs[i].msgs, ∃ q ∈ batch, q.mt = mt ∧ ∃ seg, (seg = 0 ∨ seg = 4 ∨ seg = 8 ∨ seg = 12) ∧
          hm.hdr = msgHeader q seg hm.body.length ∧ 1 ≤ hm.body.length ∧ hm.body.length < 65536) ∧
      hfs.flatMap (fun f => f.msgs.map (·.hdr)) =
        batch.flatMap (fun p => (pieceShape c.cap p.data.length).map fun sl => msgHeader p sl.1 sl.2) := by
  obtain ⟨hcap, _, _⟩ := Ctx.ok_cap hc
  have hm := encode_msgs_ok e batch c hc
  have hpk := encode_msgs_pkt e batch c hc
  obtain ⟨hok, hall, _⟩ := encode_spec e batch c hcap
  have hff := frames_fields e batch c
  have hH := tileFramesH_bytes c.min (e.encode batch c).2 hm
  have hfg : ((e.encode batch c).2.map (shapeH c.min)).map HFrame.forget = (e.encode batch c).2.map (EFrame.shape c.min) := by
    rw [List.map_map]
    apply List.map_congr_left
    intro f hf
    exact shapeH_forget c.min f (fun m hmm => (hm f hf m hmm).2.2)
  refine ⟨_, hH, tileFrames_of_H hH, ?_, ?_, ?_, ?_⟩
  · rw [hfg]; exact C07_frames_wf e batch c hc (fun p hp => (hb p hp).1)
  · rw [hfg]; exact C08_seg_rules e batch c hc hb
  · intro i h
    have hi : i < (e.encode batch c).2.length := by simpa using h
    obtain ⟨hq, hd, hs, ⟨p, hp, hv⟩, hmt⟩ := hff i hi
    have hmem := List.getElem_mem hi
    refine ⟨p, hp, (e.encode batch c).2[i].mt, ?_, ?_, ?_⟩
    · rw [List.getElem_map]
      simp only [shapeH, hq, hd, hs, hv]
    · rw [List.getElem_map]
      simp only [shapeH, ne_eq, List.map_eq_nil_iff]
      exact (hok _ hmem).2
    · intro x hx
      rw [List.getElem_map] at hx
      simp only [shapeH, List.mem_map] at hx
      obtain ⟨m, hmm, rfl⟩ := hx
      have := hm _ hmem m hmm
      exact ⟨m.pkt, hpk _ hmem m hmm, hmt m hmm, m.seg, this.2.2, rfl, this.1, this.2.1⟩
  · rw [shapeH_flatMap c.min (·.hdr), hall]
    have hlen : ∀ ip ∈ (List.range batch.length).zip batch, ip.2.data.length < 65536 := by
      intro ip hip
      exact (hb _ (List.of_mem_zip hip).2).1.2
    have : ∀ ib : List (Nat × Packet), (∀ ip ∈ ib, ip.2.data.length < 65536) →
        (ib.flatMap (fun ip => pieces c ip.1 ip.2)).map (fun m => (toH m).hdr) =
          (ib.map Prod.snd).flatMap (fun p => (pieceShape c.cap p.data.length).map fun sl => msgHeader p sl.1 sl.2) := by
      intro ib
      induction ib with
      | nil => intro _; rfl
      | cons ip ib ih =>
        intro h
        simp only [List.flatMap_cons, List.map_append, List.map_cons]
        rw [ih (fun x hx => h x (by simp [hx])), ← pieces_hdrs c hcap ip.1 ip.2 (h ip (by simp)), List.map_map]
        rfl
    rw [this _ hlen, zip_snd]

/-! ## §4  Finding 3 (no header-only message, packet boundaries) and Finding 2 (`frame_length` about the ENCODER's frames) -/

/-- the wire messages of the batch, grouped per packet -/
def groupsOf (c : Ctx) (ib : List (Nat × Packet)) : List (List HMsg) := ib.map (fun ip => (pieces c ip.1 ip.2).map toH)

theorem groupsOf_flatten (c : Ctx) (ib : List (Nat × Packet)) :
    (groupsOf c ib).flatten = (ib.flatMap (fun ip => pieces c ip.1 ip.2)).map toH := by
  induction ib with
  | nil => rfl
  | cons ip ib ih =>
    simp only [groupsOf, List.map_cons, List.flatten_cons, List.flatMap_cons, List.map_append] at ih ⊢
    rw [ih]

/-- FINDING 3, closed.  Same quantifier as the property.  The messages found on the wire (all frames, wire order) split into
    consecutive groups, ONE PER PACKET of the batch in batch order, such that for the group of packet `p`
    * the bodies, concatenated, are exactly `p`'s payload bytes (so no message mixes bytes of two packets, every payload byte
      appears exactly once and in order, per packet and not only in the flattened stream);
    * the (segment flag, length) pairs are exactly `pieceShape` (one unsegmented message, or first / intermediary* / last);
    * the 16 header bytes of every message are `p`'s own message header (also for segments 2..n);
    * the group is not empty and NO message is header-only (every body has at least one byte). -/
theorem C07_per_packet (e : Enc) (batch : List Packet) (c : Ctx) (hc : c.ok = true)
    (hb : ∀ p ∈ batch, p.Enc ∧ 1 ≤ p.data.length) :
    ∃ (hfs : List HFrame) (groups : List (List HMsg)),
      tileFramesH ((e.encode batch c).2.map (EFrame.bytes c.min)) = some hfs ∧
      groups.flatten = hfs.flatMap (·.msgs) ∧
      groups.map (fun g => (g.map (·.body)).flatten) = batch.map Packet.data ∧
      groups.map (fun g => g.map fun m => (m.forget.seg, m.body.length)) =
        batch.map (fun p => pieceShape c.cap p.data.length) ∧
      groups.map (fun g => g.map (·.hdr)) =
        batch.map (fun p => (pieceShape c.cap p.data.length).map fun sl => msgHeader p sl.1 sl.2) ∧
      (∀ g ∈ groups, g ≠ []) ∧
      (∀ f ∈ hfs, ∀ m ∈ f.msgs, 1 ≤ m.body.length) := by
  obtain ⟨hcap, _, _⟩ := Ctx.ok_cap hc
  have hm := encode_msgs_ok e batch c hc
  obtain ⟨_, hall, _⟩ := encode_spec e batch c hcap
  have hH := tileFramesH_bytes c.min (e.encode batch c).2 hm
  have hlen : ∀ ip ∈ (List.range batch.length).zip batch, ip.2.Enc ∧ 1 ≤ ip.2.data.length := by
    intro ip hip
    exact hb _ (List.of_mem_zip hip).2
  have hbm : ∀ {β : Type} (ψ : Packet → β),
      batch.map ψ = ((List.range batch.length).zip batch).map (fun ip => ψ ip.2) := by
    intro β ψ
    conv => lhs; rw [← zip_snd batch]
    rw [List.map_map]
    rfl
  refine ⟨_, groupsOf c ((List.range batch.length).zip batch), hH, ?_, ?_, ?_, ?_, ?_, ?_⟩
  · rw [groupsOf_flatten, ← hall]
    have := shapeH_flatMap c.min id (e.encode batch c).2
    simp only [List.map_id, id_eq] at this
    exact this.symm
  · rw [hbm, groupsOf, List.map_map]
    apply List.map_congr_left
    intro ip hip
    simp only [Function.comp, List.map_map]
    exact pieces_body c hcap ip.1 ip.2 (hlen ip hip).1.2
  · rw [hbm, groupsOf, List.map_map]
    apply List.map_congr_left
    intro ip hip
    simp only [Function.comp, List.map_map]
    rw [← pieces_shape c hcap ip.1 ip.2 (hlen ip hip).1.2]
    apply List.map_congr_left
    intro m hmm
    have hs := (pieces_mem c hcap _ _ m hmm).2.2.2.2.1
    simp only [Function.comp, toH, HMsg.forget, msgHeader_seg _ _ _ hs]
  · rw [hbm, groupsOf, List.map_map]
    apply List.map_congr_left
    intro ip hip
    exact pieces_hdrs c hcap ip.1 ip.2 (hlen ip hip).1.2
  · intro g hg
    simp only [groupsOf, List.mem_map] at hg
    obtain ⟨ip, hip, rfl⟩ := hg
    have h1 := congrArg List.length (pieces_shape c hcap ip.1 ip.2 (hlen ip hip).1.2)
    have h2 : pieceShape c.cap ip.2.data.length ≠ [] := by
      unfold pieceShape
      have := (hlen ip hip).2
      split
      · omega
      · split <;> simp
    intro h0
    rw [List.map_eq_nil_iff] at h0
    rw [h0] at h1
    simp only [List.map_nil, List.length_nil] at h1
    exact h2 (List.eq_nil_of_length_eq_zero (by omega))
  · intro f hf m hmm
    simp only [List.mem_map] at hf
    obtain ⟨g, hg, rfl⟩ := hf
    simp only [shapeH, List.mem_map] at hmm
    obtain ⟨x, hx, rfl⟩ := hmm
    exact (hm g hg x hx).1

/-! ### the same as a decidable predicate on what `tileFrames` returns (so that it can be run, and its negation exhibited) -/

/-- consume from `ms` the messages whose bodies, all non-empty, are consecutive pieces of `rem`; what is left of `ms` -/
def eat : List SMsg → Bytes → Option (List SMsg)
  | [], rem => if rem.isEmpty then some [] else none
  | m :: ms, rem =>
    if rem.isEmpty then some (m :: ms)
    else if m.body.isEmpty then none
    else if rem.take m.body.length = m.body then eat ms (rem.drop m.body.length) else none

/-- the message list splits into consecutive groups, one per payload (in order), each a cut of that payload into non-empty
    bodies -/
def splitOk : List Bytes → List SMsg → Bool
  | [], ms => ms.isEmpty
  | p :: ps, ms =>
    if p.isEmpty then false
    else match eat ms p with
      | none => false
      | some rest => splitOk ps rest

/-- `P_C07` and, in addition: no header-only message; the messages split per packet (reviewer's "stronger statement" of item 3) -/
def P_C07S (c : Ctx) (payloads : List Bytes) (fs : List SFrame) : Bool :=
  P_C07 c payloads fs &&
  fs.all (fun f => f.msgs.all (fun m => decide (1 ≤ m.body.length))) &&
  splitOk payloads (fs.flatMap (·.msgs))

theorem eat_group (g rest : List SMsg) (hg : ∀ m ∈ g, m.body ≠ []) :
    eat (g ++ rest) ((g.map (·.body)).flatten) = some rest := by
  induction g with
  | nil => cases rest <;> simp [eat]
  | cons m g ih =>
    have hm := hg m (by simp)
    have hne : (m.body ++ (g.map (·.body)).flatten) ≠ [] := by simp [hm]
    simp only [List.cons_append, List.map_cons, List.flatten_cons, eat]
    rw [if_neg (by simpa using hne), if_neg (by simpa using hm), if_pos (List.take_left' rfl), List.drop_left' rfl]
    exact ih (fun x hx => hg x (by simp [hx]))

theorem splitOk_of_groups (groups : List (List SMsg)) (h1 : ∀ g ∈ groups, g ≠ []) (h2 : ∀ g ∈ groups, ∀ m ∈ g, m.body ≠ []) :
    splitOk (groups.map (fun g => (g.map (·.body)).flatten)) groups.flatten = true := by
  induction groups with
  | nil => rfl
  | cons g gs ih =>
    simp only [List.map_cons, List.flatten_cons, splitOk]
    have hne : ((g.map (·.body)).flatten) ≠ [] := by
      have hg := h1 g (by simp)
      cases g with
      | nil => exact absurd rfl hg
      | cons m g' =>
        have := h2 (m :: g') (by simp) m (by simp)
        simp [this]
    rw [if_neg (by simpa using hne), eat_group g gs.flatten (h2 g (by simp))]
    exact ih (fun x hx => h1 x (by simp [hx])) (fun x hx => h2 x (by simp [hx]))

/-- FINDING 3 as a verdict on bytes: the registered tiler, run on the frames `encode` returns, succeeds and the STRENGTHENED
    predicate holds (same quantifier as the property) -/
theorem C07_strong_bytes (e : Enc) (batch : List Packet) (c : Ctx) (hc : c.ok = true)
    (hb : ∀ p ∈ batch, p.Enc ∧ 1 ≤ p.data.length) :
    ∃ fs, tileFrames ((e.encode batch c).2.map (EFrame.bytes c.min)) = some fs ∧
      P_C07S c (batch.map Packet.data) fs = true ∧
      P_C08 c (batch.map fun p => (p.mt, p.data.length)) fs = true := by
  obtain ⟨hfs, hH, _, h7, h8, _, _⟩ := C07_wire_headers e batch c hc hb
  obtain ⟨hfs', groups, hH', g1, g2, _, _, g5, g6⟩ := C07_per_packet e batch c hc hb
  rw [hH] at hH'
  cases Option.some.inj hH'
  refine ⟨_, tileFrames_of_H hH, ?_, h8⟩
  unfold P_C07S
  rw [h7, Bool.true_and, Bool.and_eq_true]
  constructor
  · rw [List.all_eq_true]
    intro f hf
    obtain ⟨hf', hhf, rfl⟩ := List.mem_map.mp hf
    rw [List.all_eq_true]
    intro m hm
    simp only [HFrame.forget, List.mem_map] at hm
    obtain ⟨x, hx, rfl⟩ := hm
    exact decide_eq_true (g6 hf' hhf x hx)
  · have e1 : (hfs.map HFrame.forget).flatMap (·.msgs) = (groups.map (fun g => g.map HMsg.forget)).flatten := by
      rw [← List.map_flatten, g1]
      generalize hfs = l
      induction l with
      | nil => rfl
      | cons f l ih => simp only [List.map_cons, List.flatMap_cons, List.map_append, ih]; rfl
    have e2 : batch.map Packet.data =
        (groups.map (fun g => g.map HMsg.forget)).map (fun g => (g.map (·.body)).flatten) := by
      rw [← g2, List.map_map]
      apply List.map_congr_left
      intro g _
      simp only [Function.comp, List.map_map]
      rfl
    rw [e1, e2]
    apply splitOk_of_groups
    · intro g hg
      obtain ⟨g', hg', rfl⟩ := List.mem_map.mp hg
      simpa using g5 g' hg'
    · intro g hg m hm
      obtain ⟨g', hg', rfl⟩ := List.mem_map.mp hg
      obtain ⟨x, hx, rfl⟩ := List.mem_map.mp hm
      have hx' : x ∈ hfs.flatMap (·.msgs) := by
        rw [← g1]; exact List.mem_flatten.mpr ⟨g', hg', hx⟩
      obtain ⟨f, hf, hxf⟩ := List.mem_flatMap.mp hx'
      have := g6 f hf x hxf
      intro h0
      simp only [HMsg.forget] at h0
      rw [h0] at this
      simp at this

/-- FINDING 2 (`frame_length` restated about the frames the ENCODER returns, not about an arbitrary `EFrame`): frame `i` returned
    by `encode` has exactly `max (8 + Σ (16 + declared length of message k), min)` bytes, where the messages are those the
    independent tiler finds in it; that is at least `min`, at most `max`, and at least 25 (a header, one message header, one
    payload byte).  (Holds for every batch whatsoever: a packet without payload or with an empty
    payload contributes no message, a payload of 2^16 bytes or more is cut to its length mod 2^16 by `getPayloadLength()`.) -/
theorem C07_frame_lengths (e : Enc) (batch : List Packet) (c : Ctx) (hc : c.ok = true) :
    ∃ fs, tileFrames ((e.encode batch c).2.map (EFrame.bytes c.min)) = some fs ∧
      ((e.encode batch c).2.map (EFrame.bytes c.min)).map List.length = fs.map (fun f => max (8 + f.used) c.min) ∧
      ∀ b ∈ (e.encode batch c).2.map (EFrame.bytes c.min), c.min ≤ b.length ∧ b.length ≤ c.max ∧ 25 ≤ b.length := by
  obtain ⟨hcap, hmax, hmin⟩ := Ctx.ok_cap hc
  obtain ⟨hok, _, _⟩ := encode_spec e batch c hcap
  have hm := encode_msgs_ok e batch c hc
  have htile : tileFrames ((e.encode batch c).2.map (EFrame.bytes c.min)) = some ((e.encode batch c).2.map (EFrame.shape c.min)) := by
    generalize (e.encode batch c).2 = fs at hm
    induction fs with
    | nil => rfl
    | cons f fs ih =>
      simp only [List.map_cons, tileFrames]
      rw [tile_bytes c.min f (hm f (by simp)), ih (fun g hg => hm g (by simp [hg]))]
  refine ⟨_, htile, ?_, ?_⟩
  · rw [List.map_map, List.map_map]
    apply List.map_congr_left
    intro f _
    simp only [Function.comp, bytes_length, shape_used]
  · intro b hb'
    obtain ⟨f, hf, rfl⟩ := List.mem_map.mp hb'
    rw [bytes_length]
    have hu := (hok f hf).1.used
    have hne := (hok f hf).2
    have h17 : 17 ≤ f.used := by
      cases hms : f.msgs with
      | nil => exact absurd hms hne
      | cons m ms =>
        have := (hm f hf m (by simp [hms])).1
        simp only [EFrame.used, hms, List.map_cons, List.sum_cons, EMsg.size]
        omega
    omega

/-! ## §5  Finding 2: one end-to-end statement for the TRANSLATED SOURCE, from ANY encoder object -/

open AsamCmp.SrcEnc

/-- the structured encoder an arbitrary record of data members stands for between calls: ids, counter, message type.  The scratch
    members (`cmpFrames`, `cmpFrameTemplate`, `bytesLeft`, `min/maxBytesPerMessage`) do not enter. -/
def encOf (s : Encoder_St) : Enc :=
  { dev := s.f_deviceId, stream := s.f_streamId, seqc := s.f_sequenceCounter, curMt := s.f_messageType }

/-- FINDING 2b, the missing lemma: `EncLL.encode` depends on the state it is called on only through dev / stream / seqc / mt —
    whatever an earlier (even aborted) call left in `frames`, `tmpl`, `bytesLeft`, `min`, `max` is erased by `init`.  For EVERY
    low-level state `l`, batch and configuration (no hypothesis at all). -/
theorem encodeLL_state_indep (l : EncLL) (batch : List Packet) (c : Ctx) :
    l.encode batch c =
      (Enc.toLL { dev := l.dev, stream := l.stream, seqc := l.seqc, curMt := l.mt }).encode batch c := rfl

theorem toLL_encode_eq (s : Encoder_St) (batch : List Packet) (c : Ctx) :
    (toLL s).encode batch c = (encOf s).toLL.encode batch c := rfl

/-- the translated `encode` overloads, from ANY record of data members `s` (stale frames, template, `bytesLeft` included; no
    `Reg s`, no bound on the counter): defined, and the frames are the serialised frames of the structured model started from
    `encOf s`; the scratch members are clean afterwards -/
theorem src_encode_any (s : Encoder_St) (batch : List Packet) (c : Ctx) (fuel : Nat)
    (hc : c.ok = true) (hmax : c.max < 2 ^ 32) (hb : ∀ p ∈ batch, p.Enc) (hf : 65536 ≤ fuel) :
    ∃ s', Encoder_encode_range_obj fuel s (batch.map pktIn) c.min c.max
            = some (s', ((encOf s).encode batch c).2.map (EFrame.bytes c.min)) ∧
      Encoder_encode_ptrRange_obj fuel s (batch.map pktIn) c.min c.max
            = some (s', ((encOf s).encode batch c).2.map (EFrame.bytes c.min)) ∧
      s'.f_sequenceCounter = ((encOf s).encode batch c).1.seqc ∧
      s'.f_messageType = ((encOf s).encode batch c).1.curMt ∧
      s'.f_deviceId = s.f_deviceId ∧ s'.f_streamId = s.f_streamId ∧
      s'.f_cmpFrames = [] ∧ s'.f_cmpFrameTemplate = [] ∧ s'.f_bytesLeft = 0 := by
  obtain ⟨h1, h2⟩ := encodeRange_src s batch c fuel hc hmax hf
  obtain ⟨r1, r2, r3, r4, r5, r6, r7⟩ := C07b.encode_R (encOf s) batch c hc hb
  rw [toLL_encode_eq] at h1 h2
  refine ⟨ofLL ((encOf s).toLL.encode batch c).1, ?_, ?_, r2, r3, r4, r5, r6, r7, rfl⟩
  · rw [h1, r1]
  · rw [h2, r1]

/-- FINDING 2a, closed: THE end-to-end sentence of C07 for the translated source.

    For every record of data members `s` of an `Encoder` object (ANY: whatever earlier calls, complete or aborted, left behind),
    every batch of packets with a payload of 1..65535 bytes ("payload length 1..65535"), every configuration with
    25 ≤ max and min ≤ max ("25 <= maximum and minimum <= maximum"; `max < 2^32` is implied by the property's
    "max <= 65535+24" and is the width of the C++ field; `fuel` is the translation's bound on loop iterations):

    both iterator-range overloads of `Encoder::encode`, as translated from the C++, are defined, return the same byte vectors
    `frames`, and for these
    * the independent tiler succeeds and `P_C07S` (= `P_C07` + no header-only message + per-packet split) and `P_C08` hold;
    * the header-keeping tiler finds in frame `i` exactly the capture-module header with the OBJECT's device id, stream id and
      counter `(sequenceCounter + i + 1) mod 2^16`, the version of a packet of the batch, and the message type of the packets
      whose (exact) message headers follow;
    * frame `i` has exactly `max (8 + used, min)` bytes, between `min` and `max`;
    * nothing stale is returned or kept: `cmpFrames`, `cmpFrameTemplate` empty afterwards. -/
theorem C07_src_end_to_end (s : Encoder_St) (batch : List Packet) (c : Ctx) (fuel : Nat)
    (hc : c.ok = true) (hmax : c.max < 2 ^ 32) (hb : ∀ p ∈ batch, p.Enc ∧ 1 ≤ p.data.length) (hf : 65536 ≤ fuel) :
    ∃ (s' : Encoder_St) (frames : List Bytes) (hfs : List HFrame),
      Encoder_encode_range_obj fuel s (batch.map pktIn) c.min c.max = some (s', frames) ∧
      Encoder_encode_ptrRange_obj fuel s (batch.map pktIn) c.min c.max = some (s', frames) ∧
      tileFramesH frames = some hfs ∧
      tileFrames frames = some (hfs.map HFrame.forget) ∧
      P_C07 c (batch.map Packet.data) (hfs.map HFrame.forget) = true ∧
      P_C07S c (batch.map Packet.data) (hfs.map HFrame.forget) = true ∧
      P_C08 c (batch.map fun p => (p.mt, p.data.length)) (hfs.map HFrame.forget) = true ∧
      (∀ i (h : i < hfs.length), ∃ p ∈ batch, ∃ mt,
        hfs[i].hdr = frameHeader (p.version % 256) s.f_deviceId mt s.f_streamId ((s.f_sequenceCounter + i + 1) % 65536) ∧
        hfs[i].msgs ≠ [] ∧
        ∀ hm ∈ hfs[i].msgs, ∃ q ∈ batch, q.mt = mt ∧ ∃ seg, (seg = 0 ∨ seg = 4 ∨ seg = 8 ∨ seg = 12) ∧
          hm.hdr = msgHeader q seg hm.body.length ∧ 1 ≤ hm.body.length ∧ hm.body.length < 65536) ∧
      hfs.flatMap (fun f => f.msgs.map (·.hdr)) =
        batch.flatMap (fun p => (pieceShape c.cap p.data.length).map fun sl => msgHeader p sl.1 sl.2) ∧
      frames.map List.length = hfs.map (fun f => max (8 + f.forget.used) c.min) ∧
      (∀ b ∈ frames, c.min ≤ b.length ∧ b.length ≤ c.max ∧ 25 ≤ b.length) ∧
      s'.f_cmpFrames = [] ∧ s'.f_cmpFrameTemplate = [] ∧
      s'.f_deviceId = s.f_deviceId ∧ s'.f_streamId = s.f_streamId := by
  obtain ⟨s', e1, e2, _, _, e5, e6, e7, e8, _⟩ := src_encode_any s batch c fuel hc hmax (fun p hp => (hb p hp).1) hf
  obtain ⟨hfs, w1, w2, w3, w4, w5, w6⟩ := C07_wire_headers (encOf s) batch c hc hb
  obtain ⟨fs, t1, t2, _⟩ := C07_strong_bytes (encOf s) batch c hc hb
  obtain ⟨fs', l1, l2, l3⟩ := C07_frame_lengths (encOf s) batch c hc
  rw [w2] at t1 l1
  cases Option.some.inj t1
  cases Option.some.inj l1
  have l2' : (((encOf s).encode batch c).2.map (EFrame.bytes c.min)).map List.length =
      hfs.map (fun f => max (8 + f.forget.used) c.min) := by
    rw [l2, List.map_map]; rfl
  exact ⟨s', _, hfs, e1, e2, w1, w2, w3, t2, w4, w5, w6, l2', l3, e7, e8, e5, e6⟩

/-- the single-packet overload `encode(const Packet&, const DataContext&)`, from ANY encoder object -/
theorem C07_src_single (s : Encoder_St) (p : Packet) (c : Ctx) (fuel : Nat)
    (hc : c.ok = true) (hmax : c.max < 2 ^ 32) (hp : p.Enc ∧ 1 ≤ p.data.length) (hf : 65536 ≤ fuel) :
    ∃ (s' : Encoder_St) (frames : List Bytes) (fs : List SFrame),
      Encoder_encode_obj fuel s (pktIn p) c.min c.max = some (s', frames) ∧
      tileFrames frames = some fs ∧
      P_C07S c [p.data] fs = true ∧ P_C08 c [(p.mt, p.data.length)] fs = true ∧
      (∀ b ∈ frames, c.min ≤ b.length ∧ b.length ≤ c.max ∧ 25 ≤ b.length) ∧
      s'.f_cmpFrames = [] ∧ s'.f_cmpFrameTemplate = [] := by
  have h := encode1_src_gen s p c fuel hc hmax hf
  have hb : ∀ q ∈ [p], q.Enc ∧ 1 ≤ q.data.length := by
    intro q hq; rw [List.mem_singleton.mp hq]; exact hp
  obtain ⟨r1, _, _, _, _, r6, r7⟩ := C07b.encode_R (encOf s) [p] c hc (fun q hq => (hb q hq).1)
  obtain ⟨fs, t1, t2, t3⟩ := C07_strong_bytes (encOf s) [p] c hc hb
  obtain ⟨fs', _, _, l3⟩ := C07_frame_lengths (encOf s) [p] c hc
  rw [toLL_encode_eq, r1] at h
  exact ⟨_, _, fs, h, t1, t2, t3, l3, r6, r7⟩

/-- C07 / C08 for the LOW-LEVEL model started from ANY low-level state `l` (not only from `e.toLL`), without `seqc < 65536` -/
theorem C07_lowlevel_any (l : EncLL) (batch : List Packet) (c : Ctx) (hc : c.ok = true)
    (hb : ∀ p ∈ batch, p.Enc ∧ 1 ≤ p.data.length) :
    ∃ fs, tileFrames (l.encode batch c).2 = some fs ∧
      P_C07S c (batch.map Packet.data) fs = true ∧
      P_C08 c (batch.map fun p => (p.mt, p.data.length)) fs = true ∧
      (l.encode batch c).1.frames = [] ∧ (l.encode batch c).1.tmpl = [] ∧
      (l.encode batch c).1.dev = l.dev ∧ (l.encode batch c).1.stream = l.stream := by
  rw [encodeLL_state_indep]
  obtain ⟨r1, _, _, r4, r5, r6, r7⟩ :=
    C07b.encode_R { dev := l.dev, stream := l.stream, seqc := l.seqc, curMt := l.mt } batch c hc (fun p hp => (hb p hp).1)
  obtain ⟨fs, t1, t2, t3⟩ :=
    C07_strong_bytes { dev := l.dev, stream := l.stream, seqc := l.seqc, curMt := l.mt } batch c hc hb
  rw [r1]
  exact ⟨fs, t1, t2, t3, r6, r7, r4, r5⟩

/-- clause (8) on the translated source: an empty range produces no frames and leaves ids and counter alone — from ANY object -/
theorem C07_src_empty (s : Encoder_St) (c : Ctx) (fuel : Nat)
    (hc : c.ok = true) (hmax : c.max < 2 ^ 32) (hf : 65536 ≤ fuel) :
    ∃ s', Encoder_encode_range_obj fuel s [] c.min c.max = some (s', []) ∧
      Encoder_encode_ptrRange_obj fuel s [] c.min c.max = some (s', []) ∧
      s'.f_sequenceCounter = s.f_sequenceCounter ∧ s'.f_deviceId = s.f_deviceId ∧ s'.f_streamId = s.f_streamId ∧
      s'.f_messageType = s.f_messageType ∧ s'.f_cmpFrames = [] ∧ s'.f_cmpFrameTemplate = [] := by
  obtain ⟨h1, h2⟩ := encodeRange_src s [] c fuel hc hmax hf
  exact ⟨_, h1, h2, rfl, rfl, rfl, rfl, rfl, rfl⟩

/-- FINDING 2b as a statement about two objects: two encoder objects that agree on device id, stream id, sequence counter and
    message type return the same frames for the same batch and configuration, whatever else (stale frames of an aborted call,
    an old template, `bytesLeft`, the previous `min` / `max`) they hold -/
theorem src_stale_state_irrelevant (s t : Encoder_St) (batch : List Packet) (c : Ctx) (fuel : Nat)
    (hc : c.ok = true) (hmax : c.max < 2 ^ 32) (hf : 65536 ≤ fuel)
    (hd : s.f_deviceId = t.f_deviceId) (hs : s.f_streamId = t.f_streamId)
    (hq : s.f_sequenceCounter = t.f_sequenceCounter) (hm : s.f_messageType = t.f_messageType) :
    Encoder_encode_range_obj fuel s (batch.map pktIn) c.min c.max =
      Encoder_encode_range_obj fuel t (batch.map pktIn) c.min c.max := by
  rw [(encodeRange_src s batch c fuel hc hmax hf).1, (encodeRange_src t batch c fuel hc hmax hf).1,
    toLL_encode_eq, toLL_encode_eq]
  simp only [encOf, hd, hs, hq, hm]

/-! ## §6  Finding 7: non-vacuity — everything below is COMPUTED by the kernel on literal inputs

  One batch that exercises every interesting branch at once, on an encoder with history (`seqc = 65534`, last message type 3):
  a 1-byte payload (frame padded from 25 to min = 64), a 200-byte payload (segmented over THREE frames: first / intermediary /
  last; the last one is 72 bytes: longer than min, so no padding; the empty frame opened behind the last segment is dropped and
  its counter given back), a change of message type (new frame), two small packets aggregated in one frame (padding 19), and
  the 16-bit counter wrapping 65535 → 0. -/
namespace Ex

def pk (mt ts : Nat) (d : Bytes) : Packet :=
  { payload := some ⟨mt * 256 + 1, d⟩, ts := ts, ifId := 0x0A0B0C0D, vendorId := 0x1234, flags := 0xFF, version := 2,
    deviceId := 99, streamId := 98 }
def ramp (n : Nat) : Bytes := (List.range n).map UInt8.ofNat
def e0 : Enc := { dev := 5, stream := 7, seqc := 65534, curMt := 3 }
def b0 : List Packet := [pk 1 0x0102030405060708 [9], pk 1 1 (ramp 200), pk 3 2 [1, 2, 3], pk 3 3 [4, 5]]
def c0 : Ctx := ⟨64, 100⟩

instance (p : Packet) : Decidable p.Enc := by unfold Packet.Enc; exact inferInstance

/-- the hypotheses of the theorems of this file (and of `C07_C08_bytes`) hold of the example -/
theorem c0_ok : c0.ok = true := by decide
theorem b0_ok : ∀ p ∈ b0, p.Enc ∧ 1 ≤ p.data.length := by decide +kernel

/-- the five frames, written out: header bytes literally, payload bytes as slices of the ramp -/
def frames0 : List Bytes :=
  [ [2, 0, 0, 5, 1, 7, 255, 255,   1, 2, 3, 4, 5, 6, 7, 8, 10, 11, 12, 13, 0xF3, 1, 0, 1,   9] ++ zeros 39,
    [2, 0, 0, 5, 1, 7, 0, 0,       0, 0, 0, 0, 0, 0, 0, 1, 10, 11, 12, 13, 0xF7, 1, 0, 76] ++ (ramp 200).take 76,
    [2, 0, 0, 5, 1, 7, 0, 1,       0, 0, 0, 0, 0, 0, 0, 1, 10, 11, 12, 13, 0xFB, 1, 0, 76] ++ ((ramp 200).drop 76).take 76,
    [2, 0, 0, 5, 1, 7, 0, 2,       0, 0, 0, 0, 0, 0, 0, 1, 10, 11, 12, 13, 0xFF, 1, 0, 48] ++ (ramp 200).drop 152,
    [2, 0, 0, 5, 3, 7, 0, 3,       0, 0, 0, 0, 0, 0, 0, 2, 0, 0, 0x12, 0x34, 0xF3, 1, 0, 3,   1, 2, 3,
                                   0, 0, 0, 0, 0, 0, 0, 3, 0, 0, 0x12, 0x34, 0xF3, 1, 0, 2,   4, 5] ++ zeros 19 ]

/-- the structured model (`Enc.encode`, serialised) and the low-level model (`EncLL.encode`) both compute exactly these bytes -/
example : (e0.encode b0 c0).2.map (EFrame.bytes c0.min) = frames0 := by decide +kernel
example : (e0.toLL.encode b0 c0).2 = frames0 := by decide +kernel
example : frames0.map List.length = [64, 100, 100, 72, 64] := by decide +kernel
/-- … and leave the counter at 3 = (65534 + 5) mod 2^16, message type 3 -/
example : (e0.encode b0 c0).1.seqc = 3 ∧ (e0.encode b0 c0).1.curMt = 3 := by decide +kernel
/-- a stale low-level state (frames, template, bytesLeft, other min/max left behind) changes nothing (`encodeLL_state_indep`) -/
example : (({ e0.toLL with frames := [[1, 2, 3], []], tmpl := [7], bytesLeft := 11, min := 3, max := 9 } : EncLL).encode b0 c0).2
    = frames0 := by decide +kernel

/-- what the registered tiler finds -/
example : tileFrames frames0 = some
    [ ⟨1, [⟨0, [9]⟩], 39, 64⟩,
      ⟨1, [⟨4, (ramp 200).take 76⟩], 0, 100⟩,
      ⟨1, [⟨8, ((ramp 200).drop 76).take 76⟩], 0, 100⟩,
      ⟨1, [⟨12, (ramp 200).drop 152⟩], 0, 72⟩,
      ⟨3, [⟨0, [1, 2, 3]⟩, ⟨0, [4, 5]⟩], 19, 64⟩ ] := by decide +kernel

/-- what the header-keeping tiler finds: the header bytes are the encoder's ids 5 / 7 (NOT the packets' 99 / 98), version 2,
    counters 65535, 0, 1, 2, 3, and each packet's own timestamp / interface id (type 1) or vendor id (type 3) / flags -/
example : tileFramesH frames0 = some
    [ ⟨[2, 0, 0, 5, 1, 7, 255, 255], [⟨[1, 2, 3, 4, 5, 6, 7, 8, 10, 11, 12, 13, 0xF3, 1, 0, 1], [9]⟩], 39, 64⟩,
      ⟨[2, 0, 0, 5, 1, 7, 0, 0], [⟨[0, 0, 0, 0, 0, 0, 0, 1, 10, 11, 12, 13, 0xF7, 1, 0, 76], (ramp 200).take 76⟩], 0, 100⟩,
      ⟨[2, 0, 0, 5, 1, 7, 0, 1], [⟨[0, 0, 0, 0, 0, 0, 0, 1, 10, 11, 12, 13, 0xFB, 1, 0, 76], ((ramp 200).drop 76).take 76⟩], 0, 100⟩,
      ⟨[2, 0, 0, 5, 1, 7, 0, 2], [⟨[0, 0, 0, 0, 0, 0, 0, 1, 10, 11, 12, 13, 0xFF, 1, 0, 48], (ramp 200).drop 152⟩], 0, 72⟩,
      ⟨[2, 0, 0, 5, 3, 7, 0, 3], [⟨[0, 0, 0, 0, 0, 0, 0, 2, 0, 0, 0x12, 0x34, 0xF3, 1, 0, 3], [1, 2, 3]⟩,
                                  ⟨[0, 0, 0, 0, 0, 0, 0, 3, 0, 0, 0x12, 0x34, 0xF3, 1, 0, 2], [4, 5]⟩], 19, 64⟩ ] := by
  decide +kernel

/-- the header the theorem predicts for frame 0, as a literal -/
example : frameHeader (2 % 256) e0.dev 1 e0.stream ((e0.seqc + 0 + 1) % 65536) = [2, 0, 0, 5, 1, 7, 255, 255] := by decide
example : frameHeader (2 % 256) e0.dev 3 e0.stream ((e0.seqc + 4 + 1) % 65536) = [2, 0, 0, 5, 3, 7, 0, 3] := by decide
/-- the message headers the theorem predicts, as literals -/
example : b0.flatMap (fun p => (pieceShape c0.cap p.data.length).map fun sl => msgHeader p sl.1 sl.2) =
    [ [1, 2, 3, 4, 5, 6, 7, 8, 10, 11, 12, 13, 0xF3, 1, 0, 1],
      [0, 0, 0, 0, 0, 0, 0, 1, 10, 11, 12, 13, 0xF7, 1, 0, 76],
      [0, 0, 0, 0, 0, 0, 0, 1, 10, 11, 12, 13, 0xFB, 1, 0, 76],
      [0, 0, 0, 0, 0, 0, 0, 1, 10, 11, 12, 13, 0xFF, 1, 0, 48],
      [0, 0, 0, 0, 0, 0, 0, 2, 0, 0, 0x12, 0x34, 0xF3, 1, 0, 3],
      [0, 0, 0, 0, 0, 0, 0, 3, 0, 0, 0x12, 0x34, 0xF3, 1, 0, 2] ] := by decide +kernel
example : b0.map (fun p => pieceShape c0.cap p.data.length) =
    [[(0, 1)], [(4, 76), (8, 76), (12, 48)], [(0, 3)], [(0, 2)]] := by decide +kernel

/-- the predicates evaluate to `true` on the tiler's output … -/
example : (tileFrames frames0).map (P_C07 c0 (b0.map Packet.data)) = some true := by decide +kernel
example : (tileFrames frames0).map (P_C07S c0 (b0.map Packet.data)) = some true := by decide +kernel
example : (tileFrames frames0).map (P_C08 c0 (b0.map fun p => (p.mt, p.data.length))) = some true := by decide +kernel

/-- … and the theorems of this file apply to the example -/
example := C07_wire_headers e0 b0 c0 c0_ok b0_ok
example := C07_per_packet e0 b0 c0 c0_ok b0_ok
example := C07_strong_bytes e0 b0 c0 c0_ok b0_ok
example := C07_frame_lengths e0 b0 c0 c0_ok

/-- an `Encoder` object with garbage in every scratch member (as an aborted call could leave it) -/
def s0 : Encoder_St :=
  ofLL { min := 3, max := 9, dev := 5, stream := 7, tmpl := [7, 7], bytesLeft := 11, seqc := 65534, mt := 3,
         frames := [[1, 2, 3], []] }
example := C07_src_end_to_end s0 b0 c0 65536 c0_ok (by decide) b0_ok (by decide)
example := C07_src_single s0 (pk 1 1 (ramp 200)) c0 65536 c0_ok (by decide) (by decide +kernel) (by decide)
example := C07_src_empty s0 c0 65536 c0_ok (by decide) (by decide)
example : encOf s0 = e0 := rfl
example := C07_lowlevel_any (toLL s0) b0 c0 c0_ok b0_ok

/-- and the TRANSLATED SOURCE itself, run by the kernel on that object and batch, returns exactly the five frames written out
    above (both range overloads), with clean scratch members, counter 3, ids kept -/
example : (Encoder_encode_range_obj 65536 s0 (b0.map pktIn) 64 100).map (·.2) = some frames0 := by decide +kernel
example : (Encoder_encode_ptrRange_obj 65536 s0 (b0.map pktIn) 64 100).map (·.2) = some frames0 := by decide +kernel
example : (Encoder_encode_range_obj 65536 s0 (b0.map pktIn) 64 100).map
      (fun r => (r.1.f_cmpFrames, r.1.f_cmpFrameTemplate, r.1.f_bytesLeft, r.1.f_sequenceCounter, r.1.f_deviceId, r.1.f_streamId))
    = some ([], [], 0, 3, 5, 7) := by decide +kernel
/-- the single-packet overload on the 200-byte packet: three frames (counters 65535, 0, 1) -/
example : (Encoder_encode_obj 65536 s0 (pktIn (pk 1 1 (ramp 200))) 64 100).map (fun r => r.2.map List.length)
    = some [100, 100, 72] := by decide +kernel
/-- the empty range -/
example : (Encoder_encode_range_obj 65536 s0 [] 64 100).map (·.2) = some [] := by decide +kernel

/-! ### the predicates discriminate: corrupted frames are rejected -/

/-- one padding byte of frame 0 set to 1: the tiler fails -/
example : tileFrames [writeAt (frames0.getD 0 []) 63 [1]] = none := by decide +kernel
/-- padding byte 40 set to 1: the tiler reads it as the length field of a further message (body: one zero byte), so it does not
    fail, but the byte-conservation clause of `P_C07` does -/
example : (tileFrames [writeAt (frames0.getD 0 []) 40 [1]]).map (P_C07 c0 [[9]]) = some false := by decide +kernel
/-- frame 0 cut to min - 1 = 63 bytes: tiles (25 bytes + 38 zeros), but `P_C07` is false (shorter than min) -/
example : (tileFrames [(frames0.getD 0 []).take 63]).map (P_C07 c0 [[9]]) = some false := by decide +kernel
/-- frame 0 padded one byte beyond min: `P_C07` is false (padding although longer than min) -/
example : (tileFrames [frames0.getD 0 [] ++ [0]]).map (P_C07 c0 [[9]]) = some false := by decide +kernel
/-- frame 0 alone does satisfy it (so the three verdicts above are due to the corruption) -/
example : (tileFrames [frames0.getD 0 []]).map (P_C07 c0 [[9]]) = some true := by decide +kernel
/-- a frame of max + 1 bytes is rejected -/
example : (tileFrames [[2, 0, 0, 5, 1, 7, 0, 0,  0, 0, 0, 0, 0, 0, 0, 1, 10, 11, 12, 13, 0xF3, 1, 0, 77] ++ ramp 77]).map
    (P_C07 c0 [ramp 77]) = some false := by decide +kernel
/-- a lost payload byte (declared 76, only 75 present, nothing behind): the tiler fails -/
example : tileFrame ((frames0.getD 1 []).take 99) = none := by decide +kernel
/-- two payload bytes swapped: `P_C07` is false -/
example : (tileFrames (frames0.take 4 |>.map fun b => if b.length = 72 then writeAt b 24 [153, 152] else b)).map
    (P_C07 c0 ((b0.take 2).map Packet.data)) = some false := by decide +kernel
example : (tileFrames (frames0.take 4)).map (P_C07 c0 ((b0.take 2).map Packet.data)) = some true := by decide +kernel

/-! ### FINDING 1 and FINDING 3 are real for `P_C07` / `P_C08` on their own — and closed by the statements of this file -/

/-- FINDING 1 witnessed: overwrite device id, stream id, counter, reserved byte and version of frame 0 and the timestamp of its
    message — the registered tiler returns the very same `SFrame`, so `P_C07` and `P_C08` cannot notice … -/
def frame0_bad : Bytes := writeAt (writeAt (frames0.getD 0 []) 0 [9, 9, 9, 9]) 5 [9, 9, 9, 9, 9, 9]
theorem P_C07_blind_to_headers : tileFrame frame0_bad = tileFrame (frames0.getD 0 []) ∧ frame0_bad ≠ frames0.getD 0 [] := by
  decide +kernel
/-- … while the header-keeping tiler sees it, and `C07_wire_headers` excludes it (the header must be `frameHeader …`) -/
example : (tileFrameH frame0_bad).map (·.hdr) = some [9, 9, 9, 9, 1, 9, 9, 9] := by decide +kernel
example : (tileFrameH (frames0.getD 0 [])).map (·.hdr) = some [2, 0, 0, 5, 1, 7, 255, 255] := by decide +kernel

/-- FINDING 3 witnessed (a): a frame whose only message is header-only (length 0), the payload following in the next frame:
    `P_C07` ALONE says true; `P_C07S` says false -/
def hdrOnly : List Bytes :=
  [ [2, 0, 0, 5, 1, 7, 0, 1,  0, 0, 0, 0, 0, 0, 0, 1, 0, 0, 0, 0, 0, 1, 0, 0] ++ zeros 40,
    [2, 0, 0, 5, 1, 7, 0, 2,  0, 0, 0, 0, 0, 0, 0, 1, 0, 0, 0, 0, 0, 1, 0, 1,  9] ++ zeros 39 ]
theorem P_C07_alone_accepts_header_only :
    (tileFrames hdrOnly).map (P_C07 c0 [[9]]) = some true ∧ (tileFrames hdrOnly).map (P_C07S c0 [[9]]) = some false := by
  decide +kernel

/-- FINDING 3 witnessed (a'), and a correction to item 6 of the review ("non-zero padding … makes tileFrames = none or
    P_C07 = false"): set the FIRST padding byte of frame 0 to 1.  The tiler reads the 16 bytes as a header-only message, the rest
    as padding, and `P_C07` ALONE says true — non-zero "padding" accepted.  `P_C07S` (and `P_C08`) say false. -/
theorem P_C07_alone_accepts_nonzero_padding :
    (tileFrames [writeAt (frames0.getD 0 []) 25 [1]]).map (P_C07 c0 [[9]]) = some true ∧
    (tileFrames [writeAt (frames0.getD 0 []) 25 [1]]).map (P_C07S c0 [[9]]) = some false ∧
    (tileFrames [writeAt (frames0.getD 0 []) 25 [1]]).map (P_C08 c0 [(1, 1)]) = some false := by
  decide +kernel

/-- FINDING 3 witnessed (b): a message holding the tail of packet 1 and the head of packet 2: `P_C07` ALONE says true;
    `P_C07S` says false -/
def mixed : List Bytes :=
  [ [2, 0, 0, 5, 1, 7, 0, 1,  0, 0, 0, 0, 0, 0, 0, 1, 0, 0, 0, 0, 0, 1, 0, 1,  1,
                              0, 0, 0, 0, 0, 0, 0, 1, 0, 0, 0, 0, 0, 1, 0, 2,  2, 3,
                              0, 0, 0, 0, 0, 0, 0, 2, 0, 0, 0, 0, 0, 1, 0, 1,  4] ++ zeros 4 ]
theorem P_C07_alone_accepts_mixed_message :
    (tileFrames mixed).map (P_C07 c0 [[1, 2], [3, 4]]) = some true ∧
    (tileFrames mixed).map (P_C07S c0 [[1, 2], [3, 4]]) = some false := by
  decide +kernel
/-- the correct cut of the same payloads is accepted by both -/
example :
    (tileFrames [[2, 0, 0, 5, 1, 7, 0, 1,  0, 0, 0, 0, 0, 0, 0, 1, 0, 0, 0, 0, 0, 1, 0, 2,  1, 2,
                                           0, 0, 0, 0, 0, 0, 0, 2, 0, 0, 0, 0, 0, 1, 0, 2,  3, 4] ++ zeros 20]).map
      (P_C07S c0 [[1, 2], [3, 4]]) = some true := by decide +kernel

end Ex

end AsamCmp.C07S
-- rebuild
