/-
  C04S  strengthening of C04 (decoded packets report exactly what is on the wire).

  The C04 theorems compare `decode` with `specPacket`, whose payload is the model's own `create`.  Here the
  acceptance rules of the seven typed payload kinds are written down a second time, from the ASAM CMP
  tables (offsets, masks, message / payload type numbers as literals, positions counted from the start of
  the payload instead of the model's `drop`s), `create` is proved EQUAL to that table, and the C04 theorems
  are restated against a packet specification that does not mention `create`, `validatorOf` or any of the
  model's validators.
-/
import AsamCmp.Props.C04
import AsamCmp.Props.GenChecks
import AsamCmp.Props.SrcDecoderTotal
namespace AsamCmp.C04S
open AsamCmp AsamCmp.C04
set_option linter.unusedSimpArgs false

/-! ## 1. specification-side acceptance rules (ASAM CMP payload formats) -/

namespace Spec

/-- CAN / CAN-FD data message payload: 16 header bytes (flags u16 @0, reserved u16 @2, id u32 @4, crc u32 @8,
    error position u16 @12, dlc u8 @14, data length u8 @15) + data.  Accepted iff the header is there, no
    error flag (bits 9..0 of the flags) is set, no error position is reported, and the declared data
    length lies inside the payload. -/
def canOk (b : Bytes) : Prop :=
  16 ≤ b.length ∧ beAt b 0 2 &&& 0x03FF = 0 ∧ beAt b 12 2 = 0 ∧ 16 + byteAt b 15 ≤ b.length

/-- LIN: 8 header bytes, data length u8 @7 -/
def linOk (b : Bytes) : Prop := 8 ≤ b.length ∧ 8 + byteAt b 7 ≤ b.length

/-- Ethernet: 6 header bytes (flags u16 @0, reserved u16 @2, data length u16 @4); error flags are
    bits 0, 1, 3, 4, 5 (FCS error, frame too short, collision, frame too long, PHY error) -/
def ethOk (b : Bytes) : Prop :=
  6 ≤ b.length ∧ beAt b 0 2 &&& 0x003B = 0 ∧ 6 + beAt b 4 2 ≤ b.length

/-- Analog: 16 header bytes, sample data type = bits 1..0 of the flags' low byte @1: 0 = int16, 1 = int32 -/
def analogOk (b : Bytes) : Prop := 16 ≤ b.length ∧ byteAt b 1 &&& 3 ≤ 1

/-- `n` blocks, each a u16 length followed by that many bytes, starting at byte `pos` lie inside `b` -/
def blocksAt (b : Bytes) : Nat → Nat → Prop
  | 0, _ => True
  | n+1, pos => pos + 2 ≤ b.length ∧ pos + 2 + beAt b pos 2 ≤ b.length ∧ blocksAt b n (pos + 2 + beAt b pos 2)

instance (b : Bytes) : ∀ n pos, Decidable (blocksAt b n pos)
  | 0, _ => isTrue trivial
  | n+1, pos => by
    unfold blocksAt
    have := instDecidableBlocksAt b n (pos + 2 + beAt b pos 2)
    exact inferInstance

/-- Capture-module status: 26 header bytes, then device description, serial number, hardware version,
    software version (length-prefixed strings) and the length-prefixed vendor data -/
def cmOk (b : Bytes) : Prop := 26 ≤ b.length ∧ blocksAt b 5 26

/-- Interface status: 36 header bytes (interface status u8 @29: 0 down/disabled, 1 down/enabled, 2 up),
    stream id count u16 @36, the stream ids (padded to an even number of bytes), vendor data length u16,
    vendor data -/
def ifOk (b : Bytes) : Prop :=
  40 ≤ b.length ∧ byteAt b 29 ≤ 2 ∧
    40 + (beAt b 36 2 + beAt b 36 2 % 2) ≤ b.length ∧
    40 + (beAt b 36 2 + beAt b 36 2 % 2) + beAt b (38 + (beAt b 36 2 + beAt b 36 2 % 2)) 2 ≤ b.length

/-- which payloads of (message type, payload type) are delivered typed: data messages (message type 1)
    CAN 1, CAN-FD 2, LIN 3, analog 7, Ethernet 8; status messages (message type 3) capture-module status 1,
    interface status 2; every other combination has no inner structure the library knows -/
def accepts (mt pt : Nat) (b : Bytes) : Prop :=
  if mt = 1 then
    if pt = 1 ∨ pt = 2 then canOk b
    else if pt = 3 then linOk b
    else if pt = 7 then analogOk b
    else if pt = 8 then ethOk b
    else True
  else if mt = 3 then
    if pt = 1 then cmOk b
    else if pt = 2 then ifOk b
    else True
  else True

instance (b : Bytes) : Decidable (canOk b) := by unfold canOk; exact inferInstance
instance (b : Bytes) : Decidable (linOk b) := by unfold linOk; exact inferInstance
instance (b : Bytes) : Decidable (ethOk b) := by unfold ethOk; exact inferInstance
instance (b : Bytes) : Decidable (analogOk b) := by unfold analogOk; exact inferInstance
instance (b : Bytes) : Decidable (cmOk b) := by unfold cmOk; exact inferInstance
instance (b : Bytes) : Decidable (ifOk b) := by unfold ifOk; exact inferInstance
instance (mt pt : Nat) (b : Bytes) : Decidable (accepts mt pt b) := by unfold accepts; exact inferInstance

/-- the payload the decoder must report for a message of message type `mt`, payload type `pt`, payload
    bytes `b`: type, length and bytes of the wire when accepted; type 0 (`PayloadType::invalid`), the
    declared length and no byte of the wire otherwise -/
def payload (mt pt : Nat) (b : Bytes) : Payload :=
  if accepts mt pt b then ⟨mt * 256 + pt, b⟩ else ⟨0, zeros b.length⟩

end Spec

/-! ## 2. the model's validators are the table's rules -/

theorem canValid_iff (b : Bytes) : canValid b = true ↔ Spec.canOk b := by
  simp only [canValid, Spec.canOk, Bool.and_eq_true, decide_eq_true_eq, beq_iff_eq]
  omega

theorem linValid_iff (b : Bytes) : linValid b = true ↔ Spec.linOk b := by
  simp only [linValid, Spec.linOk, Bool.and_eq_true, decide_eq_true_eq]
  omega

theorem ethValid_iff (b : Bytes) : ethValid b = true ↔ Spec.ethOk b := by
  simp only [ethValid, Spec.ethOk, Bool.and_eq_true, decide_eq_true_eq, beq_iff_eq]
  omega

theorem analogValid_iff (b : Bytes) : analogValid b = true ↔ Spec.analogOk b := by
  simp only [analogValid, Spec.analogOk, Bool.and_eq_true, decide_eq_true_eq]

theorem blocksOk_iff (b : Bytes) : ∀ n pos, pos ≤ b.length → (blocksOk n (b.drop pos) = true ↔ Spec.blocksAt b n pos) := by
  intro n
  induction n with
  | zero => intro pos _; simp [blocksOk, Spec.blocksAt]
  | succ n ih =>
    intro pos hp
    have e : beDec ((b.drop pos).take 2) = beAt b pos 2 := rfl
    unfold blocksOk Spec.blocksAt
    simp only [List.length_drop, e, List.drop_drop]
    by_cases h1 : b.length - pos < 2
    · simp only [h1, if_true]
      constructor
      · intro h; cases h
      · intro h; omega
    · simp only [h1, if_false]
      by_cases h2 : b.length - (pos + 2) < beAt b pos 2
      · simp only [h2, if_true]
        constructor
        · intro h; cases h
        · intro h; omega
      · simp only [h2, if_false]
        rw [show pos + 2 + beAt b pos 2 = pos + 2 + beAt b pos 2 from rfl]
        have := ih (pos + 2 + beAt b pos 2) (by omega)
        rw [this]
        constructor
        · intro h; exact ⟨by omega, by omega, h⟩
        · intro h; exact h.2.2

theorem cmValid_iff (b : Bytes) : cmValid b = true ↔ Spec.cmOk b := by
  simp only [cmValid, Spec.cmOk, Bool.and_eq_true, decide_eq_true_eq]
  constructor
  · intro ⟨h1, h2⟩; exact ⟨h1, (blocksOk_iff b 5 26 h1).1 h2⟩
  · intro ⟨h1, h2⟩; exact ⟨h1, (blocksOk_iff b 5 26 h1).2 h2⟩

theorem ifValid_iff (b : Bytes) : ifValid b = true ↔ Spec.ifOk b := by
  simp only [ifValid, Spec.ifOk, Bool.and_eq_true, decide_eq_true_eq]
  omega

/-! ## 3. `Packet::create` is the table -/

theorem accepts_other (ty : Nat) (b : Bytes)
    (h : ty ≠ 0x0101 ∧ ty ≠ 0x0102 ∧ ty ≠ 0x0103 ∧ ty ≠ 0x0107 ∧ ty ≠ 0x0108 ∧ ty ≠ 0x0301 ∧ ty ≠ 0x0302) :
    Spec.accepts (ty / 256) (ty % 256) b := by
  unfold Spec.accepts
  split
  · split
    · omega
    · split
      · omega
      · split
        · omega
        · split
          · omega
          · trivial
  · split
    · split
      · omega
      · split
        · omega
        · trivial
    · trivial

/-- EXACT characterisation of `Packet::create` for every 16-bit-or-wider type value and every byte string:
    type 0 is invalid; otherwise the payload is reported with the type, length and bytes handed in iff the
    table accepts it, and as type 0 / same length / zero bytes iff not -/
theorem create_exact (ty : Nat) (b : Bytes) :
    create ty b = if ty = 0 then ⟨0, zeros b.length⟩ else Spec.payload (ty / 256) (ty % 256) b := by
  have hty : ty / 256 * 256 + ty % 256 = ty := by omega
  by_cases h1 : ty = 0x0101
  · subst h1
    by_cases hv : canValid b = true
    · have := (canValid_iff b).1 hv
      simp [create, validatorOf, tyCan, Spec.payload, Spec.accepts, hv, this]
    · have : ¬ Spec.canOk b := fun h => hv ((canValid_iff b).2 h)
      simp [create, validatorOf, tyCan, Spec.payload, Spec.accepts, hv, this]
  by_cases h2 : ty = 0x0102
  · subst h2
    by_cases hv : canValid b = true
    · have := (canValid_iff b).1 hv
      simp [create, validatorOf, tyCan, tyCanFd, Spec.payload, Spec.accepts, hv, this]
    · have : ¬ Spec.canOk b := fun h => hv ((canValid_iff b).2 h)
      simp [create, validatorOf, tyCan, tyCanFd, Spec.payload, Spec.accepts, hv, this]
  by_cases h3 : ty = 0x0103
  · subst h3
    by_cases hv : linValid b = true
    · have := (linValid_iff b).1 hv
      simp [create, validatorOf, tyCan, tyCanFd, tyLin, Spec.payload, Spec.accepts, hv, this]
    · have : ¬ Spec.linOk b := fun h => hv ((linValid_iff b).2 h)
      simp [create, validatorOf, tyCan, tyCanFd, tyLin, Spec.payload, Spec.accepts, hv, this]
  by_cases h4 : ty = 0x0107
  · subst h4
    by_cases hv : analogValid b = true
    · have := (analogValid_iff b).1 hv
      simp [create, validatorOf, tyCan, tyCanFd, tyLin, tyAnalog, Spec.payload, Spec.accepts, hv, this]
    · have : ¬ Spec.analogOk b := fun h => hv ((analogValid_iff b).2 h)
      simp [create, validatorOf, tyCan, tyCanFd, tyLin, tyAnalog, Spec.payload, Spec.accepts, hv, this]
  by_cases h5 : ty = 0x0108
  · subst h5
    by_cases hv : ethValid b = true
    · have := (ethValid_iff b).1 hv
      simp [create, validatorOf, tyCan, tyCanFd, tyLin, tyAnalog, tyEth, Spec.payload, Spec.accepts, hv, this]
    · have : ¬ Spec.ethOk b := fun h => hv ((ethValid_iff b).2 h)
      simp [create, validatorOf, tyCan, tyCanFd, tyLin, tyAnalog, tyEth, Spec.payload, Spec.accepts, hv, this]
  by_cases h6 : ty = 0x0301
  · subst h6
    by_cases hv : cmValid b = true
    · have := (cmValid_iff b).1 hv
      simp [create, validatorOf, tyCan, tyCanFd, tyLin, tyAnalog, tyEth, tyCm, Spec.payload, Spec.accepts, hv, this]
    · have : ¬ Spec.cmOk b := fun h => hv ((cmValid_iff b).2 h)
      simp [create, validatorOf, tyCan, tyCanFd, tyLin, tyAnalog, tyEth, tyCm, Spec.payload, Spec.accepts, hv, this]
  by_cases h7 : ty = 0x0302
  · subst h7
    by_cases hv : ifValid b = true
    · have := (ifValid_iff b).1 hv
      simp [create, validatorOf, tyCan, tyCanFd, tyLin, tyAnalog, tyEth, tyCm, tyIf, Spec.payload, Spec.accepts, hv, this]
    · have : ¬ Spec.ifOk b := fun h => hv ((ifValid_iff b).2 h)
      simp [create, validatorOf, tyCan, tyCanFd, tyLin, tyAnalog, tyEth, tyCm, tyIf, Spec.payload, Spec.accepts, hv, this]
  have ha := accepts_other ty b ⟨h1, h2, h3, h4, h5, h6, h7⟩
  have hn : validatorOf ty = none := by
    simp [validatorOf, tyCan, tyCanFd, tyLin, tyAnalog, tyEth, tyCm, tyIf, h1, h2, h3, h4, h5, h6, h7]
  unfold create Spec.payload
  rw [hn, if_pos ha, hty]

/-- the form the decoder uses: message type from the frame header, payload type from the message header -/
theorem create_wire (mt pt : Nat) (hpt : 1 ≤ pt) (hpt' : pt < 256) (b : Bytes) :
    create (mt * 256 + pt) b = Spec.payload mt pt b := by
  rw [create_exact, if_neg (by omega)]
  have e1 : (mt * 256 + pt) / 256 = mt := by omega
  have e2 : (mt * 256 + pt) % 256 = pt := by omega
  rw [e1, e2]

/-! ## 4. C04 restated against a specification that does not mention `create` -/

/-- the packet the decoder must report for message `m` of frame `F`; every field is a field of the wire
    structures `WFrame` / `WMsg`, the payload is decided by the table `Spec.accepts` -/
def specPacket (F : WFrame) (m : WMsg) : Packet :=
  { payload := some (Spec.payload F.mt m.ptype m.body), version := F.ver, deviceId := F.dev, streamId := F.stream,
    seq := 0, ts := m.ts, ifId := if F.mt = 1 then m.idw else 0,
    vendorId := if F.mt = 3 ∨ F.mt = 0xFF then m.idw % 65536 else 0, flags := m.flags, segType := 0 }

theorem specPacket_eq (F : WFrame) (m : WMsg) (hm : m.WF) : C04.specPacket F m = specPacket F m := by
  unfold C04.specPacket specPacket
  rw [create_wire F.mt m.ptype hm.2.2.2.2.1 hm.2.2.2.2.2.1]

theorem map_specPacket (F : WFrame) (l : List WMsg) (hl : ∀ m ∈ l, m.WF) :
    l.map (C04.specPacket F) = l.map (specPacket F) :=
  List.map_congr_left fun m hm => specPacket_eq F m (hl m hm)

/-- C04 (A)–(D): whole frame, any decoder history, payload type / length / bytes given by the table -/
theorem C04S_wire (F : WFrame) (hF : F.WF) (d : DecState) :
    (decode d (some F.bytes)).2 = F.msgs.map (specPacket F) := by
  rw [C04_wire F hF d, map_specPacket F F.msgs hF.2.2.2.2.2.2.2]

/-- (H) zero padding -/
theorem C04S_pad (F : WFrame) (hF : F.WF) (d : DecState) (k : Nat) :
    (decode d (some (F.bytes ++ zeros k))).2 = F.msgs.map (specPacket F) := by
  rw [C04_pad F hF d k, map_specPacket F F.msgs hF.2.2.2.2.2.2.2]

/-- (G) truncation at any offset -/
theorem C04S_truncate (F : WFrame) (hF : F.WF) (d : DecState) (n : Nat) :
    (decode d (some (F.bytes.take n))).2 = (F.msgs.take (fitCount (n - 8) F.msgs)).map (specPacket F) := by
  rw [C04_truncate F hF d n]
  exact map_specPacket F _ fun m hm => hF.2.2.2.2.2.2.2 m (List.mem_of_mem_take hm)

/-- (B) the `i`-th packet is the `i`-th message's -/
theorem C04S_nth (F : WFrame) (hF : F.WF) (d : DecState) (i : Nat) (hi : i < F.msgs.length) :
    (decode d (some F.bytes)).2[i]? = some (specPacket F F.msgs[i]) := by
  rw [C04S_wire F hF d, List.getElem?_map, List.getElem?_eq_getElem hi]
  rfl

/-- any history: whatever buffers (CMP frames of any endpoint, segments, TECMP messages, garbage, null pointers)
    were decoded before, interleaved in any way, on a decoder started in any state -/
theorem C04S_history (F : WFrame) (hF : F.WF) (d0 : DecState) (hist : List (Option Bytes)) :
    (decode (decodeAll tecmpDecode d0 hist).1 (some F.bytes)).2 = F.msgs.map (specPacket F) :=
  C04S_wire F hF _

/-! ### what the getters of a reported packet return -/

/-- (C) header-derived getters -/
theorem spec_header_getters (F : WFrame) (m : WMsg) :
    (specPacket F m).version = F.ver ∧ (specPacket F m).deviceId = F.dev ∧ (specPacket F m).streamId = F.stream ∧
    (specPacket F m).ts = m.ts ∧ (specPacket F m).flags = m.flags ∧
    (F.mt = 1 → (specPacket F m).ifId = m.idw) ∧
    (F.mt = 3 ∨ F.mt = 0xFF → (specPacket F m).vendorId = m.idw % 65536) := by
  refine ⟨rfl, rfl, rfl, rfl, rfl, ?_, ?_⟩
  · intro h; simp [specPacket, h]
  · intro h; simp [specPacket, h]

/-- (D) payload-derived getters of an accepted payload: message type, raw payload type, length (`getPayloadLength`,
    `getLength`) and bytes are the wire's -/
theorem spec_payload_getters (F : WFrame) (hF : F.WF) (m : WMsg) (hm : m.WF) (ha : Spec.accepts F.mt m.ptype m.body) :
    (specPacket F m).payload = some ⟨F.mt * 256 + m.ptype, m.body⟩ ∧
    (specPacket F m).mt = F.mt ∧ (specPacket F m).rawType = m.ptype ∧ (specPacket F m).data = m.body ∧
    (specPacket F m).payloadLength = m.body.length ∧ ((specPacket F m).isValid = true ↔ F.mt ≠ 0) := by
  have h5 := hF.2.2.2.2.1
  have p1 := hm.2.2.2.2.1
  have p2 := hm.2.2.2.2.2.1
  have p3 := hm.2.2.2.2.2.2
  have e : (specPacket F m).payload = some ⟨F.mt * 256 + m.ptype, m.body⟩ := by
    simp [specPacket, Spec.payload, ha]
  refine ⟨e, ?_, ?_, ?_, ?_, ?_⟩
  · simp only [Packet.mt, e, Payload.mt]; omega
  · simp only [Packet.rawType, e, Payload.raw]; omega
  · simp only [Packet.data, e]
  · simp only [Packet.payloadLength, e]; omega
  · simp only [Packet.isValid, e, Payload.isValid, Payload.raw, Payload.mt, Bool.and_eq_true, bne_iff_ne, ne_eq]
    constructor
    · intro h; omega
    · intro h; constructor <;> omega

/-- (E)(F) getters of a rejected payload: marked invalid (type 0, so message type 0 and raw type 0, `isValid()` false), the
    declared length kept (so the walk to the next message is unaffected), and no byte of the wire handed out -/
theorem spec_rejected_getters (F : WFrame) (m : WMsg) (hm : m.WF) (ha : ¬ Spec.accepts F.mt m.ptype m.body) :
    (specPacket F m).payload = some ⟨0, zeros m.body.length⟩ ∧
    (specPacket F m).mt = 0 ∧ (specPacket F m).rawType = 0 ∧ (specPacket F m).data = zeros m.body.length ∧
    (specPacket F m).payloadLength = m.body.length ∧ (specPacket F m).isValid = false := by
  have p3 := hm.2.2.2.2.2.2
  have e : (specPacket F m).payload = some ⟨0, zeros m.body.length⟩ := by
    simp [specPacket, Spec.payload, ha]
  refine ⟨e, ?_, ?_, ?_, ?_, ?_⟩
  · simp only [Packet.mt, e, Payload.mt]
  · simp only [Packet.rawType, e, Payload.raw]
  · simp only [Packet.data, e]
  · simp only [Packet.payloadLength, e, zeros, List.length_replicate]; omega
  · simp only [Packet.isValid, e]; rfl

/-- the length every reported packet carries is the wire's length field, accepted or not: advancing by
    `getPayloadLength() + 16` (decoder.cpp) and advancing by the header field are the same thing -/
theorem spec_payloadLength (F : WFrame) (m : WMsg) (hm : m.WF) : (specPacket F m).payloadLength = m.body.length := by
  by_cases ha : Spec.accepts F.mt m.ptype m.body
  · have p3 := hm.2.2.2.2.2.2
    have e : (specPacket F m).payload = some ⟨F.mt * 256 + m.ptype, m.body⟩ := by
      simp [specPacket, Spec.payload, ha]
    simp only [Packet.payloadLength, e]; omega
  · exact (spec_rejected_getters F m hm ha).2.2.2.2.1

/-! ## 5. (E) / (F): WHICH payloads are marked invalid -/

/-- "(CAN, CAN-FD, Ethernet) that carries bus-error flags": data message (message type 1) of payload type CAN 1 / CAN-FD 2
    with one of the flag bits 9..0 set, or of payload type Ethernet 8 with one of the flag bits 0, 1, 3, 4, 5 set -/
def BusError (mt pt : Nat) (b : Bytes) : Prop :=
  mt = 1 ∧ (((pt = 1 ∨ pt = 2) ∧ beAt b 0 2 &&& 0x03FF ≠ 0) ∨ (pt = 8 ∧ beAt b 0 2 &&& 0x003B ≠ 0))

/-- "a payload whose inner structure is inconsistent with its length": the fixed header of the payload kind or what the
    header's own length fields announce does not fit into the payload -/
def InnerBad (mt pt : Nat) (b : Bytes) : Prop :=
  (mt = 1 ∧ (pt = 1 ∨ pt = 2) ∧ b.length < 16 + byteAt b 15) ∨
  (mt = 1 ∧ pt = 3 ∧ b.length < 8 + byteAt b 7) ∨
  (mt = 1 ∧ pt = 7 ∧ b.length < 16) ∨
  (mt = 1 ∧ pt = 8 ∧ b.length < 6 + beAt b 4 2) ∨
  (mt = 3 ∧ pt = 1 ∧ ¬ (26 ≤ b.length ∧ Spec.blocksAt b 5 26)) ∨
  (mt = 3 ∧ pt = 2 ∧ (b.length < 40 + (beAt b 36 2 + beAt b 36 2 % 2) ∨
     b.length < 40 + (beAt b 36 2 + beAt b 36 2 % 2) + beAt b (38 + (beAt b 36 2 + beAt b 36 2 % 2)) 2))

/-- three further reasons for which the library marks a payload invalid and which the text of C04 does NOT name:
    a CAN / CAN-FD error position ≠ 0 (without any error flag), an analog sample data type other than int16 / int32,
    an interface status above 2 -/
def OtherReject (mt pt : Nat) (b : Bytes) : Prop :=
  (mt = 1 ∧ (pt = 1 ∨ pt = 2) ∧ beAt b 12 2 ≠ 0) ∨
  (mt = 1 ∧ pt = 7 ∧ 2 ≤ byteAt b 1 &&& 3) ∨
  (mt = 3 ∧ pt = 2 ∧ 2 < byteAt b 29)

instance (mt pt : Nat) (b : Bytes) : Decidable (BusError mt pt b) := by unfold BusError; exact inferInstance
instance (mt pt : Nat) (b : Bytes) : Decidable (InnerBad mt pt b) := by unfold InnerBad; exact inferInstance
instance (mt pt : Nat) (b : Bytes) : Decidable (OtherReject mt pt b) := by unfold OtherReject; exact inferInstance

/-- EXACTLY these payloads are rejected -/
theorem rejected_iff (mt pt : Nat) (b : Bytes) :
    ¬ Spec.accepts mt pt b ↔ BusError mt pt b ∨ InnerBad mt pt b ∨ OtherReject mt pt b := by
  unfold Spec.accepts BusError InnerBad OtherReject Spec.canOk Spec.linOk Spec.analogOk Spec.ethOk Spec.cmOk Spec.ifOk
  by_cases m1 : mt = 1
  · subst m1
    by_cases p1 : pt = 1
    · subst p1; simp only [Nat.reduceEqDiff, if_true, true_or, true_and, false_and, or_false, false_or, or_true]; omega
    by_cases p2 : pt = 2
    · subst p2; simp only [Nat.reduceEqDiff, if_true, true_or, true_and, false_and, or_false, false_or, or_true]; omega
    by_cases p3 : pt = 3
    · subst p3; simp only [Nat.reduceEqDiff, if_true, if_false, true_or, true_and, false_and, or_false, false_or, or_true, or_self]; omega
    by_cases p7 : pt = 7
    · subst p7; simp only [Nat.reduceEqDiff, if_true, if_false, true_or, true_and, false_and, or_false, false_or, or_true, or_self]; omega
    by_cases p8 : pt = 8
    · subst p8; simp only [Nat.reduceEqDiff, if_true, if_false, true_or, true_and, false_and, or_false, false_or, or_true, or_self]; omega
    simp only [p1, p2, p3, p7, p8, Nat.reduceEqDiff, if_true, if_false, true_and, false_and, or_false, false_or, or_self,
      not_true_eq_false]
  by_cases m3 : mt = 3
  · subst m3
    by_cases p1 : pt = 1
    · subst p1; simp only [Nat.reduceEqDiff, if_true, if_false, true_and, false_and, or_false, false_or, or_self]
    by_cases p2 : pt = 2
    · subst p2; simp only [Nat.reduceEqDiff, if_true, if_false, true_and, false_and, or_false, false_or, or_self]; omega
    simp only [p1, p2, Nat.reduceEqDiff, if_true, if_false, true_and, false_and, or_false, false_or, or_self, not_true_eq_false]
  simp only [m1, m3, if_false, false_and, or_false, or_self, not_true_eq_false]

/-- (E)+(F) for `Packet::create` itself, every message type / payload type pair the decoder can form: the invalid-marked
    payload comes back EXACTLY for the listed reasons (in particular `create` neither rejects everything nor nothing) -/
theorem create_rejected_iff (mt pt : Nat) (hpt : 1 ≤ pt) (hpt' : pt < 256) (b : Bytes) :
    create (mt * 256 + pt) b = ⟨0, zeros b.length⟩ ↔ BusError mt pt b ∨ InnerBad mt pt b ∨ OtherReject mt pt b := by
  rw [create_wire mt pt hpt hpt' b, ← rejected_iff]
  unfold Spec.payload
  by_cases ha : Spec.accepts mt pt b
  · rw [if_pos ha]
    constructor
    · intro h
      have := congrArg Payload.ty h
      simp only at this
      omega
    · intro h; exact absurd ha h
  · rw [if_neg ha]
    exact ⟨fun _ => ha, fun _ => rfl⟩

/-- (E)+(F) at `decode` level, in the property's words: a message of a well-formed frame (any position, any neighbours,
    any decoder history) whose payload carries bus-error flags or whose inner structure is inconsistent with its length
    is returned — at its place in the packet list — marked invalid: payload type 0, `isValid()` false, the declared
    length, zero bytes instead of the wire's; all header-derived fields still those of the wire -/
theorem C04S_marked_invalid (F : WFrame) (hF : F.WF) (d : DecState) (i : Nat) (hi : i < F.msgs.length)
    (h : BusError F.mt F.msgs[i].ptype F.msgs[i].body ∨ InnerBad F.mt F.msgs[i].ptype F.msgs[i].body) :
    ∃ p, (decode d (some F.bytes)).2[i]? = some p ∧ p = specPacket F F.msgs[i] ∧
      p.payload = some ⟨0, zeros F.msgs[i].body.length⟩ ∧ p.isValid = false ∧ p.rawType = 0 ∧
      p.payloadLength = F.msgs[i].body.length := by
  have hm := hF.2.2.2.2.2.2.2 F.msgs[i] (List.getElem_mem hi)
  have ha : ¬ Spec.accepts F.mt F.msgs[i].ptype F.msgs[i].body := by
    rw [rejected_iff]
    rcases h with h | h
    · exact Or.inl h
    · exact Or.inr (Or.inl h)
  obtain ⟨g1, _, g3, _, g5, g6⟩ := spec_rejected_getters F F.msgs[i] hm ha
  exact ⟨_, C04S_nth F hF d i hi, rfl, g1, g6, g3, g5⟩

/-- … and conversely ("not misparsed" in the other direction): a message is reported with the wire's payload type, length
    and bytes EXACTLY when none of the rejection reasons applies -/
theorem C04S_faithful_iff (F : WFrame) (hF : F.WF) (d : DecState) (i : Nat) (hi : i < F.msgs.length) :
    ((decode d (some F.bytes)).2[i]?.bind Packet.payload = some ⟨F.mt * 256 + F.msgs[i].ptype, F.msgs[i].body⟩ ↔
      ¬ (BusError F.mt F.msgs[i].ptype F.msgs[i].body ∨ InnerBad F.mt F.msgs[i].ptype F.msgs[i].body ∨
         OtherReject F.mt F.msgs[i].ptype F.msgs[i].body)) ∧
    ((decode d (some F.bytes)).2[i]?.bind Packet.payload = some ⟨0, zeros F.msgs[i].body.length⟩ ↔
      (BusError F.mt F.msgs[i].ptype F.msgs[i].body ∨ InnerBad F.mt F.msgs[i].ptype F.msgs[i].body ∨
         OtherReject F.mt F.msgs[i].ptype F.msgs[i].body)) := by
  have hm := hF.2.2.2.2.2.2.2 F.msgs[i] (List.getElem_mem hi)
  have p1 := hm.2.2.2.2.1
  rw [C04S_nth F hF d i hi, ← rejected_iff]
  simp only [Option.bind_some, specPacket, Spec.payload, Option.some.injEq]
  have hne : (⟨0, zeros F.msgs[i].body.length⟩ : Payload) ≠ ⟨F.mt * 256 + F.msgs[i].ptype, F.msgs[i].body⟩ := by
    intro h
    have := congrArg Payload.ty h
    simp only at this
    omega
  by_cases ha : Spec.accepts F.mt F.msgs[i].ptype F.msgs[i].body
  · rw [if_pos ha]
    exact ⟨⟨fun _ => not_not_intro ha, fun _ => rfl⟩, ⟨fun h => absurd h.symm hne, fun h => absurd ha h⟩⟩
  · rw [if_neg ha]
    exact ⟨⟨fun h => absurd h hne, fun h => absurd ha h⟩, ⟨fun _ => ha, fun _ => rfl⟩⟩

/-! ## 6. (A) the two excluded field values: a message with the error-in-payload bit or payload type 0 ends the frame -/

/-- `WMsg` with its layout, as the view the lemmas of Lemmas/Wire.lean work on -/
def view : MsgView WMsg := ⟨WMsg.bytes, WMsg.ts, WMsg.idw, WMsg.flags, WMsg.ptype, WMsg.body, fun _ => rfl⟩

theorem frame_bytes (F : WFrame) :
    F.bytes = hdr8 F.ver F.reserved F.dev F.mt F.stream F.seq ++ F.msgs.flatMap WMsg.bytes := rfl

theorem hdrWF {F : WFrame} (hF : F.WF) : HdrWF F.ver F.reserved F.dev F.mt F.stream F.seq :=
  ⟨hF.1, hF.2.1, hF.2.2.1, hF.2.2.2.1, hF.2.2.2.2.1, hF.2.2.2.2.2.1, hF.2.2.2.2.2.2.1⟩

theorem view_pkt (F : WFrame) (l : List WMsg) (hl : ∀ m ∈ l, m.WF) :
    l.map (view.pkt F.ver F.dev F.mt F.stream) = l.map (specPacket F) :=
  map_specPacket F l hl

/-- decoding a frame whose well-formed messages are followed by ANY bytes on which the message walk ends at once -/
theorem decode_tail (F : WFrame) (hF : F.WF) (d : DecState) (tail : Bytes) (t : Term)
    (ht : t = Term.done ∨ t = Term.invalid) (hw : walk (F.dev, F.stream) F.ver F.mt tail = ([], t)) :
    (decode d (some (F.bytes ++ tail))).2 = F.msgs.map (specPacket F) := by
  have hl := hF.2.2.2.2.2.2.2
  have hwm : walk (F.dev, F.stream) F.ver F.mt (F.msgs.flatMap WMsg.bytes ++ tail) =
      (F.msgs.map (view.pkt F.ver F.dev F.mt F.stream) ++ (walk (F.dev, F.stream) F.ver F.mt tail).1,
        (walk (F.dev, F.stream) F.ver F.mt tail).2) := walk_msgs view F.ver F.dev F.mt F.stream F.msgs hl tail
  rw [frame_bytes, List.append_assoc, decode_hdr d (hdrWF hF), step_unseg_only]
  · simp only [hwm, hw, List.append_nil]
    exact view_pkt F F.msgs hl
  · simp only [hwm, hw]
    exact ht

theorem bytes_length (m : WMsg) : m.bytes.length = 16 + m.body.length := by
  simp [WMsg.bytes]; omega

theorem bytes_flags (m : WMsg) (rest : Bytes) (h : m.flags < 256) : byteAt (m.bytes ++ rest) 12 = m.flags := by
  have e : m.bytes ++ rest = (beEnc 8 m.ts ++ beEnc 4 m.idw) ++ UInt8.ofNat m.flags ::
      ([UInt8.ofNat m.ptype] ++ beEnc 2 m.body.length ++ m.body ++ rest) := by
    simp [WMsg.bytes]
  rw [e, byteAt_mid _ _ _ 12 (by simp), UInt8.toNat_ofNat']
  exact Nat.mod_eq_of_lt h

theorem bytes_ptype (m : WMsg) (rest : Bytes) (h : m.ptype < 256) : byteAt (m.bytes ++ rest) 13 = m.ptype := by
  have e : m.bytes ++ rest = (beEnc 8 m.ts ++ beEnc 4 m.idw ++ [UInt8.ofNat m.flags]) ++ UInt8.ofNat m.ptype ::
      (beEnc 2 m.body.length ++ m.body ++ rest) := by
    simp [WMsg.bytes]
  rw [e, byteAt_mid _ _ _ 13 (by simp), UInt8.toNat_ofNat']
  exact Nat.mod_eq_of_lt h

/-- a message (in-range flags and payload type, anything else arbitrary) that carries the error-in-payload bit (0x40 of the
    common flags) or payload type 0 -/
def WMsg.Stops (m : WMsg) : Prop := m.flags < 256 ∧ m.ptype < 256 ∧ (m.flags &&& 0x40 ≠ 0 ∨ m.ptype = 0)

theorem walk_stops (ep : Ep) (ver mt : Nat) (m : WMsg) (hm : WMsg.Stops m) (rest : Bytes) :
    walk ep ver mt (m.bytes ++ rest) = ([], Term.invalid) := by
  have hv : msgValid (m.bytes ++ rest) = false := by
    simp only [msgValid, bytes_flags m rest hm.1, bytes_ptype m rest hm.2.1, Bool.and_eq_false_iff,
      beq_eq_false_iff_ne, bne_eq_false_iff_eq, ne_eq]
    rcases hm.2.2 with h | h
    · exact Or.inl (Or.inr h)
    · exact Or.inr h
  have h0 : ¬ (m.bytes ++ rest).length = 0 := by
    rw [List.length_append, bytes_length]; omega
  rw [walk, dif_neg h0]
  simp [hv]

/-- such a message is not delivered and nothing behind it is: the frame yields exactly the packets of the messages in
    front of it — whatever follows (further well-formed messages included), whatever the decoder history -/
theorem C04S_stop (F : WFrame) (hF : F.WF) (m : WMsg) (hm : WMsg.Stops m) (rest : Bytes) (d : DecState) :
    (decode d (some (F.bytes ++ m.bytes ++ rest))).2 = F.msgs.map (specPacket F) := by
  rw [List.append_assoc]
  exact decode_tail F hF d _ _ (Or.inr rfl) (walk_stops _ _ _ m hm rest)

/-! ## 7. (G)+(H) combined: a frame cut short and then zero-padded -/

/-- the remains of a message cut after `k` bytes, followed by `j` zero bytes, end the walk when the padded remains are
    shorter than a message header, or when the header (with its length field) survived and the padding does not make up
    for the missing payload bytes -/
theorem walk_cut_pad (ep : Ep) (ver mt : Nat) (m : WMsg) (hm : m.WF) (k j : Nat)
    (hcut : k + j < 16 ∨ (16 ≤ k ∧ k + j < 16 + m.body.length)) :
    ∃ t, (t = Term.done ∨ t = Term.invalid) ∧ walk ep ver mt (m.bytes.take k ++ zeros j) = ([], t) := by
  have hlen := bytes_length m
  have hk : k ≤ m.bytes.length := by omega
  have hrl : (m.bytes.take k ++ zeros j).length = k + j := by
    simp [hlen]; omega
  by_cases h0 : k + j = 0
  · refine ⟨.done, Or.inl rfl, ?_⟩
    have h0' : (m.bytes.take k ++ zeros j).length = 0 := by rw [hrl]; exact h0
    rw [walk, dif_pos h0']
  · refine ⟨.invalid, Or.inr rfl, ?_⟩
    have hv : msgValid (m.bytes.take k ++ zeros j) = false := by
      rcases hcut with h | ⟨h16, hkj⟩
      · have : ¬ 16 ≤ k + j := by omega
        simp [msgValid, hrl, this]
      · have hl : beAt (m.bytes.take k ++ zeros j) 14 2 = m.body.length := by
          have := msg_len view m [] hm
          rw [List.append_nil] at this
          change beAt m.bytes 14 2 = m.body.length at this
          unfold beAt slice at this ⊢
          rw [← this]
          show beDec (List.take 2 (List.drop 14 (List.take k m.bytes ++ zeros j))) = beDec (List.take 2 (List.drop 14 m.bytes))
          rw [List.drop_append_of_le_length (by rw [List.length_take]; omega),
            List.take_append_of_le_length (by rw [List.length_drop, List.length_take]; omega),
            List.drop_take, List.take_take]
          have : min 2 (k - 14) = 2 := by omega
          rw [this]
        simp only [msgValid, hrl, hl, Bool.and_eq_false_iff, decide_eq_false_iff_not]
        left; left; right
        omega
    have h0' : ¬ (m.bytes.take k ++ zeros j).length = 0 := by rw [hrl]; exact h0
    rw [walk, dif_neg h0']
    simp [hv]

/-- a frame cut inside (or in front of) its message `m` — `k` bytes of `m` survive — and then padded with `j` zero bytes
    (e.g. to the Ethernet minimum): exactly the packets of the messages in front of `m`, PROVIDED the padded remains cannot
    be taken for a message (`hcut`).  Without that proviso the statement is false, see `C04S_truncate_pad_ambiguous`. -/
theorem C04S_truncate_pad (F : WFrame) (hF : F.WF) (pre post : List WMsg) (m : WMsg) (hmsgs : F.msgs = pre ++ m :: post)
    (k j : Nat) (hcut : k + j < 16 ∨ (16 ≤ k ∧ k + j < 16 + m.body.length)) (d : DecState) :
    (decode d (some (F.bytes.take (8 + (pre.flatMap WMsg.bytes).length + k) ++ zeros j))).2 = pre.map (specPacket F) := by
  have hl := hF.2.2.2.2.2.2.2
  have hm : m.WF := hl m (by rw [hmsgs]; simp)
  have hk : k ≤ m.bytes.length := by rw [bytes_length]; omega
  -- the frame made of the messages in front of `m`
  have hG : ({ F with msgs := pre } : WFrame).WF :=
    ⟨hF.1, hF.2.1, hF.2.2.1, hF.2.2.2.1, hF.2.2.2.2.1, hF.2.2.2.2.2.1, hF.2.2.2.2.2.2.1,
      fun x hx => hl x (by rw [hmsgs]; simp [hx])⟩
  have e : F.bytes.take (8 + (pre.flatMap WMsg.bytes).length + k) =
      ({ F with msgs := pre } : WFrame).bytes ++ m.bytes.take k := by
    rw [frame_bytes, frame_bytes, hmsgs, List.flatMap_append, List.flatMap_cons, ← List.append_assoc, ← List.append_assoc,
      List.append_assoc _ m.bytes]
    rw [List.take_append, List.take_of_length_le (by simp [hdr8_length]), List.take_append_of_le_length
      (by simp [hdr8_length]; omega)]
    congr 1
    congr 1
    simp [hdr8_length]
  obtain ⟨t, ht, hw⟩ := walk_cut_pad (F.dev, F.stream) F.ver F.mt m hm k j hcut
  rw [e, List.append_assoc]
  exact decode_tail { F with msgs := pre } hG d _ t ht hw

/-! ## 8. literal instances: hypotheses satisfiable, conclusions compute to the expected values -/

/-- payload of the independent wireshark capture of `PacketFixture.IsHeaderCorrect` (tests/test_packet.cpp): CAN, flags 0,
    id 0x182, dlc 5, data length 5, data 00 9f c6 00 1e -/
def capCan : Bytes :=
  [0x00, 0x00, 0x00, 0x00, 0x00, 0x00, 0x01, 0x82, 0x00, 0x00, 0x00, 0x00, 0x00, 0x00, 0x05, 0x05, 0x00, 0x9f, 0xc6, 0x00, 0x1e]

/-- an Ethernet payload: flags 0, data length 4, four bytes and one trailing byte -/
def exEth : Bytes := [0x00, 0x00, 0x00, 0x00, 0x00, 0x04, 0xde, 0xad, 0xbe, 0xef, 0x77]

/-- a CAN-FD payload with the CRC-error flag (bit 0) -/
def exCanFdErr : Bytes := [0x00, 0x01, 0, 0, 0, 0, 0, 1, 0, 0, 0, 0, 0, 0, 1, 1, 0xAB]

/-- data frame: version 1, reserved 0, device 0x0102, message type 1 (data), stream 7, counter 5; the captured CAN message
    (timestamp 0x17e03e886b8663cd, interface 1), an Ethernet message with common flag bit 0, a CAN-FD message with a
    bus-error flag, a payload of an unknown type 0x55 -/
def exF : WFrame :=
  ⟨1, 0, 0x0102, 1, 7, 5,
    [⟨0x17e03e886b8663cd, 1, 0, 1, capCan⟩, ⟨1000, 0x11223344, 0x01, 8, exEth⟩, ⟨1001, 2, 0, 2, exCanFdErr⟩,
     ⟨1002, 3, 0x80, 0x55, [9, 8]⟩]⟩

theorem exF_wf : exF.WF := by
  refine ⟨by decide, by decide, by decide, by decide, by decide, by decide, by decide, ?_⟩
  intro m hm
  simp only [exF, List.mem_cons, List.not_mem_nil, or_false] at hm
  rcases hm with rfl | rfl | rfl | rfl <;> (unfold WMsg.WF; decide)

/-- the frame as bytes on the wire, written out -/
def exFBytes : Bytes :=
  [0x01, 0x00, 0x01, 0x02, 0x01, 0x07, 0x00, 0x05,
   -- message 1 (the capture, verbatim)
   0x17, 0xe0, 0x3e, 0x88, 0x6b, 0x86, 0x63, 0xcd, 0x00, 0x00, 0x00, 0x01, 0x00, 0x01, 0x00, 0x15,
   0x00, 0x00, 0x00, 0x00, 0x00, 0x00, 0x01, 0x82, 0x00, 0x00, 0x00, 0x00, 0x00, 0x00, 0x05, 0x05, 0x00, 0x9f, 0xc6, 0x00, 0x1e,
   -- message 2
   0, 0, 0, 0, 0, 0, 0x03, 0xe8, 0x11, 0x22, 0x33, 0x44, 0x01, 0x08, 0x00, 0x0b,
   0x00, 0x00, 0x00, 0x00, 0x00, 0x04, 0xde, 0xad, 0xbe, 0xef, 0x77,
   -- message 3
   0, 0, 0, 0, 0, 0, 0x03, 0xe9, 0, 0, 0, 2, 0x00, 0x02, 0x00, 0x11,
   0x00, 0x01, 0, 0, 0, 0, 0, 1, 0, 0, 0, 0, 0, 0, 1, 1, 0xAB,
   -- message 4
   0, 0, 0, 0, 0, 0, 0x03, 0xea, 0, 0, 0, 3, 0x80, 0x55, 0x00, 0x02, 9, 8]

theorem exF_bytes : exF.bytes = exFBytes := by decide

/-- what must come out, written out: every field literal; payloads `⟨type, bytes⟩` -/
def exFPackets : List Packet :=
  [{ payload := some ⟨0x0101, capCan⟩, version := 1, deviceId := 0x0102, streamId := 7, seq := 0,
     ts := 0x17e03e886b8663cd, ifId := 1, vendorId := 0, flags := 0, segType := 0 },
   { payload := some ⟨0x0108, exEth⟩, version := 1, deviceId := 0x0102, streamId := 7, seq := 0,
     ts := 1000, ifId := 0x11223344, vendorId := 0, flags := 1, segType := 0 },
   { payload := some ⟨0, [0, 0, 0, 0, 0, 0, 0, 0, 0, 0, 0, 0, 0, 0, 0, 0, 0]⟩, version := 1, deviceId := 0x0102, streamId := 7,
     seq := 0, ts := 1001, ifId := 2, vendorId := 0, flags := 0, segType := 0 },
   { payload := some ⟨0x0155, [9, 8]⟩, version := 1, deviceId := 0x0102, streamId := 7, seq := 0,
     ts := 1002, ifId := 3, vendorId := 0, flags := 0x80, segType := 0 }]

theorem exF_spec : exF.msgs.map (specPacket exF) = exFPackets := by decide

/-- C04S_wire on the literal bytes, any decoder history -/
example (d : DecState) : (decode d (some exFBytes)).2 = exFPackets := by
  rw [← exF_bytes, C04S_wire exF exF_wf d, exF_spec]

/-- C04S_pad: the 123 bytes padded to 200 -/
example (d : DecState) : (decode d (some (exFBytes ++ zeros 77))).2 = exFPackets := by
  rw [← exF_bytes, C04S_pad exF exF_wf d 77, exF_spec]

/-- C04S_truncate: cut inside the third message (byte 90): the first two packets -/
example (d : DecState) : (decode d (some (exFBytes.take 90))).2 = exFPackets.take 2 := by
  rw [← exF_bytes, C04S_truncate exF exF_wf d 90]
  decide

/-- C04S_truncate: cut inside the frame header: nothing -/
example (d : DecState) : (decode d (some (exFBytes.take 5))).2 = [] := by
  rw [← exF_bytes, C04S_truncate exF exF_wf d 5]
  decide

/-- C04S_marked_invalid applies to the third message (bus-error flag) -/
example : BusError exF.mt exF.msgs[2].ptype exF.msgs[2].body := by decide

/-- … `rejected_iff`: the first, second and fourth are not rejected -/
example : ¬ (BusError exF.mt exF.msgs[0].ptype exF.msgs[0].body ∨ InnerBad exF.mt exF.msgs[0].ptype exF.msgs[0].body ∨
    OtherReject exF.mt exF.msgs[0].ptype exF.msgs[0].body) := by
  rw [← rejected_iff]; decide

/-- capture-module status payload: 26 header bytes, device description "AB", three empty strings, one byte of vendor data -/
def exCm : Bytes := zeros 26 ++ [0, 2, 0x41, 0x42] ++ [0, 0] ++ [0, 0] ++ [0, 0] ++ [0, 1, 0x7F]
/-- the same with a vendor-data length of 5 although one byte is left -/
def exCmBad : Bytes := zeros 26 ++ [0, 2, 0x41, 0x42] ++ [0, 0] ++ [0, 0] ++ [0, 0] ++ [0, 5, 0x7F]
/-- interface status payload: interface status 2 @29, three stream ids (padded to four bytes), two bytes of vendor data -/
def exIf : Bytes := zeros 29 ++ [2] ++ zeros 6 ++ [0, 3, 10, 11, 12, 0] ++ [0, 2, 0xCA, 0xFE]
/-- the same announcing 9 stream ids -/
def exIfBad : Bytes := zeros 29 ++ [2] ++ zeros 6 ++ [0, 9, 10, 11, 12, 0] ++ [0, 2, 0xCA, 0xFE]

/-- status frame (message type 3), version 2, device 0xBEEF, stream 0: the id word's low half is the vendor id -/
def exS : WFrame :=
  ⟨2, 0xEE, 0xBEEF, 3, 0, 0xFFFF,
    [⟨5, 0xAAAA1234, 0, 1, exCm⟩, ⟨6, 0x00000001, 0x20, 1, exCmBad⟩, ⟨7, 0x12345678, 0, 2, exIf⟩, ⟨8, 0, 0, 2, exIfBad⟩]⟩

theorem exS_wf : exS.WF := by
  refine ⟨by decide, by decide, by decide, by decide, by decide, by decide, by decide, ?_⟩
  intro m hm
  simp only [exS, List.mem_cons, List.not_mem_nil, or_false] at hm
  rcases hm with rfl | rfl | rfl | rfl <;> (unfold WMsg.WF; decide)

example (d : DecState) : (decode d (some exS.bytes)).2 =
    [{ payload := some ⟨0x0301, exCm⟩, version := 2, deviceId := 0xBEEF, streamId := 0, seq := 0, ts := 5, ifId := 0,
       vendorId := 0x1234, flags := 0, segType := 0 },
     { payload := some ⟨0, zeros 39⟩, version := 2, deviceId := 0xBEEF, streamId := 0, seq := 0, ts := 6, ifId := 0,
       vendorId := 1, flags := 0x20, segType := 0 },
     { payload := some ⟨0x0302, exIf⟩, version := 2, deviceId := 0xBEEF, streamId := 0, seq := 0, ts := 7, ifId := 0,
       vendorId := 0x5678, flags := 0, segType := 0 },
     { payload := some ⟨0, zeros 46⟩, version := 2, deviceId := 0xBEEF, streamId := 0, seq := 0, ts := 8, ifId := 0,
       vendorId := 0, flags := 0, segType := 0 }] := by
  rw [C04S_wire exS exS_wf d]; decide

/-- `InnerBad` holds of the two rejected ones (the capture-module blocks / the stream-id list do not fit) -/
example : InnerBad 3 1 exCmBad ∧ InnerBad 3 2 exIfBad ∧ ¬ InnerBad 3 1 exCm ∧ ¬ InnerBad 3 2 exIf := by decide

/-- C04S_stop: the captured CAN message, then a message with the error-in-payload bit, then another good message: one packet -/
example (d : DecState) :
    (decode d (some (({ exF with msgs := exF.msgs.take 1 } : WFrame).bytes ++ (⟨1, 1, 0x40, 1, capCan⟩ : WMsg).bytes ++
      (⟨2, 1, 0, 1, capCan⟩ : WMsg).bytes))).2 = exFPackets.take 1 := by
  have hwf : ({ exF with msgs := exF.msgs.take 1 } : WFrame).WF :=
    ⟨exF_wf.1, exF_wf.2.1, exF_wf.2.2.1, exF_wf.2.2.2.1, exF_wf.2.2.2.2.1, exF_wf.2.2.2.2.2.1, exF_wf.2.2.2.2.2.2.1,
      fun m hm => exF_wf.2.2.2.2.2.2.2 m (List.mem_of_mem_take hm)⟩
  rw [C04S_stop _ hwf ⟨1, 1, 0x40, 1, capCan⟩ (by unfold WMsg.Stops; decide)]
  decide

/-- C04S_truncate_pad: `exF` cut 20 bytes into its second message (length field intact, 7 payload bytes missing) and padded
    with 6 zero bytes: the first packet only -/
example (d : DecState) : (decode d (some (exFBytes.take (8 + 37 + 20) ++ zeros 6))).2 = exFPackets.take 1 := by
  have := C04S_truncate_pad exF exF_wf (exF.msgs.take 1) (exF.msgs.drop 2) exF.msgs[1] (by rfl) 20 6 (by decide) d
  rw [← exF_bytes]
  exact this.trans (by decide)

/-! ## 9. negative results: where the text of C04 and the code part -/

/-- data frame with a CAN message whose error POSITION is 1 while no error flag is set and the data length fits, and an analog
    message with sample data type 2 (reserved) -/
def exW : WFrame :=
  ⟨1, 0, 1, 1, 1, 0,
    [⟨1, 1, 0, 1, [0, 0, 0, 0, 0, 0, 0, 1, 0, 0, 0, 0, 0, 1, 1, 1, 0xAB]⟩,
     ⟨2, 1, 0, 7, [0, 2, 0, 0, 0, 0, 0, 0, 0, 0, 0, 0, 0, 0, 0, 0, 1, 2]⟩]⟩
/-- status frame with an interface status message whose interface status is 3 -/
def exW3 : WFrame := ⟨1, 0, 1, 3, 1, 0, [⟨3, 0, 0, 2, zeros 29 ++ [3] ++ zeros 6 ++ [0, 0, 0, 0]⟩]⟩

theorem exW_wf : exW.WF := by
  refine ⟨by decide, by decide, by decide, by decide, by decide, by decide, by decide, ?_⟩
  intro m hm
  simp only [exW, List.mem_cons, List.not_mem_nil, or_false] at hm
  rcases hm with rfl | rfl <;> (unfold WMsg.WF; decide)

theorem exW3_wf : exW3.WF := by
  refine ⟨by decide, by decide, by decide, by decide, by decide, by decide, by decide, ?_⟩
  intro m hm
  simp only [exW3, List.mem_cons, List.not_mem_nil, or_false] at hm
  subst hm; unfold WMsg.WF; decide

/-- NEGATIVE (text of C04 vs. code): the property names two reasons for a payload to come back marked invalid — inner structure
    inconsistent with the length, bus-error flags.  The library (and the model, exactly: `rejected_iff`) has three more:
    CAN / CAN-FD error position ≠ 0, analog sample data type ∉ {int16, int32}, interface status > 2.  On these well-formed
    frames NEITHER named reason applies to any message, yet every packet is reported with payload type 0 and zero bytes, i.e.
    payload type and payload bytes do NOT equal the wire's. -/
theorem C04S_unnamed_rejections (d : DecState) :
    exW.WF ∧ exW3.WF ∧
    (∀ m ∈ exW.msgs, ¬ BusError exW.mt m.ptype m.body ∧ ¬ InnerBad exW.mt m.ptype m.body) ∧
    (∀ m ∈ exW3.msgs, ¬ BusError exW3.mt m.ptype m.body ∧ ¬ InnerBad exW3.mt m.ptype m.body) ∧
    (decode d (some exW.bytes)).2 =
      [{ payload := some ⟨0, zeros 17⟩, version := 1, deviceId := 1, streamId := 1, seq := 0, ts := 1, ifId := 1 },
       { payload := some ⟨0, zeros 18⟩, version := 1, deviceId := 1, streamId := 1, seq := 0, ts := 2, ifId := 1 }] ∧
    (decode d (some exW3.bytes)).2 =
      [{ payload := some ⟨0, zeros 40⟩, version := 1, deviceId := 1, streamId := 1, seq := 0, ts := 3 }] := by
  refine ⟨exW_wf, exW3_wf, by decide, by decide, ?_, ?_⟩
  · rw [C04S_wire exW exW_wf d]; decide
  · rw [C04S_wire exW3 exW3_wf d]; decide

/-- the general form: a message to which one of the three unnamed reasons applies is reported invalid-marked -/
theorem C04S_other_reject (F : WFrame) (hF : F.WF) (d : DecState) (i : Nat) (hi : i < F.msgs.length)
    (h : OtherReject F.mt F.msgs[i].ptype F.msgs[i].body) :
    (decode d (some F.bytes)).2[i]?.bind Packet.payload = some ⟨0, zeros F.msgs[i].body.length⟩ :=
  (C04S_faithful_iff F hF d i hi).2.2 (Or.inr (Or.inr h))

set_option maxRecDepth 8000 in
/-- NEGATIVE (G)+(H) combined: "a frame cut short yields exactly the packets of the messages it still contains completely"
    does NOT survive zero padding of the cut frame.  `exF` cut 14 bytes into its first message and padded with 2 zero bytes
    contains no complete message (`fitCount = 0`), yet one packet comes out (the CAN message's header with length 0,
    invalid-marked); cut 8 bytes into the PAYLOAD of its second message and padded with 3 zero bytes, two packets come out,
    the second an Ethernet payload whose last three bytes are padding, not wire bytes.  In both cases the bytes handed to the
    decoder are byte for byte a well-formed frame (`G.bytes`), so no decoder can do better: the combination is
    ambiguous in the format itself, and only `C04S_truncate_pad` (with its proviso) can hold. -/
theorem C04S_truncate_pad_ambiguous (d : DecState) :
    -- cut in a message header
    (fitCount (22 - 8) exF.msgs = 0 ∧
      ∃ G : WFrame, G.WF ∧ exF.bytes.take 22 ++ zeros 2 = G.bytes ∧
      (decode d (some (exF.bytes.take 22 ++ zeros 2))).2 =
        [{ payload := some ⟨0, []⟩, version := 1, deviceId := 0x0102, streamId := 7, seq := 0, ts := 0x17e03e886b8663cd,
           ifId := 1 }]) ∧
    -- cut in a payload
    (fitCount (69 - 8) exF.msgs = 1 ∧
      ∃ G : WFrame, G.WF ∧ exF.bytes.take 69 ++ zeros 3 = G.bytes ∧
      (decode d (some (exF.bytes.take 69 ++ zeros 3))).2 =
        [{ payload := some ⟨0x0101, capCan⟩, version := 1, deviceId := 0x0102, streamId := 7, seq := 0,
           ts := 0x17e03e886b8663cd, ifId := 1 },
         { payload := some ⟨0x0108, [0x00, 0x00, 0x00, 0x00, 0x00, 0x04, 0xde, 0xad, 0, 0, 0]⟩, version := 1,
           deviceId := 0x0102, streamId := 7, seq := 0, ts := 1000, ifId := 0x11223344, flags := 1 }]) := by
  refine ⟨⟨by decide, ⟨1, 0, 0x0102, 1, 7, 5, [⟨0x17e03e886b8663cd, 1, 0, 1, []⟩]⟩, ?_, by decide, ?_⟩,
    ⟨by decide, ⟨1, 0, 0x0102, 1, 7, 5, [⟨0x17e03e886b8663cd, 1, 0, 1, capCan⟩,
        ⟨1000, 0x11223344, 0x01, 8, [0x00, 0x00, 0x00, 0x00, 0x00, 0x04, 0xde, 0xad, 0, 0, 0]⟩]⟩, ?_, by decide, ?_⟩⟩
  · refine ⟨by decide, by decide, by decide, by decide, by decide, by decide, by decide, ?_⟩
    intro m hm
    simp only [List.mem_cons, List.not_mem_nil, or_false] at hm
    subst hm; unfold WMsg.WF; decide
  · have e : exF.bytes.take 22 ++ zeros 2 =
        (⟨1, 0, 0x0102, 1, 7, 5, [⟨0x17e03e886b8663cd, 1, 0, 1, []⟩]⟩ : WFrame).bytes := by decide
    rw [e, C04S_wire]
    · decide
    · refine ⟨by decide, by decide, by decide, by decide, by decide, by decide, by decide, ?_⟩
      intro m hm
      simp only [List.mem_cons, List.not_mem_nil, or_false] at hm
      subst hm; unfold WMsg.WF; decide
  · refine ⟨by decide, by decide, by decide, by decide, by decide, by decide, by decide, ?_⟩
    intro m hm
    simp only [List.mem_cons, List.not_mem_nil, or_false] at hm
    rcases hm with rfl | rfl <;> (unfold WMsg.WF; decide)
  · have e : exF.bytes.take 69 ++ zeros 3 =
        (⟨1, 0, 0x0102, 1, 7, 5, [⟨0x17e03e886b8663cd, 1, 0, 1, capCan⟩,
          ⟨1000, 0x11223344, 0x01, 8, [0x00, 0x00, 0x00, 0x00, 0x00, 0x04, 0xde, 0xad, 0, 0, 0]⟩]⟩ : WFrame).bytes := by decide
    rw [e, C04S_wire]
    · decide
    · refine ⟨by decide, by decide, by decide, by decide, by decide, by decide, by decide, ?_⟩
      intro m hm
      simp only [List.mem_cons, List.not_mem_nil, or_false] at hm
      rcases hm with rfl | rfl <;> (unfold WMsg.WF; decide)

/-! ## 10. anchors for the model's dispatch and for the reflected rule list -/

/-- the validator `create` applies to each of the seven typed payload types (so `C04.C04_invalid_marked` is not vacuous for any
    of them), and no other type has one -/
theorem validatorOf_table :
    validatorOf 0x0101 = some canValid ∧ validatorOf 0x0102 = some canValid ∧ validatorOf 0x0103 = some linValid ∧
    validatorOf 0x0107 = some analogValid ∧ validatorOf 0x0108 = some ethValid ∧ validatorOf 0x0301 = some cmValid ∧
    validatorOf 0x0302 = some ifValid ∧
    ∀ ty, (ty ≠ 0x0101 ∧ ty ≠ 0x0102 ∧ ty ≠ 0x0103 ∧ ty ≠ 0x0107 ∧ ty ≠ 0x0108 ∧ ty ≠ 0x0301 ∧ ty ≠ 0x0302 ↔
      validatorOf ty = none) := by
  refine ⟨rfl, rfl, rfl, rfl, rfl, rfl, rfl, ?_⟩
  intro ty
  constructor
  · intro ⟨h1, h2, h3, h4, h5, h6, h7⟩
    simp [validatorOf, tyCan, tyCanFd, tyLin, tyAnalog, tyEth, tyCm, tyIf, h1, h2, h3, h4, h5, h6, h7]
  · intro h
    refine ⟨?_, ?_, ?_, ?_, ?_, ?_, ?_⟩ <;> (intro e; subst e; cases h)

/-- reviewer's `create_faithful`: a payload of a non-zero type that its validator (if it has one) accepts is handed out with
    the type and the bytes given -/
theorem create_faithful (ty : Nat) (d : Bytes) (hv : ∀ v, validatorOf ty = some v → v d = true) (h0 : ty ≠ 0) :
    create ty d = ⟨ty, d⟩ := by
  unfold create
  split
  · rename_i v hv'
    rw [if_pos (hv v hv')]
  · rw [if_neg h0]

/-- reviewer's `create_length`: accepted or not, the reported payload has the length handed in -/
theorem create_length (ty : Nat) (d : Bytes) : (create ty d).data.length = d.length := by
  rw [create_exact]
  unfold Spec.payload
  split
  · simp [zeros]
  · split <;> simp [zeros]

/-- the rules the dumper checked exhaustively on the real functions, compared TEXT for text (not only "five rules, all passed") -/
theorem rules_literal :
    Generated.rules =
      [("PayloadType: valid iff both bytes non-zero; message type = high byte, raw type = low byte (all 65536 types)", 1),
       ("swapEndian(uint16_t) swaps the two bytes (all 65536 values)", 1),
       ("swapEndian(uint32_t / uint64_t) reverse the bytes (64 probe values incl. every single bit)", 1),
       ("TECMP header valid iff message type != 0xFF and data type bytes != FF 00 (256 x 256 x 12 headers)", 1),
       ("message header: segment type = flags & 0x0C, error-in-payload = bit 6 (all 256 flag bytes)", 1)] := by decide

/-- the validator masks of the reflected headers are the ones the table `Spec` uses -/
theorem masks_literal :
    GenChecks.lookupNat Generated.masks "can.errorMask" = some 0x03FF ∧
    GenChecks.lookupNat Generated.masks "eth.errorMask" = some 0x003B ∧
    GenChecks.lookupNat Generated.masks "packet.errorInPayload" = some 0x40 ∧
    GenChecks.lookupNat Generated.masks "msghdr.seg" = some 0x0C := by decide

/-! ## 11. end to end: the TRANSLATED C++ `Decoder::decode` against the create-free specification, buffers of any length -/

section src
open AsamCmp.Src AsamCmp.SrcGen AsamCmp.SrcDec

/-- every buffer, of any length (`std::size_t curSize = size - 8`, decoder.cpp), at a non-null address of a memory
    smaller than 2^63 bytes, any pending table satisfying the decoder's invariant: the translated source is defined and returns
    the model's packets -/
theorem src_of_model (t : Table) (pre b post : Bytes) (fuel : Nat)
    (hT : C17b.TableOk t) (hR : TableReg t) (hpre : 0 < pre.length)
    (hmem : (pre ++ b ++ post).length < 2 ^ 63) (hf : b.length ≤ fuel) :
    ∃ t' outs, Decoder_decode_obj fuel (tblSt t) (pre ++ b ++ post) pre.length b.length (SrcTec.tecmpExt fuel) =
        some (tblSt t', outs) ∧ C17b.TableOk t' ∧
      outs.map (Sum.elim toPacket SrcTec.tAbs) = (decode t.abs (some b)).2 := by
  by_cases h8 : 8 ≤ b.length
  · obtain ⟨t', outs, h1, h2, _, h4⟩ := decode_total_src t pre b post fuel hT hR hpre h8 hmem hf
    exact ⟨t', outs, h1, h2, h4⟩
  · obtain ⟨h1, h2⟩ := decode_total_short_src t (pre ++ b ++ post) b pre.length fuel hpre (by omega)
    exact ⟨t, [], h1, hT, by rw [h2]; rfl⟩

/-- C04 (A)–(D) for the translated source -/
theorem C04S_src_wire (F : WFrame) (hF : F.WF) (t : Table) (pre post : Bytes) (fuel : Nat)
    (hT : C17b.TableOk t) (hR : TableReg t) (hpre : 0 < pre.length)
    (hmem : (pre ++ F.bytes ++ post).length < 2 ^ 63) (hf : F.bytes.length ≤ fuel) :
    ∃ t' outs, Decoder_decode_obj fuel (tblSt t) (pre ++ F.bytes ++ post) pre.length F.bytes.length (SrcTec.tecmpExt fuel) =
        some (tblSt t', outs) ∧ C17b.TableOk t' ∧
      outs.map (Sum.elim toPacket SrcTec.tAbs) = F.msgs.map (specPacket F) := by
  obtain ⟨t', outs, h1, h2, h3⟩ := src_of_model t pre F.bytes post fuel hT hR hpre hmem hf
  exact ⟨t', outs, h1, h2, by rw [h3, C04S_wire F hF]⟩

/-- (H) for the translated source -/
theorem C04S_src_pad (F : WFrame) (hF : F.WF) (k : Nat) (t : Table) (pre post : Bytes) (fuel : Nat)
    (hT : C17b.TableOk t) (hR : TableReg t) (hpre : 0 < pre.length)
    (hmem : (pre ++ (F.bytes ++ zeros k) ++ post).length < 2 ^ 63)
    (hf : (F.bytes ++ zeros k).length ≤ fuel) :
    ∃ t' outs, Decoder_decode_obj fuel (tblSt t) (pre ++ (F.bytes ++ zeros k) ++ post) pre.length (F.bytes ++ zeros k).length
        (SrcTec.tecmpExt fuel) = some (tblSt t', outs) ∧ C17b.TableOk t' ∧
      outs.map (Sum.elim toPacket SrcTec.tAbs) = F.msgs.map (specPacket F) := by
  obtain ⟨t', outs, h1, h2, h3⟩ := src_of_model t pre (F.bytes ++ zeros k) post fuel hT hR hpre hmem hf
  exact ⟨t', outs, h1, h2, by rw [h3, C04S_pad F hF]⟩

/-- (G) for the translated source, every cut offset (inside the frame header included) -/
theorem C04S_src_truncate (F : WFrame) (hF : F.WF) (n : Nat) (t : Table) (pre post : Bytes) (fuel : Nat)
    (hT : C17b.TableOk t) (hR : TableReg t) (hpre : 0 < pre.length)
    (hmem : (pre ++ F.bytes.take n ++ post).length < 2 ^ 63)
    (hf : (F.bytes.take n).length ≤ fuel) :
    ∃ t' outs, Decoder_decode_obj fuel (tblSt t) (pre ++ F.bytes.take n ++ post) pre.length (F.bytes.take n).length
        (SrcTec.tecmpExt fuel) = some (tblSt t', outs) ∧ C17b.TableOk t' ∧
      outs.map (Sum.elim toPacket SrcTec.tAbs) = (F.msgs.take (fitCount (n - 8) F.msgs)).map (specPacket F) := by
  obtain ⟨t', outs, h1, h2, h3⟩ := src_of_model t pre (F.bytes.take n) post fuel hT hR hpre hmem hf
  exact ⟨t', outs, h1, h2, by rw [h3, C04S_truncate F hF]⟩

set_option maxRecDepth 8000 in
/-- the hypotheses are satisfiable: the literal frame `exF` (123 bytes) at address 1 of a 126-byte memory, empty pending table;
    the translated source returns the four literal packets -/
example : ∃ t' outs, Decoder_decode_obj 128 (tblSt []) ([9] ++ exF.bytes ++ [5, 5]) 1 exF.bytes.length (SrcTec.tecmpExt 128) =
      some (tblSt t', outs) ∧ C17b.TableOk t' ∧ outs.map (Sum.elim toPacket SrcTec.tAbs) = exFPackets := by
  have := C04S_src_wire exF exF_wf [] [9] [5, 5] 128 tableOk_nil tableReg_nil (by decide) (by decide) (by decide)
  rw [exF_spec] at this
  exact this

end src

end AsamCmp.C04S
