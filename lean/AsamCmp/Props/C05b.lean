/-
  Byte-level lifts of C05 and C17: the statements of Props/C05.lean and Props/C17.lean are about
  parsed frames (`PFrame`); here they are restated for the byte buffers handed to `decode`.
-/
import AsamCmp.Tecmp
import AsamCmp.Props.C05
import AsamCmp.Props.C17
import AsamCmp.Lemmas.Lift
namespace AsamCmp.C05b
open AsamCmp

/-- buffers that are capture-module frames, parsed; everything else (null, short, TECMP) is dropped -/
def framesOf : List (Option Bytes) → List PFrame
  | [] => []
  | b :: bs =>
    match bufEp b, b with
    | some _, some x => parseFrame x :: framesOf bs
    | _, _ => framesOf bs

/-- the reassembly state after any history of buffers is the state after the parsed frames of that
    history: non-frames never touch it -/
theorem decodeAll_state (s : DecState) (bufs : List (Option Bytes)) :
    (decodeAll tecmpDecode s bufs).1 = (run s (framesOf bufs)).1 := by
  induction bufs generalizing s with
  | nil => rfl
  | cons b bs ih =>
    cases b with
    | none => simp only [decodeAll, decodeWith, framesOf, bufEp, ih]
    | some x =>
      by_cases h8 : x.length < 8
      · simp only [decodeAll, decodeWith, framesOf, bufEp, h8, if_true, ih]
      · by_cases h0 : byteAt x 0 = 0
        · simp only [decodeAll, decodeWith, framesOf, bufEp, h8, h0, if_true, if_false, ih]
        · simp only [decodeAll, decodeWith, framesOf, bufEp, h8, h0, if_false, ih, run]

/-- every parsed frame of a history is well-formed (glue for `C17_bytes`) -/
theorem framesOf_wf (bufs : List (Option Bytes)) : ∀ f ∈ framesOf bufs, f.WF := by
  induction bufs with
  | nil => intro f hf; simp [framesOf] at hf
  | cons b bs ih =>
    intro f hf
    unfold framesOf at hf
    split at hf
    · simp only [List.mem_cons] at hf
      rcases hf with rfl | hf
      · exact parseFrame_WF _
      · exact ih f hf
    · exact ih f hf

/-- C17 on bytes: after ANY history of buffers from a fresh decoder, endpoint `e` holds a pending
    reassembly exactly when the buffer-free specification automaton run over `e`'s own frames says a
    message is in progress, and then with at most 16 + the segment bytes received for it -/
theorem C17_bytes (bufs : List (Option Bytes)) (e : Ep) :
    ((decodeAll tecmpDecode DecState.empty bufs).1 e).map Pending.descr =
        openAfter ((framesOf bufs).filter (fun f => f.ep = e)) ∧
    (match (decodeAll tecmpDecode DecState.empty bufs).1 e with
     | none => True
     | some q => q.buf.length ≤ 16 + openBytes ((framesOf bufs).filter (fun f => f.ep = e))) := by
  rw [decodeAll_state]
  exact ⟨C17_pending_iff_open _ (framesOf_wf bufs) e, C17_pending_bytes _ (framesOf_wf bufs) e⟩

/-- a segment's 16-byte message header as the protocol lays it out -/
structure SegHdr where
  ts : Nat
  idw : Nat
  flags : Nat
  ptype : Nat

def SegHdr.bytes (h : SegHdr) (len : Nat) : Bytes :=
  beEnc 8 h.ts ++ beEnc 4 h.idw ++ [UInt8.ofNat h.flags, UInt8.ofNat h.ptype] ++ beEnc 2 len

def SegHdr.WF (h : SegHdr) (seg : Nat) : Prop :=
  h.ts < 2 ^ 64 ∧ h.idw < 2 ^ 32 ∧ h.flags < 256 ∧ h.flags &&& 0x40 = 0 ∧ h.flags &&& 0x0C = seg ∧ 1 ≤ h.ptype ∧ h.ptype < 256

/-- one segment frame on the wire: frame header, the segment's message header with its DECLARED
    length, the declared bytes, and then ANY trailing bytes -/
def segFrame (ver dev mt stream seq : Nat) (h : SegHdr) (body trail : Bytes) : Bytes :=
  frameHeader ver dev mt stream seq ++ h.bytes body.length ++ body ++ trail

/-- bytes that follow a segment's declared length in its frame never enter the message: the frame
    parses to a segment terminator holding exactly header + declared bytes, whatever trails -/
theorem segFrame_parse (ver dev mt stream seq : Nat) (h : SegHdr) (seg : Nat) (body trail : Bytes)
    (hv : 1 ≤ ver ∧ ver < 256) (hd : dev < 65536) (hm : mt < 256) (hs : stream < 256) (hq : seq < 65536)
    (hseg : seg = 4 ∨ seg = 8 ∨ seg = 12) (hh : h.WF seg) (hb : body.length < 65536) :
    parseFrame (segFrame ver dev mt stream seq h body trail) =
      { ep := (dev, stream), ver := ver, mt := mt, seq := seq, unseg := [], term := .seg (h.bytes body.length ++ body) } := by
  obtain ⟨_, _, hfl, herr, hsg, hp1, hp2⟩ := hh
  exact parse_segment ver dev mt stream seq h.ts h.idw h.flags h.ptype body trail hv.2 hd hm hs hq hfl herr
    (by rw [hsg]; rcases hseg with rfl | rfl | rfl <;> decide) ⟨hp1, hp2⟩ hb

/-- C05 on bytes, one message: first / intermediary* / last segment frames with consecutive counters
    mod 2^16 (from any `seq0`, so across the wrap), arbitrary trailing bytes behind every segment, fed
    to a decoder in ANY state: nothing is delivered before the last frame, and the last frame delivers
    exactly one packet whose payload is `create type (concatenation of the declared bytes)`, with the
    first segment's header fields, version and message type, tagged with the endpoint -/
theorem C05_bytes_single (ver dev mt stream seq0 : Nat)
    (first : SegHdr × Bytes × Bytes) (middle : List (SegHdr × Bytes × Bytes)) (last : SegHdr × Bytes × Bytes)
    (hv : 1 ≤ ver ∧ ver < 256) (hd : dev < 65536) (hm : mt < 256) (hs : stream < 256)
    (hf : first.1.WF 4 ∧ first.2.1.length < 65536) (hmid : ∀ x ∈ middle, x.1.WF 8 ∧ x.2.1.length < 65536)
    (hl : last.1.WF 12 ∧ last.2.1.length < 65536)
    (htotal : (first.2.1 ++ (middle.map (·.2.1)).flatten ++ last.2.1).length ≤ 65535) (d : DecState) :
    let segs := first :: (middle ++ [last])
    let bufs := (List.range segs.length).zip segs |>.map fun (i, x) =>
      some (segFrame ver dev mt stream ((seq0 + i) % 65536) x.1 x.2.1 x.2.2)
    let body := first.2.1 ++ (middle.map (·.2.1)).flatten ++ last.2.1
    let r := decodeAll tecmpDecode d bufs
    r.1 (dev, stream) = none ∧
    (decodeAll tecmpDecode d bufs.dropLast).2 = [] ∧
    ∃ p, r.2 = [p] ∧ p.payload = some (create (mt * 256 + first.1.ptype) body) ∧
      p.version = ver ∧ p.deviceId = dev ∧ p.streamId = stream ∧ p.ts = first.1.ts ∧
      p.ifId = (if mt = 1 then first.1.idw else 0) ∧
      p.vendorId = (if mt = 3 ∨ mt = 0xFF then first.1.idw % 65536 else 0) ∧ p.flags = first.1.flags := by
  intro segs bufs body r
  -- the frames as plain byte strings
  have hbufs : bufs = (((List.range segs.length).zip segs).map (fun (p : Nat × SegHdr × Bytes × Bytes) =>
      segFrame ver dev mt stream ((seq0 + p.1) % 65536) p.2.1 p.2.2.1 p.2.2.2)).map some := by
    rw [List.map_map]; rfl
  -- the message at PFrame level
  have hsegwf : ∀ x ∈ segs, ∃ seg, (seg = 4 ∨ seg = 8 ∨ seg = 12) ∧ x.1.WF seg ∧ x.2.1.length < 65536 := by
    intro x hx
    simp only [segs, List.mem_cons, List.mem_append, List.not_mem_nil, or_false] at hx
    rcases hx with rfl | hx | rfl
    · exact ⟨4, Or.inl rfl, hf⟩
    · exact ⟨8, Or.inr (Or.inl rfl), hmid x hx⟩
    · exact ⟨12, Or.inr (Or.inr rfl), hl⟩
  have hparse := frames_of_parse (dev, stream) ver mt seq0
    (fun (x : SegHdr × Bytes × Bytes) => x.1.bytes x.2.1.length) (fun x => x.2.1)
    (fun i x => segFrame ver dev mt stream ((seq0 + i) % 65536) x.1 x.2.1 x.2.2) first middle last
    (by
      intro i x hx
      obtain ⟨seg, hseg, hwf, hlen⟩ := hsegwf x hx
      exact segFrame_parse ver dev mt stream _ x.1 seg x.2.1 x.2.2 hv hd hm hs
        (Nat.mod_lt _ (by decide)) hseg hwf hlen)
  have hfr : ∀ b ∈ ((List.range segs.length).zip segs).map (fun (p : Nat × SegHdr × Bytes × Bytes) =>
      segFrame ver dev mt stream ((seq0 + p.1) % 65536) p.2.1 p.2.2.1 p.2.2.2),
      8 ≤ b.length ∧ byteAt b 0 ≠ 0 := by
    intro b hb
    simp only [List.mem_map] at hb
    obtain ⟨p, _, rfl⟩ := hb
    exact segment_is_frame ver dev mt stream _ p.2.1.ts p.2.1.idw p.2.1.flags p.2.1.ptype p.2.2.1 p.2.2.2 hv
  generalize hM : SegMsg.mk (dev, stream) ver mt seq0 (first.1.bytes first.2.1.length, first.2.1)
    (middle.map fun x => (x.1.bytes x.2.1.length, x.2.1)) (last.1.bytes last.2.1.length, last.2.1) = M at hparse
  have hMbody : M.body = body := by
    subst hM
    simp [SegMsg.body, SegMsg.segs, body, List.map_map, Function.comp_def]
  have hMwf : M.WF := by
    subst hM
    refine ⟨?_, ?_, ?_, ?_⟩
    · intro s hs
      simp only [SegMsg.segs, List.mem_cons, List.mem_append, List.mem_map, List.not_mem_nil, or_false] at hs
      rcases hs with rfl | ⟨x, _, rfl⟩ | rfl <;> exact segHdr_length ..
    · exact (segTypeOf_segHdr _ _ _ _ _ hf.1.2.2.1).trans hf.1.2.2.2.2.1
    · intro s hs
      simp only [List.mem_map] at hs
      obtain ⟨x, hx, rfl⟩ := hs
      exact (segTypeOf_segHdr _ _ _ _ _ (hmid x hx).1.2.2.1).trans (hmid x hx).1.2.2.2.2.1
    · exact (segTypeOf_segHdr _ _ _ _ _ hl.1.2.2.1).trans hl.1.2.2.2.2.1
  have hMlen : M.body.length ≤ 65535 := by rw [hMbody]; exact htotal
  obtain ⟨h1, h2, h3⟩ := single_lift M hMwf hMlen d _ hfr hparse
  have hexp := expected_fields M first.1.ts first.1.idw first.1.flags first.1.ptype first.2.1.length
    (by subst hM; rfl) hf.1.1 hf.1.2.1 hf.1.2.2.1 hf.1.2.2.2.2.2.2 hMlen
  have hep : M.ep = (dev, stream) := by subst hM; rfl
  have hver : M.ver = ver := by subst hM; rfl
  have hmt : M.mt = mt := by subst hM; rfl
  rw [hMbody, hep, hver, hmt] at hexp
  rw [hep] at h1
  show (decodeAll tecmpDecode d bufs).1 (dev, stream) = none ∧
    (decodeAll tecmpDecode d bufs.dropLast).2 = [] ∧
    ∃ p, (decodeAll tecmpDecode d bufs).2 = [p] ∧ _
  rw [hbufs]
  refine ⟨h1, h2, M.expected, h3, ?_⟩
  rw [hexp]
  exact ⟨rfl, rfl, rfl, rfl, rfl, rfl, rfl, rfl⟩

end AsamCmp.C05b

namespace AsamCmp.C05b
open AsamCmp

/-- What happens beyond the hypothesis `total ≤ 65535` of the C05 theorems: the length the decoder
    writes into the reassembled header — and with which it then reads the payload back — is the
    accumulated length modulo 2^16.  So a message whose segments declare more than 65535 bytes in
    total is delivered truncated to `total mod 65536` bytes (recorded as an open finding for C05 in
    known-findings.txt; replayed on the real decoder by the check's `over-65535` case). -/
theorem reassembled_length_wraps (x : Bytes) (h : 16 ≤ x.length) :
    beAt (fixLen x) 14 2 = (x.length - 16) % 65536 := by
  have e : beAt (fixLen x) 14 2 = ((x.length % 65536 + 65536 - 16) % 65536) % 65536 := by
    unfold fixLen writeAt beAt
    rw [AsamCmp.slice_mid _ _ _ 14 2 (by simp; omega) (by simp), beDec_beEnc]
  rw [e]
  omega

/-- the full C05 statement is false of the model (and of the code) without the length bound: a
    concrete accumulated length whose delivered length differs -/
example : (65536 + 16 + 1964 - 16) % 65536 ≠ 65536 + 1964 := by decide

end AsamCmp.C05b
