/-
  Source-level C11 / C12 (part B): every field accessor of the wire records named by the API glue, translated from /repo's source on
  every run into a bit program (GeneratedSrcFields.lean), passes the decidable check of Src/BitProg.lean against the protocol
  layout table (Layout.lean) — evaluated by the kernel (`decide +kernel`, no extra axioms) — and therefore (`classCheck_sound`)
  does, for EVERY memory content, object position and in-range value, exactly what the table says: defined (no undefined
  behaviour, no access outside the header bytes), a getter returns the field and changes nothing, a setter changes exactly the
  field's bits (`setField` of the layout model, about which C11 / C12 are proved).  `*_coverage`: every field of the class has a
  getter entry and a setter entry, except the listed exemptions.
-/
import AsamCmp.GeneratedSrcFields
import AsamCmp.Lemmas.FieldCheckSound
namespace AsamCmp.SrcFields
open AsamCmp AsamCmp.Src.Bit AsamCmp.SrcGen

/-- accessors of protocol-table fields that are NOT covered at source level: none any more.  The three IEEE-754 fields of the analog
    header are covered as 32-bit patterns (the accessors only move the value: load / store, by-value passing, and the byte permutation
    through `char*` of `swapEndian(float)`, translated as operations on the local's bits; any arithmetic, comparison or conversion on
    a `float` is outside the fragment and would leave the field without an entry, i.e. break `analog_coverage`).  The sample-type
    field's accessors take / return the enumerator, which is the field value in wire byte order (`value << 8` on the host): entries
    with shift 8. -/
def exemptAnalog : List (String × String) := []

theorem canfd_checks : classCheck Layout.c_canfd entries_canfd = true := by decide +kernel
theorem canfd_src : ∀ e ∈ entries_canfd, ∃ f, Layout.c_canfd.find e.field = some f ∧ e.acc.Holds Layout.c_canfd.size f :=
  classCheck_sound _ _ canfd_checks
theorem canfd_coverage : coverageOk Layout.c_canfd entries_canfd [] = true := by decide +kernel

theorem lin_checks : classCheck Layout.c_lin entries_lin = true := by decide +kernel
theorem lin_src : ∀ e ∈ entries_lin, ∃ f, Layout.c_lin.find e.field = some f ∧ e.acc.Holds Layout.c_lin.size f :=
  classCheck_sound _ _ lin_checks
theorem lin_coverage : coverageOk Layout.c_lin entries_lin [] = true := by decide +kernel

theorem eth_checks : classCheck Layout.c_eth entries_eth = true := by decide +kernel
theorem eth_src : ∀ e ∈ entries_eth, ∃ f, Layout.c_eth.find e.field = some f ∧ e.acc.Holds Layout.c_eth.size f :=
  classCheck_sound _ _ eth_checks
theorem eth_coverage : coverageOk Layout.c_eth entries_eth [] = true := by decide +kernel

theorem analog_checks : classCheck Layout.c_analog entries_analog = true := by decide +kernel
theorem analog_src : ∀ e ∈ entries_analog, ∃ f, Layout.c_analog.find e.field = some f ∧ e.acc.Holds Layout.c_analog.size f :=
  classCheck_sound _ _ analog_checks
theorem analog_coverage : coverageOk Layout.c_analog entries_analog exemptAnalog = true := by decide +kernel

end AsamCmp.SrcFields
