/-
  C13S  Strengthening of C13 (payload builders store data faithfully and produce self-valid payloads).

  Additional theorems about the EXISTING definitions (Builders.lean, Access.lean, Packet.lean), closing the weaknesses an
  independent review found in the registered C13 statements:

   §A  prior objects of ANY length (also shorter than the header): `setData` sees only `resize b hdr`           (finding 6)
   §B  analog getters (`getSamplesCount` / `getData`) on a built payload, exact characterisation                 (finding 1)
   §C  capture-module: exported normal form, total length, concrete offsets, length prefixes, NUL padding        (finding 2)
       and what happens to vendor data of 65536 bytes or more (NEGATIVE: the getter's length wraps)              (finding 8)
   §D  CAN DLC: complete characterisation of `dlcOf` on every length, and the lengths without a DLC code          (finding 3)
       (was NEGATIVE — DLC 0 next to a non-zero data length for the 240 lengths without an ISO code; the library's `encodeDlc`
        has been repaired: such a length gets the next larger code, so the DLC code always COVERS the data length)
   §E  built payloads pushed through the message framing (`msgValid`, `Packet.ofMsg`, the decoder's `walk`)       (finding 4)
   §F  `TECMP::LinPayload::setData`, from the translated source                                                    (finding 5)
   §G  evaluated examples                                                                                         (finding 9)
-/
import AsamCmp.Props.C13
import AsamCmp.Lemmas.Wire
import AsamCmp.Props.C04
import AsamCmp.Props.GenChecks
import AsamCmp.Props.SrcBuilders
namespace AsamCmp.C13S
open AsamCmp AsamCmp.C13

/-! ## §A  prior contents of any length  (finding 6)

  The property quantifies over "all prior contents of the object (longer, shorter, different data set before)".  The registered
  theorems assume `hdr ≤ b.length`.  Here: for EVERY `b`, `setData` only sees `resize b hdr` (the first `hdr` bytes, missing ones
  zero-filled) — so every registered C13 theorem applies to `resize b hdr`, whose length is exactly `hdr`. -/

theorem resize_idem (b : Bytes) (n : Nat) : resize (resize b n) n = resize b n := by
  have h : (resize b n).length = n := resize_length b n
  unfold resize at h ⊢
  split
  · rw [if_pos (by simp only [List.length_take]; omega), List.take_take, Nat.min_self]
  · rename_i hlt
    rw [if_pos (by simp only [List.length_append, List.length_replicate]; omega)]
    exact List.take_of_length_le (by simp only [List.length_append, List.length_replicate]; omega)

/-- an object shorter than the header: the missing header bytes are zero -/
theorem resize_short (b : Bytes) (n : Nat) (h : b.length ≤ n) : resize b n = b ++ zeros (n - b.length) := by
  unfold resize zeros
  split
  · have e : n = b.length := by omega
    subst e
    simp
  · rfl

/-- an object at least as long as the header: its first `n` bytes -/
theorem resize_long (b : Bytes) (n : Nat) (h : n ≤ b.length) : resize b n = b.take n := by
  unfold resize; rw [if_pos h]

theorem setTail_resize (hdr : Nat) (b d : Bytes) : setTail hdr b d = setTail hdr (resize b hdr) d := by
  unfold setTail; rw [resize_idem]

theorem can_setData_prior (b d : Bytes) : canSetData b d = canSetData (resize b 16) d := by
  unfold canSetData; rw [setTail_resize]

theorem lin_setData_prior (b d : Bytes) : linSetData b d = linSetData (resize b 8) d := by
  unfold linSetData; rw [setTail_resize]

theorem eth_setData_prior (b d : Bytes) : ethSetData b d = ethSetData (resize b 6) d := by
  unfold ethSetData; rw [setTail_resize]

theorem analog_setData_prior (b d : Bytes) : analogSetData b d = analogSetData (resize b 16) d := by
  unfold analogSetData; rw [setTail_resize]

theorem cm_setData_prior (b s1 s2 s3 s4 v : Bytes) :
    cmSetData b s1 s2 s3 s4 v = cmSetData (resize b 26) s1 s2 s3 s4 v := by
  unfold cmSetData; rw [resize_idem]

theorem if_setData_prior (b ids v : Bytes) : ifSetData b ids v = ifSetData (resize b 36) ids v := by
  unfold ifSetData; rw [resize_idem]

/-- K10 at full strength ("The raw bytes depend only on the final logical content, not on what the object held before"),
    for prior objects of ANY length: two objects whose (zero-extended) header fields agree give the same bytes.
    The only hypothesis is equality of the header bytes the builder does not own. -/
theorem setData_canonical_any (b₁ b₂ : Bytes) :
    (∀ d, (resize b₁ 16).take 14 = (resize b₂ 16).take 14 → canSetData b₁ d = canSetData b₂ d) ∧
    (∀ d, (resize b₁ 8).take 7 = (resize b₂ 8).take 7 → linSetData b₁ d = linSetData b₂ d) ∧
    (∀ d, (resize b₁ 6).take 4 = (resize b₂ 6).take 4 → ethSetData b₁ d = ethSetData b₂ d) ∧
    (∀ d, resize b₁ 16 = resize b₂ 16 → analogSetData b₁ d = analogSetData b₂ d) ∧
    (∀ s1 s2 s3 s4 v, resize b₁ 26 = resize b₂ 26 → cmSetData b₁ s1 s2 s3 s4 v = cmSetData b₂ s1 s2 s3 s4 v) ∧
    (∀ ids v, resize b₁ 36 = resize b₂ 36 → ifSetData b₁ ids v = ifSetData b₂ ids v) := by
  refine ⟨?_, ?_, ?_, ?_, ?_, ?_⟩
  · intro d h
    rw [can_setData_prior b₁, can_setData_prior b₂]
    exact can_setData_canonical _ _ d (by simp) (by simp) h
  · intro d h
    rw [lin_setData_prior b₁, lin_setData_prior b₂]
    exact lin_setData_canonical _ _ d (by simp) (by simp) h
  · intro d h
    rw [eth_setData_prior b₁, eth_setData_prior b₂]
    exact eth_setData_canonical _ _ d (by simp) (by simp) h
  · intro d h
    rw [analog_setData_prior b₁, analog_setData_prior b₂, h]
  · intro s1 s2 s3 s4 v h
    rw [cm_setData_prior b₁, cm_setData_prior b₂, h]
  · intro ids v h
    rw [if_setData_prior b₁, if_setData_prior b₂, h]

/-- the registered per-class facts without the `hdr ≤ b.length` hypothesis: `b` of any length, header = `resize b hdr`.
    CAN / CAN-FD ("0..255 for CAN" is `hd`). -/
theorem can_setData_any (b d : Bytes) (hd : d.length < 256) :
    let o := canSetData b d
    let h := resize b 16
    o.length = 16 + d.length ∧ o.take 14 = h.take 14 ∧ byteAt o 14 = dlcOf d.length ∧ byteAt o 15 = d.length ∧
    o.drop 16 = d ∧ canAccess o = some [dataView "data" 16 d.length] ∧
    (beAt h 0 2 &&& 0x03FF = 0 → beAt h 12 2 = 0 →
      canValid o = true ∧ create tyCan o = ⟨tyCan, o⟩ ∧ create tyCanFd o = ⟨tyCanFd, o⟩) := by
  intro o h
  have hl : 16 ≤ (resize b 16).length := by simp
  have e : o = canSetData (resize b 16) d := can_setData_prior b d
  have f := can_setData (resize b 16) d hl hd
  dsimp only at f
  rw [← e] at f
  obtain ⟨f1, f2, f3, f4, f5, f6⟩ := f
  refine ⟨f1, f2, f3, f4, f5, f6, ?_⟩
  intro hf he
  have g := can_setData_valid (resize b 16) d hl hd hf he
  rw [← e] at g
  exact g

theorem lin_setData_any (b d : Bytes) (hd : d.length < 256) :
    let o := linSetData b d
    let h := resize b 8
    o.length = 8 + d.length ∧ o.take 7 = h.take 7 ∧ byteAt o 7 = d.length ∧ o.drop 8 = d ∧
    linAccess o = some [dataView "data" 8 d.length] ∧ linValid o = true ∧ create tyLin o = ⟨tyLin, o⟩ := by
  intro o h
  have e : o = linSetData (resize b 8) d := lin_setData_prior b d
  have f := lin_setData (resize b 8) d (by simp) hd
  dsimp only at f
  rw [← e] at f
  exact f

theorem eth_setData_any (b d : Bytes) (hd : d.length < 65536) :
    let o := ethSetData b d
    let h := resize b 6
    o.length = 6 + d.length ∧ o.take 4 = h.take 4 ∧ beAt o 4 2 = d.length ∧ o.drop 6 = d ∧
    ethAccess o = some [dataView "data" 6 d.length] ∧
    (beAt h 0 2 &&& 0x003B = 0 → ethValid o = true ∧ create tyEth o = ⟨tyEth, o⟩) := by
  intro o h
  have e : o = ethSetData (resize b 6) d := eth_setData_prior b d
  have f := eth_setData (resize b 6) d (by simp) hd
  dsimp only at f
  rw [← e] at f
  exact f

theorem analog_setData_any (b d : Bytes) :
    let o := analogSetData b d
    let h := resize b 16
    o = h ++ d ∧ o.length = 16 + d.length ∧ o.take 16 = h ∧ o.drop 16 = d ∧
    (byteAt h 1 &&& 3 ≤ 1 → analogValid o = true ∧ create tyAnalog o = ⟨tyAnalog, o⟩) := by
  intro o h
  have e : o = analogSetData (resize b 16) d := analog_setData_prior b d
  have f := analog_setData (resize b 16) d (by simp)
  dsimp only at f
  rw [← e] at f
  obtain ⟨f1, f2, f3, f4⟩ := f
  have ht : (resize b 16).take 16 = resize b 16 := List.take_of_length_le (by simp)
  rw [ht] at f2
  refine ⟨?_, f1, f2, f3, f4⟩
  rw [← List.take_append_drop 16 o, f2, f3]

theorem if_setData_any (b ids v : Bytes) (hi : ids.length < 65536) (hv : v.length < 65536) :
    let o := ifSetData b ids v
    let h := resize b 36
    let pad := ids.length % 2
    o.take 36 = h ∧ o.length = 36 + 2 + ids.length + pad + 2 + v.length ∧
    beAt o 36 2 = ids.length ∧ slice o 38 ids.length = ids ∧
    slice o (38 + ids.length) pad = zeros pad ∧
    beAt o (38 + ids.length + pad) 2 = v.length ∧ slice o (38 + ids.length + pad + 2) v.length = v ∧
    38 + ids.length + pad + 2 + v.length = o.length ∧
    ifAccess o = some [dataView "streamIds" 38 ids.length, dataView "vendorData" (38 + ids.length + pad + 2) v.length] ∧
    (byteAt h 29 ≤ 2 → ifValid o = true ∧ create tyIf o = ⟨tyIf, o⟩) := by
  intro o h pad
  have e : o = ifSetData (resize b 36) ids v := if_setData_prior b ids v
  have f := if_setData (resize b 36) ids v (by simp) hi hv
  dsimp only at f
  rw [← e] at f
  obtain ⟨f1, f2, f3, f4, f5, f6, f7, f8, f9⟩ := f
  have ht : (resize b 36).take 36 = resize b 36 := List.take_of_length_le (by simp)
  rw [ht] at f1
  exact ⟨f1, f2, f3, f4, f5, f6, f7, by omega, f8, f9⟩

/-! ## §B  analog getters  (finding 1)

  `analogAccess` is `AnalogPayload::getSamplesCount()` / `getData()`: sample width 2 iff the header's sample type (low two bits of
  byte 1) is 0 (`aInt16`), otherwise 4; count = (length − 16) / width; data pointer = offset 16, null when the count is 0. -/

/-- the getters on a payload built by `setData`, for every prior object and every data length: the samples view starts directly
    behind the 16-byte header, covers `⌊|d| / w⌋` whole samples, its bytes are the first bytes of the data supplied, and it is
    null exactly when no whole sample was supplied.  It covers ALL the bytes supplied iff `|d|` is a multiple of the sample width. -/
theorem analog_getters (b d : Bytes) :
    let o := analogSetData b d
    let w := if byteAt (resize b 16) 1 &&& 3 = 0 then 2 else 4
    analogAccess o = some [⟨"samples", if d.length / w = 0 then none else some 16, d.length / w * w⟩] ∧
    slice o 16 (d.length / w * w) = d.take (d.length / w * w) ∧
    (d.length / w * w = d.length ↔ d.length % w = 0) ∧
    (d.length % w = 0 → slice o 16 (d.length / w * w) = d) := by
  intro o w
  have e : o = analogSetData (resize b 16) d := analog_setData_prior b d
  have f := analog_setData (resize b 16) d (by simp)
  dsimp only at f
  rw [← e] at f
  obtain ⟨hlen, htake, hdrop, _⟩ := f
  have h1 : byteAt o 1 = byteAt (resize b 16) 1 := byteAt_of_take o _ 16 1 htake (by omega)
  have hs : slice o 16 (d.length / w * w) = d.take (d.length / w * w) := by
    unfold slice; rw [hdrop]
  have hiff : d.length / w * w = d.length ↔ d.length % w = 0 := by
    show d.length / (if byteAt (resize b 16) 1 &&& 3 = 0 then 2 else 4) *
        (if byteAt (resize b 16) 1 &&& 3 = 0 then 2 else 4) = d.length ↔
      d.length % (if byteAt (resize b 16) 1 &&& 3 = 0 then 2 else 4) = 0
    split <;> omega
  refine ⟨?_, hs, hiff, ?_⟩
  · have hsub : o.length - 16 = d.length := by omega
    simp only [analogAccess, C03.rd_ok o 0 16 (by omega), C03.rd_ok o 1 1 (by omega), C03.beAt_one, h1, hsub,
      bind, Option.bind, pure]
    rfl
  · intro hm
    rw [hs, hiff.mpr hm]
    exact List.take_of_length_le (Nat.le_refl _)

/-- the same with the two sample types spelled out ("lengths supplied": a 16-bit payload reports `2·⌊|d|/2⌋` bytes, a 32-bit
    one `4·⌊|d|/4⌋`) -/
theorem analog_getters_cases (b d : Bytes) :
    (byteAt (resize b 16) 1 &&& 3 = 0 →
      analogAccess (analogSetData b d) = some [⟨"samples", if d.length / 2 = 0 then none else some 16, d.length / 2 * 2⟩]) ∧
    (byteAt (resize b 16) 1 &&& 3 ≠ 0 →
      analogAccess (analogSetData b d) = some [⟨"samples", if d.length / 4 = 0 then none else some 16, d.length / 4 * 4⟩]) := by
  have h := (analog_getters b d).1
  try dsimp only at h
  constructor
  · intro h0; rw [if_pos h0] at h; exact h
  · intro h0; rw [if_neg h0] at h; exact h

/-- NEGATIVE (limit of "the getters return exactly the … lengths supplied" for analog): whenever the number of bytes supplied
    is not a multiple of the sample width, the getters report strictly fewer bytes than were supplied (the raw payload still
    holds all of them: `analog_setData`, `o.drop 16 = d`). -/
theorem analog_getter_drops_partial_sample (b d : Bytes) :
    let w := if byteAt (resize b 16) 1 &&& 3 = 0 then 2 else 4
    d.length % w ≠ 0 →
    ∃ off len, analogAccess (analogSetData b d) = some [⟨"samples", off, len⟩] ∧ len < d.length := by
  intro w hm
  refine ⟨_, _, (analog_getters b d).1, ?_⟩
  have hiff := (analog_getters b d).2.2.1
  try dsimp only at hiff
  have hle : d.length / w * w ≤ d.length := Nat.div_mul_le_self _ _
  have hne : d.length / w * w ≠ d.length := fun h => hm (hiff.mp h)
  exact Nat.lt_of_le_of_ne hle hne

/-! ## §C  capture-module status  (findings 2, 8) -/

/-- the length field of a string block, in closed form: text + NUL, rounded up to even -/
theorem cmLen_eq (s : Bytes) : cmLen s = if s.length % 2 = 1 then s.length + 1 else s.length + 2 := by
  unfold cmLen; split <;> omega

/-- even; at least one NUL, at most two -/
theorem cmLen_facts (s : Bytes) : cmLen s % 2 = 0 ∧ s.length + 1 ≤ cmLen s ∧ cmLen s ≤ s.length + 2 := by
  unfold cmLen; omega

theorem block_at_mod (pre post : Bytes) (n pos : Nat) (hpre : pre.length = pos) :
    cmBlock (pre ++ (beEnc 2 n ++ post)) pos = some (pos + 2, n % 65536, pos + 2 + n % 65536) := by
  have hlen : pos + 2 ≤ (pre ++ (beEnc 2 n ++ post)).length := by
    simp only [List.length_append, beEnc_length, hpre]; omega
  have hb : beAt (pre ++ (beEnc 2 n ++ post)) pos 2 = n % 65536 := beAt_at pre post pos 2 n hpre
  simp only [cmBlock, C03.rd_ok _ pos 2 hlen, hb, bind, Option.bind, pure]

theorem cm_len_at (pre s post : Bytes) (pos : Nat) (hpre : pre.length = pos) (hs : s.length + 2 < 65536) :
    beAt (pre ++ (cmString s ++ post)) pos 2 = cmLen s := by
  rw [cmString_eq, List.append_assoc]
  exact beAt2_at pre _ pos (cmLen s) hpre (by unfold cmLen; omega)

theorem cm_pad_at (pre s post : Bytes) (pos : Nat) (hpre : pre.length = pos) :
    slice (pre ++ (cmString s ++ post)) (pos + 2 + s.length) (cmLen s - s.length) = zeros (cmLen s - s.length) := by
  have e : pre ++ (cmString s ++ post) =
      (pre ++ beEnc 2 (cmLen s) ++ s) ++ (zeros (cmLen s - s.length) ++ post) := by
    rw [cmString_eq]; simp only [List.append_assoc]
  rw [e]
  exact slice_at _ _ _ _ _ (by simp only [List.length_append, beEnc_length, hpre]) (by simp [zeros])

theorem blocksOk_last (n : Nat) (v : Bytes) (h : n % 65536 ≤ v.length) : blocksOk 1 (beEnc 2 n ++ v) = true := by
  have h1 : (beEnc 2 n ++ v).take 2 = beEnc 2 n := List.take_left' (beEnc_length 2 n)
  have h2 : (beEnc 2 n ++ v).drop 2 = v := List.drop_left' (beEnc_length 2 n)
  have h3 : beDec (beEnc 2 n) = n % 65536 := beDec_beEnc 2 n
  simp only [blocksOk, h1, h2, h3, List.length_append, beEnc_length]
  rw [if_neg (by omega), if_neg (by omega)]

/-- (explicit positions; `cm_shape_facts` below names them) everything about a byte string of the capture-module shape: 26 header bytes, four string blocks, a length-prefixed tail `v`
    of ANY length (the prefix holds `|v| mod 65536`) -/
theorem cm_shape_facts_aux (P s1 s2 s3 s4 v o : Bytes) (hP : P.length = 26)
    (ho : o = P ++ (cmString s1 ++ (cmString s2 ++ (cmString s3 ++ (cmString s4 ++ (beEnc 2 v.length ++ v))))))
    (h1 : s1.length + 2 < 65536) (h2 : s2.length + 2 < 65536) (h3 : s3.length + 2 < 65536)
    (h4 : s4.length + 2 < 65536)
    (n1 : (0 : UInt8) ∉ s1) (n2 : (0 : UInt8) ∉ s2) (n3 : (0 : UInt8) ∉ s3) (n4 : (0 : UInt8) ∉ s4) :
    o.take 26 = P ∧ o.length = (26 + 2 + cmLen s1 + 2 + cmLen s2 + 2 + cmLen s3 + 2 + cmLen s4) + 2 + v.length ∧
    (beAt o 26 2 = cmLen s1 ∧ beAt o (26 + 2 + cmLen s1) 2 = cmLen s2 ∧ beAt o (26 + 2 + cmLen s1 + 2 + cmLen s2) 2 = cmLen s3 ∧ beAt o (26 + 2 + cmLen s1 + 2 + cmLen s2 + 2 + cmLen s3) 2 = cmLen s4 ∧
      beAt o (26 + 2 + cmLen s1 + 2 + cmLen s2 + 2 + cmLen s3 + 2 + cmLen s4) 2 = v.length % 65536) ∧
    (slice o (26 + 2) s1.length = s1 ∧ slice o ((26 + 2 + cmLen s1) + 2) s2.length = s2 ∧ slice o ((26 + 2 + cmLen s1 + 2 + cmLen s2) + 2) s3.length = s3 ∧
      slice o ((26 + 2 + cmLen s1 + 2 + cmLen s2 + 2 + cmLen s3) + 2) s4.length = s4 ∧ slice o ((26 + 2 + cmLen s1 + 2 + cmLen s2 + 2 + cmLen s3 + 2 + cmLen s4) + 2) v.length = v) ∧
    (slice o (26 + 2 + s1.length) (cmLen s1 - s1.length) = zeros (cmLen s1 - s1.length) ∧
      slice o ((26 + 2 + cmLen s1) + 2 + s2.length) (cmLen s2 - s2.length) = zeros (cmLen s2 - s2.length) ∧
      slice o ((26 + 2 + cmLen s1 + 2 + cmLen s2) + 2 + s3.length) (cmLen s3 - s3.length) = zeros (cmLen s3 - s3.length) ∧
      slice o ((26 + 2 + cmLen s1 + 2 + cmLen s2 + 2 + cmLen s3) + 2 + s4.length) (cmLen s4 - s4.length) = zeros (cmLen s4 - s4.length)) ∧
    cmAccess o = some [⟨"deviceDescription", some (26 + 2), s1.length⟩, ⟨"serialNumber", some ((26 + 2 + cmLen s1) + 2), s2.length⟩,
                       ⟨"hardwareVersion", some ((26 + 2 + cmLen s1 + 2 + cmLen s2) + 2), s3.length⟩, ⟨"softwareVersion", some ((26 + 2 + cmLen s1 + 2 + cmLen s2 + 2 + cmLen s3) + 2), s4.length⟩,
                       ⟨"vendorData", some ((26 + 2 + cmLen s1 + 2 + cmLen s2 + 2 + cmLen s3 + 2 + cmLen s4) + 2), v.length % 65536⟩] ∧
    cmValid o = true ∧ create tyCm o = ⟨tyCm, o⟩ := by
  have hlen : o.length = (26 + 2 + cmLen s1 + 2 + cmLen s2 + 2 + cmLen s3 + 2 + cmLen s4) + 2 + v.length := by
    rw [ho]; simp only [List.length_append, hP, cmString_length, beEnc_length]; omega
  have ho2 : o = (P ++ cmString s1) ++ (cmString s2 ++ (cmString s3 ++ (cmString s4 ++
      (beEnc 2 v.length ++ v)))) := by rw [ho]; simp only [List.append_assoc]
  have ho3 : o = (P ++ cmString s1 ++ cmString s2) ++ (cmString s3 ++ (cmString s4 ++
      (beEnc 2 v.length ++ v))) := by rw [ho]; simp only [List.append_assoc]
  have ho4 : o = (P ++ cmString s1 ++ cmString s2 ++ cmString s3) ++ (cmString s4 ++
      (beEnc 2 v.length ++ v)) := by rw [ho]; simp only [List.append_assoc]
  have ho5 : o = (P ++ cmString s1 ++ cmString s2 ++ cmString s3 ++ cmString s4) ++
      (beEnc 2 v.length ++ v) := by rw [ho]; simp only [List.append_assoc]
  have hP2 : (P ++ cmString s1).length = (26 + 2 + cmLen s1) := by
    simp only [List.length_append, hP, cmString_length]; omega
  have hP3 : (P ++ cmString s1 ++ cmString s2).length = (26 + 2 + cmLen s1 + 2 + cmLen s2) := by
    simp only [List.length_append, hP, cmString_length]; omega
  have hP4 : (P ++ cmString s1 ++ cmString s2 ++ cmString s3).length = (26 + 2 + cmLen s1 + 2 + cmLen s2 + 2 + cmLen s3) := by
    simp only [List.length_append, hP, cmString_length]; omega
  have hP5 : (P ++ cmString s1 ++ cmString s2 ++ cmString s3 ++ cmString s4).length = (26 + 2 + cmLen s1 + 2 + cmLen s2 + 2 + cmLen s3 + 2 + cmLen s4) := by
    simp only [List.length_append, hP, cmString_length]; omega
  have e1 : cmBlock o 26 = some (26 + 2, cmLen s1, (26 + 2 + cmLen s1)) := by
    rw [ho]; exact cm_block_at _ _ _ 26 hP h1
  have t1 : trimNul o (26 + 2) (cmLen s1) = some s1.length := by
    rw [ho]; exact cm_trim_at _ _ _ 26 hP n1
  have c1 : slice o (26 + 2) s1.length = s1 := by
    rw [ho]; exact cm_slice_at _ _ _ 26 hP
  have l1 : beAt o 26 2 = cmLen s1 := by rw [ho]; exact cm_len_at _ _ _ 26 hP h1
  have z1 : slice o (26 + 2 + s1.length) (cmLen s1 - s1.length) = zeros (cmLen s1 - s1.length) := by
    rw [ho]; exact cm_pad_at _ _ _ 26 hP
  have e2 : cmBlock o (26 + 2 + cmLen s1) = some ((26 + 2 + cmLen s1) + 2, cmLen s2, (26 + 2 + cmLen s1 + 2 + cmLen s2)) := by
    rw [ho2]; exact cm_block_at _ _ _ _ hP2 h2
  have t2 : trimNul o ((26 + 2 + cmLen s1) + 2) (cmLen s2) = some s2.length := by
    rw [ho2]; exact cm_trim_at _ _ _ _ hP2 n2
  have c2 : slice o ((26 + 2 + cmLen s1) + 2) s2.length = s2 := by
    rw [ho2]; exact cm_slice_at _ _ _ _ hP2
  have l2 : beAt o (26 + 2 + cmLen s1) 2 = cmLen s2 := by rw [ho2]; exact cm_len_at _ _ _ _ hP2 h2
  have z2 : slice o ((26 + 2 + cmLen s1) + 2 + s2.length) (cmLen s2 - s2.length) = zeros (cmLen s2 - s2.length) := by
    rw [ho2]; exact cm_pad_at _ _ _ _ hP2
  have e3 : cmBlock o (26 + 2 + cmLen s1 + 2 + cmLen s2) = some ((26 + 2 + cmLen s1 + 2 + cmLen s2) + 2, cmLen s3, (26 + 2 + cmLen s1 + 2 + cmLen s2 + 2 + cmLen s3)) := by
    rw [ho3]; exact cm_block_at _ _ _ _ hP3 h3
  have t3 : trimNul o ((26 + 2 + cmLen s1 + 2 + cmLen s2) + 2) (cmLen s3) = some s3.length := by
    rw [ho3]; exact cm_trim_at _ _ _ _ hP3 n3
  have c3 : slice o ((26 + 2 + cmLen s1 + 2 + cmLen s2) + 2) s3.length = s3 := by
    rw [ho3]; exact cm_slice_at _ _ _ _ hP3
  have l3 : beAt o (26 + 2 + cmLen s1 + 2 + cmLen s2) 2 = cmLen s3 := by rw [ho3]; exact cm_len_at _ _ _ _ hP3 h3
  have z3 : slice o ((26 + 2 + cmLen s1 + 2 + cmLen s2) + 2 + s3.length) (cmLen s3 - s3.length) = zeros (cmLen s3 - s3.length) := by
    rw [ho3]; exact cm_pad_at _ _ _ _ hP3
  have e4 : cmBlock o (26 + 2 + cmLen s1 + 2 + cmLen s2 + 2 + cmLen s3) = some ((26 + 2 + cmLen s1 + 2 + cmLen s2 + 2 + cmLen s3) + 2, cmLen s4, (26 + 2 + cmLen s1 + 2 + cmLen s2 + 2 + cmLen s3 + 2 + cmLen s4)) := by
    rw [ho4]; exact cm_block_at _ _ _ _ hP4 h4
  have t4 : trimNul o ((26 + 2 + cmLen s1 + 2 + cmLen s2 + 2 + cmLen s3) + 2) (cmLen s4) = some s4.length := by
    rw [ho4]; exact cm_trim_at _ _ _ _ hP4 n4
  have c4 : slice o ((26 + 2 + cmLen s1 + 2 + cmLen s2 + 2 + cmLen s3) + 2) s4.length = s4 := by
    rw [ho4]; exact cm_slice_at _ _ _ _ hP4
  have l4 : beAt o (26 + 2 + cmLen s1 + 2 + cmLen s2 + 2 + cmLen s3) 2 = cmLen s4 := by rw [ho4]; exact cm_len_at _ _ _ _ hP4 h4
  have z4 : slice o ((26 + 2 + cmLen s1 + 2 + cmLen s2 + 2 + cmLen s3) + 2 + s4.length) (cmLen s4 - s4.length) = zeros (cmLen s4 - s4.length) := by
    rw [ho4]; exact cm_pad_at _ _ _ _ hP4
  have e5 : cmBlock o (26 + 2 + cmLen s1 + 2 + cmLen s2 + 2 + cmLen s3 + 2 + cmLen s4) = some ((26 + 2 + cmLen s1 + 2 + cmLen s2 + 2 + cmLen s3 + 2 + cmLen s4) + 2, v.length % 65536, (26 + 2 + cmLen s1 + 2 + cmLen s2 + 2 + cmLen s3 + 2 + cmLen s4) + 2 + v.length % 65536) := by
    rw [ho5]; exact block_at_mod _ _ _ _ hP5
  have l5 : beAt o (26 + 2 + cmLen s1 + 2 + cmLen s2 + 2 + cmLen s3 + 2 + cmLen s4) 2 = v.length % 65536 := by
    rw [ho5]; exact beAt_at _ _ _ 2 _ hP5
  have c5 : slice o ((26 + 2 + cmLen s1 + 2 + cmLen s2 + 2 + cmLen s3 + 2 + cmLen s4) + 2) v.length = v := by
    have e : o = (P ++ cmString s1 ++ cmString s2 ++ cmString s3 ++ cmString s4 ++ beEnc 2 v.length) ++
        (v ++ []) := by rw [ho]; simp only [List.append_assoc, List.append_nil]
    rw [e]
    exact slice_at _ _ _ _ _ (by simp only [List.length_append, hP5, beEnc_length]) rfl
  have hvalid : cmValid o = true := by
    have hdrop : o.drop 26 = cmString s1 ++ (cmString s2 ++ (cmString s3 ++ (cmString s4 ++
        (beEnc 2 v.length ++ v)))) := by
      rw [ho]; exact List.drop_left' hP
    have hbl : blocksOk 5 (o.drop 26) = true := by
      rw [hdrop, cm_blocksOk 4 _ _ h1, cm_blocksOk 3 _ _ h2, cm_blocksOk 2 _ _ h3, cm_blocksOk 1 _ _ h4]
      exact blocksOk_last _ _ (Nat.mod_le _ _)
    simp only [cmValid, hbl, Bool.and_true, decide_eq_true_eq]
    omega
  refine ⟨by rw [ho]; exact List.take_left' hP, hlen, ⟨l1, l2, l3, l4, l5⟩, ⟨c1, c2, c3, c4, c5⟩, ⟨z1, z2, z3, z4⟩, ?_,
    hvalid, create_of_valid _ _ _ rfl hvalid⟩
  simp only [cmAccess, C03.rd_ok o 0 26 (by omega), bind, Option.bind, pure, e1, t1, e2, t2, e3, t3,
    e4, t4, e5]

/-- everything about a byte string of the capture-module shape: 26 header bytes, four string blocks, a length-prefixed tail `v`
    of ANY length (the prefix holds `|v| mod 65536`) -/
theorem cm_shape_facts (P s1 s2 s3 s4 v o : Bytes) (hP : P.length = 26)
    (ho : o = P ++ (cmString s1 ++ (cmString s2 ++ (cmString s3 ++ (cmString s4 ++ (beEnc 2 v.length ++ v))))))
    (h1 : s1.length + 2 < 65536) (h2 : s2.length + 2 < 65536) (h3 : s3.length + 2 < 65536)
    (h4 : s4.length + 2 < 65536)
    (n1 : (0 : UInt8) ∉ s1) (n2 : (0 : UInt8) ∉ s2) (n3 : (0 : UInt8) ∉ s3) (n4 : (0 : UInt8) ∉ s4) :
    let p1 := 26
    let p2 := p1 + 2 + cmLen s1
    let p3 := p2 + 2 + cmLen s2
    let p4 := p3 + 2 + cmLen s3
    let p5 := p4 + 2 + cmLen s4
    o.take 26 = P ∧ o.length = p5 + 2 + v.length ∧
    (beAt o p1 2 = cmLen s1 ∧ beAt o p2 2 = cmLen s2 ∧ beAt o p3 2 = cmLen s3 ∧ beAt o p4 2 = cmLen s4 ∧
      beAt o p5 2 = v.length % 65536) ∧
    (slice o (p1 + 2) s1.length = s1 ∧ slice o (p2 + 2) s2.length = s2 ∧ slice o (p3 + 2) s3.length = s3 ∧
      slice o (p4 + 2) s4.length = s4 ∧ slice o (p5 + 2) v.length = v) ∧
    (slice o (p1 + 2 + s1.length) (cmLen s1 - s1.length) = zeros (cmLen s1 - s1.length) ∧
      slice o (p2 + 2 + s2.length) (cmLen s2 - s2.length) = zeros (cmLen s2 - s2.length) ∧
      slice o (p3 + 2 + s3.length) (cmLen s3 - s3.length) = zeros (cmLen s3 - s3.length) ∧
      slice o (p4 + 2 + s4.length) (cmLen s4 - s4.length) = zeros (cmLen s4 - s4.length)) ∧
    cmAccess o = some [⟨"deviceDescription", some (p1 + 2), s1.length⟩, ⟨"serialNumber", some (p2 + 2), s2.length⟩,
                       ⟨"hardwareVersion", some (p3 + 2), s3.length⟩, ⟨"softwareVersion", some (p4 + 2), s4.length⟩,
                       ⟨"vendorData", some (p5 + 2), v.length % 65536⟩] ∧
    cmValid o = true ∧ create tyCm o = ⟨tyCm, o⟩ := by
  intro p1 p2 p3 p4 p5
  exact cm_shape_facts_aux P s1 s2 s3 s4 v o hP ho h1 h2 h3 h4 n1 n2 n3 n4

/-- the normal form of `CaptureModulePayload::setData`, for a prior object of any length -/
theorem cm_setData_normal_form (b s1 s2 s3 s4 v : Bytes) :
    cmSetData b s1 s2 s3 s4 v =
      resize b 26 ++ cmString s1 ++ cmString s2 ++ cmString s3 ++ cmString s4 ++ beEnc 2 v.length ++ v := by
  unfold cmSetData
  rw [List.take_of_length_le (by simp : (resize b 26).length ≤ 26)]

/-- K2 / K4 / K6 for the capture-module payload at full strength.  Hypotheses: "strings of length 0..~1000" (`h_i`, the
    16-bit length field), "without NUL" (`n_i`), vendor data that fits its 16-bit length field (`hv`); prior object `b` arbitrary.
    * the exact byte string (header, four blocks, vendor length, vendor data, NOTHING behind it) and its total length;
    * concrete offsets: first block at 26, every block directly behind the previous one, the vendor data ends the payload;
    * every string block: length prefix = `cmLen s` (even, text + 1 or 2), the text, then NULs only up to the end of the block;
    * the getters report exactly those offsets and the lengths supplied; validator and `create` accept. -/
theorem cm_setData_layout (b s1 s2 s3 s4 v : Bytes)
    (h1 : s1.length + 2 < 65536) (h2 : s2.length + 2 < 65536) (h3 : s3.length + 2 < 65536) (h4 : s4.length + 2 < 65536)
    (hv : v.length < 65536)
    (n1 : (0 : UInt8) ∉ s1) (n2 : (0 : UInt8) ∉ s2) (n3 : (0 : UInt8) ∉ s3) (n4 : (0 : UInt8) ∉ s4) :
    let o := cmSetData b s1 s2 s3 s4 v
    let p1 := 26
    let p2 := p1 + 2 + cmLen s1
    let p3 := p2 + 2 + cmLen s2
    let p4 := p3 + 2 + cmLen s3
    let p5 := p4 + 2 + cmLen s4
    o = resize b 26 ++ cmString s1 ++ cmString s2 ++ cmString s3 ++ cmString s4 ++ beEnc 2 v.length ++ v ∧
    o.take 26 = resize b 26 ∧ o.length = p5 + 2 + v.length ∧
    (beAt o p1 2 = cmLen s1 ∧ beAt o p2 2 = cmLen s2 ∧ beAt o p3 2 = cmLen s3 ∧ beAt o p4 2 = cmLen s4 ∧
      beAt o p5 2 = v.length) ∧
    (slice o (p1 + 2) s1.length = s1 ∧ slice o (p2 + 2) s2.length = s2 ∧ slice o (p3 + 2) s3.length = s3 ∧
      slice o (p4 + 2) s4.length = s4 ∧ slice o (p5 + 2) v.length = v) ∧
    (slice o (p1 + 2 + s1.length) (cmLen s1 - s1.length) = zeros (cmLen s1 - s1.length) ∧
      slice o (p2 + 2 + s2.length) (cmLen s2 - s2.length) = zeros (cmLen s2 - s2.length) ∧
      slice o (p3 + 2 + s3.length) (cmLen s3 - s3.length) = zeros (cmLen s3 - s3.length) ∧
      slice o (p4 + 2 + s4.length) (cmLen s4 - s4.length) = zeros (cmLen s4 - s4.length)) ∧
    cmAccess o = some [⟨"deviceDescription", some (p1 + 2), s1.length⟩, ⟨"serialNumber", some (p2 + 2), s2.length⟩,
                       ⟨"hardwareVersion", some (p3 + 2), s3.length⟩, ⟨"softwareVersion", some (p4 + 2), s4.length⟩,
                       ⟨"vendorData", some (p5 + 2), v.length⟩] ∧
    cmValid o = true ∧ create tyCm o = ⟨tyCm, o⟩ := by
  intro o p1 p2 p3 p4 p5
  have hnf : o = resize b 26 ++ cmString s1 ++ cmString s2 ++ cmString s3 ++ cmString s4 ++ beEnc 2 v.length ++ v :=
    cm_setData_normal_form b s1 s2 s3 s4 v
  have f := cm_shape_facts (resize b 26) s1 s2 s3 s4 v o (by simp)
    (by rw [hnf]; simp only [List.append_assoc]) h1 h2 h3 h4 n1 n2 n3 n4
  dsimp only at f
  rw [Nat.mod_eq_of_lt hv] at f
  exact ⟨hnf, f⟩

/-- NEGATIVE, finding 8 (`vendorData` is a `std::vector`, so the API type admits 65536 bytes and more): the model of
    `CaptureModulePayload::setData` (`static_cast<uint16_t>(vendorData.size())`, then `memcpy` of ALL the bytes) stores every
    byte supplied, but the length field and hence the `vendorData` getter report `|v| mod 65536` — NOT the length supplied —
    and the library's own validator and `create` still accept the payload. -/
theorem cm_vendor_length_wraps (b s1 s2 s3 s4 v : Bytes)
    (h1 : s1.length + 2 < 65536) (h2 : s2.length + 2 < 65536) (h3 : s3.length + 2 < 65536) (h4 : s4.length + 2 < 65536)
    (n1 : (0 : UInt8) ∉ s1) (n2 : (0 : UInt8) ∉ s2) (n3 : (0 : UInt8) ∉ s3) (n4 : (0 : UInt8) ∉ s4)
    (hv : 65536 ≤ v.length) :
    let o := cmSetData b s1 s2 s3 s4 v
    let p5 := 26 + 2 + cmLen s1 + 2 + cmLen s2 + 2 + cmLen s3 + 2 + cmLen s4
    o.length = p5 + 2 + v.length ∧ slice o (p5 + 2) v.length = v ∧
    beAt o p5 2 = v.length % 65536 ∧ v.length % 65536 ≠ v.length ∧
    (∃ w1 w2 w3 w4, cmAccess o = some [w1, w2, w3, w4, ⟨"vendorData", some (p5 + 2), v.length % 65536⟩]) ∧
    cmValid o = true ∧ create tyCm o = ⟨tyCm, o⟩ := by
  intro o p5
  have hnf : o = resize b 26 ++ cmString s1 ++ cmString s2 ++ cmString s3 ++ cmString s4 ++ beEnc 2 v.length ++ v :=
    cm_setData_normal_form b s1 s2 s3 s4 v
  have f := cm_shape_facts (resize b 26) s1 s2 s3 s4 v o (by simp)
    (by rw [hnf]; simp only [List.append_assoc]) h1 h2 h3 h4 n1 n2 n3 n4
  dsimp only at f
  obtain ⟨_, flen, ⟨_, _, _, _, l5⟩, ⟨_, _, _, _, c5⟩, _, facc, fv, fc⟩ := f
  have hlt : v.length % 65536 < 65536 := Nat.mod_lt _ (by decide)
  exact ⟨flen, c5, l5, by omega, ⟨_, _, _, _, facc⟩, fv, fc⟩

/-! ## §D  the CAN DLC code  (finding 3)

  ISO 11898-1: DLC code `c` (0..15) stands for `[0,1,2,3,4,5,6,7,8,12,16,20,24,32,48,64][c]` data bytes (`C13.dlcLen`,
  `C13.dlcLen_table`).  The registered `dlc_iso` pins `dlcOf` at these sixteen lengths only.  Here: `dlcOf` on EVERY length
  (`C13.dlc_covers`, `dlc_exact_iff`, `dlc_above_64` say the same with `dlcLen`). -/

/-- complete characterisation of `dlcOf` (hence, by `GenChecks.dlc_ok` / `encodeDlc_src`, of `CanPayloadBase::encodeDlc`):
    * the code is always in 0..15;
    * for a length that HAS an ISO code, the code decodes back to exactly that length, and it is the only such code;
    * for every length a CAN FD frame can carry (0..64, ISO or not) the code's data field covers the length and no smaller
      code's does — which determines the code: 9,10,11 ↦ 9 (12 bytes), 13..15 ↦ 10 (16 bytes), …, 49..63 ↦ 15 (64 bytes);
    * for everything above 64 the result is 15, the largest code. -/
theorem dlc_complete (n : Nat) :
    dlcOf n ≤ 15 ∧
    (n ∈ [0,1,2,3,4,5,6,7,8,12,16,20,24,32,48,64] → [0,1,2,3,4,5,6,7,8,12,16,20,24,32,48,64].getD (dlcOf n) 0 = n) ∧
    (∀ c, c ≤ 15 → [0,1,2,3,4,5,6,7,8,12,16,20,24,32,48,64].getD c 0 = n → dlcOf n = c) ∧
    (n ≤ 64 → n ≤ [0,1,2,3,4,5,6,7,8,12,16,20,24,32,48,64].getD (dlcOf n) 0 ∧ ∀ c, c < dlcOf n → [0,1,2,3,4,5,6,7,8,12,16,20,24,32,48,64].getD c 0 < n) ∧
    (64 < n → dlcOf n = 15) := by
  refine ⟨dlcOf_le n, ?_, ?_, ?_, dlc_above_64 n⟩
  · intro h
    simp only [List.mem_cons, List.not_mem_nil, or_false] at h
    rcases h with h | h | h | h | h | h | h | h | h | h | h | h | h | h | h | h <;> subst h <;> decide
  · intro c hc h
    have hc' : c = 0 ∨ c = 1 ∨ c = 2 ∨ c = 3 ∨ c = 4 ∨ c = 5 ∨ c = 6 ∨ c = 7 ∨ c = 8 ∨ c = 9 ∨ c = 10 ∨ c = 11 ∨
        c = 12 ∨ c = 13 ∨ c = 14 ∨ c = 15 := by omega
    rcases hc' with e | e | e | e | e | e | e | e | e | e | e | e | e | e | e | e <;> subst e <;> subst h <;> decide
  · intro h
    have hc := dlc_covers n h
    simp only [dlcLen_table] at hc
    exact hc

/-- the DLC code stands for the data length exactly when the length is one of the sixteen ISO lengths -/
theorem dlc_matches_iff (n : Nat) :
    [0,1,2,3,4,5,6,7,8,12,16,20,24,32,48,64].getD (dlcOf n) 0 = n ↔ n ∈ [0,1,2,3,4,5,6,7,8,12,16,20,24,32,48,64] := by
  constructor
  · intro h
    have hle := dlcOf_le n
    have hc' : dlcOf n = 0 ∨ dlcOf n = 1 ∨ dlcOf n = 2 ∨ dlcOf n = 3 ∨ dlcOf n = 4 ∨ dlcOf n = 5 ∨ dlcOf n = 6 ∨
        dlcOf n = 7 ∨ dlcOf n = 8 ∨ dlcOf n = 9 ∨ dlcOf n = 10 ∨ dlcOf n = 11 ∨ dlcOf n = 12 ∨ dlcOf n = 13 ∨
        dlcOf n = 14 ∨ dlcOf n = 15 := by omega
    rcases hc' with e | e | e | e | e | e | e | e | e | e | e | e | e | e | e | e <;> rw [e] at h <;> subst h <;> decide
  · exact (dlc_complete n).2.1

/-- the REAL `encodeDlc`, executed on all 256 arguments of its `uint8_t` parameter (reflected table `Generated.dlcTable`),
    entry by entry -/
theorem encodeDlc_table (n : Nat) (h : n < 256) : Generated.dlcTable[n]? = some (dlcOf n) := by
  rw [GenChecks.dlc_ok, List.getElem?_map, List.getElem?_range h]
  rfl

/-- K5 on a built CAN / CAN-FD payload, as an exact characterisation, for every prior object and every API length 0..255:
    the DLC byte decodes (ISO table) to the data-length byte — which is the number of bytes supplied — iff that number is an
    ISO length. -/
theorem can_dlc_matches_iff (b d : Bytes) (hd : d.length < 256) :
    let o := canSetData b d
    byteAt o 15 = d.length ∧
    ([0,1,2,3,4,5,6,7,8,12,16,20,24,32,48,64].getD (byteAt o 14) 0 = byteAt o 15 ↔
      d.length ∈ [0,1,2,3,4,5,6,7,8,12,16,20,24,32,48,64]) := by
  intro o
  obtain ⟨_, _, h14, h15, _⟩ := can_setData_any b d hd
  refine ⟨h15, ?_⟩
  rw [h14, h15]
  exact dlc_matches_iff d.length

/-- K5 ("the CAN DLC code match[es] the data length", quantified over "0..255 for CAN") on a built CAN / CAN-FD payload, for
    every prior object `b` of any length and every API length 0..255.  (Before the repair of `encodeDlc` this place held the
    NEGATIVE theorem `can_dlc_mismatch_accepted`: DLC 0 next to a non-zero data length for 240 of the 256 lengths.)
    The DLC byte is `dlcOf` of the number of bytes supplied and the data-length byte is that number; hence
    * the DLC byte is a 4-bit code, and it is 0 only for an empty data field;
    * for every length a CAN FD frame can carry (≤ 64) the data field the DLC byte announces COVERS the data-length byte, and no
      smaller code's data field does (the smallest sufficient CAN FD step);
    * the announced size EQUALS the data-length byte exactly for the sixteen ISO lengths;
    * above 64 the DLC byte is 15;
    and the library's own validator and `Packet::create` (CAN and CAN-FD) accept the result (header hypotheses as in the
    registered `can_setData_valid`: no error flags, no error position). -/
theorem can_dlc_covers_length (b d : Bytes) (hd : d.length < 256) :
    let o := canSetData b d
    byteAt o 14 = dlcOf d.length ∧ byteAt o 15 = d.length ∧ o.drop 16 = d ∧
    byteAt o 14 ≤ 15 ∧ (byteAt o 14 = 0 ↔ d.length = 0) ∧
    (d.length ≤ 64 → byteAt o 15 ≤ dlcLen (byteAt o 14) ∧ ∀ c, c < byteAt o 14 → dlcLen c < byteAt o 15) ∧
    (dlcLen (byteAt o 14) = byteAt o 15 ↔ d.length ∈ [0,1,2,3,4,5,6,7,8,12,16,20,24,32,48,64]) ∧
    (64 < d.length → byteAt o 14 = 15) ∧
    (beAt (resize b 16) 0 2 &&& 0x03FF = 0 → beAt (resize b 16) 12 2 = 0 →
      canValid o = true ∧ create tyCan o = ⟨tyCan, o⟩ ∧ create tyCanFd o = ⟨tyCanFd, o⟩) := by
  intro o
  obtain ⟨_, _, h14, h15, hdr, _, hv⟩ := can_setData_any b d hd
  rw [h14, h15]
  refine ⟨rfl, rfl, hdr, dlcOf_le _, dlc_zero_iff _, dlc_covers _, ?_, dlc_above_64 _, hv⟩
  rw [dlcLen_table]
  exact dlc_matches_iff d.length

/-! ## §E  built payloads through the message framing  (finding 4)

  "the library's own … decoder accept[s] the result", beyond `create`: the built payload, put behind a message header that
  declares its type and length and a frame header, is delivered by `decode` (any decoder history) as a packet holding exactly
  the typed payload.  The carrier hypotheses describe a well-formed frame with one unsegmented message (in-range field
  values, segment bits and error-in-payload bit clear) — they constrain the envelope, not the payload. -/

/-- in-range envelope: frame header fields and the message's timestamp / id word / common flags (unsegmented, no error bit) -/
def CarrierOk (ver dev stream seq ts idw flags : Nat) : Prop :=
  1 ≤ ver ∧ ver < 256 ∧ dev < 65536 ∧ stream < 256 ∧ seq < 65536 ∧ ts < 2 ^ 64 ∧ idw < 2 ^ 32 ∧ flags < 256 ∧
    flags &&& 0x4C = 0

/-- the bytes of a frame (message type `mt`) carrying one message with payload type `raw` and payload `o` -/
abbrev frameOf (ver dev mt stream seq ts idw flags raw : Nat) (o : Bytes) : Bytes :=
  C04.WFrame.bytes ⟨ver, 0, dev, mt, stream, seq, [⟨ts, idw, flags, raw, o⟩]⟩

theorem frameOf_bytes (ver dev mt stream seq ts idw flags raw : Nat) (o : Bytes) :
    frameOf ver dev mt stream seq ts idw flags raw o =
      [UInt8.ofNat ver, 0] ++ beEnc 2 dev ++ [UInt8.ofNat mt, UInt8.ofNat stream] ++ beEnc 2 seq ++
      (beEnc 8 ts ++ beEnc 4 idw ++ [UInt8.ofNat flags, UInt8.ofNat raw] ++ beEnc 2 o.length ++ o) := by
  simp [frameOf, C04.WFrame.bytes, C04.WMsg.bytes]

/-- any payload `create` accepts, of a length the 16-bit length field can hold, comes out of the decoder unchanged -/
theorem accepted_payload_decodes (ver dev mt stream seq ts idw flags raw : Nat) (o : Bytes) (st : DecState)
    (hc : CarrierOk ver dev stream seq ts idw flags) (hmt : mt < 256) (hraw : 1 ≤ raw ∧ raw < 256)
    (hlen : o.length < 65536) (hcr : create (mt * 256 + raw) o = ⟨mt * 256 + raw, o⟩) :
    (decode st (some (frameOf ver dev mt stream seq ts idw flags raw o))).2 =
      [{ payload := some ⟨mt * 256 + raw, o⟩, version := ver, deviceId := dev, streamId := stream, seq := 0, ts := ts,
         ifId := if mt = 1 then idw else 0, vendorId := if mt = 3 ∨ mt = 0xFF then idw % 65536 else 0,
         flags := flags, segType := 0 }] := by
  obtain ⟨c1, c2, c3, c4, c5, c6, c7, c8, c9⟩ := hc
  have h := C04.C04_wire ⟨ver, 0, dev, mt, stream, seq, [⟨ts, idw, flags, raw, o⟩]⟩
    ⟨c1, c2, (by decide : (0 : Nat) < 256), c3, hmt, c4, c5, by
      intro m hm
      simp only [List.mem_singleton] at hm
      subst hm
      exact ⟨c6, c7, c8, c9, hraw.1, hraw.2, hlen⟩⟩ st
  rw [h]
  simp only [List.map_cons, List.map_nil, C04.specPacket, hcr]

/-- … and at message level: `Packet::isValidPacket` accepts the message bytes and `Packet(msgType, data, size)` holds
    exactly the typed payload, whatever follows the message in the buffer -/
theorem accepted_payload_in_message (mt ts idw flags raw : Nat) (o rest : Bytes)
    (h6 : ts < 2 ^ 64) (h7 : idw < 2 ^ 32) (h8 : flags < 256) (h9 : flags &&& 0x4C = 0) (hraw : 1 ≤ raw ∧ raw < 256)
    (hlen : o.length < 65536) (hcr : create (mt * 256 + raw) o = ⟨mt * 256 + raw, o⟩) :
    let m := beEnc 8 ts ++ beEnc 4 idw ++ [UInt8.ofNat flags, UInt8.ofNat raw] ++ beEnc 2 o.length ++ o
    msgValid (m ++ rest) = true ∧ (Packet.ofMsg mt (m ++ rest)).payload = some ⟨mt * 256 + raw, o⟩ ∧
    (Packet.ofMsg mt (m ++ rest)).payloadLength = o.length := by
  intro m
  let V : C04.MsgView C04.WMsg :=
    ⟨C04.WMsg.bytes, C04.WMsg.ts, C04.WMsg.idw, C04.WMsg.flags, C04.WMsg.ptype, C04.WMsg.body, fun _ => rfl⟩
  have hwf : V.WF ⟨ts, idw, flags, raw, o⟩ := ⟨h6, h7, h8, h9, hraw.1, hraw.2, hlen⟩
  have hv := C04.msg_valid V ⟨ts, idw, flags, raw, o⟩ rest hwf
  have hl := C04.msg_len V ⟨ts, idw, flags, raw, o⟩ rest hwf
  have hp := C04.msg_ptype V ⟨ts, idw, flags, raw, o⟩ rest hwf
  have hb := C04.msg_body V ⟨ts, idw, flags, raw, o⟩ rest
  have hpl : (Packet.ofMsg mt (m ++ rest)).payload = some ⟨mt * 256 + raw, o⟩ := by
    show some (create (mt * 256 + byteAt (m ++ rest) 13) (slice (m ++ rest) 16 (beAt (m ++ rest) 14 2))) = _
    have e1 : byteAt (m ++ rest) 13 = raw := hp
    have e2 : beAt (m ++ rest) 14 2 = o.length := hl
    have e3 : slice (m ++ rest) 16 o.length = o := hb
    rw [e1, e2, e3, hcr]
  refine ⟨hv, hpl, ?_⟩
  unfold Packet.payloadLength
  rw [hpl]
  exact Nat.mod_eq_of_lt hlen

/-- K9 for each payload class: what `setData` built, for EVERY prior object `b` and every data the message can carry, is
    delivered by the decoder as the typed payload.  Hypotheses: the class's API length range ("0..255 for CAN/LIN"; for
    Ethernet / analog what fits a message: header + data < 65536, i.e. the property's "0..65529" for Ethernet), and the header
    conditions the library's validators impose (as in the registered theorems; all hold for default-constructed objects). -/
theorem built_payloads_decode (ver dev stream seq ts idw flags : Nat) (st : DecState)
    (hc : CarrierOk ver dev stream seq ts idw flags) (b : Bytes) :
    (∀ d, d.length < 256 → beAt (resize b 16) 0 2 &&& 0x03FF = 0 → beAt (resize b 16) 12 2 = 0 →
      (decode st (some (frameOf ver dev 1 stream seq ts idw flags 1 (canSetData b d)))).2 =
        [{ payload := some ⟨tyCan, canSetData b d⟩, version := ver, deviceId := dev, streamId := stream, ts := ts,
           ifId := idw, flags := flags }] ∧
      (decode st (some (frameOf ver dev 1 stream seq ts idw flags 2 (canSetData b d)))).2 =
        [{ payload := some ⟨tyCanFd, canSetData b d⟩, version := ver, deviceId := dev, streamId := stream, ts := ts,
           ifId := idw, flags := flags }]) ∧
    (∀ d, d.length < 256 →
      (decode st (some (frameOf ver dev 1 stream seq ts idw flags 3 (linSetData b d)))).2 =
        [{ payload := some ⟨tyLin, linSetData b d⟩, version := ver, deviceId := dev, streamId := stream, ts := ts,
           ifId := idw, flags := flags }]) ∧
    (∀ d, 16 + d.length < 65536 → byteAt (resize b 16) 1 &&& 3 ≤ 1 →
      (decode st (some (frameOf ver dev 1 stream seq ts idw flags 7 (analogSetData b d)))).2 =
        [{ payload := some ⟨tyAnalog, analogSetData b d⟩, version := ver, deviceId := dev, streamId := stream, ts := ts,
           ifId := idw, flags := flags }]) ∧
    (∀ d, d.length ≤ 65529 → beAt (resize b 6) 0 2 &&& 0x003B = 0 →
      (decode st (some (frameOf ver dev 1 stream seq ts idw flags 8 (ethSetData b d)))).2 =
        [{ payload := some ⟨tyEth, ethSetData b d⟩, version := ver, deviceId := dev, streamId := stream, ts := ts,
           ifId := idw, flags := flags }]) ∧
    (∀ s1 s2 s3 s4 v, s1.length + 2 < 65536 → s2.length + 2 < 65536 → s3.length + 2 < 65536 → s4.length + 2 < 65536 →
      (0 : UInt8) ∉ s1 → (0 : UInt8) ∉ s2 → (0 : UInt8) ∉ s3 → (0 : UInt8) ∉ s4 →
      (cmSetData b s1 s2 s3 s4 v).length < 65536 →
      (decode st (some (frameOf ver dev 3 stream seq ts idw flags 1 (cmSetData b s1 s2 s3 s4 v)))).2 =
        [{ payload := some ⟨tyCm, cmSetData b s1 s2 s3 s4 v⟩, version := ver, deviceId := dev, streamId := stream,
           ts := ts, vendorId := idw % 65536, flags := flags }]) ∧
    (∀ ids v, (ifSetData b ids v).length < 65536 → byteAt (resize b 36) 29 ≤ 2 →
      (decode st (some (frameOf ver dev 3 stream seq ts idw flags 2 (ifSetData b ids v)))).2 =
        [{ payload := some ⟨tyIf, ifSetData b ids v⟩, version := ver, deviceId := dev, streamId := stream,
           ts := ts, vendorId := idw % 65536, flags := flags }]) := by
  refine ⟨?_, ?_, ?_, ?_, ?_, ?_⟩
  · intro d hd hf he
    obtain ⟨hl, _, _, _, _, _, hv⟩ := can_setData_any b d hd
    obtain ⟨_, v2, v3⟩ := hv hf he
    exact ⟨accepted_payload_decodes ver dev 1 stream seq ts idw flags 1 _ st hc (by omega) (by omega) (by omega) v2,
      accepted_payload_decodes ver dev 1 stream seq ts idw flags 2 _ st hc (by omega) (by omega) (by omega) v3⟩
  · intro d hd
    obtain ⟨hl, _, _, _, _, _, v⟩ := lin_setData_any b d hd
    exact accepted_payload_decodes ver dev 1 stream seq ts idw flags 3 _ st hc (by omega) (by omega) (by omega) v
  · intro d hd hdt
    have e : analogSetData b d = analogSetData (resize b 16) d := analog_setData_prior b d
    obtain ⟨hl, _, _, hv⟩ := analog_setData (resize b 16) d (by simp)
    rw [← e] at hl hv
    exact accepted_payload_decodes ver dev 1 stream seq ts idw flags 7 _ st hc (by omega) (by omega) (by omega)
      (hv hdt).2
  · intro d hd hf
    obtain ⟨hl, _, _, _, _, hv⟩ := eth_setData_any b d (by omega)
    exact accepted_payload_decodes ver dev 1 stream seq ts idw flags 8 _ st hc (by omega) (by omega) (by omega)
      (hv hf).2
  · intro s1 s2 s3 s4 v h1 h2 h3 h4 n1 n2 n3 n4 hl
    have hnf := cm_setData_normal_form b s1 s2 s3 s4 v
    have f := cm_shape_facts (resize b 26) s1 s2 s3 s4 v (cmSetData b s1 s2 s3 s4 v) (by simp)
      (by rw [hnf]; simp only [List.append_assoc]) h1 h2 h3 h4 n1 n2 n3 n4
    exact accepted_payload_decodes ver dev 3 stream seq ts idw flags 1 _ st hc (by omega) (by omega) hl
      f.2.2.2.2.2.2.2
  · intro ids v hl h29
    have e : ifSetData b ids v = ifSetData (resize b 36) ids v := if_setData_prior b ids v
    have hlen : (ifSetData b ids v).length = 36 + 2 + ids.length + ids.length % 2 + 2 + v.length := by
      simp [ifSetData, zeros]; omega
    obtain ⟨_, _, _, _, _, _, _, _, _, hv⟩ := if_setData_any b ids v (by omega) (by omega)
    exact accepted_payload_decodes ver dev 3 stream seq ts idw flags 2 _ st hc (by omega) (by omega) hl
      (hv h29).2

/-- the residual the review names: `create` accepts an Ethernet payload of 65530..65535 data bytes, but such a payload does
    not fit the 16-bit payload-length field — the packet reports a length different from the payload's size (outside the
    property's "0..65529", stated so that "create accepts" is not mistaken for "can be carried") -/
theorem eth_overlong_not_carried (b d : Bytes) (h1 : 65530 ≤ d.length) (h2 : d.length < 65536) :
    (Packet.payloadLength { payload := some ⟨tyEth, ethSetData b d⟩ }) = d.length - 65530 ∧
    (Packet.payloadLength { payload := some ⟨tyEth, ethSetData b d⟩ }) ≠ (ethSetData b d).length := by
  obtain ⟨hl, _⟩ := eth_setData_any b d h2
  simp only [Packet.payloadLength, hl]
  omega

/-! ## §F  source level: `TECMP::LinPayload::setData`, and `CaptureModulePayload::setData` on oversized vendor data
      (findings 5, 8) -/

section src
open AsamCmp.Src AsamCmp.SrcGen AsamCmp.SrcTie
set_option linter.unusedSimpArgs false

/-- `TECMP::LinPayload::setData` ("any payload class"; the same `Payload::setData<Header>` template with a 2-byte header, then
    `setDataLength`), translated from the source on every run: for EVERY prior content `m` of the object and every length of
    its `uint8_t` parameter, the result is: the PID byte kept (zero if the object was empty), the length byte = the number
    of bytes supplied, the data — nothing else, nothing stale. -/
theorem tecmp_lin_setData_src (m x : Bytes) (this n : Nat) (hn : n ≤ x.length) (h8 : n < 256) :
    TECMP_LinPayload_setData m this x n = some ((resize m 2).take 1 ++ [UInt8.ofNat n] ++ x.take n) := by
  have hl : (x.take n).length = n := by simp only [List.length_take]; omega
  simp only [TECMP_LinPayload_setData, TECMP_LinPayload_Header_setDataLength, swapEndian_u8, bind, pure]
  refine bind_of_eq (payload_setData_spec _ 2 (fun _ _ _ _ => rfl) m this x n hn (by omega)) ?_
  bld_calls [hl]
  rw [setTail_resize, C13.writeAt_setTail 2 1 (resize m 2) (x.take n) [UInt8.ofNat n] (by simp) rfl]
  rfl

/-- the C13 clauses for the TECMP LIN payload, read off the result: total length, PID preserved, length byte = data length,
    data stored exactly, canonical (independent of everything in `m` but the PID byte) -/
theorem tecmp_lin_setData_facts (m x : Bytes) (this n : Nat) (hn : n ≤ x.length) (h8 : n < 256) :
    ∃ o, TECMP_LinPayload_setData m this x n = some o ∧
      o.length = 2 + n ∧ byteAt o 0 = byteAt m 0 ∧ byteAt o 1 = n ∧ o.drop 2 = x.take n ∧
      (∀ m', byteAt m' 0 = byteAt m 0 → TECMP_LinPayload_setData m' this x n = some o) := by
  have hl : (x.take n).length = n := by simp only [List.length_take]; omega
  have h1 : ∀ m : Bytes, ((resize m 2).take 1).length = 1 := by intro m; simp
  have hp : ∀ m : Bytes, (resize m 2).take 1 = [UInt8.ofNat (byteAt m 0)] := by
    intro m
    unfold resize byteAt
    match m with
    | [] => rfl
    | [a] => simp
    | a :: b :: r => simp
  refine ⟨_, tecmp_lin_setData_src m x this n hn h8, ?_, ?_, ?_, ?_, ?_⟩
  · simp only [List.length_append, h1, hl, List.length_singleton]
  · rw [hp]; simp [byteAt]
  · rw [List.append_assoc, List.singleton_append, byteAt_at _ _ _ 1 (h1 m)]
    simp; omega
  · exact List.drop_left' (by simp only [List.length_append, h1, List.length_singleton])
  · intro m' hm
    rw [tecmp_lin_setData_src m' x this n hn h8, hp m', hp m, hm]

theorem beEnc2_mod (n : Nat) : beEnc 2 (n % 65536) = beEnc 2 n := by
  have e1 : n % 65536 / 256 % 256 = n / 256 % 256 := by omega
  have e2 : n % 65536 % 256 = n % 256 := by omega
  simp only [beEnc, e1, e2]

/-- the registered `cm_setData_src` assumes `v.length < 65536`.  Without it: the translated `CaptureModulePayload::setData`
    equals the model also for vendor data of 65536 bytes and more — so `cm_vendor_length_wraps` (§C) is a statement about the
    C++ source, not an artefact of the model. -/
theorem cm_setData_src_any (m d s hw sw v : Bytes) (this : Nat)
    (hd : d.length < 65534) (hs : s.length < 65534) (hh : hw.length < 65534) (hw' : sw.length < 65534)
    (hv : v.length < 2 ^ 63) :
    CaptureModulePayload_setData m this d s hw sw v = some (cmSetData m d s hw sw v) := by
  simp only [CaptureModulePayload_setData, cmSetData, bind, pure]
  bld_norm [fillWithString_spec, psub_zero]
  simp (disch := len_omega) only [resize_writeAt, take_resize, beEnc2_mod]

end src

/-! ## §G  evaluated examples  (finding 9): the hypotheses are satisfiable, the conclusions compute to the written values -/

/-- §A: an EMPTY prior object (shorter than the header): missing header bytes are zero, data and length/DLC bytes as usual -/
example : canSetData [] [0xAA, 0xBB, 0xCC] = [0,0,0,0, 0,0,0,0, 0,0,0,0, 0,0, 3, 3, 0xAA, 0xBB, 0xCC] := by decide
/-- §A: a 3-byte prior object: its bytes are kept as header bytes 0..2 -/
example : linSetData [1, 2, 3] [9] = [1,2,3,0,0,0,0, 1, 9] := by decide
/-- §A: hypotheses of `setData_canonical_any` on objects of different lengths (one shorter than the header) -/
example : (resize [0x30, 0] 16).take 14 = (resize ([0x30] ++ zeros 40) 16).take 14 := by decide
example : canSetData [0x30, 0] [7] = canSetData ([0x30] ++ zeros 13 ++ [0xFF, 0xFF, 1, 2, 3, 4, 5]) [7] := by decide

/-- §B: odd number of bytes on a 16-bit analog payload: 5 bytes supplied, the getters report 2 samples = 4 bytes -/
example : analogAccess (analogSetData analogDefault [1,2,3,4,5]) = some [⟨"samples", some 16, 4⟩] := by decide
/-- §B: 32-bit samples (sample type 1), 7 bytes supplied on an object that held 12: 1 sample = 4 bytes -/
example : analogAccess (analogSetData (analogSetData ([0, 1] ++ zeros 14) (zeros 12)) [1,2,3,4,5,6,7]) =
    some [⟨"samples", some 16, 4⟩] := by decide
/-- §B: fewer bytes than one sample: null data pointer, length 0 -/
example : analogAccess (analogSetData analogDefault [1]) = some [⟨"samples", none, 0⟩] := by decide
/-- §B: the hypothesis of `analog_getter_drops_partial_sample` -/
example : [1,2,3,4,5].length % (if byteAt (resize analogDefault 16) 1 &&& 3 = 0 then 2 else 4) ≠ 0 := by decide

/-- §C: capture-module re-set with SHORTER strings on an object that held longer ones (finding 9): nothing stale, exact bytes.
    "ab" → length 4 = text + 2 NULs; "" → length 2; "xyz" → length 4 = text + 1 NUL; vendor data [7,8,9] ends the payload. -/
example :
    (cmSetData (cmSetData cmDefault [65,66,67,68,69,70,71] [72,73,74,75] [76,77,78,79,80] [81,82,83,84,85,86] [1,2,3,4,5,6,7,8,9])
      [97, 98] [] [120, 121, 122] [113] [7, 8, 9]).drop 26 =
    [0,4, 97,98,0,0,   0,2, 0,0,   0,4, 120,121,122,0,   0,2, 113,0,   0,3, 7,8,9] := by decide
example :
    cmAccess (cmSetData (cmSetData cmDefault [65,66,67,68,69,70,71] [72,73,74,75] [76,77,78,79,80] [81,82,83,84,85,86] [1,2,3,4,5,6,7,8,9])
      [97, 98] [] [120, 121, 122] [113] [7, 8, 9]) =
    some [⟨"deviceDescription", some 28, 2⟩, ⟨"serialNumber", some 34, 0⟩, ⟨"hardwareVersion", some 38, 3⟩,
          ⟨"softwareVersion", some 44, 1⟩, ⟨"vendorData", some 48, 3⟩] := by decide
example : cmLen [97, 98] = 4 ∧ cmLen [] = 2 ∧ cmLen [120, 121, 122] = 4 := by decide
/-- §C: the hypothesis of `cm_vendor_length_wraps` is satisfiable: 65536 vendor bytes; the getter then reports length 0 -/
example : 65536 ≤ (List.replicate 65536 (7 : UInt8)).length ∧ (List.replicate 65536 (7 : UInt8)).length % 65536 = 0 := by
  simp only [List.length_replicate]; decide
example :
    ∃ w1 w2 w3 w4 off, cmAccess (cmSetData cmDefault [] [] [] [] (List.replicate 65536 7)) =
      some [w1, w2, w3, w4, ⟨"vendorData", some off, 0⟩] ∧
      (cmSetData cmDefault [] [] [] [] (List.replicate 65536 7)).length = 44 + 65536 := by
  have h := cm_vendor_length_wraps cmDefault [] [] [] [] (List.replicate 65536 7) (by decide) (by decide) (by decide)
    (by decide) (by simp) (by simp) (by simp) (by simp) (by simp only [List.length_replicate]; decide)
  simp only [List.length_replicate] at h
  obtain ⟨hl, _, _, _, ⟨w1, w2, w3, w4, ha⟩, _⟩ := h
  exact ⟨w1, w2, w3, w4, _, ha, hl.trans (by decide)⟩

/-- §D: lengths without an ISO code: 9 bytes on a CAN-FD object → DLC byte 9 (a 12-byte data field), length byte 9, accepted by
    the library; 13 bytes → DLC byte 10 -/
example : (canSetData canDefault [1,2,3,4,5,6,7,8,9]).drop 14 = [9, 9, 1,2,3,4,5,6,7,8,9] ∧
    create tyCanFd (canSetData canDefault [1,2,3,4,5,6,7,8,9]) = ⟨tyCanFd, canSetData canDefault [1,2,3,4,5,6,7,8,9]⟩ := by
  decide
example : (canSetData canDefault [1,2,3,4,5,6,7,8,9,10,11,12,13]).drop 14 = [10, 13, 1,2,3,4,5,6,7,8,9,10,11,12,13] := by decide
example : dlcOf 9 = 9 ∧ dlcOf 13 = 10 ∧ dlcOf 63 = 15 ∧ dlcOf 64 = 15 ∧ dlcOf 65 = 15 ∧ dlcOf 200 = 15 ∧ dlcOf 255 = 15 ∧
    dlcOf 300 = 15 := by decide
example : dlcLen (dlcOf 9) = 12 ∧ dlcLen (dlcOf 13) = 16 ∧ dlcLen (dlcOf 64) = 64 ∧ dlcLen (dlcOf 65) = 64 ∧
    dlcLen (dlcOf 200) = 64 := by decide
example : (List.range 256).map dlcOf =
    [0,1,2,3,4,5,6,7,8] ++ List.replicate 4 9 ++ List.replicate 4 10 ++ List.replicate 4 11 ++ List.replicate 4 12 ++
      List.replicate 8 13 ++ List.replicate 16 14 ++ List.replicate 207 15 := by decide +kernel
example : (9 : Nat) ∉ [0,1,2,3,4,5,6,7,8,12,16,20,24,32,48,64] := by decide

/-- finding 9: CAN-FD with the allowed flags BRS and ESI (bits 12, 13 of the flags word) set satisfies the hypotheses of
    `can_setData_valid` / `can_setData_any`, and the built payload is accepted -/
example : beAt (resize ([0x30, 0x00] ++ zeros 14) 16) 0 2 &&& 0x03FF = 0 ∧ beAt (resize ([0x30, 0x00] ++ zeros 14) 16) 12 2 = 0 := by
  decide
example : canValid (canSetData ([0x30, 0x00] ++ zeros 14) [1,2,3,4,5,6,7,8,9,10,11,12]) = true ∧
    (canSetData ([0x30, 0x00] ++ zeros 14) [1,2,3,4,5,6,7,8,9,10,11,12]).take 16 = [0x30,0,0,0, 0,0,0,0, 0,0,0,0, 0,0, 9, 12] := by
  decide

/-- §E: the carrier hypotheses are satisfiable, and a concrete frame decodes to the built LIN payload -/
example : CarrierOk 1 0x1234 5 77 1000 3 0 := by unfold CarrierOk; decide
example : frameOf 1 0x1234 1 5 77 1000 3 0 3 (linSetData linDefault [0xAB]) =
    [1,0, 0x12,0x34, 1, 5, 0,77,   0,0,0,0,0,0,3,0xE8,  0,0,0,3,  0, 3,  0,9,   0,0,0,0,0,0,0,1, 0xAB] := by decide
example : (decode DecState.empty (some (frameOf 1 0x1234 1 5 77 1000 3 0 3 (linSetData linDefault [0xAB])))).2 =
    [{ payload := some ⟨tyLin, [0,0,0,0,0,0,0,1,0xAB]⟩, version := 1, deviceId := 0x1234, streamId := 5, ts := 1000,
       ifId := 3, flags := 0 }] :=
  (built_payloads_decode 1 0x1234 5 77 1000 3 0 DecState.empty (by unfold CarrierOk; decide) linDefault).2.1 [0xAB] (by decide)

end AsamCmp.C13S
